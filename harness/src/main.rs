// Correspondence harness: runs add-determinism's handlers in-process on cases read from a file.
//
// Input line:   <id> <handler> <epoch|-> <check:0|1> <nlink:1|2> <hex content | ->
// Output line:  <id> <class> <hex content after the run | ->
// class: Noop Replaced Rewritten BadFormat Error Panic InitFail
//
// The scratch directory is given as argv[2]; every case gets a fresh file f.<ext>.
use std::fs;
use std::io::{BufRead, BufReader, Write};
use std::panic;
use std::path::{Path, PathBuf};
use std::rc::Rc;

use add_determinism::config;
use add_determinism::handlers;

fn unhex(s: &str) -> Vec<u8> {
    if s == "-" {
        return vec![];
    }
    let b = s.as_bytes();
    let mut out = Vec::with_capacity(b.len() / 2);
    let v = |c: u8| -> u8 {
        match c {
            b'0'..=b'9' => c - b'0',
            b'a'..=b'f' => c - b'a' + 10,
            b'A'..=b'F' => c - b'A' + 10,
            _ => panic!("bad hex"),
        }
    };
    let mut i = 0;
    while i + 1 < b.len() {
        out.push(v(b[i]) * 16 + v(b[i + 1]));
        i += 2;
    }
    out
}

fn hex(b: &[u8]) -> String {
    if b.is_empty() {
        return "-".to_string();
    }
    const H: &[u8] = b"0123456789abcdef";
    let mut s = String::with_capacity(b.len() * 2);
    for x in b {
        s.push(H[(x >> 4) as usize] as char);
        s.push(H[(x & 15) as usize] as char);
    }
    s
}

fn ext_of(handler: &str) -> &'static str {
    match handler {
        "ar" => "a",
        "gzip" => "gz",
        "javadoc" => "html",
        "pyc" | "pyc-zero-mtime" => "pyc",
        "zip" => "zip",
        "jar" => "jar",
        _ => "bin",
    }
}

fn run_case(scratch: &Path, handler: &str, epoch: Option<i64>, check: bool, nlink: u32, data: &[u8], mtime: Option<i64>) -> (String, Vec<u8>) {
    let dir = scratch.join("case");
    let _ = fs::remove_dir_all(&dir);
    fs::create_dir_all(&dir).unwrap();
    let path: PathBuf = dir.join(format!("f.{}", ext_of(handler)));
    fs::write(&path, data).unwrap();
    if nlink > 1 {
        fs::hard_link(&path, dir.join("other-link")).unwrap();
    }
    if let Some(mt) = mtime {
        let f = fs::File::options().write(true).open(&path).unwrap();
        let t = std::time::UNIX_EPOCH + std::time::Duration::from_secs(mt as u64);
        f.set_modified(t).unwrap();
    }

    let mut cfg = config::Config::empty(epoch.unwrap_or(0), check);
    cfg.source_date_epoch = epoch;
    let cfg = Rc::new(cfg);

    let func = handlers::HANDLERS.iter().find(|(n, _, _)| *n == handler).map(|(_, _, f)| *f);
    let func = match func {
        Some(f) => f,
        None => return ("NoSuchHandler".to_string(), data.to_vec()),
    };

    let p2 = path.clone();
    let res = panic::catch_unwind(panic::AssertUnwindSafe(move || {
        let mut h = func(&cfg);
        if h.initialize().is_err() {
            return "InitFail".to_string();
        }
        let r = h.process(&p2);
        let pr = handlers::ProcessResult::convert_and_warn(&p2, r);
        format!("{:?}", pr)
    }));
    let class = match res {
        Ok(s) => s,
        Err(_) => "Panic".to_string(),
    };
    let after = fs::read(&path).unwrap_or_default();
    // leftover temp files are reported in the class
    let mut extra = String::new();
    if let Ok(rd) = fs::read_dir(&dir) {
        for e in rd.flatten() {
            let n = e.file_name().to_string_lossy().to_string();
            if n.starts_with(".#.") {
                extra = "+tmp".to_string();
            }
        }
    }
    (class + &extra, after)
}

fn main() {
    let args: Vec<String> = std::env::args().collect();
    if args.len() < 3 {
        eprintln!("usage: adh <cases-file> <scratch-dir>");
        std::process::exit(2);
    }
    panic::set_hook(Box::new(|_| {}));
    let scratch = PathBuf::from(&args[2]);
    fs::create_dir_all(&scratch).unwrap();
    let f = fs::File::open(&args[1]).unwrap();
    let out = std::io::stdout();
    let mut out = std::io::BufWriter::new(out.lock());
    for line in BufReader::new(f).lines() {
        let line = line.unwrap();
        let t: Vec<&str> = line.split_whitespace().collect();
        if t.len() < 6 {
            continue;
        }
        let id = t[0];
        let handler = t[1];
        let epoch = if t[2] == "-" { None } else { Some(t[2].parse::<i64>().unwrap()) };
        let check = t[3] == "1";
        let nlink: u32 = t[4].parse().unwrap();
        let data = unhex(t[5]);
        let mtime = if t.len() > 6 && t[6] != "-" { Some(t[6].parse::<i64>().unwrap()) } else { None };
        // announce the case before running it so that an abort (stack overflow, panic=abort) is attributable
        writeln!(out, "BEGIN {}", id).unwrap();
        out.flush().unwrap();
        let (class, after) = run_case(&scratch, handler, epoch, check, nlink, &data, mtime);
        writeln!(out, "{} {} {}", id, class, hex(&after)).unwrap();
        out.flush().unwrap();
    }
}
