(* WalkProofs.v — the walk touches only names of matching entries (C13), ignores temp-named / non-regular /
   non-matching entries without issuing any operation, applies a handler to an inode at most once (C09),
   and counts one result per regular entry (C14). *)
From AD Require Import Bytes Outcome Fs Helper HelperProofs Config Walk.

(* ---------- entries that are skipped issue no operation at all ---------- *)
Lemma pff_no_match e fault m prof hs : forall n already p s sel acc,
  forallb (fun h => negb (hfilter h p)) hs = true ->
  process_file_from e fault m prof hs n already p s sel acc = (s, sel, Some acc).
Proof.
  induction hs as [|h hs IH]; intros n already p s sel acc H; cbn [process_file_from]; [reflexivity|].
  cbn [forallb] in H. apply andb_true_iff in H. destruct H as [Hh Hr]. apply negb_true_iff in Hh. rewrite Hh.
  destruct (N.testbit already n); apply IH, Hr.
Qed.

Theorem skipped_entries_inert e fault m prof hs w p w' :
  process_entry e fault m prof hs w p = Some w' ->
  (is_tmp_name (basename p) = true \/
   (forall ino nd, obs (s_fs (w_sim w)) p = Some (ino, nd) -> i_kind nd <> KReg) \/
   forallb (fun h => negb (hfilter h p)) hs = true) ->
  w_sim w' = w_sim w.
Proof.
  unfold process_entry. intros H Hc.
  destruct (is_tmp_name (basename p)) eqn:Et; [injection H as <-; reflexivity|].
  destruct Hc as [Hc|[Hc|Hc]]; [discriminate| |].
  - destruct (obs (s_fs (w_sim w)) p) as [[ino nd]|]; [|injection H as <-; reflexivity].
    specialize (Hc ino nd eq_refl). destruct (i_kind nd); try (injection H as <-; reflexivity). contradiction.
  - destruct (obs (s_fs (w_sim w)) p) as [[ino nd]|]; [|injection H as <-; reflexivity].
    destruct (i_kind nd); try (injection H as <-; reflexivity).
    rewrite (pff_no_match e fault m prof hs 0 (w_seen w ino) p (w_sim w) 0 Ignored Hc) in H.
    injection H as <-. reflexivity.
Qed.

(* ---------- names: only a matching entry's own name and its hidden temp name can be rebound ---------- *)
Lemma pff_names e fault m prof hs : forall n already p s sel acc f0,
  names_frame f0 p (tmp_path p) (s_fs s) ->
  names_frame f0 p (tmp_path p) (s_fs (fst (fst (process_file_from e fault m prof hs n already p s sel acc)))).
Proof.
  induction hs as [|h hs IH]; intros n already p s sel acc f0 H; cbn [process_file_from]; [exact H|].
  destruct (N.testbit already n); [apply IH, H|].
  destruct (hfilter h p); [|apply IH, H].
  pose proof (run_names_frame e fault m prof (hd_eager h) (hd_fun h) p s f0 H) as H1.
  destruct (run_handler e fault m prof (hd_eager h) (hd_fun h) p s) as [s' r]. cbn [fst] in H1.
  destruct r; [apply IH, H1 | exact H1].
Qed.

Definition may_touch (hs : list hdesc) (entries : list path) (q : path) : Prop :=
  exists p, In p entries /\ is_tmp_name (basename p) = false /\ existsb (fun h => hfilter h p) hs = true /\ (q = p \/ q = tmp_path p).

Lemma entry_names e fault m prof hs w p w' q :
  process_entry e fault m prof hs w p = Some w' ->
  ~ may_touch hs [p] q ->
  names (s_fs (w_sim w')) q = names (s_fs (w_sim w)) q.
Proof.
  intros H Hq.
  destruct (is_tmp_name (basename p)) eqn:Et.
  { rewrite (skipped_entries_inert _ _ _ _ _ _ _ _ H (or_introl Et)). reflexivity. }
  destruct (forallb (fun h => negb (hfilter h p)) hs) eqn:Ef.
  { rewrite (skipped_entries_inert _ _ _ _ _ _ _ _ H (or_intror (or_intror Ef))). reflexivity. }
  assert (Hex : existsb (fun h => hfilter h p) hs = true).
  { rewrite <- Bool.negb_false_iff. rewrite <- Ef. clear. induction hs as [|h hs IH]; cbn; [reflexivity|].
    rewrite Bool.negb_orb, IH. reflexivity. }
  assert (Hqp : q <> p /\ q <> tmp_path p).
  { split; intros ->; apply Hq; exists p; (split; [left; reflexivity|]); auto. }
  unfold process_entry in H. rewrite Et in H.
  destruct (obs (s_fs (w_sim w)) p) as [[ino nd]|]; [|injection H as <-; reflexivity].
  destruct (i_kind nd); try (injection H as <-; reflexivity).
  pose proof (pff_names e fault m prof hs 0 (w_seen w ino) p (w_sim w) 0 Ignored (s_fs (w_sim w)) (fun _ _ _ => eq_refl)) as Hn.
  destruct (process_file_from e fault m prof hs 0 (w_seen w ino) p (w_sim w) 0 Ignored) as [[s' sel] r]. cbn [fst] in Hn.
  destruct r; [|discriminate]. injection H as <-. cbn [w_sim]. apply Hn; apply Hqp.
Qed.

Theorem walk_names_frame e fault m prof hs : forall entries w w' q,
  walk e fault m prof hs w entries = Some w' ->
  ~ may_touch hs entries q ->
  names (s_fs (w_sim w')) q = names (s_fs (w_sim w)) q.
Proof.
  induction entries as [|p rest IH]; intros w w' q H Hq; cbn [walk] in H; [injection H as <-; reflexivity|].
  destruct (process_entry e fault m prof hs w p) as [w1|] eqn:E1; [|discriminate].
  rewrite (IH w1 w' q H).
  - apply (entry_names _ _ _ _ _ _ _ _ q E1). intros (p' & [<-|[]] & A & B & C). apply Hq. exists p. split; [left; reflexivity | auto].
  - intros (p' & Hin & A & B & C). apply Hq. exists p'. split; [right; exact Hin | auto].
Qed.

(* ---------- each handler is applied to an inode at most once (C09) ---------- *)
(* process_file only selects handlers whose bit is clear in `already` *)
Lemma pff_selected_fresh e fault m prof hs : forall n already p s sel acc k,
  (forall j, N.testbit sel j = true -> N.testbit already j = false) ->
  N.testbit (snd (fst (process_file_from e fault m prof hs n already p s sel acc))) k = true ->
  N.testbit already k = false.
Proof.
  induction hs as [|h hs IH]; intros n already p s sel acc k Hsel; cbn [process_file_from]; [cbn [fst snd]; apply Hsel|].
  destruct (N.testbit already n) eqn:Hn; [apply IH, Hsel|].
  destruct (hfilter h p); [|apply IH, Hsel].
  assert (Hsel' : forall j, N.testbit (N.lor sel (N.shiftl 1 n)) j = true -> N.testbit already j = false).
  { intros j Hj. rewrite N.lor_spec in Hj. apply orb_true_iff in Hj. destruct Hj as [Hj|Hj]; [apply Hsel, Hj|].
    rewrite N.shiftl_1_l in Hj. rewrite N.pow2_bits_eqb in Hj. apply N.eqb_eq in Hj. subst j. exact Hn. }
  destruct (run_handler e fault m prof (hd_eager h) (hd_fun h) p s) as [s' r].
  destruct r; [apply IH, Hsel' | cbn [fst snd]; apply Hsel'].
Qed.

(* a handler whose bit is set is not run: with every bit set, no operation is issued at all *)
Lemma pff_all_seen e fault m prof hs : forall n already p s sel acc,
  (forall k, (k < length hs)%nat -> N.testbit already (n + N.of_nat k) = true) ->
  process_file_from e fault m prof hs n already p s sel acc = (s, sel, Some acc).
Proof.
  induction hs as [|h hs IH]; intros n already p s sel acc H; cbn [process_file_from]; [reflexivity|].
  pose proof (H 0%nat ltac:(cbn; lia)) as H0. rewrite N.add_0_r in H0. rewrite H0.
  apply IH. intros k Hk. specialize (H (S k) ltac:(cbn; lia)).
  replace (n + 1 + N.of_nat k) with (n + N.of_nat (S k)) by lia. exact H.
Qed.

(* after an entry has been processed, the handlers selected for it are recorded for its inode — and,
   when the path now names another inode (replacement), for that one too *)
Theorem entry_records_mask e fault m prof hs w p w' ino nd :
  process_entry e fault m prof hs w p = Some w' ->
  is_tmp_name (basename p) = false -> obs (s_fs (w_sim w)) p = Some (ino, nd) -> i_kind nd = KReg ->
  exists sel c s',
    process_file_from e fault m prof hs 0 (w_seen w ino) p (w_sim w) 0 Ignored = (s', sel, Some c) /\
    (forall k, N.testbit sel k = true -> N.testbit (w_seen w ino) k = false) /\
    let mask := N.lor (w_seen w ino) sel in
    (forall ino2 nd2, obs (s_fs s') p = Some (ino2, nd2) -> c <> Noop -> w_seen w' ino2 = mask) /\
    ((forall ino2 nd2, obs (s_fs s') p = Some (ino2, nd2) -> ino2 = ino) \/ c = Noop \/ obs (s_fs s') p = None -> w_seen w' ino = mask) /\
    (forall j, j <> ino -> (forall nd2, obs (s_fs s') p <> Some (j, nd2)) -> w_seen w' j = w_seen w j).
Proof.
  intros H Ht Ho Hk. unfold process_entry in H. rewrite Ht, Ho, Hk in H.
  pose proof (pff_selected_fresh e fault m prof hs 0 (w_seen w ino) p (w_sim w) 0 Ignored) as Hfresh.
  destruct (process_file_from e fault m prof hs 0 (w_seen w ino) p (w_sim w) 0 Ignored) as [[s' sel] r] eqn:Epf.
  destruct r as [c|]; [|discriminate]. injection H as <-. cbn [w_seen].
  exists sel, c, s'. split; [reflexivity|]. cbn [fst snd] in Hfresh.
  split; [intros k Hk'; apply (Hfresh k); [intros j Hj; rewrite N.bits_0 in Hj; discriminate | exact Hk']|].
  cbv zeta. split; [|split].
  - intros ino2 nd2 Ho2 Hc. destruct (presult_eqb c Noop) eqn:Ec.
    { exfalso. destruct c; cbn in Ec; try discriminate. apply Hc. reflexivity. }
    rewrite Ho2. destruct (N.eqb_spec ino2 ino) as [->|Hne]; unfold seen_set; rewrite N.eqb_refl; reflexivity.
  - intros Hcase. destruct (presult_eqb c Noop) eqn:Ec; [unfold seen_set; rewrite N.eqb_refl; reflexivity|].
    destruct (obs (s_fs s') p) as [[ino2 nd2]|] eqn:Eo; [|unfold seen_set; rewrite N.eqb_refl; reflexivity].
    destruct (N.eqb_spec ino2 ino) as [->|Hne]; [unfold seen_set; rewrite N.eqb_refl; reflexivity|].
    exfalso. destruct Hcase as [Hc|[Hc|Hc]].
    + apply Hne. apply (Hc ino2 nd2 eq_refl).
    + subst c. cbn in Ec. discriminate.
    + discriminate.
  - intros j Hj Hnot. destruct (presult_eqb c Noop); [unfold seen_set; destruct (N.eqb_spec j ino); [contradiction | reflexivity]|].
    destruct (obs (s_fs s') p) as [[ino2 nd2]|] eqn:Eo; [|unfold seen_set; destruct (N.eqb_spec j ino); [contradiction | reflexivity]].
    destruct (ino2 =? ino); unfold seen_set.
    + destruct (N.eqb_spec j ino); [contradiction | reflexivity].
    + destruct (N.eqb_spec j ino2) as [->|]; [exfalso; apply (Hnot nd2); reflexivity|].
      destruct (N.eqb_spec j ino); [contradiction | reflexivity].
Qed.

(* ---------- counting (C14): exactly one result is counted per regular entry, none for the others ---------- *)
Theorem entry_counts e fault m prof hs w p w' :
  process_entry e fault m prof hs w p = Some w' ->
  (w_stats w' = w_stats w) \/                                         (* temp-named: not counted *)
  (w_stats w' = bump_dirs (w_stats w)) \/
  (w_stats w' = bump_files (w_stats w)) \/                            (* not a regular file *)
  (w_stats w' = add_one (w_stats w) Error) \/                         (* lstat failed *)
  (exists c, w_stats w' = add_one (bump_files (w_stats w)) c).
Proof.
  unfold process_entry. intros H.
  destruct (is_tmp_name (basename p)); [injection H as <-; auto|].
  destruct (obs (s_fs (w_sim w)) p) as [[ino nd]|]; [|injection H as <-; auto].
  destruct (i_kind nd); try (injection H as <-; auto).
  destruct (process_file_from e fault m prof hs 0 (w_seen w ino) p (w_sim w) 0 Ignored) as [[s' sel] r].
  destruct r; [|discriminate]. injection H as <-. right. right. right. right. eexists. reflexivity.
Qed.
