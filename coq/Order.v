(* Order.v — C15 (pyc part): the writer keeps its bookkeeping in hash maps whose iteration order changes from
   process to process.  Model of PycWriter::add_ref_flags / fix_refs with the iteration order as a parameter:
   whatever the order, the same flags are set, the same numbers assigned and the same buffer produced. *)
From AD Require Import Bytes.
From Coq Require Import Permutation.
Local Arguments firstn : simpl never.
Local Arguments skipn : simpl never.

(* an entry of `seen`: (offset of the object in the output, number of references to it) *)
Definition entry := (nat * nat)%type.

(* keys.sort_by_key(offset) *)
Fixpoint insert (e : entry) (l : list entry) : list entry :=
  match l with
  | [] => [e]
  | c :: r => if (fst e <=? fst c)%nat then e :: c :: r else c :: insert e r
  end.
Definition sort_by_offset (l : list entry) : list entry := fold_right insert [] l.

(* the loop of add_ref_flags: entries with count > 0 get consecutive numbers in offset order *)
Fixpoint number (l : list entry) (n : nat) : list (nat * nat) :=      (* (offset, flag number) *)
  match l with
  | [] => []
  | (off, cnt) :: r => if (0 <? cnt)%nat then (off, n) :: number r (S n) else number r n
  end.
Definition add_ref_flags (iteration_order : list entry) : list (nat * nat) := number (sort_by_offset iteration_order) 0.

Lemma insert_comm a b l : fst a <> fst b -> insert a (insert b l) = insert b (insert a l).
Proof.
  intros Hab. induction l as [|c r IH]; cbn [insert].
  - destruct (Nat.leb_spec (fst a) (fst b)), (Nat.leb_spec (fst b) (fst a)); try reflexivity; lia.
  - destruct (Nat.leb_spec (fst b) (fst c)) as [Hb|Hb], (Nat.leb_spec (fst a) (fst c)) as [Ha|Ha]; cbn [insert].
    + destruct (Nat.leb_spec (fst a) (fst b)), (Nat.leb_spec (fst b) (fst a)); try lia;
        repeat match goal with |- context [(?x <=? ?y)%nat] => destruct (Nat.leb_spec x y); try lia end; reflexivity.
    + repeat match goal with |- context [(?x <=? ?y)%nat] => destruct (Nat.leb_spec x y); try lia end; reflexivity.
    + repeat match goal with |- context [(?x <=? ?y)%nat] => destruct (Nat.leb_spec x y); try lia end; reflexivity.
    + repeat match goal with |- context [(?x <=? ?y)%nat] => destruct (Nat.leb_spec x y); try lia end. rewrite IH. reflexivity.
Qed.

Lemma sort_perm l l' : Permutation l l' -> NoDup (map fst l) -> sort_by_offset l = sort_by_offset l'.
Proof.
  induction 1 as [|x l l' Hp IH|x y l|l l' l'' H1 IH1 H2 IH2]; intros Hnd.
  - reflexivity.
  - cbn [sort_by_offset fold_right]. fold (sort_by_offset l) (sort_by_offset l'). rewrite IH; [reflexivity|].
    cbn [map] in Hnd. inversion Hnd; assumption.
  - cbn [sort_by_offset fold_right]. apply insert_comm.
    cbn [map] in Hnd. inversion Hnd as [|? ? Hin _]. intros E. apply Hin. left. symmetry. exact E.
  - rewrite IH1 by exact Hnd. apply IH2.
    apply (Permutation_NoDup (l := map fst l)); [apply Permutation_map; exact H1 | exact Hnd].
Qed.

(* any two iteration orders of the same set of entries (distinct offsets: one object per position) give the
   same flags and the same numbers *)
Theorem add_ref_flags_order_independent l l' :
  Permutation l l' -> NoDup (map fst l) -> add_ref_flags l = add_ref_flags l'.
Proof. intros Hp Hn. unfold add_ref_flags. rewrite (sort_perm l l' Hp Hn). reflexivity. Qed.

(* fix_refs: each pending reference overwrites the 4 bytes after its own 'r'; the patches touch pairwise
   disjoint ranges, so the order in which the map yields them does not matter *)
Definition patch (buf : bytes) (p : nat * bytes) : bytes := splice (fst p) (snd p) buf.
Definition fix_refs (iteration_order : list (nat * bytes)) (buf : bytes) : bytes := fold_left patch iteration_order buf.

Definition disjoint (p q : nat * bytes) : Prop := (fst p + length (snd p) <= fst q \/ fst q + length (snd q) <= fst p)%nat.
Definition in_range (buf : bytes) (p : nat * bytes) : Prop := (fst p + length (snd p) <= length buf)%nat.

Lemma splice_nth lo new (x : bytes) i d : (lo + length new <= length x)%nat ->
  nth i (splice lo new x) d = if ((lo <=? i) && (i <? lo + length new))%nat then nth (i - lo) new d else nth i x d.
Proof.
  intros Hr. unfold splice.
  destruct (Nat.leb_spec lo i) as [H1|H1]; cbn [andb].
  - destruct (Nat.ltb_spec i (lo + length new)) as [H2|H2].
    + rewrite app_nth2 by (rewrite firstn_length; lia). rewrite firstn_length, Nat.min_l by lia.
      rewrite app_nth1 by lia. reflexivity.
    + rewrite app_nth2 by (rewrite firstn_length; lia). rewrite firstn_length, Nat.min_l by lia.
      rewrite app_nth2 by lia.
      rewrite <- (firstn_skipn (lo + length new) x) at 2.
      rewrite app_nth2 by (rewrite firstn_length; lia). rewrite firstn_length, Nat.min_l by lia.
      f_equal. lia.
  - rewrite app_nth1 by (rewrite firstn_length; lia).
    rewrite <- (firstn_skipn lo x) at 2. rewrite app_nth1 by (rewrite firstn_length; lia). reflexivity.
Qed.

Lemma patch_comm buf p q : in_range buf p -> in_range buf q -> disjoint p q -> patch (patch buf p) q = patch (patch buf q) p.
Proof.
  unfold in_range, disjoint, patch. intros Hp Hq Hd.
  assert (L1 : length (splice (fst p) (snd p) buf) = length buf) by (apply splice_length; lia).
  assert (L2 : length (splice (fst q) (snd q) buf) = length buf) by (apply splice_length; lia).
  apply (nth_ext _ _ 0 0).
  - rewrite !splice_length; lia.
  - intros i _. rewrite !splice_nth by lia.
    destruct (Nat.leb_spec (fst q) i), (Nat.ltb_spec i (fst q + length (snd q))), (Nat.leb_spec (fst p) i), (Nat.ltb_spec i (fst p + length (snd p)));
      cbn [andb]; try reflexivity; lia.
Qed.

Lemma patch_length buf p : in_range buf p -> length (patch buf p) = length buf.
Proof. unfold in_range, patch. intros H. apply splice_length. lia. Qed.

Inductive pairwise_disjoint : list (nat * bytes) -> Prop :=
| pd_nil : pairwise_disjoint []
| pd_cons p l : Forall (disjoint p) l -> pairwise_disjoint l -> pairwise_disjoint (p :: l).

Lemma fix_refs_length l : forall buf, Forall (in_range buf) l -> length (fix_refs l buf) = length buf.
Proof.
  induction l as [|p l IH]; intros buf H; [reflexivity|]. cbn [fix_refs fold_left]. inversion H as [|? ? Hp Hl]; subst.
  fold (fix_refs l (patch buf p)). rewrite IH.
  - apply patch_length, Hp.
  - eapply Forall_impl; [|exact Hl]. intros q Hq. unfold in_range in *. rewrite patch_length by exact Hp. exact Hq.
Qed.

Theorem fix_refs_order_independent l l' : Permutation l l' ->
  forall buf, Forall (in_range buf) l -> pairwise_disjoint l -> fix_refs l buf = fix_refs l' buf.
Proof.
  induction 1 as [|x l l' Hp IH|x y l|l l' l'' H1 IH1 H2 IH2]; intros buf Hr Hd.
  - reflexivity.
  - cbn [fix_refs fold_left]. inversion Hr as [|? ? Hx Hl]; subst. inversion Hd as [|? ? Hf Hd']; subst.
    apply IH; [|exact Hd'].
    eapply Forall_impl; [|exact Hl]. intros q Hq. unfold in_range in *. rewrite patch_length by exact Hx. exact Hq.
  - cbn [fix_refs fold_left]. f_equal.
    inversion Hr as [|? ? Hy Hr']; subst. inversion Hr' as [|? ? Hx _]; subst.
    inversion Hd as [|? ? Hf _]; subst. inversion Hf as [|? ? Hyx _]; subst.
    apply patch_comm; assumption.
  - rewrite (IH1 buf Hr Hd). apply IH2.
    + apply (Permutation_Forall H1). exact Hr.
    + clear - H1 Hd. induction H1 as [|x l l' Hp IH|x y l|l l' l'' H1 IH1 H2 IH2].
      * constructor.
      * inversion Hd; subst. constructor; [eapply Permutation_Forall; eassumption | apply IH; assumption].
      * inversion Hd as [|? ? Hf Hd']; subst. inversion Hd' as [|? ? Hf' Hd'']; subst. inversion Hf as [|? ? Hyx Hfl]; subst.
        constructor; [constructor; [|assumption] | constructor; assumption].
        unfold disjoint in *. lia.
      * auto.
Qed.
