(* JavadocDoc.v — C07 (javadoc): a second pass over a whole rewritten document changes nothing. *)
From AD Require Import Bytes Outcome Gen Date Walk Javadoc JavadocProofs JavadocVariants StripIdem JavadocDate JavadocIdem.
Local Arguments firstn : simpl never.
Local Arguments skipn : simpl never.

(* ---------- a value that parses as a date contains no '<' ---------- *)
Lemma trim_split : forall f l, exists ws, l = ws ++ trim_start_ws f l /\ ~ In 60 ws.
Proof.
  induction f as [|f IH]; intros l; [exists []; split; [reflexivity | intros []]|].
  cbn [trim_start_ws]. destruct l as [|b r]; [exists []; split; [reflexivity | intros []]|].
  assert (Hself : exists ws, b :: r = ws ++ b :: r /\ ~ In 60 ws) by (exists []; split; [reflexivity | intros []]).
  destruct (((9 <=? b) && (b <=? 13)) || (b =? 32)) eqn:E1.
  { destruct (IH r) as (ws & E & H). exists (b :: ws). split; [cbn [app]; rewrite <- E; reflexivity|].
    intros [Hb|Hb]; [|exact (H Hb)]. subst b. discriminate E1. }
  destruct (N.eqb_spec b 194) as [->|_].
  { destruct r as [|b1 r1]; [exact Hself|]. destruct ((b1 =? 133) || (b1 =? 160)) eqn:E2; [|exact Hself].
    destruct (IH r1) as (ws & E & H). exists (194 :: b1 :: ws). split; [cbn [app]; rewrite <- E; reflexivity|].
    intros [Hb|[Hb|Hb]]; [discriminate Hb | subst b1; discriminate E2 | exact (H Hb)]. }
  destruct (N.eqb_spec b 225) as [->|_].
  { destruct r as [|b1 [|b2 r1]]; try exact Hself. destruct ((b1 =? 154) && (b2 =? 128)) eqn:E2; [|exact Hself].
    destruct (IH r1) as (ws & E & H). exists (225 :: b1 :: b2 :: ws). split; [cbn [app]; rewrite <- E; reflexivity|].
    apply andb_prop in E2. destruct E2 as [A B]. apply N.eqb_eq in A, B. subst.
    intros [Hb|[Hb|[Hb|Hb]]]; [discriminate Hb | discriminate Hb | discriminate Hb | exact (H Hb)]. }
  destruct (N.eqb_spec b 226) as [->|_].
  { destruct r as [|b1 [|b2 r1]]; try exact Hself.
    destruct ((b1 =? 128) && (((128 <=? b2) && (b2 <=? 138)) || (b2 =? 168) || (b2 =? 169) || (b2 =? 175))) eqn:E2.
    - destruct (IH r1) as (ws & E & H). exists (226 :: b1 :: b2 :: ws). split; [cbn [app]; rewrite <- E; reflexivity|].
      intros [Hb|[Hb|[Hb|Hb]]]; [discriminate Hb | subst b1; discriminate E2 | subst b2; rewrite andb_false_r in E2; discriminate E2 | exact (H Hb)].
    - destruct ((b1 =? 129) && (b2 =? 159)) eqn:E3; [|exact Hself].
      destruct (IH r1) as (ws & E & H). exists (226 :: b1 :: b2 :: ws). split; [cbn [app]; rewrite <- E; reflexivity|].
      apply andb_prop in E3. destruct E3 as [A B]. apply N.eqb_eq in A, B. subst.
      intros [Hb|[Hb|[Hb|Hb]]]; [discriminate Hb | discriminate Hb | discriminate Hb | exact (H Hb)]. }
  destruct (N.eqb_spec b 227) as [->|_]; [|exact Hself].
  destruct r as [|b1 [|b2 r1]]; try exact Hself. destruct ((b1 =? 128) && (b2 =? 128)) eqn:E2; [|exact Hself].
  destruct (IH r1) as (ws & E & H). exists (227 :: b1 :: b2 :: ws). split; [cbn [app]; rewrite <- E; reflexivity|].
  apply andb_prop in E2. destruct E2 as [A B]. apply N.eqb_eq in A, B. subst.
  intros [Hb|[Hb|[Hb|Hb]]]; [discriminate Hb | discriminate Hb | discriminate Hb | exact (H Hb)].
Qed.

Lemma scan_split : forall max acc seen l v rest, scan_number max acc seen l = Some (v, rest) ->
  exists ds, l = ds ++ rest /\ ~ In 60 ds.
Proof.
  induction max as [|k IH]; intros acc seen l v rest H; cbn [scan_number] in H.
  - destruct seen; [|discriminate]. injection H as _ <-. exists []. split; [reflexivity | intros []].
  - destruct l as [|b r].
    + destruct seen; [|discriminate]. injection H as _ <-. exists []. split; [reflexivity | intros []].
    + destruct (is_digit b) eqn:Ed.
      * destruct ((acc * 10 + Z.of_N (digit_val b) <=? i64_max_Z)%Z); [|discriminate].
        destruct (IH _ _ _ _ _ H) as (ds & E & Hn). exists (b :: ds). split; [cbn [app]; rewrite <- E; reflexivity|].
        intros [Hb|Hb]; [subst b; discriminate Ed | exact (Hn Hb)].
      * destruct seen; [|discriminate]. injection H as _ <-. exists []. split; [reflexivity | intros []].
Qed.

Lemma parse_ymd_no_lt v d : parse_ymd v = Some d -> ~ In 60 v.
Proof.
  unfold parse_ymd. set (n := length v).
  destruct (trim_split n v) as (w0 & E0 & H0). set (s0 := trim_start_ws n v) in *.
  intros H.
  assert (Hy : exists y s1 dsy pre, s0 = pre ++ dsy ++ 45 :: s1 /\ ~ In 60 pre /\ ~ In 60 dsy /\
            match scan_number 2 0 false (trim_start_ws n s1) with
            | Some (m, 45 :: s2) =>
                match scan_number 2 0 false (trim_start_ws n s2) with
                | Some (d0, []) => if (-2147483648 <=? y)%Z && (y <=? 2147483647)%Z && valid_date y m d0 then Some (y, m, d0) else None
                | _ => None
                end
            | _ => None
            end = Some d).
  { destruct s0 as [|c r] eqn:Es0.
    - cbn [scan_number] in H. discriminate H.
    - destruct (N.eqb_spec c 45) as [->|H45].
      + destruct (scan_number n 0 false r) as [[vy ry]|] eqn:Sy; [|discriminate H].
        destruct ry as [|c1 s1]; [discriminate H|]. destruct (N.eqb_spec c1 45) as [->|Hc1].
        * destruct (scan_split _ _ _ _ _ _ Sy) as (ds & E & Hn). exists (- vy)%Z, s1, ds, [45].
          split; [cbn [app]; rewrite E; reflexivity|]. split; [intros [A|[]]; discriminate A|]. split; [exact Hn | exact H].
        * exfalso. revert H. clear -Hc1. destruct c1 as [|p]; [discriminate|].
          do 6 (destruct p as [p|p|]; try discriminate). all: try (exfalso; apply Hc1; reflexivity).
      + destruct (N.eqb_spec c 43) as [->|H43].
        * destruct (scan_number n 0 false r) as [[vy ry]|] eqn:Sy; [|discriminate H].
          destruct ry as [|c1 s1]; [discriminate H|]. destruct (N.eqb_spec c1 45) as [->|Hc1].
          -- destruct (scan_split _ _ _ _ _ _ Sy) as (ds & E & Hn). exists vy, s1, ds, [43].
             split; [cbn [app]; rewrite E; reflexivity|]. split; [intros [A|[]]; discriminate A|]. split; [exact Hn | exact H].
          -- exfalso. revert H. clear -Hc1. destruct c1 as [|p]; [discriminate|].
             do 6 (destruct p as [p|p|]; try discriminate). all: try (exfalso; apply Hc1; reflexivity).
        * assert (Hm : match c :: r with 45 :: r0 => match scan_number n 0 false r0 with Some (v0, r') => Some ((- v0)%Z, r') | None => None end
                                     | 43 :: r0 => scan_number n 0 false r0 | _ => scan_number 4 0 false (c :: r) end = scan_number 4 0 false (c :: r)).
          { clear -H45 H43. destruct c as [|p]; [reflexivity|]. do 6 (destruct p as [p|p|]; try reflexivity).
            all: exfalso; first [apply H45; reflexivity | apply H43; reflexivity]. }
          rewrite Hm in H. destruct (scan_number 4 0 false (c :: r)) as [[vy ry]|] eqn:Sy; [|discriminate H].
          destruct ry as [|c1 s1]; [discriminate H|]. destruct (N.eqb_spec c1 45) as [->|Hc1].
          -- destruct (scan_split _ _ _ _ _ _ Sy) as (ds & E & Hn). exists vy, s1, ds, [].
             split; [cbn [app]; rewrite E; reflexivity|]. split; [intros []|]. split; [exact Hn | exact H].
          -- exfalso. revert H. clear -Hc1. destruct c1 as [|p]; [discriminate|].
             do 6 (destruct p as [p|p|]; try discriminate). all: try (exfalso; apply Hc1; reflexivity). }
  clear H. destruct Hy as (y & s1 & dsy & pre & Es0 & Hpre & Hdsy & H).
  destruct (trim_split n s1) as (w1 & E1 & H1). set (t1 := trim_start_ws n s1) in *.
  destruct (scan_number 2 0 false t1) as [[m rm]|] eqn:Sm; [|discriminate H].
  destruct rm as [|c2 s2]; [discriminate H|].
  assert (Hc2 : c2 = 45).
  { destruct (N.eqb_spec c2 45) as [E|Hne]; [exact E|]. exfalso. revert H. clear -Hne. destruct c2 as [|p]; [discriminate|].
    do 6 (destruct p as [p|p|]; try discriminate). all: try (exfalso; apply Hne; reflexivity). }
  subst c2. destruct (scan_split _ _ _ _ _ _ Sm) as (dsm & Em & Hdsm).
  destruct (trim_split n s2) as (w2 & E2 & H2). set (t2 := trim_start_ws n s2) in *.
  destruct (scan_number 2 0 false t2) as [[d0 rd]|] eqn:Sd; [|discriminate H].
  destruct rd as [|? ?]; [|discriminate H].
  destruct (scan_split _ _ _ _ _ _ Sd) as (dsd & Ed & Hdsd). rewrite app_nil_r in Ed.
  (* v = w0 ++ pre ++ dsy ++ '-' :: w1 ++ dsm ++ '-' :: w2 ++ dsd *)
  rewrite E0, Es0, E1, Em, E2, Ed.
  intros Hin. repeat (apply in_app_or in Hin; destruct Hin as [Hin|Hin]); try contradiction;
    repeat match goal with Hx : In 60 (45 :: _) |- _ => destruct Hx as [Hx|Hx]; [discriminate Hx|] end;
    repeat (apply in_app_or in Hin; destruct Hin as [Hin|Hin]); try contradiction;
    repeat match goal with Hx : In 60 (45 :: _) |- _ => destruct Hx as [Hx|Hx]; [discriminate Hx|] end;
    repeat (apply in_app_or in Hin; destruct Hin as [Hin|Hin]); try contradiction.
Qed.

(* ---------- what the two passes keep: no line feed appears, the last byte stays, '</head>' stays ---------- *)
Lemma sr_empty l l' : stamps_removed l l' -> (l = [] <-> l' = []).
Proof. intros H. destruct H; split; intros E; try reflexivity; try discriminate E; destruct stamp_head; discriminate E. Qed.

Lemma sr_no_lf l l' : stamps_removed l l' -> ~ In 10 l -> ~ In 10 l'.
Proof.
  induction 1 as [|c l l' _ IH|v s s' Hv Hn _ IH]; intros H; [exact H| |].
  - intros [E|E]; [apply H; left; exact E | apply IH; [intros X; apply H; right; exact X | exact E]].
  - intros E. apply in_app_or in E. destruct E as [E|E]; [cbv in E; intuition discriminate|].
    apply in_app_or in E. destruct E as [E|E]; [cbv in E; intuition discriminate|].
    apply IH; [|exact E]. intros X. apply H. apply in_or_app. right. apply in_or_app. right. apply in_or_app. right. apply in_or_app. right. exact X.
Qed.

Lemma last_app_ne {A} (x y : list A) d : y <> [] -> last (x ++ y) d = last y d.
Proof.
  intros Hy. destruct (exists_last Hy) as (y' & z & ->). rewrite app_assoc, !last_last. reflexivity.
Qed.

Lemma sr_last l l' : stamps_removed l l' -> last l' 0 = last l 0.
Proof.
  induction 1 as [|c l l' Hs IH|v s s' Hv Hn Hs IH]; [reflexivity| |].
  - destruct l as [|x l0].
    + assert (E : l' = []) by (apply (sr_empty [] l' Hs); reflexivity). subst l'. reflexivity.
    + destruct l' as [|y l0'].
      * assert (E : x :: l0 = []) by (apply (sr_empty _ _ Hs); reflexivity). discriminate E.
      * change (last (c :: y :: l0') 0) with (last (y :: l0') 0). change (last (c :: x :: l0) 0) with (last (x :: l0) 0). exact IH.
  - destruct s as [|x s0].
    + assert (E : s' = []) by (apply (sr_empty [] s' Hs); reflexivity). subst s'. rewrite !app_nil_r.
      rewrite !app_assoc. rewrite !last_app_ne by discriminate. reflexivity.
    + assert (Hs' : s' <> []) by (intros E; apply (sr_empty _ _ Hs) in E; discriminate E).
      rewrite !app_assoc. rewrite !last_app_ne by (try exact Hs'; discriminate). exact IH.
Qed.

(* where '</head>' can stand: not across the end of a stamp *)
Lemma contains_ci_app_r pat : forall x s, contains_ci pat s = true -> contains_ci pat (x ++ s) = true.
Proof.
  induction x as [|a x IH]; intros s H; [exact H|]. cbn [app contains_ci]. rewrite (IH s H). apply orb_true_r.
Qed.

Lemma lower_eq_gt c : lower c = 62 -> c = 62.
Proof.
  unfold lower. destruct ((65 <=? c) && (c <=? 90)) eqn:E; [|auto]. apply andb_prop in E. destruct E as [E _]. apply N.leb_le in E. lia.
Qed.

(* an occurrence of '</head>' is seven bytes: six that are no '>' and end in 'd' or 'D', then '>' *)
Lemma head_end_shape l : starts_with_ci head_end l = true ->
  exists c0 c1 c2 c3 c4 c5 rest, l = [c0; c1; c2; c3; c4; c5] ++ 62 :: rest /\ ~ In 62 [c0; c1; c2; c3; c4; c5] /\ lower c5 = 100 /\ lower c0 = 60 /\
                                 ~ In 60 [c1; c2; c3; c4; c5] /\ ~ In 34 [c0; c1; c2; c3; c4; c5; 62].
Proof.
  unfold head_end. intros H.
  destruct l as [|c0 [|c1 [|c2 [|c3 [|c4 [|c5 [|c6 rest]]]]]]]; cbn [starts_with_ci] in H;
    try (repeat (apply andb_prop in H; destruct H as [_ H]); discriminate H); try discriminate H.
  do 7 (apply andb_prop in H; destruct H as [?E H]).
  repeat match goal with E : (_ =? _) = true |- _ => apply N.eqb_eq in E end.
  change (lower 62) with 62 in *. change (lower 100) with 100 in *. change (lower 60) with 60 in *.
  change (lower 47) with 47 in *. change (lower 104) with 104 in *. change (lower 101) with 101 in *. change (lower 97) with 97 in *.
  assert (c6 = 62) by (apply lower_eq_gt; symmetry; assumption). subst c6.
  exists c0, c1, c2, c3, c4, c5, rest. split; [reflexivity|]. split; [|split; [symmetry; assumption|split; [symmetry; assumption|]]].
  - intros Hin. cbn [In] in Hin.
    repeat (destruct Hin as [Hin|Hin]; [apply (f_equal lower) in Hin; change (lower 62) with 62 in Hin; congruence|]).
    exact Hin.
  - split.
    + intros Hin. cbn [In] in Hin.
      repeat (destruct Hin as [Hin|Hin]; [apply (f_equal lower) in Hin; change (lower 60) with 60 in Hin; congruence|]).
      exact Hin.
    + intros Hin. cbn [In] in Hin.
      repeat (destruct Hin as [Hin|Hin]; [first [discriminate Hin | apply (f_equal lower) in Hin; change (lower 34) with 34 in Hin; congruence]|]).
      exact Hin.
Qed.

Lemma sr_keep_inv x l l' : stamps_removed (x :: l) l' -> x <> 60 -> exists l'', l' = x :: l'' /\ stamps_removed l l''.
Proof.
  intros H Hx. inversion H as [|c l0 l0' Hs|v s s' Hv Hn Hs E]; subst.
  - exists l0'. split; [reflexivity | exact Hs].
  - exfalso. apply Hx. reflexivity.
Qed.

Lemma no_head_across (X0 s : bytes) : ~ In 62 X0 -> (X0 = [] \/ last X0 0 = 45) ->
  contains_ci head_end (X0 ++ 62 :: s) = true -> contains_ci head_end s = true.
Proof.
  induction X0 as [|c X IH]; intros Hn Hl H.
  - cbn [app contains_ci] in H. apply orb_prop in H. destruct H as [H|H]; [|exact H].
    destruct (head_end_shape _ H) as (c0 & c1 & c2 & c3 & c4 & c5 & rest & E & _ & _ & E0 & _ & _). cbn [app] in E. injection E as <- _.
    discriminate E0.
  - cbn [app contains_ci] in H. apply orb_prop in H. destruct H as [H|H].
    + exfalso. destruct (head_end_shape _ H) as (c0 & c1 & c2 & c3 & c4 & c5 & rest & E & Hn6 & E5 & _ & _ & _).
      change (c :: X ++ 62 :: s) with ((c :: X) ++ 62 :: s) in E.
      destruct (app_gt_inj _ _ _ _ Hn Hn6 E) as [EX _].
      destruct Hl as [Hl|Hl]; [discriminate Hl|]. rewrite EX in Hl. cbn [last] in Hl. subst c5. discriminate E5.
    + apply IH; [intros X1; apply Hn; right; exact X1 | | exact H].
      destruct X as [|x X']; [left; reflexivity | right]. destruct Hl as [Hl|Hl]; [discriminate Hl | exact Hl].
Qed.

Lemma sr_keeps_head l l' : stamps_removed l l' -> contains_ci head_end l = true -> contains_ci head_end l' = true.
Proof.
  induction 1 as [|c l l' Hs IH|v s s' Hv Hn Hs IH]; intros H; [exact H| |].
  - cbn [contains_ci] in H |- *. apply orb_prop in H. destruct H as [H|H]; [|rewrite (IH H); apply orb_true_r].
    (* an occurrence at the very start: the six bytes after its '<' are no '<', so no stamp starts there and they are kept *)
    destruct (head_end_shape _ H) as (c0 & c1 & c2 & c3 & c4 & c5 & rest & E & Hn6 & E5 & E0 & Hn60 & _).
    cbn [app] in E. injection E as -> El. subst l.
    assert (N1 : c1 <> 60) by (intros X; apply Hn60; left; exact X).
    assert (N2 : c2 <> 60) by (intros X; apply Hn60; right; left; exact X).
    assert (N3 : c3 <> 60) by (intros X; apply Hn60; do 2 right; left; exact X).
    assert (N4 : c4 <> 60) by (intros X; apply Hn60; do 3 right; left; exact X).
    assert (N5 : c5 <> 60) by (intros X; apply Hn60; do 4 right; left; exact X).
    destruct (sr_keep_inv _ _ _ Hs N1) as (l1 & -> & S1). destruct (sr_keep_inv _ _ _ S1 N2) as (l2 & -> & S2).
    destruct (sr_keep_inv _ _ _ S2 N3) as (l3 & -> & S3). destruct (sr_keep_inv _ _ _ S3 N4) as (l4 & -> & S4).
    destruct (sr_keep_inv _ _ _ S4 N5) as (l5 & -> & S5). destruct (sr_keep_inv _ _ _ S5 ltac:(discriminate)) as (l6 & -> & S6).
    assert (G : starts_with_ci head_end (c0 :: c1 :: c2 :: c3 :: c4 :: c5 :: 62 :: l6) = starts_with_ci head_end (c0 :: c1 :: c2 :: c3 :: c4 :: c5 :: 62 :: rest)) by reflexivity.
    rewrite G, H. reflexivity.
  - assert (E : stamp_head ++ [32] ++ v ++ stamp_tail ++ s = (stamp_head ++ [32] ++ v ++ [32; 45; 45]) ++ 62 :: s)
      by (unfold stamp_tail; rewrite <- !app_assoc; reflexivity).
    rewrite E in H. apply no_head_across in H.
    + apply contains_ci_app_r. apply contains_ci_app_r. apply IH, H.
    + intros Hin. apply in_app_or in Hin. destruct Hin as [Hin|Hin]; [cbv in Hin; intuition discriminate|].
      apply in_app_or in Hin. destruct Hin as [Hin|Hin]; [cbv in Hin; intuition discriminate|].
      apply in_app_or in Hin. destruct Hin as [Hin|Hin]; [exact (Hn Hin) | cbv in Hin; intuition discriminate].
    + right. rewrite !app_assoc. rewrite last_app_ne by discriminate. reflexivity.
Qed.


(* '</head>' holds no quote: an occurrence lies on one side of a quote *)
Lemma contains_ci_app_l pat : forall a x, contains_ci pat a = true -> contains_ci pat (a ++ x) = true.
Proof.
  induction a as [|c a IH]; intros x H.
  - destruct pat; [destruct x; reflexivity | discriminate H].
  - cbn [app contains_ci] in *. apply orb_prop in H. destruct H as [H|H].
    + change (c :: a ++ x) with ((c :: a) ++ x). rewrite (sw_ci_app _ _ _ H). reflexivity.
    + rewrite (IH x H). apply orb_true_r.
Qed.

Lemma contains_split_quote : forall a b, contains_ci head_end (a ++ 34 :: b) = true ->
  contains_ci head_end a = true \/ contains_ci head_end b = true.
Proof.
  induction a as [|c a IH]; intros b H.
  - cbn [app contains_ci] in H. apply orb_prop in H. destruct H as [H|H]; [|right; exact H].
    destruct (head_end_shape _ H) as (c0 & c1 & c2 & c3 & c4 & c5 & rest & E & _ & _ & E0 & _ & _). cbn [app] in E. injection E as <- _. discriminate E0.
  - cbn [app contains_ci] in H. apply orb_prop in H. destruct H as [H|H].
    + left. destruct (head_end_shape _ H) as (c0 & c1 & c2 & c3 & c4 & c5 & rest & E & _ & _ & _ & _ & Hq).
      change (c :: a ++ 34 :: b) with ((c :: a) ++ 34 :: b) in E. change ([c0; c1; c2; c3; c4; c5] ++ 62 :: rest) with ([c0; c1; c2; c3; c4; c5; 62] ++ rest) in E.
      apply app_eq_app in E. destruct E as (l & [[E1 E2] | [E1 E2]]).
      * (* the occurrence lies inside c :: a *)
        cbn [contains_ci]. change (c :: a ++ 34 :: b) with ((c :: a) ++ 34 :: b) in H. rewrite sw_ci_long in H; [rewrite H; reflexivity|].
        rewrite E1, app_length. unfold head_end. cbn [length]. lia.
      * destruct l as [|q l'].
        -- rewrite app_nil_r in E1. cbn [contains_ci]. change (c :: a ++ 34 :: b) with ((c :: a) ++ 34 :: b) in H. rewrite sw_ci_long in H; [rewrite H; reflexivity|].
           rewrite <- E1. unfold head_end. cbn [length]. lia.
        -- exfalso. cbn [app] in E2. injection E2 as Eq _. apply Hq. rewrite E1. apply in_or_app. right. left. symmetry. exact Eq.
    + destruct (IH b H) as [G|G]; [left; cbn [contains_ci]; rewrite G; apply orb_true_r | right; exact G].
Qed.

Lemma contains_needs_lt l : contains_ci head_end l = true -> In 60 l.
Proof.
  induction l as [|c l IH]; intros H; [discriminate H|]. cbn [contains_ci] in H. apply orb_prop in H. destruct H as [H|H]; [|right; apply IH, H].
  destruct (head_end_shape _ H) as (c0 & c1 & c2 & c3 & c4 & c5 & rest & E & _ & _ & E0 & _ & _). cbn [app] in E. injection E as -> _.
  left. unfold lower in E0. destruct ((65 <=? c0) && (c0 <=? 90)) eqn:Eb; [|exact E0].
  apply andb_prop in Eb. destruct Eb as [Eb _]. apply N.leb_le in Eb. lia.
Qed.

(* ---------- the date pass ---------- *)
Lemma ml_props e d l l' : (0 <= e < 4294967296)%Z -> date_of_unix e = Some d -> meta_lowered d l l' ->
  (~ In 10 l -> ~ In 10 l') /\ last l' 0 = last l 0 /\ l' <> [] /\
  (contains_ci head_end l = true -> contains_ci head_end l' = true).
Proof.
  intros He Hd (before & tag & v & after & dd & El & El' & Htag & Hv & Hvq & Hp & Hlt).
  destruct (date_written_reads_back e d He Hd) as (_ & _ & _ & _ & _ & Hne & Hlf).
  split; [|split; [|split]].
  - intros H Hin. apply H. rewrite El. rewrite El' in Hin.
    apply in_app_or in Hin. destruct Hin as [Hin|Hin]; [apply in_or_app; left; exact Hin|].
    apply in_app_or in Hin. destruct Hin as [Hin|Hin]; [apply in_or_app; right; apply in_or_app; left; exact Hin|].
    apply in_app_or in Hin. destruct Hin as [Hin|Hin]; [contradiction|].
    apply in_or_app. right. apply in_or_app. right. apply in_or_app. right. exact Hin.
  - rewrite El, El'.
    replace (before ++ tag ++ v ++ [34; 62] ++ after) with ((before ++ tag ++ v) ++ ([34; 62] ++ after)) by (rewrite <- !app_assoc; reflexivity).
    replace (before ++ tag ++ fmt_date d ++ [34; 62] ++ after) with ((before ++ tag ++ fmt_date d) ++ ([34; 62] ++ after)) by (rewrite <- !app_assoc; reflexivity).
    rewrite (last_app_ne (before ++ tag ++ v) ([34; 62] ++ after) 0) by (cbn [app]; discriminate).
    rewrite (last_app_ne (before ++ tag ++ fmt_date d) ([34; 62] ++ after) 0) by (cbn [app]; discriminate). reflexivity.
  - rewrite El'. intros E. apply app_eq_nil in E. destruct E as [_ E]. apply app_eq_nil in E. destruct E as [_ E].
    apply app_eq_nil in E. destruct E as [E _]. contradiction.
  - assert (Hq : exists nm, (nm = meta_date \/ nm = meta_dcc) /\ starts_with_ci (mpre nm) tag = true /\ length tag = length (mpre nm)).
    { destruct Htag as [[A B]|[A B]]; [exists meta_date | exists meta_dcc]; auto. }
    destruct Hq as (nm & Hnm & Hci & Hlen). destruct (tag_ends_with_quote nm tag Hnm Hci Hlen) as (tag0 & ->).
    rewrite El, El'.
    replace (before ++ (tag0 ++ [34]) ++ v ++ [34; 62] ++ after) with ((before ++ tag0) ++ 34 :: (v ++ 34 :: (62 :: after))) by (rewrite <- !app_assoc; reflexivity).
    replace (before ++ (tag0 ++ [34]) ++ fmt_date d ++ [34; 62] ++ after) with ((before ++ tag0) ++ 34 :: (fmt_date d ++ 34 :: (62 :: after))) by (rewrite <- !app_assoc; reflexivity).
    intros H. apply contains_split_quote in H. destruct H as [H|H]; [apply contains_ci_app_l, H|].
    apply contains_split_quote in H. destruct H as [H|H].
    + exfalso. apply (parse_ymd_no_lt v dd Hp). apply contains_needs_lt, H.
    + apply contains_ci_app_r.
      replace (34 :: fmt_date d ++ 34 :: 62 :: after) with ((34 :: fmt_date d ++ [34]) ++ 62 :: after) by (cbn [app]; rewrite <- app_assoc; reflexivity).
      apply contains_ci_app_r, H.
Qed.

(* both passes together: what a rewritten line keeps *)
Lemma process_line_keeps epoch l l' : (forall e, epoch = Some e -> (0 <= e < 4294967296)%Z) ->
  process_line epoch l = Some l' ->
  (~ In 10 l -> ~ In 10 l') /\ last l' 0 = last l 0 /\ (l <> [] -> l' <> []) /\
  (contains_ci head_end l = true -> contains_ci head_end l' = true).
Proof.
  intros He H. destruct (process_line_spec _ _ _ H) as (l1 & Hs & [-> | (e & d & -> & Hd & Hm)]).
  - split; [apply sr_no_lf, Hs|]. split; [apply sr_last, Hs|]. split; [intros Hl E; apply Hl, (sr_empty _ _ Hs), E | apply sr_keeps_head, Hs].
  - destruct (ml_props e d l1 l' (He e eq_refl) Hd Hm) as (A & B & C & D).
    split; [intros Hl; apply A, (sr_no_lf _ _ Hs), Hl|]. split; [rewrite B; apply sr_last, Hs|]. split; [intros _; exact C|].
    intros Hc. apply D, (sr_keeps_head _ _ Hs), Hc.
Qed.

(* ---------- line terminators ---------- *)
Lemma ends_with_refl suf p : ends_with suf (p ++ suf) = true.
Proof.
  unfold ends_with. rewrite !frev_rev, rev_app_distr.
  generalize (rev suf) (rev p). clear. intros a b. induction a as [|x a IH]; [reflexivity|]. cbn [app starts_with]. rewrite N.eqb_refl, IH. reflexivity.
Qed.

Lemma ends_with_lf_in l : ends_with [10] l = true -> In 10 l.
Proof. intros H. destruct (ends_with_app _ _ H) as [p ->]. apply in_or_app. right. left. reflexivity. Qed.

Lemma ends_with_crlf_in l : ends_with [13; 10] l = true -> In 10 l.
Proof. intros H. destruct (ends_with_app _ _ H) as [p ->]. apply in_or_app. right. right. left. reflexivity. Qed.

(* the body of a line with its terminator put back: the same split, provided the body holds no line feed and ends in a
   carriage return only if the original body did *)
Lemma line_eol_rebuild raw line eol out :
  line_eol raw = (line, eol) -> ~ In 10 line -> ~ In 10 out -> last out 0 = last line 0 -> (line = [] -> out = []) ->
  line_eol (out ++ eol) = (out, eol).
Proof.
  intros H Hl Ho Hlast Hemp. unfold line_eol in H.
  destruct (ends_with [13; 10] raw) eqn:E1.
  { injection H as <- <-. unfold line_eol. rewrite ends_with_refl. rewrite app_length. cbn [length].
    replace (length out + 2 - 2)%nat with (length out) by lia. rewrite firstn_app_len. reflexivity. }
  destruct (ends_with [10] raw) eqn:E2.
  { injection H as Hline <-. destruct (ends_with_app _ _ E2) as [p Ep].
    assert (Hp : line = p) by (rewrite <- Hline, Ep, app_length; cbn [length]; replace (length p + 1 - 1)%nat with (length p) by lia; apply firstn_app_len).
    subst p. unfold line_eol.
    destruct (ends_with [13; 10] (out ++ [10])) eqn:E3.
    { exfalso. destruct (ends_with_app _ _ E3) as [q Eq]. change [13; 10] with ([13] ++ [10]) in Eq. rewrite app_assoc in Eq.
      apply app_inj_tail in Eq. destruct Eq as [Eq _].
      (* out ends in a carriage return, so does line, and then raw ended in CR LF *)
      assert (Lo : last out 0 = 13) by (rewrite Eq; apply last_last).
      rewrite Hlast in Lo.
      assert (Hne : line <> []) by (intros ->; discriminate Lo).
      destruct (exists_last Hne) as (l0 & z & ->). rewrite last_last in Lo. subst z.
      rewrite Ep in E1. rewrite <- app_assoc in E1. change ([13] ++ [10]) with [13; 10] in E1. rewrite ends_with_refl in E1. discriminate E1. }
    rewrite ends_with_refl. rewrite app_length. cbn [length]. replace (length out + 1 - 1)%nat with (length out) by lia. rewrite firstn_app_len. reflexivity. }
  injection H as <- <-. rewrite app_nil_r. unfold line_eol.
  destruct (ends_with [13; 10] out) eqn:E3; [exfalso; apply Ho, ends_with_crlf_in, E3|].
  destruct (ends_with [10] out) eqn:E4; [exfalso; apply Ho, ends_with_lf_in, E4|]. reflexivity.
Qed.

(* ---------- the lines of a document ---------- *)
Inductive lines_ok : list bytes -> Prop :=
| lo_nil : lines_ok []
| lo_last b : b <> [] -> ~ In 10 b -> lines_ok [b]
| lo_cons b rest : ~ In 10 b -> lines_ok rest -> lines_ok ((b ++ [10]) :: rest).

Lemma split_lines_nolf : forall b cur, ~ In 10 b -> split_lines b cur = match rev cur ++ b with [] => [] | l => [l] end.
Proof.
  induction b as [|c b IH]; intros cur H; cbn [split_lines].
  - rewrite app_nil_r. destruct cur as [|x cur']; [reflexivity|]. rewrite frev_rev. destruct (rev (x :: cur')) eqn:E; [|reflexivity].
    apply (f_equal (@length N)) in E. rewrite rev_length in E. discriminate E.
  - destruct (N.eqb_spec c 10) as [->|Hc]; [exfalso; apply H; left; reflexivity|].
    rewrite IH by (intros X; apply H; right; exact X). cbn [rev]. rewrite <- app_assoc. reflexivity.
Qed.

Lemma split_lines_line : forall b cur X, ~ In 10 b -> split_lines (b ++ 10 :: X) cur = (rev cur ++ b ++ [10]) :: split_lines X [].
Proof.
  induction b as [|c b IH]; intros cur X H; cbn [app split_lines].
  - rewrite frev_rev. cbn [rev]. reflexivity.
  - destruct (N.eqb_spec c 10) as [->|Hc]; [exfalso; apply H; left; reflexivity|].
    rewrite IH by (intros Y; apply H; right; exact Y). cbn [rev]. rewrite <- !app_assoc. reflexivity.
Qed.

Lemma split_concat outs : lines_ok outs -> split_lines (concat outs) [] = outs.
Proof.
  induction 1 as [|b Hb Hn|b rest Hn _ IH]; [reflexivity| |].
  - cbn [concat]. rewrite app_nil_r. rewrite split_lines_nolf by exact Hn. cbn [rev app]. destruct b; [contradiction | reflexivity].
  - cbn [concat]. rewrite <- app_assoc. cbn [app]. rewrite split_lines_line by exact Hn. cbn [rev app]. rewrite IH. reflexivity.
Qed.

Lemma split_lines_ok : forall x cur, ~ In 10 cur -> lines_ok (match split_lines x cur with l => l end) /\
  (forall raw, In raw (split_lines x cur) -> exists b, (raw = b ++ [10] \/ raw = b) /\ ~ In 10 b).
Proof.
  induction x as [|c x IH]; intros cur Hc; cbn [split_lines].
  - destruct cur as [|y cur']; [split; [constructor | intros raw []]|].
    rewrite frev_rev. split.
    + apply lo_last; [intros E; apply (f_equal (@length N)) in E; rewrite rev_length in E; discriminate E | intros X; apply Hc, in_rev, X].
    + intros raw [<-|[]]. exists (rev (y :: cur')). split; [right; reflexivity | intros X; apply Hc, in_rev, X].
  - destruct (N.eqb_spec c 10) as [->|Hne].
    + destruct (IH [] ltac:(intros [])) as [A B]. rewrite frev_rev. cbn [rev]. split.
      * apply lo_cons; [intros X; apply Hc, in_rev, X | exact A].
      * intros raw [<-|Hr]; [exists (rev cur); split; [left; reflexivity | intros X; apply Hc, in_rev, X] | apply B, Hr].
    + apply IH. intros [X|X]; [apply Hne; exact X | exact (Hc X)].
Qed.

(* ---------- the loop, as a list of output lines ---------- *)
Definition closes_at (num : nat) (line : bytes) : bool :=
  cmp_N javadoc_window_cmp (N.of_nat (S num)) (N.of_nat javadoc_header_lines) || contains_ci head_end line.

Fixpoint outs_of (epoch : option Z) (lines : list bytes) (num : nat) (ah : bool) : list bytes :=
  match lines with
  | [] => []
  | raw :: rest =>
      let '(line, eol) := line_eol raw in
      let out := if ah then line else line_out epoch line in
      (out ++ eol) :: outs_of epoch rest (S num) (ah || closes_at num line)
  end.

Lemma jd_loop_outs epoch : forall lines num ah hm acc y hmf,
  jd_loop epoch lines num ah hm acc = Some (y, hmf) -> y = acc ++ concat (outs_of epoch lines num ah).
Proof.
  induction lines as [|raw rest IH]; intros num ah hm acc y hmf H; cbn [jd_loop outs_of] in *.
  - injection H as <- _. cbn [concat]. symmetry. apply app_nil_r.
  - destruct (utf8_ok raw); cbn [negb] in H; [|discriminate H].
    destruct (line_eol raw) as [line eol].
    fold (closes_at num line) in H.
    assert (Eo : (if ah then line else line_out epoch line) = match (if ah then None else process_line epoch line) with Some l2 => l2 | None => line end).
    { destruct ah; [reflexivity|]. unfold line_out. reflexivity. }
    cbn [concat]. rewrite Eo.
    destruct (negb ah && closes_at num line) eqn:Ec.
    + destruct (hm || _) eqn:Ehm in H; [|discriminate H].
      apply IH in H. rewrite H. apply andb_prop in Ec. destruct Ec as [Ea Ecl]. apply negb_true_iff in Ea. subst ah. rewrite Ecl. cbn [orb].
      rewrite <- !app_assoc. reflexivity.
    + apply IH in H. rewrite H.
      replace (ah || closes_at num line) with ah by (destruct ah; [reflexivity | cbn [negb andb] in Ec; rewrite Ec; reflexivity]).
      rewrite <- !app_assoc. reflexivity.
Qed.

(* a second pass over the output lines: nothing is found to change; it stops early (nothing to replace) or copies them *)
Lemma second_pass epoch : (forall e, epoch = Some e -> (0 <= e < 4294967296)%Z) ->
  forall lines num ah ah2 acc2,
    Forall (fun raw => ~ In 10 (fst (line_eol raw))) lines -> (ah = true -> ah2 = true) ->
    jd_loop epoch (outs_of epoch lines num ah) num ah2 false acc2 = None \/
    jd_loop epoch (outs_of epoch lines num ah) num ah2 false acc2 = Some (acc2 ++ concat (outs_of epoch lines num ah), false).
Proof.
  intros He. induction lines as [|raw rest IH]; intros num ah ah2 acc2 Hl Hah.
  - right. cbn [outs_of jd_loop concat]. rewrite app_nil_r. reflexivity.
  - inversion Hl as [|? ? Hraw Hl']; subst. cbn [outs_of].
    destruct (line_eol raw) as [line eol] eqn:El. cbn [fst] in Hraw.
    set (out := if ah then line else line_out epoch line).
    (* what the first pass wrote for this line *)
    assert (Hout : ~ In 10 out /\ last out 0 = last line 0 /\ (line = [] -> out = []) /\
                   (contains_ci head_end line = true -> contains_ci head_end out = true) /\ (ah = false -> process_line epoch out = None)).
    { unfold out. destruct ah.
      - repeat split; auto. intros X; discriminate X.
      - unfold line_out. destruct (process_line epoch line) as [l'|] eqn:Ep.
        + destruct (process_line_keeps epoch line l' He Ep) as (A & B & C & D).
          split; [apply A, Hraw|]. split; [exact B|]. split; [|split; [exact D|]].
          * intros ->. exfalso. unfold process_line in Ep. cbn [length strip_stamps] in Ep.
            destruct epoch as [e|]; [destruct (date_of_unix e); cbn in Ep; discriminate Ep | cbn in Ep; discriminate Ep].
          * intros _. apply (process_line_idempotent epoch line l' He Ep).
        + repeat split; auto. }
    destruct Hout as (Ho10 & Holast & Hoemp & Hohead & Hoidem).
    cbn [jd_loop]. destruct (utf8_ok (out ++ eol)); cbn [negb]; [|left; reflexivity].
    rewrite (line_eol_rebuild raw line eol out El Hraw Ho10 Holast Hoemp).
    assert (E2 : (if ah2 then None else process_line epoch out) = None).
    { destruct ah2; [reflexivity|]. apply Hoidem. destruct ah; [specialize (Hah eq_refl); discriminate Hah | reflexivity]. }
    rewrite E2. cbn [orb]. fold (closes_at num out).
    destruct (negb ah2 && closes_at num out) eqn:Ec2; [left; reflexivity|].
    cbn [concat].
    destruct (IH (S num) (ah || closes_at num line) ah2 (acc2 ++ out ++ eol) Hl') as [G|G].
    + intros Hc. destruct ah2; [reflexivity|]. exfalso. cbn [negb andb] in Ec2.
      destruct ah; [specialize (Hah eq_refl); discriminate Hah|]. cbn [orb] in Hc.
      unfold closes_at in Hc, Ec2. apply orb_prop in Hc. destruct Hc as [Hc|Hc]; [rewrite Hc in Ec2; discriminate Ec2|].
      rewrite (Hohead Hc) in Ec2. rewrite orb_true_r in Ec2. discriminate Ec2.
    + left. exact G.
    + right. rewrite G. rewrite <- !app_assoc. reflexivity.
Qed.

Lemma line_eol_lf b : ~ In 10 b ->
  line_eol (b ++ [10]) = (b, [10]) \/ exists p, b = p ++ [13] /\ line_eol (b ++ [10]) = (p, [13; 10]).
Proof.
  intros Hb. unfold line_eol. destruct (ends_with [13; 10] (b ++ [10])) eqn:E1.
  - right. destruct (ends_with_app _ _ E1) as [p Ep]. change [13; 10] with ([13] ++ [10]) in Ep. rewrite app_assoc in Ep.
    apply app_inj_tail in Ep. destruct Ep as [Ep _]. exists p. split; [exact Ep|].
    rewrite Ep. rewrite <- app_assoc. cbn [app]. rewrite app_length. cbn [length]. replace (length p + 2 - 2)%nat with (length p) by lia.
    rewrite firstn_app_len. reflexivity.
  - left. rewrite ends_with_refl. rewrite app_length. cbn [length]. replace (length b + 1 - 1)%nat with (length b) by lia.
    rewrite firstn_app_len. reflexivity.
Qed.

Lemma line_eol_nolf b : ~ In 10 b -> line_eol b = (b, []).
Proof.
  intros Hb. unfold line_eol.
  destruct (ends_with [13; 10] b) eqn:E1; [exfalso; apply Hb, ends_with_crlf_in, E1|].
  destruct (ends_with [10] b) eqn:E2; [exfalso; apply Hb, ends_with_lf_in, E2|]. reflexivity.
Qed.

Lemma lines_ok_bodies lines : lines_ok lines -> Forall (fun raw => ~ In 10 (fst (line_eol raw))) lines.
Proof.
  induction 1 as [|b Hb Hn|b rest Hn _ IH]; [constructor| |].
  - constructor; [|constructor]. rewrite line_eol_nolf by exact Hn. exact Hn.
  - constructor; [|exact IH]. destruct (line_eol_lf b Hn) as [E|(p & Ep & E)]; rewrite E; cbn [fst]; [exact Hn|].
    intros X. apply Hn. rewrite Ep. apply in_or_app. left. exact X.
Qed.

Lemma out_line_props (epoch : option Z) (line : bytes) (ah : bool) : (forall e, epoch = Some e -> (0 <= e < 4294967296)%Z) -> ~ In 10 line ->
  let out := if ah then line else line_out epoch line in ~ In 10 out /\ (line <> [] -> out <> []).
Proof.
  intros He Hl. cbv zeta. destruct ah; [auto|]. unfold line_out. destruct (process_line epoch line) as [l'|] eqn:Ep; [|auto].
  destruct (process_line_keeps epoch line l' He Ep) as (A & _ & C & _). split; [apply A, Hl | exact C].
Qed.

Lemma outs_ok epoch : (forall e, epoch = Some e -> (0 <= e < 4294967296)%Z) ->
  forall lines, lines_ok lines -> forall num ah, lines_ok (outs_of epoch lines num ah).
Proof.
  intros He. induction 1 as [|b Hb Hn|b rest Hn _ IH]; intros num ah; cbn [outs_of]; [constructor| |].
  - rewrite line_eol_nolf by exact Hn. rewrite app_nil_r.
    destruct (out_line_props epoch b ah He Hn) as [A B]. apply lo_last; [apply B, Hb | exact A].
  - destruct (line_eol_lf b Hn) as [E|(p & Ep & E)]; rewrite E.
    + destruct (out_line_props epoch b ah He Hn) as [A _]. apply lo_cons; [exact A | apply IH].
    + assert (Hp : ~ In 10 p) by (intros X; apply Hn; rewrite Ep; apply in_or_app; left; exact X).
      destruct (out_line_props epoch p ah He Hp) as [A _].
      assert (Eq : forall o : bytes, o ++ [13; 10] = (o ++ [13]) ++ [10]) by (intros o; rewrite <- app_assoc; reflexivity).
      rewrite Eq.
      apply lo_cons; [|apply IH]. intros X. apply in_app_or in X. destruct X as [X|X]; [exact (A X) | cbn in X; intuition discriminate].
Qed.

(* C07, javadoc, the whole document: a second pass over what the handler wrote changes and reports nothing *)
Theorem javadoc_idempotent epoch x y hm :
  (forall e, epoch = Some e -> (0 <= e < 4294967296)%Z) ->
  javadoc_process epoch x = Ok (y, hm) -> javadoc_process epoch y = Ok (y, false).
Proof.
  intros He. unfold javadoc_process.
  destruct (jd_loop epoch (split_lines x []) 0 false false []) as [[y' hm']|] eqn:E1.
  - intros H. injection H as <- <-.
    pose proof (jd_loop_outs _ _ _ _ _ _ _ _ E1) as Ey. cbn [app] in Ey.
    destruct (split_lines_ok x [] ltac:(intros [])) as [Hok _].
    pose proof (outs_ok epoch He _ Hok 0%nat false) as Hok'.
    rewrite Ey at 1. rewrite (split_concat _ Hok').
    destruct (second_pass epoch He (split_lines x []) 0%nat false false [] (lines_ok_bodies _ Hok) (fun X => X)) as [G|G]; rewrite G.
    + reflexivity.
    + cbn [app]. rewrite <- Ey. reflexivity.
  - intros H. injection H as <- <-. rewrite E1. reflexivity.
Qed.
