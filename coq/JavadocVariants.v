(* JavadocVariants.v — C01 (javadoc part): the version/date text of a stamp and the value of a date tag
   do not reach the output. *)
From AD Require Import Bytes Outcome Gen Date Walk Javadoc JavadocProofs.
Local Arguments firstn : simpl never.
Local Arguments skipn : simpl never.

Definition line_out (epoch : option Z) (l : bytes) : bytes :=
  match process_line epoch l with Some r => r | None => l end.

(* what is written for a header line is a function of the stamp-stripped line alone *)
Definition after_strip (epoch : option Z) (r1 : bytes) : bytes :=
  match epoch with
  | Some e => match date_of_unix e with Some d => meta_rewrite d r1 | None => r1 end
  | None => r1
  end.

Lemma line_out_after_strip epoch l : line_out epoch l = after_strip epoch (strip_stamps (length l) l).
Proof.
  unfold line_out, process_line, after_strip.
  destruct epoch as [e|]; [destruct (date_of_unix e)|];
    match goal with |- context [bytes_eqb ?a ?b] => destruct (bytes_eqb a b) eqn:E end;
    try reflexivity; apply bytes_eqb_eq in E; symmetry; exact E.
Qed.

Lemma index_of_app_notin c (v r : bytes) : ~ In c v -> index_of c (v ++ c :: r) = Some (length v).
Proof.
  induction v as [|b v IH]; intros Hn; cbn [app index_of length].
  - rewrite N.eqb_refl. reflexivity.
  - destruct (N.eqb_spec b c) as [->|_]; [exfalso; apply Hn; left; reflexivity|].
    rewrite IH by (intros H; apply Hn; right; exact H). reflexivity.
Qed.

Lemma starts_with_app_refl (p r : bytes) : starts_with p (p ++ r) = true.
Proof. induction p as [|a p IH]; [reflexivity|]. cbn [app starts_with]. rewrite N.eqb_refl, IH. reflexivity. Qed.

Lemma stamp_match_complete v rest : v <> [] -> ~ In 62 v ->
  stamp_match (stamp_head ++ [32] ++ v ++ stamp_tail ++ rest) = Some (v, rest).
Proof.
  intros Hv Hn. unfold stamp_match.
  replace (stamp_head ++ [32] ++ v ++ stamp_tail ++ rest) with ((stamp_head ++ [32]) ++ v ++ stamp_tail ++ rest) by (rewrite <- app_assoc; reflexivity).
  rewrite starts_with_app_refl.
  replace (length stamp_head + 1)%nat with (length (stamp_head ++ [32])) by reflexivity.
  rewrite skipn_app, skipn_all, Nat.sub_diag. cbn [app]. change (skipn 0 ?l) with l.
  set (body := v ++ [32; 45; 45]).
  assert (E : v ++ stamp_tail ++ rest = body ++ 62 :: rest) by (unfold body; rewrite <- app_assoc; reflexivity).
  rewrite E. rewrite index_of_app_notin.
  2:{ unfold body. intros H. apply in_app_or in H. destruct H as [H|H]; [exact (Hn H)|]. cbn in H. intuition discriminate. }
  assert (Hl : (1 <= length v)%nat) by (destruct v; [contradiction | cbn; lia]).
  assert (Hlb : length body = (length v + 3)%nat) by (unfold body; rewrite app_length; reflexivity).
  replace (4 <=? length body)%nat with true by (symmetry; apply Nat.leb_le; lia).
  rewrite firstn_app_len.
  replace (length body - 3)%nat with (length v) by lia.
  assert (S1 : skipn (length v) body = [32; 45; 45]) by (unfold body; rewrite skipn_app, skipn_all, Nat.sub_diag; reflexivity).
  assert (S2 : firstn (length v) body = v) by (unfold body; apply firstn_app_len).
  rewrite S1, S2. cbn [bytes_eqb]. rewrite !N.eqb_refl. cbn [andb].
  replace (S (length body)) with (length (body ++ [62])) by (rewrite app_length; cbn [length]; lia).
  replace (body ++ 62 :: rest) with ((body ++ [62]) ++ rest) by (rewrite <- app_assoc; reflexivity).
  rewrite skipn_app, skipn_all, Nat.sub_diag. reflexivity.
Qed.

(* fuel beyond the length of the line is never used *)
Lemma strip_stamps_fuel : forall f g l, (length l <= f)%nat -> (length l <= g)%nat -> strip_stamps f l = strip_stamps g l.
Proof.
  induction f as [|f IH]; intros g l Hf Hg.
  - destruct l; [destruct g; reflexivity | cbn in Hf; lia].
  - destruct g as [|g]; [destruct l; [reflexivity | cbn in Hg; lia]|].
    cbn [strip_stamps]. destruct l as [|c r]; [reflexivity|].
    destruct (stamp_match (c :: r)) as [[v rest]|] eqn:Em.
    + destruct (stamp_match_spec _ _ _ Em) as (El & _ & _).
      apply (f_equal (@length N)) in El. rewrite !app_length in El. cbn [length] in *.
      rewrite (IH g rest) by lia. reflexivity.
    + cbn [length] in *. rewrite (IH g r) by lia. reflexivity.
Qed.

Lemma strip_stamps_at_stamp v rest : v <> [] -> ~ In 62 v ->
  let l := stamp_head ++ [32] ++ v ++ stamp_tail ++ rest in
  strip_stamps (length l) l = stamp_head ++ stamp_tail ++ strip_stamps (length rest) rest.
Proof.
  intros Hv Hn l. subst l.
  remember (stamp_head ++ [32] ++ v ++ stamp_tail ++ rest) as l eqn:El.
  destruct l as [|c r]; [discriminate|].
  cbn [length strip_stamps]. rewrite El. rewrite stamp_match_complete by assumption.
  f_equal. f_equal. apply strip_stamps_fuel; [|lia].
  apply (f_equal (@length N)) in El. rewrite !app_length in El. cbn [length] in El. lia.
Qed.

(* text before the stamp that contains no '<' is copied *)
Lemma stamp_match_needs_lt c r : c <> 60 -> stamp_match (c :: r) = None.
Proof.
  intros Hc. unfold stamp_match. change (stamp_head ++ [32]) with (60 :: tl (stamp_head ++ [32])). cbn [starts_with].
  destruct (N.eqb_spec 60 c) as [E|_]; [exfalso; apply Hc; symmetry; exact E | reflexivity].
Qed.

Lemma strip_stamps_prefix pre : ~ In 60 pre -> forall l f, (length (pre ++ l) <= f)%nat ->
  strip_stamps f (pre ++ l) = pre ++ strip_stamps (length l) l.
Proof.
  induction pre as [|c pre IH]; intros Hn l f Hf.
  - cbn [app] in *. apply strip_stamps_fuel; lia.
  - destruct f as [|f]; [cbn in Hf; lia|]. cbn [app strip_stamps].
    rewrite stamp_match_needs_lt by (intros ->; apply Hn; left; reflexivity).
    f_equal. apply IH; [intros H; apply Hn; right; exact H | cbn [app length] in Hf; lia].
Qed.

(* two lines that differ only in the version/date text of their (first) stamp are written identically *)
Theorem javadoc_stamp_variants epoch pre v v' rest :
  ~ In 60 pre -> v <> [] -> v' <> [] -> ~ In 62 v -> ~ In 62 v' ->
  line_out epoch (pre ++ stamp_head ++ [32] ++ v ++ stamp_tail ++ rest) =
  line_out epoch (pre ++ stamp_head ++ [32] ++ v' ++ stamp_tail ++ rest).
Proof.
  intros Hp Hv Hv' Hn Hn'. rewrite !line_out_after_strip. f_equal.
  rewrite (strip_stamps_prefix pre Hp (stamp_head ++ [32] ++ v ++ stamp_tail ++ rest) _ (le_n _)).
  rewrite (strip_stamps_prefix pre Hp (stamp_head ++ [32] ++ v' ++ stamp_tail ++ rest) _ (le_n _)).
  rewrite (strip_stamps_at_stamp v rest Hv Hn), (strip_stamps_at_stamp v' rest Hv' Hn'). reflexivity.
Qed.

(* the stamp is reduced to its fixed part *)
Theorem javadoc_stamp_removed epoch pre v rest :
  ~ In 60 pre -> v <> [] -> ~ In 62 v ->
  line_out epoch (pre ++ stamp_head ++ [32] ++ v ++ stamp_tail ++ rest) =
  after_strip epoch (pre ++ stamp_head ++ stamp_tail ++ strip_stamps (length rest) rest).
Proof.
  intros Hp Hv Hn. rewrite line_out_after_strip. f_equal.
  rewrite (strip_stamps_prefix pre Hp (stamp_head ++ [32] ++ v ++ stamp_tail ++ rest) _ (le_n _)).
  rewrite (strip_stamps_at_stamp v rest Hv Hn). reflexivity.
Qed.

(* ---------- the date tags ---------- *)
Lemma starts_with_ci_app_refl (p r : bytes) : starts_with_ci p (p ++ r) = true.
Proof. induction p as [|a p IH]; [reflexivity|]. cbn [app starts_with_ci]. rewrite N.eqb_refl, IH. reflexivity. Qed.

Lemma meta_try_complete nm v after : v <> [] -> ~ In 34 v ->
  meta_try nm ((meta_a ++ nm ++ meta_b) ++ v ++ 34 :: 62 :: after) = Some (length (meta_a ++ nm ++ meta_b), v, after).
Proof.
  intros Hv Hn. unfold meta_try. rewrite starts_with_ci_app_refl.
  rewrite skipn_app, skipn_all, Nat.sub_diag. cbn [app]. change (skipn 0 ?l) with l.
  rewrite index_of_app_notin by exact Hn.
  assert (Hl : (1 <= length v)%nat) by (destruct v; [contradiction | cbn; lia]).
  replace (1 <=? length v)%nat with true by (symmetry; apply Nat.leb_le; lia).
  replace (S (length v)) with (length (v ++ [34])) by (rewrite app_length; cbn [length]; lia).
  replace (v ++ 34 :: 62 :: after) with ((v ++ [34]) ++ 62 :: after) at 1 by (rewrite <- app_assoc; reflexivity).
  rewrite skipn_app, skipn_all, Nat.sub_diag. cbn [app]. change (skipn 0 ?l) with l.
  rewrite firstn_app_len. reflexivity.
Qed.

Lemma meta_match_here_complete nm v after : (nm = meta_date \/ nm = meta_dcc) -> v <> [] -> ~ In 34 v ->
  meta_match_here ((meta_a ++ nm ++ meta_b) ++ v ++ 34 :: 62 :: after) = Some (length (meta_a ++ nm ++ meta_b), v, after).
Proof.
  intros [-> | ->] Hv Hn; unfold meta_match_here.
  - rewrite meta_try_complete by assumption. reflexivity.
  - assert (E : meta_try meta_date ((meta_a ++ meta_dcc ++ meta_b) ++ v ++ 34 :: 62 :: after) = None) by (lazy; reflexivity).
    rewrite E. apply meta_try_complete; assumption.
Qed.

(* a line that starts with a date / dc.created tag: whatever later date it carries, the epoch's date is written *)
Theorem javadoc_meta_variants d nm v v' dd dd' after :
  (nm = meta_date \/ nm = meta_dcc) ->
  v <> [] -> ~ In 34 v -> parse_ymd v = Some dd -> date_ltb d dd = true ->
  v' <> [] -> ~ In 34 v' -> parse_ymd v' = Some dd' -> date_ltb d dd' = true ->
  meta_rewrite d ((meta_a ++ nm ++ meta_b) ++ v ++ 34 :: 62 :: after) =
  meta_rewrite d ((meta_a ++ nm ++ meta_b) ++ v' ++ 34 :: 62 :: after).
Proof.
  intros Hnm Hv Hn Hp Hl Hv' Hn' Hp' Hl'.
  assert (G : forall w dw, w <> [] -> ~ In 34 w -> parse_ymd w = Some dw -> date_ltb d dw = true ->
     meta_rewrite d ((meta_a ++ nm ++ meta_b) ++ w ++ 34 :: 62 :: after) = (meta_a ++ nm ++ meta_b) ++ fmt_date d ++ [34; 62] ++ after).
  { intros w dw Hw Hnw Hpw Hlw. unfold meta_rewrite.
    remember ((meta_a ++ nm ++ meta_b) ++ w ++ 34 :: 62 :: after) as l eqn:El.
    assert (Hm : meta_match_here l = Some (length (meta_a ++ nm ++ meta_b), w, after)) by (rewrite El; apply meta_match_here_complete; assumption).
    assert (Hf : meta_find l [] = Some ([], length (meta_a ++ nm ++ meta_b), w, after, l)).
    { destruct l as [|c r]; cbn [meta_find]; rewrite Hm; reflexivity. }
    rewrite Hf, Hpw. change javadoc_date_cmp with CLt. cbv iota. rewrite Hlw. cbn [app].
    rewrite El. rewrite firstn_app_len. reflexivity. }
  rewrite (G v dd), (G v' dd') by assumption. reflexivity.
Qed.

(* the date written into the tags is the civil date of floor(epoch / 86400) days after 1970-01-01 (UTC) *)
Lemma date_of_unix_utc e d : date_of_unix e = Some d -> d = civil_from_days (e / 86400).
Proof. unfold date_of_unix. destruct (_ && _)%bool; [intros H; injection H as <-; reflexivity | discriminate]. Qed.

(* ---------- whole documents ---------- *)
(* two raw lines (with their terminators) that the loop cannot tell apart while it is inside the header window:
   same validity, same terminator, same text written, same "changed" verdict, same end-of-header verdict *)
Definition line_var (epoch : option Z) (raw raw' : bytes) : Prop :=
  utf8_ok raw = utf8_ok raw' /\ snd (line_eol raw) = snd (line_eol raw') /\
  line_out epoch (fst (line_eol raw)) = line_out epoch (fst (line_eol raw')) /\
  (match process_line epoch (fst (line_eol raw)) with Some _ => true | None => false end) =
  (match process_line epoch (fst (line_eol raw')) with Some _ => true | None => false end) /\
  contains_ci head_end (fst (line_eol raw)) = contains_ci head_end (fst (line_eol raw')).

Lemma line_var_refl epoch raw : line_var epoch raw raw.
Proof. repeat split. Qed.

(* variants of a document: inside the header window the lines are indistinguishable for the loop, after it
   they are identical (nothing is normalised there) *)
Fixpoint doc_var (epoch : option Z) (open : bool) (num : nat) (lines lines' : list bytes) : Prop :=
  match lines, lines' with
  | [], [] => True
  | raw :: r, raw' :: r' =>
      if open then
        line_var epoch raw raw' /\
        doc_var epoch (negb (cmp_N javadoc_window_cmp (N.of_nat (S num)) (N.of_nat javadoc_header_lines) || contains_ci head_end (fst (line_eol raw)))) (S num) r r'
      else raw = raw' /\ doc_var epoch false (S num) r r'
  | _, _ => False
  end.

Lemma jd_loop_variants epoch : forall lines lines' num after_header have_mod acc,
  doc_var epoch (negb after_header) num lines lines' ->
  jd_loop epoch lines num after_header have_mod acc = jd_loop epoch lines' num after_header have_mod acc.
Proof.
  induction lines as [|raw lines IH]; intros [|raw' lines'] num ah hm acc H; cbn [doc_var] in H; try contradiction; [reflexivity|].
  destruct ah; cbn [negb] in H.
  - destruct H as [<- H]. cbn [jd_loop]. destruct (negb (utf8_ok raw)); [reflexivity|].
    destruct (line_eol raw) as [l eol]. cbn [negb andb]. apply IH. exact H.
  - destruct H as [(Hu & He & Ho & Hc & Hh) H]. cbn [jd_loop]. rewrite <- Hu. destruct (negb (utf8_ok raw)); [reflexivity|].
    destruct (line_eol raw) as [l eol] eqn:E1. destruct (line_eol raw') as [l' eol'] eqn:E2. cbn [fst snd] in *. subst eol'.
    unfold line_out in Ho. rewrite <- Hh.
    assert (Eout : match process_line epoch l with Some l2 => l2 | None => l end = match process_line epoch l' with Some l2 => l2 | None => l' end) by exact Ho.
    assert (Emod : (hm || match process_line epoch l with Some _ => true | None => false end)%bool = (hm || match process_line epoch l' with Some _ => true | None => false end)%bool) by (rewrite Hc; reflexivity).
    rewrite <- Eout, <- Emod. cbn [negb andb].
    destruct (cmp_N javadoc_window_cmp (N.of_nat (S num)) (N.of_nat javadoc_header_lines) || contains_ci head_end l)%bool; cbn [negb] in H.
    + destruct (hm || _)%bool; [apply IH; exact H | reflexivity].
    + apply IH. exact H.
Qed.

(* two documents that are variants of each other in this sense and of which one is rewritten come out identical *)
Theorem javadoc_variants epoch x x' y hm y' hm' :
  doc_var epoch true 0 (split_lines x []) (split_lines x' []) ->
  javadoc_process epoch x = Ok (y, hm) -> javadoc_process epoch x' = Ok (y', hm') -> hm = true -> y = y' /\ hm' = true.
Proof.
  intros Hv H H' Hm. unfold javadoc_process in *.
  rewrite <- (jd_loop_variants epoch _ _ 0 false false [] Hv) in H'.
  destruct (jd_loop epoch (split_lines x []) 0 false false []) as [[z b]|].
  - injection H as <- <-. injection H' as <- <-. split; [reflexivity | exact Hm].
  - injection H as _ <-. discriminate Hm.
Qed.
