(* JavadocIdem.v — C07 (javadoc): a header line that was rewritten is left alone by a second pass. *)
From AD Require Import Bytes Outcome Gen Date Walk Javadoc JavadocProofs JavadocVariants StripIdem JavadocDate.
Local Arguments firstn : simpl never.
Local Arguments skipn : simpl never.

(* ---------- small list facts ---------- *)

Lemma ends_split {A} (a' m A0 : list A) (c : A) : a' ++ m = A0 ++ [c] -> m <> [] -> exists m0, m = m0 ++ [c].
Proof.
  intros E Hm. destruct (exists_last Hm) as (m0 & x & ->). exists m0.
  rewrite app_assoc in E. apply app_inj_tail in E. destruct E as [_ ->]. reflexivity.
Qed.

Definition Hd : bytes := stamp_head ++ [32].

Lemma Hd_no_quote : ~ In 34 Hd.
Proof. cbv. intuition discriminate. Qed.

(* ---------- replacing the value of a meta tag keeps a line free of stamps ---------- *)
(* A: everything up to and including the opening quote of the value; B: the closing quote, '>' and the rest *)
Lemma inert_value_swap (A0 v v' after : bytes) :
  v' <> [] -> ~ In 60 v' -> ~ In 62 v' ->
  inert ((A0 ++ [34]) ++ v ++ 34 :: 62 :: after) -> inert ((A0 ++ [34]) ++ v' ++ 34 :: 62 :: after).
Proof.
  intros Hne H60 H62 Hi a' b' E.
  destruct (stamp_match b') as [[v0 rest0]|] eqn:Em; [exfalso|reflexivity].
  destruct (stamp_match_spec _ _ _ Em) as (Eb & Hv0 & Hnv0).
  set (A := A0 ++ [34]) in *. set (B := 34 :: 62 :: after) in *.
  apply app_eq_app in E. destruct E as (m & [[Ea Eb'] | [Ea Eb']]).
  - (* the match starts inside A (or right at its end) *)
    assert (Hmm : m = [] \/ m <> []) by (destruct m; [left; reflexivity | right; discriminate]).
    destruct Hmm as [-> | Hm].
    + (* at the end of A: b' = v' ++ B starts with a byte of v', not with '<' *)
      cbn [app] in Eb'. destruct v' as [|x v'']; [contradiction|]. rewrite Eb in Eb'. cbn in Eb'. injection Eb' as Ex _.
      apply H60. left. first [exact Ex | symmetry; exact Ex].
    + destruct (ends_split a' m A0 34 (eq_sym Ea) Hm) as (m0 & Em0).
      rewrite Em0 in Eb'. rewrite Eb in Eb'.
      change (stamp_head ++ [32] ++ v0 ++ stamp_tail ++ rest0) with (stamp_head ++ ([32] ++ v0 ++ stamp_tail ++ rest0)) in Eb'.
      rewrite (app_assoc stamp_head [32]) in Eb'. fold Hd in Eb'.
      apply app_eq_app in Eb'. destruct Eb' as (l & [[E1 E2] | [E1 E2]]).
      * (* Hd = (m0 ++ [34]) ++ l: a quote inside the stamp's fixed text *)
        apply Hd_no_quote. rewrite E1. apply in_or_app. left. apply in_or_app. right. left. reflexivity.
      * (* m = Hd ++ l *)
        destruct (index_of 62 l) as [j|] eqn:Ej.
        -- destruct (index_of_spec _ _ _ Ej) as (El & Hnl & _).
           set (l1 := firstn j l) in *. set (l2 := skipn (S j) l) in *.
           assert (E3 : l1 ++ 62 :: (l2 ++ v' ++ B) = (v0 ++ [32; 45; 45]) ++ 62 :: rest0).
           { transitivity (l ++ v' ++ B); [rewrite El at 1; rewrite <- app_assoc; reflexivity | rewrite <- E2; unfold stamp_tail; rewrite <- !app_assoc; reflexivity]. }
           assert (Hy : ~ In 62 (v0 ++ [32; 45; 45])).
           { intros H. apply in_app_or in H. destruct H as [H|H]; [exact (Hnv0 H) | cbn in H; intuition discriminate]. }
           destruct (app_gt_inj _ _ _ _ Hnl Hy E3) as [E4 E5].
           (* the same stamp is in the line before the swap *)
           assert (Er1 : A ++ v ++ B = a' ++ (stamp_head ++ [32] ++ v0 ++ stamp_tail ++ (l2 ++ v ++ B))).
           { rewrite Ea. rewrite Em0, E1. rewrite El. fold l1. rewrite E4. unfold Hd, stamp_tail. rewrite <- !app_assoc. reflexivity. }
           specialize (Hi a' _ Er1). rewrite stamp_match_complete in Hi by assumption. discriminate Hi.
        -- pose proof (index_of_none_notin _ _ Ej) as Hnl.
           assert (E3 : (l ++ v' ++ [34]) ++ 62 :: after = (v0 ++ [32; 45; 45]) ++ 62 :: rest0).
           { transitivity (l ++ v' ++ B); [unfold B; rewrite <- !app_assoc; reflexivity | rewrite <- E2; unfold stamp_tail; rewrite <- !app_assoc; reflexivity]. }
           assert (Hx : ~ In 62 (l ++ v' ++ [34])).
           { intros H. apply in_app_or in H. destruct H as [H|H]; [exact (Hnl H)|]. apply in_app_or in H. destruct H as [H|H]; [exact (H62 H) | cbn in H; intuition discriminate]. }
           assert (Hy : ~ In 62 (v0 ++ [32; 45; 45])).
           { intros H. apply in_app_or in H. destruct H as [H|H]; [exact (Hnv0 H) | cbn in H; intuition discriminate]. }
           destruct (app_gt_inj _ _ _ _ Hx Hy E3) as [E4 _].
           change (v0 ++ [32; 45; 45]) with (v0 ++ [32; 45] ++ [45]) in E4. rewrite !app_assoc in E4.
           apply app_inj_tail in E4. destruct E4 as [_ E4]. discriminate E4.
  - (* the match starts after A *)
    apply app_eq_app in Eb'. destruct Eb' as (m2 & [[E1 E2] | [E1 E2]]).
    + (* inside v' (or at its end, in which case it starts with the quote) *)
      destruct m2 as [|x m2'].
      * cbn [app] in E2. rewrite Eb in E2. cbn in E2. discriminate E2.
      * rewrite Eb in E2. cbn in E2. injection E2 as Ex _. apply H60. rewrite E1. apply in_or_app. right. left. first [exact Ex | symmetry; exact Ex].
    + (* inside B: the same suffix exists before the swap *)
      assert (Er1 : A ++ v ++ B = (A ++ v ++ m2) ++ b') by (rewrite E2, <- !app_assoc; reflexivity).
      specialize (Hi _ _ Er1). rewrite Hi in Em. discriminate Em.
Qed.

(* ---------- prefix tests and searches that do not look past a given point ---------- *)
Lemma sw_ci_app pre : forall tag X, starts_with_ci pre tag = true -> starts_with_ci pre (tag ++ X) = true.
Proof.
  induction pre as [|a pre IH]; intros tag X H; [reflexivity|].
  destruct tag as [|b tag]; [discriminate|]. cbn [app starts_with_ci] in *.
  apply andb_prop in H. destruct H as [H1 H2]. rewrite H1, (IH _ _ H2). reflexivity.
Qed.

Lemma sw_ci_long pre : forall R Y, (length pre <= length R)%nat -> starts_with_ci pre (R ++ Y) = starts_with_ci pre R.
Proof.
  induction pre as [|a pre IH]; intros R Y H; [reflexivity|].
  destruct R as [|b R]; [cbn in H; lia|]. cbn [app starts_with_ci]. rewrite IH by (cbn [length] in H; lia). reflexivity.
Qed.

(* a pattern without '<' (in either case) does not match where a '<' stands *)
Lemma sw_ci_short t0 X : lower t0 = 60 -> forall p2 pre, Forall (fun x => lower x <> 60) pre -> (length p2 < length pre)%nat ->
  starts_with_ci pre (p2 ++ t0 :: X) = false.
Proof.
  intros Ht. induction p2 as [|c p2 IH]; intros pre Hp Hl.
  - destruct pre as [|a pre]; [cbn in Hl; lia|]. cbn [app starts_with_ci]. inversion Hp as [|? ? Ha _]; subst.
    rewrite Ht. destruct (N.eqb_spec (lower a) 60) as [E|_]; [contradiction | reflexivity].
  - destruct pre as [|a pre]; [cbn in Hl; lia|]. cbn [app starts_with_ci]. inversion Hp as [|? ? _ Hp']; subst.
    rewrite IH by (try exact Hp'; cbn [length] in Hl; lia). apply andb_false_r.
Qed.

Lemma index_of_app_some c : forall S Y j, index_of c S = Some j -> index_of c (S ++ Y) = Some j.
Proof.
  induction S as [|b S IH]; intros Y j H; [discriminate|]. cbn [app index_of] in *.
  destruct (b =? c); [exact H|]. destruct (index_of c S) as [k|]; [|discriminate]. rewrite (IH Y k eq_refl). exact H.
Qed.

Definition mpre (nm : bytes) : bytes := meta_a ++ nm ++ meta_b.

(* a tag prefix in any letter case, followed by a value without quote, a quote and '>' *)
Lemma meta_try_tag nm tag w after : starts_with_ci (mpre nm) tag = true -> length tag = length (mpre nm) ->
  w <> [] -> ~ In 34 w -> meta_try nm (tag ++ w ++ 34 :: 62 :: after) = Some (length (mpre nm), w, after).
Proof.
  intros Hs Hl Hw Hn. unfold meta_try. fold (mpre nm). rewrite (sw_ci_app _ _ _ Hs).
  rewrite <- Hl. rewrite skipn_app, skipn_all, Nat.sub_diag. cbn [app]. change (skipn 0 ?l) with l.
  rewrite index_of_app_notin by exact Hn.
  assert (Hlw : (1 <= length w)%nat) by (destruct w; [contradiction | cbn; lia]).
  replace (1 <=? length w)%nat with true by (symmetry; apply Nat.leb_le; lia).
  replace (S (length w)) with (length (w ++ [34])) by (rewrite app_length; cbn [length]; lia).
  replace (w ++ 34 :: 62 :: after) with ((w ++ [34]) ++ 62 :: after) at 1 by (rewrite <- app_assoc; reflexivity).
  rewrite skipn_app, skipn_all, Nat.sub_diag. cbn [app]. change (skipn 0 ?l) with l.
  rewrite firstn_app_len. reflexivity.
Qed.

(* whether the tag pattern fails at a position is decided by the text up to one byte past the first quote
   that follows the pattern *)
Lemma meta_try_ext nm R Y Y' j : (length (mpre nm) <= length R)%nat ->
  index_of 34 (skipn (length (mpre nm)) R) = Some j -> (S j < length (skipn (length (mpre nm)) R))%nat ->
  meta_try nm (R ++ Y) = None -> meta_try nm (R ++ Y') = None.
Proof.
  intros HL Hj Hlt. unfold meta_try. fold (mpre nm). rewrite !sw_ci_long by exact HL.
  destruct (starts_with_ci (mpre nm) R); [|reflexivity].
  rewrite !skipn_app. replace (length (mpre nm) - length R)%nat with 0%nat by lia. change (skipn 0 ?l) with l.
  set (S0 := skipn (length (mpre nm)) R) in *.
  rewrite !(index_of_app_some _ _ _ _ Hj).
  destruct (1 <=? j)%nat; [|reflexivity].
  rewrite !skipn_app. replace (S j - length S0)%nat with 0%nat by lia. change (skipn 0 ?l) with l.
  destruct (skipn (S j) S0) as [|g tl0] eqn:Es.
  { exfalso. apply (f_equal (@length N)) in Es. rewrite skipn_length in Es. cbn [length] in Es. lia. }
  cbn [app]. destruct (g =? 62); [discriminate | reflexivity].
Qed.

(* the shape of a matched tag prefix: '<', ten more bytes, a quote, and at least one more byte *)
Lemma tag_shape nm tag : (nm = meta_date \/ nm = meta_dcc) -> starts_with_ci (mpre nm) tag = true ->
  exists c0 T1 t2 T2, tag = (c0 :: T1) ++ 34 :: t2 :: T2 /\ lower c0 = 60 /\ length T1 = 10%nat.
Proof.
  intros Hnm H.
  assert (G : starts_with_ci [60; 109; 101; 116; 97; 32; 110; 97; 109; 101; 61; 34; 100] tag = true).
  { destruct Hnm as [-> | ->]; unfold mpre, meta_a, meta_date, meta_dcc, meta_b in H; cbn [app] in H.
    - revert H. generalize tag. clear. intros tag.
      destruct tag as [|c0 tag]; [intros HH; cbn in HH; repeat (apply andb_prop in HH; destruct HH as [_ HH]); discriminate HH|]. destruct tag as [|c1 tag]; [intros HH; cbn in HH; repeat (apply andb_prop in HH; destruct HH as [_ HH]); discriminate HH|]. destruct tag as [|c2 tag]; [intros HH; cbn in HH; repeat (apply andb_prop in HH; destruct HH as [_ HH]); discriminate HH|]. destruct tag as [|c3 tag]; [intros HH; cbn in HH; repeat (apply andb_prop in HH; destruct HH as [_ HH]); discriminate HH|]. destruct tag as [|c4 tag]; [intros HH; cbn in HH; repeat (apply andb_prop in HH; destruct HH as [_ HH]); discriminate HH|]. destruct tag as [|c5 tag]; [intros HH; cbn in HH; repeat (apply andb_prop in HH; destruct HH as [_ HH]); discriminate HH|]. destruct tag as [|c6 tag]; [intros HH; cbn in HH; repeat (apply andb_prop in HH; destruct HH as [_ HH]); discriminate HH|]. destruct tag as [|c7 tag]; [intros HH; cbn in HH; repeat (apply andb_prop in HH; destruct HH as [_ HH]); discriminate HH|]. destruct tag as [|c8 tag]; [intros HH; cbn in HH; repeat (apply andb_prop in HH; destruct HH as [_ HH]); discriminate HH|]. destruct tag as [|c9 tag]; [intros HH; cbn in HH; repeat (apply andb_prop in HH; destruct HH as [_ HH]); discriminate HH|]. destruct tag as [|c10 tag]; [intros HH; cbn in HH; repeat (apply andb_prop in HH; destruct HH as [_ HH]); discriminate HH|]. destruct tag as [|c11 tag]; [intros HH; cbn in HH; repeat (apply andb_prop in HH; destruct HH as [_ HH]); discriminate HH|]. destruct tag as [|c12 tag]; [intros HH; cbn in HH; repeat (apply andb_prop in HH; destruct HH as [_ HH]); discriminate HH|].
      cbn [starts_with_ci]. intros H. repeat (apply andb_prop in H; destruct H as [?E H]).
      repeat match goal with E : (_ =? _) = true |- _ => rewrite E; clear E end. reflexivity.
    - revert H. generalize tag. clear. intros tag.
      destruct tag as [|c0 tag]; [intros HH; cbn in HH; repeat (apply andb_prop in HH; destruct HH as [_ HH]); discriminate HH|]. destruct tag as [|c1 tag]; [intros HH; cbn in HH; repeat (apply andb_prop in HH; destruct HH as [_ HH]); discriminate HH|]. destruct tag as [|c2 tag]; [intros HH; cbn in HH; repeat (apply andb_prop in HH; destruct HH as [_ HH]); discriminate HH|]. destruct tag as [|c3 tag]; [intros HH; cbn in HH; repeat (apply andb_prop in HH; destruct HH as [_ HH]); discriminate HH|]. destruct tag as [|c4 tag]; [intros HH; cbn in HH; repeat (apply andb_prop in HH; destruct HH as [_ HH]); discriminate HH|]. destruct tag as [|c5 tag]; [intros HH; cbn in HH; repeat (apply andb_prop in HH; destruct HH as [_ HH]); discriminate HH|]. destruct tag as [|c6 tag]; [intros HH; cbn in HH; repeat (apply andb_prop in HH; destruct HH as [_ HH]); discriminate HH|]. destruct tag as [|c7 tag]; [intros HH; cbn in HH; repeat (apply andb_prop in HH; destruct HH as [_ HH]); discriminate HH|]. destruct tag as [|c8 tag]; [intros HH; cbn in HH; repeat (apply andb_prop in HH; destruct HH as [_ HH]); discriminate HH|]. destruct tag as [|c9 tag]; [intros HH; cbn in HH; repeat (apply andb_prop in HH; destruct HH as [_ HH]); discriminate HH|]. destruct tag as [|c10 tag]; [intros HH; cbn in HH; repeat (apply andb_prop in HH; destruct HH as [_ HH]); discriminate HH|]. destruct tag as [|c11 tag]; [intros HH; cbn in HH; repeat (apply andb_prop in HH; destruct HH as [_ HH]); discriminate HH|]. destruct tag as [|c12 tag]; [intros HH; cbn in HH; repeat (apply andb_prop in HH; destruct HH as [_ HH]); discriminate HH|].
      cbn [starts_with_ci]. intros H. repeat (apply andb_prop in H; destruct H as [?E H]).
      repeat match goal with E : (_ =? _) = true |- _ => rewrite E; clear E end. reflexivity. }
  clear H Hnm. revert G.
  destruct tag as [|c0 tag]; [intros HH; cbn in HH; repeat (apply andb_prop in HH; destruct HH as [_ HH]); discriminate HH|]. destruct tag as [|c1 tag]; [intros HH; cbn in HH; repeat (apply andb_prop in HH; destruct HH as [_ HH]); discriminate HH|]. destruct tag as [|c2 tag]; [intros HH; cbn in HH; repeat (apply andb_prop in HH; destruct HH as [_ HH]); discriminate HH|]. destruct tag as [|c3 tag]; [intros HH; cbn in HH; repeat (apply andb_prop in HH; destruct HH as [_ HH]); discriminate HH|]. destruct tag as [|c4 tag]; [intros HH; cbn in HH; repeat (apply andb_prop in HH; destruct HH as [_ HH]); discriminate HH|]. destruct tag as [|c5 tag]; [intros HH; cbn in HH; repeat (apply andb_prop in HH; destruct HH as [_ HH]); discriminate HH|]. destruct tag as [|c6 tag]; [intros HH; cbn in HH; repeat (apply andb_prop in HH; destruct HH as [_ HH]); discriminate HH|]. destruct tag as [|c7 tag]; [intros HH; cbn in HH; repeat (apply andb_prop in HH; destruct HH as [_ HH]); discriminate HH|]. destruct tag as [|c8 tag]; [intros HH; cbn in HH; repeat (apply andb_prop in HH; destruct HH as [_ HH]); discriminate HH|]. destruct tag as [|c9 tag]; [intros HH; cbn in HH; repeat (apply andb_prop in HH; destruct HH as [_ HH]); discriminate HH|]. destruct tag as [|c10 tag]; [intros HH; cbn in HH; repeat (apply andb_prop in HH; destruct HH as [_ HH]); discriminate HH|]. destruct tag as [|c11 tag]; [intros HH; cbn in HH; repeat (apply andb_prop in HH; destruct HH as [_ HH]); discriminate HH|]. destruct tag as [|c12 tag]; [intros HH; cbn in HH; repeat (apply andb_prop in HH; destruct HH as [_ HH]); discriminate HH|].
  cbn [starts_with_ci]. intros H.
  apply andb_prop in H. destruct H as [H0 H]. do 10 (apply andb_prop in H; destruct H as [_ H]).
  apply andb_prop in H. destruct H as [H11 _].
  apply N.eqb_eq in H0, H11. change (lower 60) with 60 in H0. change (lower 34) with 34 in H11.
  assert (E11 : c11 = 34).
  { unfold lower in H11. destruct ((65 <=? c11) && (c11 <=? 90)) eqn:Eb; [|symmetry; exact H11].
    apply andb_prop in Eb. destruct Eb as [Eb _]. apply N.leb_le in Eb. lia. }
  subst c11. exists c0, [c1; c2; c3; c4; c5; c6; c7; c8; c9; c10], c12, tag.
  split; [reflexivity|]. split; [symmetry; exact H0 | reflexivity].
Qed.

(* the two tag names exclude each other *)
Lemma pre_exclusive tag X : starts_with_ci (mpre meta_dcc) tag = true -> starts_with_ci (mpre meta_date) (tag ++ X) = false.
Proof.
  unfold mpre, meta_a, meta_date, meta_dcc, meta_b. cbn [app].
  destruct tag as [|c0 tag]; [intros HH; cbn in HH; repeat (apply andb_prop in HH; destruct HH as [_ HH]); discriminate HH|]. destruct tag as [|c1 tag]; [intros HH; cbn in HH; repeat (apply andb_prop in HH; destruct HH as [_ HH]); discriminate HH|]. destruct tag as [|c2 tag]; [intros HH; cbn in HH; repeat (apply andb_prop in HH; destruct HH as [_ HH]); discriminate HH|]. destruct tag as [|c3 tag]; [intros HH; cbn in HH; repeat (apply andb_prop in HH; destruct HH as [_ HH]); discriminate HH|]. destruct tag as [|c4 tag]; [intros HH; cbn in HH; repeat (apply andb_prop in HH; destruct HH as [_ HH]); discriminate HH|]. destruct tag as [|c5 tag]; [intros HH; cbn in HH; repeat (apply andb_prop in HH; destruct HH as [_ HH]); discriminate HH|]. destruct tag as [|c6 tag]; [intros HH; cbn in HH; repeat (apply andb_prop in HH; destruct HH as [_ HH]); discriminate HH|]. destruct tag as [|c7 tag]; [intros HH; cbn in HH; repeat (apply andb_prop in HH; destruct HH as [_ HH]); discriminate HH|]. destruct tag as [|c8 tag]; [intros HH; cbn in HH; repeat (apply andb_prop in HH; destruct HH as [_ HH]); discriminate HH|]. destruct tag as [|c9 tag]; [intros HH; cbn in HH; repeat (apply andb_prop in HH; destruct HH as [_ HH]); discriminate HH|]. destruct tag as [|c10 tag]; [intros HH; cbn in HH; repeat (apply andb_prop in HH; destruct HH as [_ HH]); discriminate HH|]. destruct tag as [|c11 tag]; [intros HH; cbn in HH; repeat (apply andb_prop in HH; destruct HH as [_ HH]); discriminate HH|]. destruct tag as [|c12 tag]; [intros HH; cbn in HH; repeat (apply andb_prop in HH; destruct HH as [_ HH]); discriminate HH|]. destruct tag as [|c13 tag]; [intros HH; cbn in HH; repeat (apply andb_prop in HH; destruct HH as [_ HH]); discriminate HH|].
  cbn [starts_with_ci app]. intros H. do 13 (apply andb_prop in H; destruct H as [?E H]).
  apply andb_prop in H. destruct H as [H13 _]. apply N.eqb_eq in H13. change (lower 99) with 99 in H13.
  repeat match goal with E : (_ =? _) = true |- _ => rewrite E; clear E end. cbn [andb].
  rewrite <- H13. reflexivity.
Qed.

Lemma mpre_tl_no_lt nm : (nm = meta_date \/ nm = meta_dcc) -> Forall (fun x => lower x <> 60) (tl (mpre nm)).
Proof.
  intros Hnm. apply Forall_forall. intros x Hx.
  assert (G : forallb (fun x => negb (lower x =? 60)) (tl (mpre nm)) = true) by (destruct Hnm as [-> | ->]; reflexivity).
  rewrite forallb_forall in G. specialize (G x Hx). apply negb_true_iff in G. apply N.eqb_neq. exact G.
Qed.

Lemma index_of_in c : forall l, In c l -> exists j, index_of c l = Some j /\ (j < length l)%nat.
Proof.
  induction l as [|b l IH]; intros H; [contradiction|]. cbn [index_of length].
  destruct (N.eqb_spec b c) as [E|E]; [exists 0%nat; split; [reflexivity | lia]|].
  destruct H as [H|H]; [contradiction|]. destruct (IH H) as (j & -> & Hj). exists (S j). split; [reflexivity | lia].
Qed.

(* left of a matched tag: changing the tag's value neither creates nor removes a match of the pattern *)
Lemma meta_try_before nm0 nm tag p2 v v' Q :
  (nm0 = meta_date \/ nm0 = meta_dcc) -> (nm = meta_date \/ nm = meta_dcc) ->
  starts_with_ci (mpre nm0) tag = true -> p2 <> [] ->
  meta_try nm (p2 ++ tag ++ v ++ Q) = None -> meta_try nm (p2 ++ tag ++ v' ++ Q) = None.
Proof.
  intros Hnm0 Hnm Htag Hp2.
  destruct (tag_shape nm0 tag Hnm0 Htag) as (c0 & T1 & t2 & T2 & -> & Hc0 & HT1).
  destruct (Nat.lt_ge_cases (length p2) (length (mpre nm))) as [Hlt|Hge].
  - intros _. unfold meta_try. fold (mpre nm).
    destruct p2 as [|c p2']; [contradiction|].
    assert (Hpre : exists a pre', mpre nm = a :: pre') by (destruct Hnm as [-> | ->]; eexists _, _; reflexivity).
    destruct Hpre as (a & pre' & Epre). pose proof (mpre_tl_no_lt nm Hnm) as Hf. rewrite Epre in Hf, Hlt |- *. cbn [tl] in Hf.
    cbn [app starts_with_ci].
    rewrite <- app_assoc. cbn [app].
    rewrite (sw_ci_short c0 _ Hc0 p2' pre' Hf) by (cbn [length] in Hlt; lia).
    rewrite andb_false_r. reflexivity.
  - set (T := c0 :: T1) in *.
    replace (p2 ++ (T ++ 34 :: t2 :: T2) ++ v ++ Q) with ((p2 ++ T ++ [34; t2]) ++ T2 ++ v ++ Q) by (rewrite <- !app_assoc; reflexivity).
    replace (p2 ++ (T ++ 34 :: t2 :: T2) ++ v' ++ Q) with ((p2 ++ T ++ [34; t2]) ++ T2 ++ v' ++ Q) by (rewrite <- !app_assoc; reflexivity).
    set (L := length (mpre nm)) in *.
    assert (Es : skipn L (p2 ++ T ++ [34; t2]) = (skipn L p2 ++ T ++ [34]) ++ [t2]).
    { rewrite skipn_app. replace (L - length p2)%nat with 0%nat by lia. change (skipn 0 ?l) with l. rewrite <- !app_assoc. reflexivity. }
    destruct (index_of_in 34 (skipn L p2 ++ T ++ [34])) as (j & Ej & Hj).
    { apply in_or_app. right. apply in_or_app. right. left. reflexivity. }
    apply (meta_try_ext nm _ _ _ j).
    + rewrite !app_length. lia.
    + fold L. rewrite Es. apply index_of_app_some. exact Ej.
    + fold L. rewrite Es. rewrite app_length. cbn [length]. lia.
Qed.

Lemma meta_match_here_none l : meta_match_here l = None <-> meta_try meta_date l = None /\ meta_try meta_dcc l = None.
Proof.
  unfold meta_match_here. destruct (meta_try meta_date l); [split; [discriminate | intros [H _]; discriminate H]|].
  split; [auto | intros [_ H]; exact H].
Qed.

(* ---------- the leftmost match ---------- *)
Lemma meta_find_leftmost : forall l acc before n v after here,
  meta_find l acc = Some (before, n, v, after, here) ->
  exists pre, before = rev acc ++ pre /\ l = pre ++ here /\ meta_match_here here = Some (n, v, after) /\
              forall p1 p2, pre = p1 ++ p2 -> p2 <> [] -> meta_match_here (p2 ++ here) = None.
Proof.
  induction l as [|c r IH]; intros acc before n v after here H; cbn [meta_find] in H.
  - destruct (meta_match_here []) as [[[n' v'] a']|] eqn:Em; [|discriminate].
    injection H as <- <- <- <- <-. exists []. rewrite frev_rev, app_nil_r. split; [reflexivity|]. split; [reflexivity|]. split; [exact Em|].
    intros p1 p2 E Hp. symmetry in E. apply app_eq_nil in E. destruct E as [_ ->]. contradiction.
  - destruct (meta_match_here (c :: r)) as [[[n' v'] a']|] eqn:Em.
    + injection H as <- <- <- <- <-. exists []. rewrite frev_rev, app_nil_r. split; [reflexivity|]. split; [reflexivity|]. split; [exact Em|].
      intros p1 p2 E Hp. symmetry in E. apply app_eq_nil in E. destruct E as [_ ->]. contradiction.
    + destruct (IH _ _ _ _ _ _ H) as (pre & Eb & El & Hm & Hleft).
      exists (c :: pre). split; [rewrite Eb; cbn [rev]; rewrite <- app_assoc; reflexivity|].
      split; [rewrite El; reflexivity|]. split; [exact Hm|].
      intros p1 p2 E Hp. destruct p1 as [|x p1]; cbn [app] in E.
      * subst p2. cbn [app]. rewrite <- El. exact Em.
      * injection E as _ E. apply (Hleft p1 p2 E Hp).
Qed.

Lemma meta_find_intro : forall pre acc here n v after,
  (forall p1 p2, pre = p1 ++ p2 -> p2 <> [] -> meta_match_here (p2 ++ here) = None) ->
  meta_match_here here = Some (n, v, after) ->
  meta_find (pre ++ here) acc = Some (rev acc ++ pre, n, v, after, here).
Proof.
  induction pre as [|c pre IH]; intros acc here n v after Hleft Hm.
  - cbn [app]. rewrite app_nil_r. destruct here as [|h0 here']; cbn [meta_find]; rewrite Hm, frev_rev; reflexivity.
  - cbn [app meta_find]. pose proof (Hleft [] (c :: pre) eq_refl ltac:(discriminate)) as H0. cbn [app] in H0. rewrite H0.
    rewrite (IH (c :: acc) here n v after); [cbn [rev]; rewrite <- app_assoc; reflexivity | | exact Hm].
    intros p1 p2 E Hp. apply (Hleft (c :: p1) p2); [cbn [app]; rewrite E; reflexivity | exact Hp].
Qed.

Lemma sw_ci_last : forall pre a tag, starts_with_ci (pre ++ [a]) tag = true -> length tag = S (length pre) ->
  exists tag0 b, tag = tag0 ++ [b] /\ lower a = lower b.
Proof.
  induction pre as [|x pre IH]; intros a tag H Hl.
  - destruct tag as [|b [|? ?]]; try discriminate. cbn [app starts_with_ci] in H. apply andb_prop in H. destruct H as [H _].
    apply N.eqb_eq in H. exists [], b. split; [reflexivity | exact H].
  - destruct tag as [|y tag]; [discriminate|]. cbn [app starts_with_ci] in H. apply andb_prop in H. destruct H as [_ H].
    destruct (IH a tag H ltac:(cbn [length] in Hl; lia)) as (tag0 & b & -> & E). exists (y :: tag0), b. split; [reflexivity | exact E].
Qed.

Lemma tag_ends_with_quote nm tag : (nm = meta_date \/ nm = meta_dcc) ->
  starts_with_ci (mpre nm) tag = true -> length tag = length (mpre nm) -> exists tag0, tag = tag0 ++ [34].
Proof.
  intros Hnm H Hl.
  assert (E : mpre nm = removelast (mpre nm) ++ [34]) by (destruct Hnm as [-> | ->]; reflexivity).
  rewrite E in H. destruct (sw_ci_last _ _ _ H) as (tag0 & b & -> & Eb).
  { rewrite Hl. rewrite E at 1. rewrite app_length. cbn [length]. lia. }
  exists tag0. f_equal. f_equal. change (lower 34) with 34 in Eb.
  unfold lower in Eb. destruct ((65 <=? b) && (b <=? 90)) eqn:Ec; [|symmetry; exact Eb].
  apply andb_prop in Ec. destruct Ec as [Ec _]. apply N.leb_le in Ec. lia.
Qed.

(* ---------- the date pass: what it wrote it leaves alone, and it plants no stamp ---------- *)
Theorem meta_rewrite_stable e d l : (0 <= e < 4294967296)%Z -> date_of_unix e = Some d -> inert l ->
  meta_rewrite d (meta_rewrite d l) = meta_rewrite d l /\ inert (meta_rewrite d l).
Proof.
  intros He Hd Hi.
  destruct (date_written_reads_back e d He Hd) as (Hparse & Hlt & Hq & H60 & H62 & Hne & _).
  assert (Hsame : meta_rewrite d l = l -> meta_rewrite d (meta_rewrite d l) = meta_rewrite d l /\ inert (meta_rewrite d l)).
  { intros E. rewrite !E. split; [reflexivity | exact Hi]. }
  destruct (meta_find l []) as [[[[[before n] v] after] here]|] eqn:Ef.
  2: { apply Hsame. unfold meta_rewrite. rewrite Ef. reflexivity. }
  destruct (parse_ymd v) as [dd|] eqn:Ep.
  2: { apply Hsame. unfold meta_rewrite. rewrite Ef, Ep. reflexivity. }
  destruct (date_ltb d dd) eqn:El.
  2: { apply Hsame. unfold meta_rewrite. change javadoc_date_cmp with CLt. cbv iota. rewrite Ef, Ep, El. reflexivity. }
  clear Hsame.
  assert (E1 : meta_rewrite d l = before ++ firstn n here ++ fmt_date d ++ [34; 62] ++ after).
  { unfold meta_rewrite. change javadoc_date_cmp with CLt. cbv iota. rewrite Ef, Ep, El. reflexivity. }
  rewrite !E1. clear E1.
  destruct (meta_find_leftmost _ _ _ _ _ _ _ Ef) as (pre & Eb & Ell & Hm & Hleft). cbn [rev app] in Eb. subst before.
  assert (Hsp : exists nm, (nm = meta_date \/ nm = meta_dcc) /\ meta_try nm here = Some (n, v, after)).
  { unfold meta_match_here in Hm. destruct (meta_try meta_date here) as [r|] eqn:E1; [injection Hm as ->; exists meta_date; auto | exists meta_dcc; auto]. }
  destruct Hsp as (nm & Hnm & Ht).
  destruct (meta_try_spec _ _ _ _ _ Ht) as (Eh & Hv & Hvq & Hci & Hlen). fold (mpre nm) in Hci, Hlen.
  set (tag := firstn n here) in *. set (v' := fmt_date d) in *.
  set (here' := tag ++ v' ++ 34 :: 62 :: after).
  assert (El' : pre ++ tag ++ v' ++ [34; 62] ++ after = pre ++ here') by reflexivity.
  rewrite El'.
  (* the tag is still the leftmost match, now with the epoch's date as value *)
  assert (Hm' : meta_match_here here' = Some (length (mpre nm), v', after)).
  { unfold meta_match_here, here'. destruct Hnm as [-> | ->].
    - rewrite meta_try_tag by assumption. reflexivity.
    - assert (E0 : meta_try meta_date (tag ++ v' ++ 34 :: 62 :: after) = None).
      { unfold meta_try. fold (mpre meta_date). rewrite (pre_exclusive tag _ Hci). reflexivity. }
      rewrite E0. apply meta_try_tag; assumption. }
  assert (Hleft' : forall p1 p2, pre = p1 ++ p2 -> p2 <> [] -> meta_match_here (p2 ++ here') = None).
  { intros p1 p2 E Hp. specialize (Hleft p1 p2 E Hp). apply meta_match_here_none in Hleft. destruct Hleft as [N1 N2].
    rewrite Eh in N1, N2. apply meta_match_here_none. unfold here'.
    split; [apply (meta_try_before nm meta_date tag p2 v v' _ Hnm (or_introl eq_refl) Hci Hp N1)
           | apply (meta_try_before nm meta_dcc tag p2 v v' _ Hnm (or_intror eq_refl) Hci Hp N2)]. }
  split.
  - unfold meta_rewrite. change javadoc_date_cmp with CLt. cbv iota.
    rewrite (meta_find_intro pre [] here' _ _ _ Hleft' Hm'). fold v'. rewrite Hparse, Hlt. reflexivity.
  - destruct (tag_ends_with_quote nm tag Hnm Hci Hlen) as (tag0 & Etag).
    replace (pre ++ here') with (((pre ++ tag0) ++ [34]) ++ v' ++ 34 :: 62 :: after) by (unfold here'; rewrite Etag, <- !app_assoc; reflexivity).
    apply (inert_value_swap (pre ++ tag0) v v' after Hne H60 H62).
    replace (((pre ++ tag0) ++ [34]) ++ v ++ 34 :: 62 :: after) with l; [exact Hi|].
    rewrite Ell. rewrite Eh at 1. fold tag. rewrite Etag, <- !app_assoc. reflexivity.
Qed.

(* ---------- C07, javadoc: a header line the handler has rewritten is left alone by a second pass ---------- *)
Theorem process_line_idempotent epoch l l' :
  (forall e, epoch = Some e -> (0 <= e < 4294967296)%Z) ->
  process_line epoch l = Some l' -> process_line epoch l' = None.
Proof.
  intros He H.
  assert (Hl' : l' = after_strip epoch (strip_stamps (length l) l)).
  { pose proof (line_out_after_strip epoch l) as E. unfold line_out in E. rewrite H in E. exact E. }
  set (r1 := strip_stamps (length l) l) in *.
  assert (Hi1 : inert r1) by (apply strip_makes_inert, le_n).
  assert (G : inert l' /\ after_strip epoch l' = l').
  { rewrite Hl'. unfold after_strip. destruct epoch as [e|]; [|split; [exact Hi1 | reflexivity]].
    destruct (date_of_unix e) as [d|] eqn:Ed; [|split; [exact Hi1 | reflexivity]].
    destruct (meta_rewrite_stable e d r1 (He e eq_refl) Ed Hi1) as [A B]. split; [exact B | exact A]. }
  destruct G as [Hi' Hs'].
  assert (E : line_out epoch l' = l').
  { rewrite line_out_after_strip. rewrite (strip_inert _ _ Hi'). exact Hs'. }
  unfold line_out in E. destruct (process_line epoch l') as [x|] eqn:Ex; [|reflexivity].
  exfalso. unfold process_line in Ex.
  match type of Ex with (if bytes_eqb ?a ?b then _ else _) = _ => destruct (bytes_eqb a b) eqn:Eq; [discriminate|] end.
  injection Ex as Ex. apply bytes_eqb_neq in Eq. apply Eq. rewrite Ex. exact E.
Qed.
