(* Fs.v — abstract POSIX file-system state and the operations the tool issues.
   Names and inodes are total maps (functions); states are compared through observations. *)
From AD Require Import Bytes.

Definition path := bytes.
Definition path_eqb (a b : path) : bool := bytes_eqb a b.

Inductive kind := KReg | KDir | KLnk | KSpecial.

Record inode := mk_inode {
  i_kind : kind;
  i_data : bytes;
  i_mode : N;          (* permission bits 0..07777 *)
  i_uid : N;
  i_gid : N;
  i_mtime : Z;         (* nanoseconds *)
  i_nlink : N
}.

Record fs := mk_fs {
  names : path -> option N;      (* directory entries: full path -> inode number (no dereferencing) *)
  inodes : N -> option inode;
  next_ino : N                   (* every inode number >= next_ino is unused *)
}.

(* the caller: umask, identity, privilege, the clock *)
Record env := mk_env { e_umask : N; e_uid : N; e_gid : N; e_can_chown : bool; e_now : Z }.

Inductive errno := ENOENT | EEXIST | EPERM | EACCES | ENOSPC | EIO | EOTHER.

Definition set_name (f : fs) (p : path) (v : option N) : fs :=
  mk_fs (fun q => if path_eqb q p then v else names f q) (inodes f) (next_ino f).
Definition set_inode (f : fs) (i : N) (v : option inode) : fs :=
  mk_fs (names f) (fun j => if j =? i then v else inodes f j) (next_ino f).

Definition upd_inode (f : fs) (i : N) (g : inode -> inode) : fs :=
  match inodes f i with
  | Some n => set_inode f i (Some (g n))
  | None => f
  end.

Definition with_data (d : bytes) (n : inode) := mk_inode (i_kind n) d (i_mode n) (i_uid n) (i_gid n) (i_mtime n) (i_nlink n).
Definition with_mode (m : N) (n : inode) := mk_inode (i_kind n) (i_data n) m (i_uid n) (i_gid n) (i_mtime n) (i_nlink n).
Definition with_owner (u g : N) (n : inode) := mk_inode (i_kind n) (i_data n) (i_mode n) u g (i_mtime n) (i_nlink n).
Definition with_mtime (t : Z) (n : inode) := mk_inode (i_kind n) (i_data n) (i_mode n) (i_uid n) (i_gid n) t (i_nlink n).
Definition with_nlink (k : N) (n : inode) := mk_inode (i_kind n) (i_data n) (i_mode n) (i_uid n) (i_gid n) (i_mtime n) k.

(* the kernel's chown rule for non-directories: S_ISUID is cleared, S_ISGID is cleared when S_IXGRP is set *)
Definition kill_setid (k : kind) (m : N) : N :=
  match k with
  | KDir => m
  | _ => let m1 := N.land m (N.lxor 4095 2048) in                 (* clear 04000 *)
         if N.testbit m 3 then N.land m1 (N.lxor 4095 1024) else m1   (* clear 02000 if 00010 *)
  end.

(* ---- the operations (fd-based ones address the inode they were opened on) ---- *)
Inductive op :=
| OOpenRead (p : path)                      (* File::open *)
| OFstat (i : N)
| OCreateExcl (p : path)                    (* O_CREAT|O_EXCL|O_RDWR, mode 0666 & ~umask *)
| OOpenDevNull
| OUnlink (p : path)
| OWrite (i : N) (off : nat) (d : bytes)    (* pwrite-like: overwrite/extend from offset off *)
| OFchmod (i : N) (m : N)
| OFutimens (i : N) (t : Z)
| OLchown (p : path) (u g : N)
| ORename (src dst : path)
| OOpenWrite (p : path)                     (* O_WRONLY, no truncation *)
| OTruncate (i : N) (len : nat).

Definition is_mutating (o : op) : bool :=
  match o with
  | OOpenRead _ | OFstat _ | OOpenDevNull | OOpenWrite _ => false
  | _ => true
  end.

Definition write_at (old : bytes) (off : nat) (d : bytes) : bytes :=
  firstn off old ++ d ++ skipn (off + length d) old.

(* apply one operation; result Some f' on success, None (with errno) on failure; failures change nothing *)
Definition apply_op (e : env) (f : fs) (o : op) : fs * option errno :=
  match o with
  | OOpenRead p | OOpenWrite p =>
      match names f p with Some _ => (f, None) | None => (f, Some ENOENT) end
  | OFstat _ | OOpenDevNull => (f, None)
  | OCreateExcl p =>
      match names f p with
      | Some _ => (f, Some EEXIST)
      | None =>
          let i := next_ino f in
          let n := mk_inode KReg [] (N.land 438 (N.lxor 4095 (e_umask e))) (e_uid e) (e_gid e) (e_now e) 1 in
          (mk_fs (fun q => if path_eqb q p then Some i else names f q)
                 (fun j => if j =? i then Some n else inodes f j)
                 (N.succ i), None)
      end
  | OUnlink p =>
      match names f p with
      | None => (f, Some ENOENT)
      | Some i => (upd_inode (set_name f p None) i (fun n => with_nlink (N.pred (i_nlink n)) n), None)
      end
  | OWrite i off d => (upd_inode f i (fun n => with_data (write_at (i_data n) off d) n), None)
  | OFchmod i m => (upd_inode f i (with_mode m), None)
  | OFutimens i t => (upd_inode f i (with_mtime t), None)
  | OLchown p u g =>
      match names f p with
      | None => (f, Some ENOENT)
      | Some i =>
          match inodes f i with
          | None => (f, Some ENOENT)
          | Some n =>
              if e_can_chown e || ((u =? i_uid n) && (g =? i_gid n) && (i_uid n =? e_uid e))
              then (set_inode f i (Some (with_mode (kill_setid (i_kind n) (i_mode n)) (with_owner u g n))), None)
              else (f, Some EPERM)
          end
      end
  | ORename src dst =>
      match names f src with
      | None => (f, Some ENOENT)
      | Some i =>
          let f1 := match names f dst with
                    | Some j => if j =? i then f else upd_inode f j (fun n => with_nlink (N.pred (i_nlink n)) n)
                    | None => f
                    end in
          (set_name (set_name f1 dst (Some i)) src None, None)
      end
  | OTruncate i len => (upd_inode f i (fun n => with_data (firstn len (i_data n)) n), None)
  end.

Fixpoint apply_ops (e : env) (f : fs) (l : list op) : fs :=
  match l with
  | [] => f
  | o :: r => apply_ops e (fst (apply_op e f o)) r
  end.

(* what can be observed at a path without following links: inode number and inode *)
Definition obs (f : fs) (p : path) : option (N * inode) :=
  match names f p with
  | Some i => match inodes f i with Some n => Some (i, n) | None => None end
  | None => None
  end.

(* observation that forgets the inode number *)
Definition obs_node (f : fs) (p : path) : option inode :=
  match obs f p with Some (_, n) => Some n | None => None end.

(* invariant: bound names point to allocated inodes below next_ino *)
Definition fs_wf (f : fs) : Prop :=
  (forall p i, names f p = Some i -> i < next_ino f /\ inodes f i <> None) /\
  (forall i, next_ino f <= i -> inodes f i = None).
