(* PycProofs.v — facts about Pyc.pyc_process that need no reasoning about the token stream. *)
From AD Require Import Bytes Outcome Gen PycHeader PycHeaderProofs Marshal Pyc.

Local Arguments firstn : simpl never.
Local Arguments skipn : simpl never.

(* what the handler returns is determined by the header bytes and the parsed tree *)
Lemma pyc_process_shape x y hm :
  pyc_process x = Ok (y, hm) ->
  exists ver hl, pyc_header x = Ok (ver, hl) /\
    ((ver_ltb ver pyc_skip_below = true /\ y = x /\ hm = false) \/
     (ver_ltb ver pyc_skip_below = false /\
      exists v rest r, parse ver (S (length (skipn hl x))) 0 (skipn hl x) [] = Ok (v, rest, r) /\
                       y = firstn hl x ++ to_buffer (code_layout ver) v /\ hm = negb (bytes_eqb y x))).
Proof.
  unfold pyc_process. destruct (pyc_header x) as [[ver hl]| | |] eqn:Eh; try discriminate.
  destruct (ver_ltb ver pyc_skip_below) eqn:Ev.
  - intros H. assert (y = x /\ hm = false) as [-> ->] by (split; congruence). exists ver, hl. split; [reflexivity|]. left. auto.
  - destruct (parse ver (S (length (skipn hl x))) 0 (skipn hl x) []) as [[[v rest] r]| | |] eqn:Ep; try discriminate.
    intros H. exists ver, hl. split; [reflexivity|]. right. split; [exact Ev|]. exists v, rest, r. split; [exact Ep|].
    split; congruence.
Qed.

(* C02: the header is copied verbatim *)
Theorem pyc_header_unchanged x y hm ver hl :
  pyc_process x = Ok (y, hm) -> pyc_header x = Ok (ver, hl) -> firstn hl y = firstn hl x /\ (hl <= length x)%nat.
Proof.
  intros H Eh. destruct (pyc_header_len _ _ _ Eh) as (Hl & _).
  destruct (pyc_process_shape _ _ _ H) as (ver' & hl' & Eh' & [(_ & -> & _)|(_ & v & rest & r & _ & -> & _)]).
  - auto.
  - rewrite Eh in Eh'. injection Eh' as <- <-. split; [|exact Hl].
    rewrite firstn_app, firstn_firstn, Nat.min_id, firstn_length, Nat.min_l by exact Hl.
    rewrite Nat.sub_diag. unfold firstn at 2. destruct (to_buffer _ _); apply app_nil_r.
Qed.

(* files older than the regenerated bound (Python < 3.4) are left alone *)
Theorem pyc_old_untouched x ver hl :
  pyc_header x = Ok (ver, hl) -> ver_ltb ver pyc_skip_below = true -> pyc_process x = Ok (x, false).
Proof. intros Eh Ev. unfold pyc_process. rewrite Eh, Ev. reflexivity. Qed.

(* C01 (pyc part): two files with the same header whose payloads the reader turns into the same object tree —
   whatever the placement of reference flags and back-references in each — are rewritten to the same bytes *)
Theorem pyc_same_tree_same_bytes x x' ver hl v rest r rest' r' :
  pyc_header x = Ok (ver, hl) -> pyc_header x' = Ok (ver, hl) -> firstn hl x = firstn hl x' ->
  ver_ltb ver pyc_skip_below = false ->
  parse ver (S (length (skipn hl x))) 0 (skipn hl x) [] = Ok (v, rest, r) ->
  parse ver (S (length (skipn hl x'))) 0 (skipn hl x') [] = Ok (v, rest', r') ->
  exists y hm hm', pyc_process x = Ok (y, hm) /\ pyc_process x' = Ok (y, hm').
Proof.
  intros Eh Eh' Ef Ev Ep Ep'. unfold pyc_process. rewrite Eh, Eh', Ev, Ep, Ep', Ef.
  do 3 eexists. split; reflexivity.
Qed.


(* ---------- the reader never panics (C08) ---------- *)
Definition no_panic {A} (o : outcome A) : Prop := o <> Panic.

Lemma parse_items_np p : (forall rest r, no_panic (p rest r)) ->
  forall fuel count rest r acc, no_panic (parse_items p fuel count rest r acc).
Proof.
  intros Hp. induction fuel as [|f IH]; intros count rest r acc; cbn [parse_items]; destruct (count =? 0); try discriminate.
  specialize (Hp rest r). destruct (p rest r) as [[[v rest'] r']| | |]; try discriminate; [apply IH | contradiction].
Qed.

Lemma parse_dict_np p : (forall rest r, no_panic (p rest r)) ->
  forall fuel rest r acc, no_panic (parse_dict p fuel rest r acc).
Proof.
  intros Hp. induction fuel as [|f IH]; intros rest r acc; cbn [parse_dict]; [discriminate|].
  destruct rest as [|b rest0]; [discriminate|].
  pose proof (Hp (b :: rest0) r) as H1. destruct (p (b :: rest0) r) as [[[k rest1] r1]| | |]; try discriminate; [|contradiction].
  destruct (N.land b (pyc_flag_ref - 1) =? 48); [discriminate|].
  pose proof (Hp rest1 r1) as H2. destruct (p rest1 r1) as [[[v rest2] r2]| | |]; try discriminate; [apply IH | contradiction].
Qed.

Lemma parse_fields_np p : (forall rest r, no_panic (p rest r)) ->
  forall layout rest r ints objs, no_panic (parse_fields p layout rest r ints objs).
Proof.
  intros Hp. induction layout as [|[|] l IH]; intros rest r ints objs; cbn [parse_fields]; [discriminate| |].
  - destruct (take 4 rest) as [[b rest']|]; [apply IH | discriminate].
  - pose proof (Hp rest r) as H1. destruct (p rest r) as [[[v rest'] r']| | |]; try discriminate; [apply IH | contradiction].
Qed.

Theorem parse_never_panics ver : forall fuel depth rest r, no_panic (parse ver fuel depth rest r).
Proof.
  induction fuel as [|f IH]; intros depth rest r; cbn [parse]; [discriminate|].
  destruct (pyc_max_depth <=? depth)%nat; [discriminate|].
  destruct rest as [|b rest0]; [discriminate|].
  set (r0 := if negb (N.land b pyc_flag_ref =? 0) then r ++ [None] else r).
  set (sub := parse ver f (S depth)).
  assert (Hs : forall rest r, no_panic (sub rest r)) by (intros; apply IH).
  match goal with |- no_panic (match ?res with _ => _ end) => assert (Hres : no_panic res) end.
  { repeat match goal with |- no_panic (if ?c then _ else _) => destruct c end; try discriminate.
    - pose proof (parse_fields_np sub Hs (code_layout ver) rest0 r0 [] []) as H. destruct (parse_fields sub (code_layout ver) rest0 r0 [] []) as [[[[i o] rs] rr]| | |]; try discriminate; contradiction.
    - destruct (take 8 rest0) as [[x rs]|]; discriminate.
    - destruct (take 4 rest0) as [[x rs]|]; discriminate.
    - destruct (take 4 rest0) as [[x rs]|]; [|discriminate]. destruct (read_digits _ _ _ _ _) as [[v rs']|]; discriminate.
    - destruct (take 16 rest0) as [[x rs]|]; discriminate.
    - destruct (take 4 rest0) as [[x rs]|]; [|discriminate]. destruct (nth_N r0 _) as [[t|]|]; discriminate.
    - destruct (take _ rest0) as [[x rs]|]; [|discriminate]. destruct (take _ rs) as [[s rs']|]; discriminate.
    - destruct (take 1 rest0) as [[x rs]|]; [|discriminate].
      pose proof (parse_items_np sub Hs f (le_decode x) rs r0 []) as H. destruct (parse_items sub f (le_decode x) rs r0 []) as [[[i rs'] rr]| | |]; try discriminate; contradiction.
    - destruct (take 4 rest0) as [[x rs]|]; [|discriminate].
      pose proof (parse_items_np sub Hs f (le_decode x) rs r0 []) as H. destruct (parse_items sub f (le_decode x) rs r0 []) as [[[i rs'] rr]| | |]; try discriminate; contradiction.
    - pose proof (parse_dict_np sub Hs f rest0 r0 []) as H. destruct (parse_dict sub f rest0 r0 []) as [[[i rs'] rr]| | |]; try discriminate; contradiction.
    - pose proof (Hs rest0 r0) as H1. destruct (sub rest0 r0) as [[[a rs1] r1]| | |]; try discriminate; [|contradiction].
      pose proof (Hs rs1 r1) as H2. destruct (sub rs1 r1) as [[[b' rs2] r2]| | |]; try discriminate; [|contradiction].
      pose proof (Hs rs2 r2) as H3. destruct (sub rs2 r2) as [[[c rs3] r3]| | |]; try discriminate; contradiction. }
  match goal with |- no_panic (match ?res with _ => _ end) => destruct res as [[[v rs] rr]| | |] end; try discriminate. contradiction.
Qed.

Theorem pyc_process_never_panics x : no_panic (pyc_process x).
Proof.
  unfold pyc_process, pyc_header.
  destruct (length x <? 4)%nat; [discriminate|].
  destruct (negb (bytes_eqb (slice 2 4 x) pyc_magic)); [discriminate|].
  destruct (lookup_magic (le_decode (firstn 2 x)) magic_table) as [[ver hl]|]; [|discriminate].
  destruct (length x <? hl)%nat; [discriminate|].
  destruct (ver_ltb ver pyc_skip_below); [discriminate|].
  pose proof (parse_never_panics ver (S (length (skipn hl x))) 0 (skipn hl x) []) as H.
  destruct (parse ver (S (length (skipn hl x))) 0 (skipn hl x) []) as [[[v rs] rr]| | |]; try discriminate. contradiction.
Qed.

(* size of the dereferenced tree: what the writer's structural hashing and equality walk over *)
Fixpoint tree_size (v : value) : N :=
  match v with
  | VSeq _ l | VDict l | VCode _ l => 1 + fold_right (fun x a => tree_size x + a) 0 l
  | VSlice a b c => 1 + tree_size a + tree_size b + tree_size c
  | _ => 1
  end.
