(* CheckWalk.v — C10 for a whole walk: in check mode, whatever the entries, handlers, results and failures, the
   file system after the walk IS the file system before it, so is every intermediate state, and only
   non-mutating operations were issued. *)
From AD Require Import Bytes Outcome Fs Helper HelperProofs Config Walk.

Lemma pff_check_ro e fault prof hs f0 : forall n already p s sel acc,
  ro_inv f0 s -> ro_inv f0 (fst (fst (process_file_from e fault Check prof hs n already p s sel acc))).
Proof.
  induction hs as [|h hs IH]; intros n already p s sel acc H; cbn [process_file_from]; [exact H|].
  destruct (N.testbit already n); [apply IH, H|].
  destruct (hfilter h p); [|apply IH, H].
  pose proof (check_readonly e fault prof (hd_eager h) (hd_fun h) p s f0 H) as H1.
  destruct (run_handler e fault Check prof (hd_eager h) (hd_fun h) p s) as [s' r]. cbn [fst] in H1.
  destruct r; [apply IH, H1 | exact H1].
Qed.

Lemma entry_check_ro e fault prof hs f0 w p w' :
  ro_inv f0 (w_sim w) -> process_entry e fault Check prof hs w p = Some w' -> ro_inv f0 (w_sim w').
Proof.
  intros H. unfold process_entry.
  destruct (is_tmp_name (basename p)); [intros E; injection E as <-; exact H|].
  destruct (obs (s_fs (w_sim w)) p) as [[ino nd]|]; [|intros E; injection E as <-; exact H].
  destruct (i_kind nd); try (intros E; injection E as <-; exact H).
  pose proof (pff_check_ro e fault prof hs f0 0 (w_seen w ino) p (w_sim w) 0 Ignored H) as H1.
  destruct (process_file_from e fault Check prof hs 0 (w_seen w ino) p (w_sim w) 0 Ignored) as [[s' sel] r]. cbn [fst] in H1.
  destruct r; [|discriminate]. intros E; injection E as <-. exact H1.
Qed.

Theorem walk_check_ro e fault prof hs f0 : forall entries w w',
  ro_inv f0 (w_sim w) -> walk e fault Check prof hs w entries = Some w' -> ro_inv f0 (w_sim w').
Proof.
  induction entries as [|p rest IH]; intros w w' H E; cbn [walk] in E.
  - injection E as <-. exact H.
  - destruct (process_entry e fault Check prof hs w p) as [w1|] eqn:E1; [|discriminate].
    apply (IH w1 w'); [eapply entry_check_ro; eassumption | exact E].
Qed.

(* from the initial state: the tree at the end, and at every moment in between, is the tree at the start *)
Corollary walk_check_unchanged e fault prof hs f0 entries w' :
  walk e fault Check prof hs (init_wstate f0) entries = Some w' ->
  s_fs (w_sim w') = f0 /\ Forall (eq f0) (s_hist (w_sim w')) /\ Forall (fun x => readonly_op (fst x) = true) (s_trace (w_sim w')).
Proof.
  intros E. apply (walk_check_ro e fault prof hs f0 entries (init_wstate f0) w'); [|exact E].
  split; [reflexivity|]. split; [repeat constructor | constructor].
Qed.
