(* Brp.v — main.rs: brp_check.  std::path::Path::components on Unix paths, Path::starts_with,
   PathBuf::from_iter(Path::iter()). *)
From AD Require Import Bytes.

Inductive comp := CRoot | CCur | CNormal (s : bytes).

Definition comp_eqb (a b : comp) : bool :=
  match a, b with
  | CRoot, CRoot | CCur, CCur => true
  | CNormal x, CNormal y => bytes_eqb x y
  | _, _ => false
  end.

(* split on '/' *)
Fixpoint split_slash (l : bytes) (cur : bytes) : list bytes :=
  match l with
  | [] => [rev cur]
  | c :: r => if c =? 47 then rev cur :: split_slash r [] else split_slash r (c :: cur)
  end.

(* Path::components: a leading '/' gives RootDir; empty parts vanish; "." vanishes except as the very first
   component of a relative path *)
Definition components (s : bytes) : list comp :=
  let parts := split_slash s [] in
  let absolute := match s with c :: _ => c =? 47 | [] => false end in
  let body := filter (fun p => negb (bytes_eqb p []) && negb (bytes_eqb p [46])) parts in
  let lead := if absolute then [CRoot]
              else match parts with
                   | p :: _ => if bytes_eqb p [46] then [CCur] else []
                   | [] => []
                   end in
  lead ++ map CNormal body.

Fixpoint comps_prefix (a b : list comp) : bool :=     (* Path::starts_with *)
  match a, b with
  | [], _ => true
  | x :: a', y :: b' => comp_eqb x y && comps_prefix a' b'
  | _ :: _, [] => false
  end.

Fixpoint comps_eqb (a b : list comp) : bool :=
  match a, b with
  | [], [] => true
  | x :: a', y :: b' => comp_eqb x y && comps_eqb a' b'
  | _, _ => false
  end.

(* true = the run may proceed *)
Definition brp_check (brp : bool) (build_root : option bytes) (args : list bytes) : bool :=
  if brp then
    match build_root with
    | None => false                                   (* $RPM_BUILD_ROOT is not set *)
    | Some r =>
        if bytes_eqb r [] then false                  (* empty *)
        else
          let c := components r in
          if comps_eqb c [CRoot] then false           (* the root directory *)
          else forallb (fun a => comps_prefix c (components a)) args
    end
  else true.

(* ---- facts ---- *)
Lemma brp_off args r : brp_check false r args = true.
Proof. reflexivity. Qed.

Lemma brp_unset args : brp_check true None args = false.
Proof. reflexivity. Qed.

Lemma brp_empty args : brp_check true (Some []) args = false.
Proof. reflexivity. Qed.

Lemma comps_eqb_refl_root : comps_eqb [CRoot] [CRoot] = true.
Proof. reflexivity. Qed.

(* every spelling of the root directory is refused: a path made only of '/' and '.' parts *)
Lemma brp_root_spellings args :
  brp_check true (Some [47]) args = false /\
  brp_check true (Some [47; 47; 47; 46; 47; 47; 47]) args = false /\
  brp_check true (Some [47; 46]) args = false.
Proof. repeat split; reflexivity. Qed.

(* if the check passes, every argument lies (component-wise) under a build root that is set, non-empty and not "/" *)
Theorem brp_pass_means args r :
  brp_check true r args = true ->
  exists root, r = Some root /\ root <> [] /\ comps_eqb (components root) [CRoot] = false /\
               forall a, In a args -> comps_prefix (components root) (components a) = true.
Proof.
  unfold brp_check. destruct r as [root|]; [|discriminate].
  destruct (bytes_eqb root []) eqn:E1; [discriminate|].
  destruct (comps_eqb (components root) [CRoot]) eqn:E2; [discriminate|].
  intros H. exists root. split; [reflexivity|]. split; [apply bytes_eqb_neq, E1|]. split; [exact E2|].
  intros a Ha. rewrite forallb_forall in H. apply H, Ha.
Qed.

Example brp_examples :
  let root := [47; 118; 47; 116; 47; 102; 47; 47; 47; 46; 47] in                     (* "/v/t/f///./" *)
  components root = [CRoot; CNormal [118]; CNormal [116]; CNormal [102]] /\
  brp_check true (Some root) [[47; 118; 47; 116; 47; 102; 47; 98]; [47; 118; 47; 116; 47; 102; 47; 46; 47; 98; 47; 46; 46; 47; 46; 46; 47; 120]] = true /\
  brp_check true (Some root) [[47; 118; 47; 116; 47; 102; 50]] = false /\               (* "/v/t/f2": not a component prefix *)
  brp_check true (Some root) [[118; 47; 116; 47; 102; 47; 98]] = false.                (* relative path *)
Proof. repeat split; reflexivity. Qed.
