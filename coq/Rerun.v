(* Rerun.v — C12: after a kill at any instant the tree is in a pre-commit state (C12_every_state); a rerun that meets
   no failure then completes the replacement: the file ends up exactly in its final state, whatever temporary
   file the killed run left behind. *)
From AD Require Import Bytes Outcome Fs Helper HelperProofs Rewrite Cleanup CheckPredicts.

Section Rerun.
  Variable e : env.
  Variable p : path.
  Let t := tmp_path p.

  (* once the temporary file exists, a single-link file is replaced when nothing fails *)
  Lemma post_create_replaced meta y fo s3 : i_nlink meta = 1 ->
    names (s_fs s3) t = Some fo -> inodes (s_fs s3) fo <> None ->
    snd (step e None t (OutTmp fo) (OWrite fo 0 y) s3 (fun s4 => finalize_mod e None Real p t meta (OutTmp fo) y s4)) = Some Replaced.
  Proof.
    intros Hn N1 I1. assert (Hnl : (i_nlink meta =? 1) = true) by (apply N.eqb_eq; exact Hn).
    unfold step at 1. rewrite issue_ok by reflexivity. cbn [s_fs s_trace s_n s_hist].
    set (F1 := s_fs s3) in *.
    set (F2 := fst (apply_op e F1 (OWrite fo 0 y))).
    assert (N2 : names F2 t = Some fo) by (unfold F2; cbn [apply_op fst]; rewrite upd_inode_names; exact N1).
    assert (I2 : inodes F2 fo <> None).
    { unfold F2. cbn [apply_op fst]. destruct (inodes F1 fo) as [n|] eqn:E; [|contradiction].
      rewrite (upd_inode_same _ _ _ _ E). discriminate. }
    unfold finalize_mod. rewrite Hnl.
    rewrite issue_nofault. cbn [s_fs fst snd].
    set (F3 := fst (apply_op e F2 (OLchown t (i_uid meta) (i_gid meta)))).
    assert (N3 : names F3 t = Some fo).
    { unfold F3. pose proof (apply_keeps e p F2 (OLchown t (i_uid meta) (i_gid meta)) I) as K. fold t in K. rewrite K. exact N2. }
    assert (Cont : forall tr n h,
       snd (step e None t (OutTmp fo) (OFchmod fo (i_mode meta)) (mk_sim F3 tr n h) (fun s2 =>
            step e None t (OutTmp fo) (OFutimens fo (i_mtime meta)) s2 (fun s3 =>
            step e None t (OutTmp fo) (ORename t p) s3 (fun s4 => (s4, Some Replaced))))) = Some Replaced).
    { intros tr n h. unfold step.
      rewrite issue_ok by reflexivity. cbn [s_fs s_trace s_n s_hist].
      rewrite issue_ok by reflexivity. cbn [s_fs s_trace s_n s_hist].
      rewrite issue_ok; [reflexivity|]. cbn [s_fs apply_op].
      assert (N5 : names (fst (apply_op e (fst (apply_op e F3 (OFchmod fo (i_mode meta)))) (OFutimens fo (i_mtime meta)))) t = Some fo).
      { pose proof (apply_keeps e p (fst (apply_op e F3 (OFchmod fo (i_mode meta)))) (OFutimens fo (i_mtime meta)) I) as K1.
        pose proof (apply_keeps e p F3 (OFchmod fo (i_mode meta)) I) as K2. fold t in K1, K2. rewrite K1, K2. exact N3. }
      cbn [apply_op] in N5. rewrite N5. reflexivity. }
    destruct (inodes F2 fo) as [n2|] eqn:E2; [|exfalso; apply I2; reflexivity].
    destruct (lchown_result e F2 t (i_uid meta) (i_gid meta) _ _ N2 E2) as [R|R]; rewrite R; apply Cont.
  Qed.

  (* open_output hands out a fresh temporary file whether or not a stale one is in the way *)
  Lemma open_output_fresh s2 : p <> t ->
    exists s3 fo, open_output e None Real t s2 = (s3, Some (OutTmp fo)) /\ names (s_fs s3) t = Some fo /\ inodes (s_fs s3) fo <> None.
  Proof.
    intros Hpt. unfold open_output, open_output_real.
    assert (Fresh : forall f, names f t = None ->
       snd (apply_op e f (OCreateExcl t)) = None /\ names (fst (apply_op e f (OCreateExcl t))) t = Some (next_ino f) /\
       inodes (fst (apply_op e f (OCreateExcl t))) (next_ino f) <> None).
    { intros f Hf. cbn [apply_op]. rewrite Hf. cbn [fst snd names inodes]. rewrite path_eqb_refl, N.eqb_refl. repeat split; discriminate. }
    destruct (names (s_fs s2) t) as [j|] eqn:Et.
    - (* a stale file: EEXIST, unlink, retry *)
      rewrite issue_nofault. cbn [apply_op]. rewrite Et. cbn [fst snd].
      rewrite issue_nofault. cbn [apply_op s_fs]. rewrite Et. cbn [fst snd s_fs].
      set (F := upd_inode (set_name (s_fs s2) t None) j (fun n : inode => with_nlink (N.pred (i_nlink n)) n)).
      assert (Hf : names F t = None) by (unfold F; rewrite upd_inode_names; cbn [set_name names]; rewrite path_eqb_refl; reflexivity).
      destruct (Fresh F Hf) as (A & B & C).
      rewrite issue_ok by (cbn [s_fs]; exact A). cbn [s_fs fst snd]. eexists. eexists. split; [reflexivity|]. cbn [s_fs]. split; [exact B | exact C].
    - destruct (Fresh (s_fs s2) Et) as (A & B & C).
      rewrite issue_ok by exact A. cbn [fst snd]. eexists. eexists. split; [reflexivity|]. cbn [s_fs]. split; [exact B | exact C].
  Qed.

  (* a real run that meets no failure replaces a single-link file whose handler wants a change, whatever is
     bound at the temporary name *)
  Theorem real_replaced_any_temp prof eager handler f ip meta y :
    names f p = Some ip -> inodes f ip = Some meta -> i_nlink meta = 1 ->
    handler (i_data meta) = Ok (y, true) ->
    snd (run_handler e None Real prof eager handler p (init_sim f)) = Some Replaced.
  Proof.
    intros Hp Hi Hn Hh.
    assert (Hpt : p <> t) by (apply not_eq_sym, tmp_path_neq).
    unfold run_handler. cbv zeta. fold t.
    rewrite issue_nofault. cbn [apply_op init_sim s_fs fst snd]. rewrite Hp. cbn [fst snd s_fs]. rewrite Hp.
    rewrite issue_nofault. cbn [apply_op s_fs fst snd]. rewrite Hi, Hh.
    destruct (eager (i_data meta));
      match goal with |- context [open_output e None Real t ?s] => destruct (open_output_fresh s Hpt) as (s3 & fo & Eo & N1 & I1) end;
      rewrite Eo; cbv beta iota; apply post_create_replaced; assumption.
  Qed.

  (* C12, second half: from any pre-commit state - that is, after a kill at any instant before the switch - a rerun
     that meets no failure reports Replaced and leaves the file in exactly its final state *)
  Theorem rerun_converges prof eager handler f0 ip meta y f :
    names f0 p = Some ip -> inodes f0 ip = Some meta -> i_nlink meta = 1 ->
    ip < next_ino f0 -> names f0 t <> Some ip ->
    handler (i_data meta) = Ok (y, true) ->
    pre_commit f0 t f ->
    snd (run_handler e None Real prof eager handler p (init_sim f)) = Some Replaced /\
    committed e meta f p t y (s_fs (fst (run_handler e None Real prof eager handler p (init_sim f)))).
  Proof.
    intros Hp Hi Hn Hlt Hnt Hh Hpre.
    assert (Hpt : p <> t) by (apply not_eq_sym, tmp_path_neq).
    pose proof Hpre as (Hnames & Hino & Hnext & Htmp).
    assert (Hp' : names f p = Some ip) by (rewrite Hnames by exact Hpt; exact Hp).
    assert (Hi' : inodes f ip = Some meta) by (rewrite Hino by assumption; exact Hi).
    assert (Hnt' : names f t <> Some ip).
    { intros E. destruct (pre_commit_tmp_target _ _ _ _ Hpre E) as [H|H]; [exact (Hnt H) | lia]. }
    pose proof (real_replaced_any_temp prof eager handler f ip meta y Hp' Hi' Hn Hh) as Hr.
    split; [exact Hr|].
    destruct (replaced_committed e None prof eager handler p f ip meta Hp' Hi' Hn ltac:(lia) Hnt' Hr) as (y' & Hy' & Hc).
    fold t in Hc. rewrite Hh in Hy'. injection Hy' as <-. exact Hc.
  Qed.
End Rerun.
