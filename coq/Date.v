(* Date.v — proleptic Gregorian calendar: civil date of a Unix timestamp (UTC), validity of a date. *)
From AD Require Import Bytes.
Open Scope Z_scope.

(* Howard Hinnant's civil_from_days, on Z with floor division *)
Definition civil_from_days (days : Z) : Z * Z * Z :=
  let z := days + 719468 in
  let era := z / 146097 in
  let doe := z - era * 146097 in
  let yoe := (doe - doe / 1460 + doe / 36524 - doe / 146096) / 365 in
  let y := yoe + era * 400 in
  let doy := doe - (365 * yoe + yoe / 4 - yoe / 100) in
  let mp := (5 * doy + 2) / 153 in
  let d := doy - (153 * mp + 2) / 5 + 1 in
  let m := if mp <? 10 then mp + 3 else mp - 9 in
  (if m <=? 2 then y + 1 else y, m, d).

Definition days_from_civil (y m d : Z) : Z :=
  let y' := if m <=? 2 then y - 1 else y in
  let era := y' / 400 in
  let yoe := y' - era * 400 in
  let doy := (153 * (if 2 <? m then m - 3 else m + 9) + 2) / 5 + d - 1 in
  let doe := yoe * 365 + yoe / 4 - yoe / 100 + doy in
  era * 146097 + doe - 719468.

(* chrono::DateTime::from_timestamp(secs, 0).date_naive(): None outside chrono's range *)
Definition chrono_max_secs : Z := 8210266876799.
Definition chrono_min_secs : Z := -8334601228800.
Definition date_of_unix (secs : Z) : option (Z * Z * Z) :=
  if (chrono_min_secs <=? secs) && (secs <=? chrono_max_secs) then Some (civil_from_days (secs / 86400)) else None.

Definition is_leap (y : Z) : bool := ((y mod 4 =? 0) && negb (y mod 100 =? 0)) || (y mod 400 =? 0).
Definition days_in_month (y m : Z) : Z :=
  if m =? 2 then (if is_leap y then 29 else 28)
  else if (m =? 4) || (m =? 6) || (m =? 9) || (m =? 11) then 30 else 31.

(* NaiveDate::from_ymd_opt *)
Definition valid_date (y m d : Z) : bool :=
  (-262143 <=? y) && (y <=? 262142) && (1 <=? m) && (m <=? 12) && (1 <=? d) && (d <=? days_in_month y m).

(* chronological order = lexicographic order on (year, month, day) *)
Definition date_ltb (a b : Z * Z * Z) : bool :=
  let '(y1, m1, d1) := a in let '(y2, m2, d2) := b in
  (y1 <? y2) || ((y1 =? y2) && ((m1 <? m2) || ((m1 =? m2) && (d1 <? d2)))).

Close Scope Z_scope.
