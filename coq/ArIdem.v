(* ArIdem.v — C07 (ar part): the ar handler finds nothing to change in its own output. *)
From AD Require Import Bytes Outcome Gen Decimal Ar ArSpec ArProofs.
Local Arguments Nat.ltb : simpl never.
Local Arguments Nat.leb : simpl never.
Local Arguments Nat.eqb : simpl never.
Local Arguments firstn : simpl never.
Local Arguments skipn : simpl never.

Lemma utf8_ok_ascii l : Forall (fun b => b < 128) l -> utf8_ok l = true.
Proof.
  unfold utf8_ok. induction 1 as [|b r Hb _ IH]; [reflexivity|].
  cbn [length utf8_ok_fuel]. apply N.ltb_lt in Hb. rewrite Hb. exact IH.
Qed.

Lemma fmt_ascii w v : Forall (fun b => b < 128) (fmt_left_pad w v).
Proof.
  unfold fmt_left_pad. apply Forall_app. split.
  - apply all_digits_ascii. apply (dec_digits_spec v).
  - apply Forall_forall. intros b Hb. apply repeat_spec in Hb. subst b. lia.
Qed.

(* ar_fix_header in terms of the field readers of the specification *)
Lemma fix_header_eval epoch h :
  ar_fix_header epoch h =
    if utf8_ok (f_mtime h) then match num_mtime h with None => Err | Some mt =>
    if utf8_ok (f_uid h) then match num_uid h with None => Err | Some u =>
    if utf8_ok (f_gid h) then match num_gid h with None => Err | Some g =>
    if utf8_ok (f_mode h) then match parse_unsigned u64_max (trim_end_sp (f_mode h)) with None => Err | Some _ =>
      let step1 : outcome (bytes * bool) :=
        match epoch with
        | Some e => if (e <? mt)%Z
                    then (if (length (fmt_left_pad 12 (Z.to_N e)) =? 12)%nat then Ok (splice 16 (fmt_left_pad 12 (Z.to_N e)) h, true) else Panic)
                    else Ok (h, false)
        | None => Ok (h, false)
        end in
      match step1 with
      | Ok (h1, m1) => if (negb (Z.of_N u =? 0)%Z || negb (Z.of_N g =? 0)%Z)%bool
                       then Ok (splice 34 zero_field (splice 28 zero_field h1), true) else Ok (h1, m1)
      | e => e
      end
    end else Err end else Err end else Err end else Err.
Proof.
  unfold ar_fix_header, parse_field, field, owner_test, num_mtime, num_uid, num_gid, i64_max, u64_max. unfold_gen.
  cbn [cmp_Z apply_writes]. change (28 - 16)%nat with 12%nat.
  change (slice 16 28 h) with (f_mtime h). change (slice 28 34 h) with (f_uid h).
  change (slice 34 40 h) with (f_gid h). change (slice 40 48 h) with (f_mode h).
  destruct (utf8_ok (f_mtime h)); [|reflexivity].
  destruct (parse_signed 9223372036854775807 (trim_end_sp (f_mtime h))) as [mt|]; [|reflexivity].
  destruct (utf8_ok (f_uid h)); [|reflexivity].
  destruct (parse_unsigned 18446744073709551615 (trim_end_sp (f_uid h))) as [u|]; [|reflexivity].
  destruct (utf8_ok (f_gid h)); [|reflexivity].
  destruct (parse_unsigned 18446744073709551615 (trim_end_sp (f_gid h))) as [g|]; [|reflexivity].
  destruct (utf8_ok (f_mode h)); [|reflexivity].
  destruct (parse_unsigned 18446744073709551615 (trim_end_sp (f_mode h))); reflexivity.
Qed.

Lemma zero_field_utf8 : utf8_ok zero_field = true.
Proof. reflexivity. Qed.

(* a normalised header is left alone *)
Lemma fix_header_idem e h h' m :
  length h = 60%nat -> is_longnames h = false -> (0 <= e < 10 ^ 12)%Z ->
  ar_fix_header (Some e) h = Ok (h', m) -> ar_fix_header (Some e) h' = Ok (h', false).
Proof.
  intros Hl Hn He H.
  destruct (fix_header_spec _ _ _ _ Hl Hn H) as (Eh' & _ & Lh').
  pose proof (epoch_ok_fmt (Some e) He) as Hf.
  destruct (norm_hdr_fields (Some e) h Hl Hf) as (A1 & A2 & A3 & A4 & _ & A6). destruct (A6 Hn) as (A7 & A8 & A9).
  rewrite fix_header_eval in H.
  destruct (utf8_ok (f_mtime h)) eqn:U1; [|discriminate].
  destruct (num_mtime h) as [mt|] eqn:Emt; [|discriminate].
  destruct (utf8_ok (f_uid h)) eqn:U2; [|discriminate].
  destruct (num_uid h) as [u|] eqn:Eu; [|discriminate].
  destruct (utf8_ok (f_gid h)) eqn:U3; [|discriminate].
  destruct (num_gid h) as [g|] eqn:Eg; [|discriminate].
  destruct (utf8_ok (f_mode h)) eqn:U4; [|discriminate].
  destruct (parse_unsigned u64_max (trim_end_sp (f_mode h))) as [md|] eqn:Emd; [|discriminate].
  clear H.
  (* the fields of the normalised header *)
  assert (Hlnh' : is_longnames h' = false) by (unfold is_longnames in *; rewrite Eh', A1; exact Hn).
  assert (M' : utf8_ok (f_mtime h') = true /\ exists mt', num_mtime h' = Some mt' /\ (e <? mt')%Z = false).
  { rewrite Eh'. rewrite A7. unfold clamp_needed. rewrite Emt. destruct (e <? mt)%Z eqn:Ec.
    - split; [apply utf8_ok_ascii, fmt_ascii|]. exists e. split; [|apply Z.ltb_irrefl].
      rewrite <- Eh'. rewrite Eh'. apply num_mtime_clamped; try assumption. unfold clamp_needed. rewrite Emt. exact Ec.
    - split; [exact U1|]. exists mt. split; [|exact Ec].
      unfold num_mtime. rewrite A7. unfold clamp_needed. rewrite Emt, Ec. exact Emt. }
  assert (O' : utf8_ok (f_uid h') = true /\ utf8_ok (f_gid h') = true /\
               exists u' g', num_uid h' = Some u' /\ num_gid h' = Some g' /\ (negb (Z.of_N u' =? 0)%Z || negb (Z.of_N g' =? 0)%Z)%bool = false).
  { rewrite Eh'. rewrite A8, A9. unfold owner_needed. rewrite Eu, Eg.
    destruct (negb ((u =? 0) && (g =? 0))) eqn:Eo.
    - split; [exact zero_field_utf8|]. split; [exact zero_field_utf8|]. exists 0, 0.
      assert (Ho : owner_needed h = true) by (unfold owner_needed; rewrite Eu, Eg; exact Eo).
      destruct (num_owner_zeroed (Some e) h Hl He Hn Ho) as [Z1 Z2]. auto.
    - split; [exact U2|]. split; [exact U3|]. exists u, g.
      unfold num_uid, num_gid. rewrite A8, A9. unfold owner_needed. rewrite Eu, Eg, Eo.
      split; [exact Eu|]. split; [exact Eg|].
      apply negb_false_iff, andb_true_iff in Eo. destruct Eo as [E1 E2]. apply N.eqb_eq in E1, E2. subst u g. reflexivity. }
  assert (D' : utf8_ok (f_mode h') = true /\ parse_unsigned u64_max (trim_end_sp (f_mode h')) = Some md).
  { rewrite Eh', A2. auto. }
  destruct M' as (V1 & mt' & Emt' & Ec'). destruct O' as (V2 & V3 & u' & g' & Eu' & Eg' & Eo'). destruct D' as (V4 & Emd').
  rewrite fix_header_eval. rewrite V1, Emt', V2, Eu', V3, Eg', V4, Emd', Ec', Eo'. reflexivity.
Qed.

Lemma firstn_app_len' {A} (a b : list A) : firstn (length a) (a ++ b) = a.
Proof. rewrite firstn_app, Nat.sub_diag, firstn_all. cbn. apply app_nil_r. Qed.

(* the member loop on its own output *)
Lemma loop_idem e : (0 <= e < 10 ^ 12)%Z -> forall fuel rest out hm,
  ar_loop fuel (Some e) rest = Ok (out, hm) -> ar_loop fuel (Some e) out = Ok (out, false).
Proof.
  intros He. induction fuel as [|f IH]; intros rest out hm H; [discriminate|].
  rewrite ar_loop_S in H.
  destruct rest as [|b rest'].
  { injection H as <- <-. reflexivity. }
  remember (b :: rest') as rest eqn:Er. clear Er b rest'.
  destruct (Nat.ltb_spec (length rest) 60) as [Hl|Hl]; [discriminate|].
  cbv zeta in H.
  assert (Hh : length (firstn 60 rest) = 60%nat) by (rewrite firstn_length; lia).
  remember (firstn 60 rest) as h eqn:Eh.
  destruct (negb (bytes_eqb (skipn 58 h) sp_hmagic)) eqn:Hm; [discriminate|].
  destruct (negb (utf8_ok (slice 0 16 h))) eqn:Hu; [discriminate|].
  destruct (parse_field false 4294967295 48 58 h) as [z|] eqn:Ez; [|discriminate].
  destruct (if bytes_eqb (field 0 16 h) [47; 47] then Ok (h, false) else ar_fix_header (Some e) h) as [[h' m]| | |] eqn:Efix; try discriminate.
  destruct (header_step _ _ _ _ Hh Efix) as (Eh' & _ & Lh').
  destruct (padded_size (Z.to_N z)) as [psz|] eqn:Ep; [|discriminate].
  destruct (N.ltb_spec (N.of_nat (length (skipn 60 rest))) psz) as [Hb|Hb]; [discriminate|].
  destruct (ar_loop f (Some e) (skipn (N.to_nat psz) (skipn 60 rest))) as [[out' m2]| | |] eqn:Hrec; try discriminate.
  injection H as <- <-.
  specialize (IH _ _ _ Hrec).
  (* the normalised header keeps name, size and terminator *)
  destruct (norm_hdr_fields (Some e) h Hh (epoch_ok_fmt (Some e) He)) as (A1 & A2 & A3 & A4 & _).
  assert (S58 : skipn 58 h' = skipn 58 h) by (rewrite !hdr_skipn58 by assumption; rewrite Eh'; exact A4).
  assert (S016 : slice 0 16 h' = slice 0 16 h) by (rewrite Eh'; exact A1).
  assert (Ssz : parse_field false 4294967295 48 58 h' = Some z).
  { unfold parse_field, field in *. change (slice 48 58 h') with (f_size h'). change (slice 48 58 h) with (f_size h) in Ez.
    rewrite Eh', A3. exact Ez. }
  assert (Hfix' : (if bytes_eqb (field 0 16 h') [47; 47] then Ok (h', false) else ar_fix_header (Some e) h') = Ok (h', false)).
  { unfold field in *. rewrite S016. destruct (bytes_eqb (trim_end_sp (slice 0 16 h)) [47; 47]) eqn:Eln; [reflexivity|].
    apply (fix_header_idem e h h' m Hh Eln He Efix). }
  (* evaluate the loop on the output *)
  set (data := firstn (N.to_nat psz) (skipn 60 rest)).
  assert (Ld : length data = N.to_nat psz) by (unfold data; rewrite firstn_length; lia).
  rewrite ar_loop_S.
  assert (Enn : h' ++ data ++ out' <> []) by (destruct h'; [discriminate Lh' | discriminate]).
  destruct (h' ++ data ++ out') as [|c l] eqn:Eo; [contradiction|]. rewrite <- Eo. clear Eo c l Enn.
  assert (Lo : (60 <= length (h' ++ data ++ out'))%nat) by (rewrite app_length; lia).
  destruct (Nat.ltb_spec (length (h' ++ data ++ out')) 60) as [Hx|_]; [lia|].
  cbv zeta.
  assert (F60 : firstn 60 (h' ++ data ++ out') = h') by (rewrite <- Lh'; apply firstn_app_len').
  assert (S60 : skipn 60 (h' ++ data ++ out') = data ++ out').
  { rewrite <- Lh'. rewrite skipn_app, skipn_all, Nat.sub_diag. reflexivity. }
  rewrite F60, S60, S58, Hm, S016, Hu, Ssz, Hfix', Ep.
  assert (Lb : N.of_nat (length (data ++ out')) <? psz = false) by (apply N.ltb_ge; rewrite app_length; lia).
  rewrite Lb.
  assert (Sk : skipn (N.to_nat psz) (data ++ out') = out') by (rewrite <- Ld; rewrite skipn_app, skipn_all, Nat.sub_diag; reflexivity).
  assert (Fk : firstn (N.to_nat psz) (data ++ out') = data) by (rewrite <- Ld; apply firstn_app_len').
  rewrite Sk, Fk, IH. reflexivity.
Qed.

Theorem ar_idempotent e x y hm : (0 <= e < 10 ^ 12)%Z ->
  ar_process (Some e) x = Ok (y, hm) -> ar_process (Some e) y = Ok (y, false).
Proof.
  intros He H. pose proof (ar_refines _ _ _ _ H) as (ms & _ & _ & _ & Hlen).
  rewrite ar_process_canon in *.
  destruct (Nat.ltb_spec (length x) 8) as [Hl|Hl]; [discriminate|].
  destruct (negb (bytes_eqb (firstn 8 x) sp_magic)); [discriminate|].
  destruct (ar_loop (S (length x)) (Some e) (skipn 8 x)) as [[out m]| | |] eqn:Hloop; try discriminate.
  injection H as Ey <-.
  assert (Ly : (8 <= length y)%nat) by (rewrite <- Ey; cbn [length]; lia).
  destruct (Nat.ltb_spec (length y) 8) as [Hx|_]; [lia|].
  assert (F8 : firstn 8 y = sp_magic) by (rewrite <- Ey; reflexivity).
  assert (S8 : skipn 8 y = out) by (rewrite <- Ey; reflexivity).
  rewrite F8, S8, bytes_eqb_refl. cbn [negb].
  rewrite Hlen. rewrite (loop_idem e He _ _ _ _ Hloop). rewrite <- Ey. reflexivity.
Qed.
