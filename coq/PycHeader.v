(* PycHeader.v — the .pyc header: magic number table (regenerated from pyc.rs), PycParser::from_file's
   checks, and the pyc-zero-mtime handler (PycParser::set_zero_mtime). *)
From AD Require Import Bytes Outcome Gen.

Definition version := (N * N)%type.
Definition ver_ltb (a b : version) : bool := (fst a <? fst b) || ((fst a =? fst b) && (snd a <? snd b)).
Definition ver_leb (a b : version) : bool := negb (ver_ltb b a).

Fixpoint in_ranges (v : N) (r : list (N * N)) : bool :=
  match r with [] => false | (lo, hi) :: t => ((lo <=? v) && (v <=? hi)) || in_ranges v t end.

Fixpoint lookup_magic (v : N) (t : list (list (N * N) * (N * N * nat))) : option (version * nat) :=
  match t with
  | [] => None
  | (r, (ma, mi, hl)) :: rest => if in_ranges v r then Some ((ma, mi), hl) else lookup_magic v rest
  end.

(* PycParser::from_file up to the construction of the parser: version and header length *)
Definition pyc_header (x : bytes) : outcome (version * nat) :=
  if (length x <? 4)%nat then Err                                   (* read_exact of the magic *)
  else if negb (bytes_eqb (slice 2 4 x) pyc_magic) then Bad        (* Error::BadMagic *)
  else match lookup_magic (le_decode (firstn 2 x)) magic_table with
       | None => Bad                                                (* unknown version magic *)
       | Some (ver, hl) => if (length x <? hl)%nat then Bad else Ok (ver, hl)   (* "pyc file is too short" *)
       end.

Definition read_long_at (off : nat) (x : bytes) : N := le_decode (slice off (off + 4) x).

(* PycZeroMtime::process, byte level *)
Definition pyc_zero_mtime (x : bytes) : outcome (bytes * bool) :=
  match pyc_header x with
  | Ok (ver, hl) =>
      if ver_leb pyc_hash_from ver && negb (N.land (read_long_at pyc_flags_off x) pyc_hash_mask =? 0) then Ok (x, false)
      else
        let off_r := if ver_ltb ver pyc_mtime_split then pyc_mtime_off_old else pyc_mtime_off_new in
        if read_long_at off_r x =? 0 then Ok (x, false)
        else
          let off_w := if ver_ltb ver pyc_zero_split then pyc_zero_off_old else pyc_zero_off_new in
          Ok (splice off_w (repeat pyc_zero_fill pyc_zero_len) x, true)
  | Bad => Bad
  | Err => Err
  | Panic => Panic
  end.

(* name of the source file next to the pyc: <text before the first '.'>.py *)
Fixpoint before_first_dot (l : bytes) : bytes :=
  match l with [] => [] | c :: r => if c =? 46 then [] else c :: before_first_dot r end.
