(* ArProofs.v — the ar model refines the specification of ArSpec.v (C04; ar parts of C01, C07). *)
From AD Require Import Bytes Outcome Gen Ar ArSpec.

Local Arguments Nat.ltb : simpl never.
Local Arguments Nat.leb : simpl never.
Local Arguments Nat.eqb : simpl never.
Local Arguments firstn : simpl never.
Local Arguments skipn : simpl never.

(* ---------- obligation on the regenerated tables ---------- *)
Definition cmpop_eqb (a b : cmpop) : bool :=
  match a, b with
  | CLe, CLe | CLt, CLt | CGt, CGt | CGe, CGe | CNe, CNe | CEq, CEq => true
  | _, _ => false
  end.

Definition ar_layout_ok : bool :=
  bytes_eqb ar_magic sp_magic && (ar_header_len =? 60)%nat && bytes_eqb ar_header_magic sp_hmagic &&
  (ar_hmagic_from =? 58)%nat &&
  (ar_name_lo =? 0)%nat && (ar_name_hi =? 16)%nat &&
  (ar_size_lo =? 48)%nat && (ar_size_hi =? 58)%nat && negb ar_size_signed && (ar_size_max =? 4294967295) &&
  (ar_mtime_lo =? 16)%nat && (ar_mtime_hi =? 28)%nat && ar_mtime_signed && (ar_mtime_max =? i64_max) &&
  (ar_uid_lo =? 28)%nat && (ar_uid_hi =? 34)%nat && negb ar_uid_signed && (ar_uid_max =? u64_max) &&
  (ar_gid_lo =? 34)%nat && (ar_gid_hi =? 40)%nat && negb ar_gid_signed && (ar_gid_max =? u64_max) &&
  (ar_mode_lo =? 40)%nat && (ar_mode_hi =? 48)%nat && negb ar_mode_signed &&
  bytes_eqb ar_longnames_name [47; 47] && cmpop_eqb ar_clamp_cmp CGt && (ar_mtime_fmt_width =? 12)%nat &&
  (ar_mtime_wlo =? 16)%nat && (ar_mtime_whi =? 28)%nat &&
  cmpop_eqb ar_uid_cmp CNe && cmpop_eqb ar_gid_cmp CNe && ar_owner_or &&
  match ar_owner_writes with
  | [(a, u); (b, g)] => (a =? 28)%nat && (b =? 34)%nat && bytes_eqb u zero_field && bytes_eqb g zero_field
  | _ => false
  end && (ar_pad_mod =? 2).

Lemma ar_layout : ar_layout_ok = true.
Proof. vm_compute. reflexivity. Qed.

Ltac unfold_gen :=
  cbv delta [ar_magic ar_header_len ar_header_magic ar_hmagic_from ar_name_lo ar_name_hi
             ar_size_lo ar_size_hi ar_size_signed ar_size_max ar_mtime_lo ar_mtime_hi ar_mtime_signed ar_mtime_max
             ar_uid_lo ar_uid_hi ar_uid_signed ar_uid_max ar_gid_lo ar_gid_hi ar_gid_signed ar_gid_max
             ar_mode_lo ar_mode_hi ar_mode_signed ar_mode_max ar_longnames_name ar_clamp_cmp ar_mtime_fmt_width
             ar_mtime_wlo ar_mtime_whi ar_uid_cmp ar_gid_cmp ar_owner_or ar_owner_writes ar_pad_mod] in *.

(* ---------- list helpers ---------- *)
Lemma app_inj_len {A} (a a' b b' : list A) :
  length a = length a' -> a ++ b = a' ++ b' -> a = a' /\ b = b'.
Proof.
  revert a'; induction a as [|x a IH]; intros [|y a'] Hl E; cbn in *; try discriminate.
  - auto.
  - injection E as -> E. injection Hl as Hl. destruct (IH _ Hl E) as [-> ->]. auto.
Qed.

Lemma slice_full (h : bytes) n : length h = n -> slice 0 n h = h.
Proof. intros <-. unfold slice. rewrite Nat.sub_0_r. cbn [skipn]. apply firstn_all. Qed.

Lemma skipn_slice lo (h : bytes) : slice lo (length h) h = skipn lo h.
Proof. unfold slice. rewrite <- (skipn_length lo h). apply firstn_all. Qed.

Lemma nth_firstn' {A} (l : list A) n i d : (i < n)%nat -> nth i (firstn n l) d = nth i l d.
Proof.
  revert l i; induction n as [|n IH]; intros l i H; [lia|].
  destruct l as [|a l]; [destruct i; reflexivity|].
  destruct i as [|i]; cbn; [reflexivity | apply IH; lia].
Qed.

Lemma nth_skipn' {A} (l : list A) n i d : nth i (skipn n l) d = nth (n + i) l d.
Proof.
  revert l; induction n as [|n IH]; intros l; [reflexivity|].
  destruct l as [|a l]; cbn [skipn Nat.add nth]; [destruct i; reflexivity | apply IH].
Qed.

Lemma nth_slice (l : bytes) lo hi i d : (i < hi - lo)%nat -> nth i (slice lo hi l) d = nth (lo + i) l d.
Proof. intros H. unfold slice. rewrite nth_firstn' by exact H. apply nth_skipn'. Qed.

Lemma slice_splice_disjoint lo hi p new (h : bytes) :
  (p + length new <= length h)%nat -> (hi <= length h)%nat ->
  (hi <= p \/ p + length new <= lo)%nat ->
  slice lo hi (splice p new h) = slice lo hi h.
Proof.
  intros Hp Hhi Hd.
  apply (nth_ext _ _ 0 0).
  - rewrite !slice_length; rewrite ?splice_length; lia.
  - intros n Hn. rewrite slice_length in Hn by (rewrite splice_length; lia).
    rewrite !nth_slice by exact Hn.
    apply splice_nth_outside; lia.
Qed.

Lemma slice_splice_same p new (h : bytes) :
  (p + length new <= length h)%nat -> slice p (p + length new) (splice p new h) = new.
Proof. apply splice_slice. Qed.

(* ---------- the specification's reader is a bijection with its renderer ---------- *)
Lemma split3 (rest : bytes) n k :
  firstn n rest ++ firstn k (skipn n rest) ++ skipn k (skipn n rest) = rest.
Proof. rewrite firstn_skipn. apply firstn_skipn. Qed.

Lemma members_render fuel rest ms :
  members_fuel fuel rest = Some ms -> flat_map render_member ms = rest.
Proof.
  revert rest ms; induction fuel as [|f IH]; intros rest ms H; cbn [members_fuel] in H; [discriminate|].
  destruct rest as [|b rest']; [injection H as <-; reflexivity|].
  remember (b :: rest') as rest eqn:Er.
  destruct (length rest <? 60)%nat; [discriminate|].
  destruct (negb (bytes_eqb (f_magic (firstn 60 rest)) sp_hmagic)); [discriminate|].
  destruct (sp_size (firstn 60 rest)) as [sz|]; [|discriminate].
  destruct (N.of_nat (length (skipn 60 rest)) <? sz + sz mod 2); [discriminate|].
  destruct (members_fuel f (skipn (N.to_nat (sz + sz mod 2)) (skipn 60 rest))) as [ms'|] eqn:Hr; [|discriminate].
  injection H as <-. cbn [flat_map].
  rewrite (IH _ _ Hr). unfold render_member at 1. cbn [m_hdr m_data fst snd]. rewrite <- app_assoc. apply split3.
Qed.

Lemma ar_members_render x ms : ar_members x = Some ms -> ar_render ms = x.
Proof.
  unfold ar_members, ar_render. destruct (bytes_eqb (firstn 8 x) sp_magic) eqn:Hm; [|discriminate].
  apply bytes_eqb_eq in Hm. intros H. rewrite (members_render _ _ _ H), <- Hm. apply firstn_skipn.
Qed.

Lemma members_hdr_len fuel rest ms :
  members_fuel fuel rest = Some ms -> Forall (fun m => length (m_hdr m) = 60%nat /\ f_magic (m_hdr m) = sp_hmagic) ms.
Proof.
  revert rest ms; induction fuel as [|f IH]; intros rest ms H; cbn [members_fuel] in H; [discriminate|].
  destruct rest as [|b rest']; [injection H as <-; constructor|].
  remember (b :: rest') as rest eqn:Er.
  destruct (Nat.ltb_spec (length rest) 60) as [Hl|Hl]; [discriminate|].
  destruct (bytes_eqb (f_magic (firstn 60 rest)) sp_hmagic) eqn:Hm; cbn [negb] in H; [|discriminate].
  destruct (sp_size (firstn 60 rest)) as [sz|]; [|discriminate].
  destruct (N.of_nat (length (skipn 60 rest)) <? sz + sz mod 2); [discriminate|].
  destruct (members_fuel f (skipn (N.to_nat (sz + sz mod 2)) (skipn 60 rest))) as [ms'|] eqn:Hr; [|discriminate].
  injection H as <-. constructor; [|eapply IH; eassumption].
  cbn [m_hdr fst]. split; [rewrite firstn_length; lia | apply bytes_eqb_eq, Hm].
Qed.

(* ---------- per-header refinement ---------- *)
Lemma parse_unsigned_mono max max' l v :
  max <= max' -> parse_unsigned max l = Some v -> parse_unsigned max' l = Some v.
Proof.
  intros Hm. unfold parse_unsigned.
  destruct (strip_plus l) as [|c r]; [discriminate|].
  destruct (parse_digits 0 (c :: r)) as [w|]; [|discriminate].
  destruct (N.leb_spec w max) as [H|H]; [|discriminate].
  intros E; injection E as <-.
  destruct (N.leb_spec w max'); [reflexivity | lia].
Qed.

Lemma hdr_skipn58 (h : bytes) : length h = 60%nat -> skipn 58 h = f_magic h.
Proof. intros H. unfold f_magic. rewrite <- (skipn_slice 58 h), H. reflexivity. Qed.

(* ar_fix_header computes exactly norm_hdr on a 60-byte header that is not the long-name table *)
Lemma fix_header_spec epoch h h' m :
  length h = 60%nat -> is_longnames h = false ->
  ar_fix_header epoch h = Ok (h', m) ->
  h' = norm_hdr epoch h /\ m = (clamp_needed epoch h || owner_needed h) /\ length h' = 60%nat.
Proof.
  intros Hl Hn. unfold ar_fix_header, parse_field, field, owner_test. unfold_gen.
  cbn [cmp_Z apply_writes].
  change (slice 16 28 h) with (f_mtime h). change (slice 28 34 h) with (f_uid h).
  change (slice 34 40 h) with (f_gid h). change (slice 40 48 h) with (f_mode h).
  destruct (utf8_ok (f_mtime h)); [|discriminate].
  destruct (parse_signed 9223372036854775807 (trim_end_sp (f_mtime h))) as [mt|] eqn:Emt; [|discriminate].
  destruct (utf8_ok (f_uid h)); [|discriminate].
  destruct (parse_unsigned 18446744073709551615 (trim_end_sp (f_uid h))) as [u|] eqn:Eu; [|discriminate].
  destruct (utf8_ok (f_gid h)); [|discriminate].
  destruct (parse_unsigned 18446744073709551615 (trim_end_sp (f_gid h))) as [g|] eqn:Eg; [|discriminate].
  destruct (utf8_ok (f_mode h)); [|discriminate].
  destruct (parse_unsigned 18446744073709551615 (trim_end_sp (f_mode h))) as [md|]; [|discriminate].
  unfold norm_hdr, clamp_needed, owner_needed, num_mtime, num_uid, num_gid, i64_max, u64_max.
  rewrite Hn, Emt, Eu, Eg.
  assert (Hown : (negb (Z.of_N u =? 0)%Z || negb (Z.of_N g =? 0)%Z) = negb ((u =? 0) && (g =? 0))).
  { destruct u, g; reflexivity. }
  rewrite Hown.
  destruct epoch as [e|].
  - destruct (e <? mt)%Z eqn:Ec.
    + destruct (Nat.eqb_spec (length (fmt_left_pad 12 (Z.to_N e))) (28 - 16)) as [Hf|Hf]; [|discriminate].
      change (28 - 16)%nat with 12%nat in Hf.
      assert (L1 : length (splice 16 (fmt_left_pad 12 (Z.to_N e)) h) = 60%nat) by (rewrite splice_length; lia).
      destruct (negb ((u =? 0) && (g =? 0))); intros E; injection E as <- <-.
      * split; [reflexivity|]. split; [reflexivity|].
        rewrite !splice_length; cbn [length zero_field]; rewrite ?splice_length; cbn [length]; lia.
      * split; [reflexivity|]. split; [reflexivity|]. exact L1.
    + destruct (negb ((u =? 0) && (g =? 0))); intros E; injection E as <- <-.
      * split; [reflexivity|]. split; [reflexivity|].
        rewrite !splice_length; cbn [length zero_field]; rewrite ?splice_length; cbn [length]; lia.
      * split; [reflexivity|]. split; [reflexivity|]. exact Hl.
  - destruct (negb ((u =? 0) && (g =? 0))); intros E; injection E as <- <-.
    + split; [reflexivity|]. split; [reflexivity|].
      rewrite !splice_length; cbn [length zero_field]; rewrite ?splice_length; cbn [length]; lia.
    + split; [reflexivity|]. split; [reflexivity|]. exact Hl.
Qed.

(* ---------- the member loop refines the specification ---------- *)
(* one unfolding of the loop with the constants of the regenerated tables made literal *)
Lemma ar_loop_S f epoch rest :
  ar_loop (S f) epoch rest =
    match rest with
    | [] => Ok ([], false)
    | _ =>
      if (length rest <? 60)%nat then Bad
      else
        let hdr := firstn 60 rest in
        if negb (bytes_eqb (skipn 58 hdr) sp_hmagic) then Bad
        else if negb (utf8_ok (slice 0 16 hdr)) then Err
        else
          let name := field 0 16 hdr in
          match parse_field false 4294967295 48 58 hdr with
          | None => Err
          | Some zsize =>
            let size := Z.to_N zsize in
            let fixed := if bytes_eqb name [47; 47] then Ok (hdr, false) else ar_fix_header epoch hdr in
            match fixed with
            | Ok (hdr', m) =>
              match padded_size size with
              | None => Bad
              | Some psz =>
                let body := skipn 60 rest in
                if N.of_nat (length body) <? psz then Err
                else
                  match ar_loop f epoch (skipn (N.to_nat psz) body) with
                  | Ok (out, m2) => Ok (hdr' ++ firstn (N.to_nat psz) body ++ out, m || m2)
                  | e => e
                  end
              end
            | Bad => Bad
            | Err => Err
            | Panic => Panic
            end
          end
    end.
Proof. reflexivity. Qed.

Lemma padded_size_spec sz : padded_size sz = if sz + sz mod 2 <=? 4294967295 then Some (sz + sz mod 2) else None.
Proof. reflexivity. Qed.

Lemma size_field_spec h z :
  parse_field false 4294967295 48 58 h = Some z -> exists sz, z = Z.of_N sz /\ sp_size h = Some sz.
Proof.
  unfold parse_field, field. change (slice 48 58 h) with (f_size h).
  destruct (utf8_ok (f_size h)); [|discriminate].
  destruct (parse_unsigned 4294967295 (trim_end_sp (f_size h))) as [sz|] eqn:Esz; [|discriminate].
  intros E; injection E as <-. exists sz. split; [reflexivity|].
  unfold sp_size. eapply parse_unsigned_mono; [|exact Esz]. vm_compute. discriminate.
Qed.

Lemma header_step epoch h h' m :
  length h = 60%nat ->
  (if bytes_eqb (field 0 16 h) [47; 47] then Ok (h, false) else ar_fix_header epoch h) = Ok (h', m) ->
  h' = norm_hdr epoch h /\ m = member_changes epoch (h, []) /\ length h' = 60%nat.
Proof.
  intros Hh. unfold member_changes. cbn [m_hdr fst].
  change (bytes_eqb (field 0 16 h) [47; 47]) with (is_longnames h).
  destruct (is_longnames h) eqn:Hn.
  - intros E; injection E as <- <-. unfold norm_hdr. rewrite Hn. auto.
  - intros E. destruct (fix_header_spec _ _ _ _ Hh Hn E) as (-> & -> & L). auto.
Qed.

Lemma loop_sim fuel epoch rest out hm :
  ar_loop fuel epoch rest = Ok (out, hm) ->
  exists ms, members_fuel fuel rest = Some ms /\
             out = flat_map render_member (map (norm_member epoch) ms) /\
             hm = existsb (member_changes epoch) ms /\
             length out = length rest.
Proof.
  revert rest out hm; induction fuel as [|f IH]; intros rest out hm H; [discriminate|].
  rewrite ar_loop_S in H. cbn [members_fuel].
  destruct rest as [|b rest'].
  { injection H as <- <-. exists []. repeat split. }
  remember (b :: rest') as rest eqn:Er. clear Er b rest'.
  destruct (Nat.ltb_spec (length rest) 60) as [Hl|Hl]; [discriminate|].
  cbv zeta in H.
  assert (Hh : length (firstn 60 rest) = 60%nat) by (rewrite firstn_length; lia).
  remember (firstn 60 rest) as h eqn:Eh.
  rewrite (hdr_skipn58 h Hh) in H.
  destruct (bytes_eqb (f_magic h) sp_hmagic) eqn:Hm; cbn [negb] in H |- *; [|discriminate].
  destruct (utf8_ok (slice 0 16 h)); cbn [negb] in H; [|discriminate].
  destruct (parse_field false 4294967295 48 58 h) as [z|] eqn:Ez; [|discriminate].
  destruct (size_field_spec _ _ Ez) as (sz & -> & Ssz).
  rewrite Ssz. rewrite N2Z.id in H.
  destruct (if bytes_eqb (field 0 16 h) [47; 47] then Ok (h, false) else ar_fix_header epoch h)
    as [[h' m]| | |] eqn:Efix; try discriminate.
  destruct (header_step _ _ _ _ Hh Efix) as (Eh' & Em & Lh').
  rewrite padded_size_spec in H.
  destruct (sz + sz mod 2 <=? 4294967295); [|discriminate].
  destruct (N.ltb_spec (N.of_nat (length (skipn 60 rest))) (sz + sz mod 2)) as [Hb|Hb]; [discriminate|].
  destruct (ar_loop f epoch (skipn (N.to_nat (sz + sz mod 2)) (skipn 60 rest))) as [[out' m2]| | |] eqn:Hrec; try discriminate.
  injection H as <- <-.
  destruct (IH _ _ _ Hrec) as (ms & Hms & Hout & Hhm & Hlen).
  rewrite Hms. eexists. split; [reflexivity|].
  cbn [map flat_map existsb]. unfold norm_member at 1, render_member at 1. cbn [m_hdr m_data fst snd].
  rewrite <- app_assoc. rewrite <- Hout, <- Hhm, <- Eh'.
  split; [reflexivity|]. split.
  - rewrite Em. unfold member_changes. reflexivity.
  - rewrite !app_length, Lh', Hlen, firstn_length, !skipn_length.
    rewrite skipn_length in Hb.
    assert (Hb' : (N.to_nat (sz + sz mod 2) <= length rest - 60)%nat) by (clear - Hb; lia).
    clear - Hb' Hl. generalize dependent (N.to_nat (sz + sz mod 2)). intros p Hp. lia.
Qed.

Lemma ar_process_canon epoch x :
  ar_process epoch x =
    if (length x <? 8)%nat then Err
    else if negb (bytes_eqb (firstn 8 x) sp_magic) then Bad
    else match ar_loop (S (length x)) epoch (skipn 8 x) with
         | Ok (out, m) => Ok (sp_magic ++ out, m)
         | e => e
         end.
Proof. reflexivity. Qed.

Theorem ar_refines epoch x y hm :
  ar_process epoch x = Ok (y, hm) ->
  exists ms, ar_members x = Some ms /\
             y = ar_render (map (norm_member epoch) ms) /\
             hm = existsb (member_changes epoch) ms /\
             length y = length x.
Proof.
  rewrite ar_process_canon. unfold ar_members.
  destruct (Nat.ltb_spec (length x) 8) as [Hl|Hl]; [discriminate|].
  destruct (bytes_eqb (firstn 8 x) sp_magic) eqn:Hm; cbn [negb]; [|discriminate].
  destruct (ar_loop (S (length x)) epoch (skipn 8 x)) as [[out m]| | |] eqn:Hloop; try discriminate.
  intros E; injection E as <- <-.
  destruct (loop_sim _ _ _ _ _ Hloop) as (ms & Hms & Hout & Hhm & Hlen).
  exists ms. split; [exact Hms|]. unfold ar_render. rewrite <- Hout.
  split; [reflexivity|]. split; [exact Hhm|].
  cbn [length]. rewrite Hlen, skipn_length. lia.
Qed.

(* ---------- what the normalisation does to a header, field by field ---------- *)
Lemma slice_splice_eq p q new (h : bytes) :
  q = (p + length new)%nat -> (p + length new <= length h)%nat -> slice p q (splice p new h) = new.
Proof. intros -> H. apply splice_slice. exact H. Qed.

Lemma splice_len60 p new (h : bytes) :
  length h = 60%nat -> (p + length new <= 60)%nat -> length (splice p new h) = 60%nat.
Proof. intros H1 H2. rewrite splice_length; lia. Qed.

Ltac len60 := repeat (apply splice_len60; [|cbn [length zero_field]; lia]); try assumption.

Lemma fmt_len_or epoch h :
  length h = 60%nat ->
  length (norm_hdr epoch h) = 60%nat \/
  (exists e, epoch = Some e /\ length (fmt_left_pad 12 (Z.to_N e)) <> 12%nat).
Proof.
  intros Hh. unfold norm_hdr.
  destruct (is_longnames h); [left; exact Hh|].
  destruct epoch as [e|].
  - destruct (Nat.eq_dec (length (fmt_left_pad 12 (Z.to_N e))) 12) as [Hf|Hf]; [|right; eauto].
    left.
    assert (L1 : length (splice 16 (fmt_left_pad 12 (Z.to_N e)) h) = 60%nat) by (apply splice_len60; lia).
    destruct (clamp_needed (Some e) h), (owner_needed h); len60.
  - left. destruct (owner_needed h); len60.
Qed.

(* name, mode, size, header magic are never touched; mtime only when clamped; ids only when one is non-zero *)
Definition fmt_ok (epoch : option Z) : Prop :=
  match epoch with Some e => length (fmt_left_pad 12 (Z.to_N e)) = 12%nat | None => True end.

Lemma norm_hdr_len epoch h : length h = 60%nat -> fmt_ok epoch -> length (norm_hdr epoch h) = 60%nat.
Proof.
  intros Hh Hf. destruct (fmt_len_or epoch h Hh) as [H|(e & -> & H)]; [exact H|]. contradiction.
Qed.

Lemma norm_hdr_fields epoch h :
  length h = 60%nat -> fmt_ok epoch ->
  f_name (norm_hdr epoch h) = f_name h /\
  f_mode (norm_hdr epoch h) = f_mode h /\
  f_size (norm_hdr epoch h) = f_size h /\
  f_magic (norm_hdr epoch h) = f_magic h /\
  (is_longnames h = true -> norm_hdr epoch h = h) /\
  (is_longnames h = false ->
     f_mtime (norm_hdr epoch h) = (if clamp_needed epoch h then fmt_left_pad 12 (Z.to_N (match epoch with Some e => e | None => 0%Z end)) else f_mtime h) /\
     f_uid (norm_hdr epoch h) = (if owner_needed h then zero_field else f_uid h) /\
     f_gid (norm_hdr epoch h) = (if owner_needed h then zero_field else f_gid h)).
Proof.
  intros Hh. unfold norm_hdr.
  destruct (is_longnames h) eqn:Hn.
  { intros _. repeat split; try reflexivity; discriminate. }
  set (F := fmt_left_pad 12 (Z.to_N match epoch with Some e => e | None => 0%Z end)).
  assert (Hcase : forall (c : bool),
     (match epoch with Some e => if clamp_needed epoch h then splice 16 (fmt_left_pad 12 (Z.to_N e)) h else h | None => h end)
     = if clamp_needed epoch h then splice 16 F h else h).
  { intros _. unfold F. destruct epoch; [reflexivity|]. unfold clamp_needed. reflexivity. }
  rewrite (Hcase true). clear Hcase.
  intros Hfmt.
  assert (LF : clamp_needed epoch h = true -> length F = 12%nat).
  { unfold clamp_needed, F. destruct epoch as [e|]; [intros _; exact Hfmt | discriminate]. }
  destruct (clamp_needed epoch h) eqn:Hc; destruct (owner_needed h) eqn:Ho; try specialize (LF eq_refl).
  - (* clamp + owner *)
    assert (L1 : length (splice 16 F h) = 60%nat) by (rewrite splice_length; lia).
    assert (L2 : length (splice 28 zero_field (splice 16 F h)) = 60%nat) by (rewrite splice_length; cbn [length zero_field]; lia).
    unfold f_name, f_mode, f_size, f_magic, f_mtime, f_uid, f_gid.
    repeat split; try discriminate; intros;
      repeat (first [ rewrite slice_splice_disjoint by (cbn [length zero_field]; lia)
                    | reflexivity ]).
    + apply slice_splice_eq; lia.
    + apply slice_splice_eq; cbn [length zero_field]; lia.
    + apply slice_splice_eq; cbn [length zero_field]; lia.
  - (* clamp only *)
    unfold f_name, f_mode, f_size, f_magic, f_mtime, f_uid, f_gid.
    repeat split; try discriminate; intros;
      repeat (first [ rewrite slice_splice_disjoint by (cbn [length zero_field]; lia)
                    | reflexivity ]).
    apply slice_splice_eq; lia.
  - (* owner only *)
    assert (L2 : length (splice 28 zero_field h) = 60%nat) by (rewrite splice_length; cbn [length zero_field]; lia).
    unfold f_name, f_mode, f_size, f_magic, f_mtime, f_uid, f_gid.
    repeat split; try discriminate; intros;
      repeat (first [ rewrite slice_splice_disjoint by (cbn [length zero_field]; lia)
                    | reflexivity ]).
    + apply slice_splice_eq; cbn [length zero_field]; lia.
    + apply slice_splice_eq; cbn [length zero_field]; lia.
  - repeat split; try discriminate; reflexivity.
Qed.

(* ---------- numeric meaning of the normalised fields ---------- *)
From AD Require Import Decimal.

Definition epoch_ok (epoch : option Z) : Prop :=
  match epoch with Some e => (0 <= e < 10 ^ 12)%Z | None => True end.

Lemma epoch_ok_fmt epoch : epoch_ok epoch -> fmt_ok epoch.
Proof.
  destruct epoch as [e|]; [|exact (fun _ => I)]. cbn [epoch_ok fmt_ok]. intros He.
  apply fmt_left_pad_length; [|lia].
  change (10 ^ N.of_nat 12) with (Z.to_N (10 ^ 12)). lia.
Qed.

Lemma num_mtime_clamped e h :
  length h = 60%nat -> (0 <= e < 10 ^ 12)%Z -> is_longnames h = false ->
  clamp_needed (Some e) h = true ->
  num_mtime (norm_hdr (Some e) h) = Some e.
Proof.
  intros Hh He Hn Hc.
  destruct (norm_hdr_fields (Some e) h Hh (epoch_ok_fmt (Some e) He)) as (_ & _ & _ & _ & _ & Hf).
  destruct (Hf Hn) as (Hm & _ & _). rewrite Hc in Hm.
  unfold num_mtime. rewrite Hm, fmt_left_pad_trim.
  rewrite parse_signed_dec.
  - rewrite Z2N.id by lia. reflexivity.
  - unfold i64_max. assert (Z.to_N e < Z.to_N (10 ^ 12)) by lia. change (Z.to_N (10 ^ 12)) with 1000000000000 in H. lia.
Qed.

Lemma zero_field_num : parse_unsigned u64_max (trim_end_sp zero_field) = Some 0.
Proof. vm_compute. reflexivity. Qed.

Lemma num_owner_zeroed epoch h :
  length h = 60%nat -> epoch_ok epoch -> is_longnames h = false -> owner_needed h = true ->
  num_uid (norm_hdr epoch h) = Some 0 /\ num_gid (norm_hdr epoch h) = Some 0.
Proof.
  intros Hh He Hn Ho.
  destruct (norm_hdr_fields epoch h Hh (epoch_ok_fmt epoch He)) as (_ & _ & _ & _ & _ & Hf).
  destruct (Hf Hn) as (_ & Hu & Hg). rewrite Ho in Hu, Hg.
  unfold num_uid, num_gid. rewrite Hu, Hg. split; exact zero_field_num.
Qed.

(* the normalised header is a fixed point, and differs from the original exactly when the
   member "changes" *)
Lemma norm_hdr_changes epoch h :
  length h = 60%nat -> epoch_ok epoch ->
  (member_changes epoch (h, []) = false -> norm_hdr epoch h = h) /\
  (member_changes epoch (h, []) = true -> norm_hdr epoch h <> h).
Proof.
  intros Hh He. unfold member_changes. cbn [m_hdr fst].
  destruct (is_longnames h) eqn:Hn; cbn [negb andb].
  { split; [intros _; unfold norm_hdr; rewrite Hn; reflexivity | discriminate]. }
  split.
  - intros Hc. apply orb_false_iff in Hc. destruct Hc as [Hc Ho].
    unfold norm_hdr. rewrite Hn, Ho. destruct epoch; [rewrite Hc|]; reflexivity.
  - intros Hc E.
    destruct (norm_hdr_fields epoch h Hh (epoch_ok_fmt epoch He)) as (_ & _ & _ & _ & _ & Hf).
    destruct (Hf Hn) as (Hm & Hu & Hg). rewrite E in Hm, Hu, Hg.
    apply orb_true_iff in Hc. destruct Hc as [Hc|Ho].
    + (* clamped: the new field parses to the epoch, the old one to something later *)
      destruct epoch as [e|]; [|discriminate Hc].
      pose proof (num_mtime_clamped e h Hh He Hn Hc) as Hnew. rewrite E in Hnew.
      unfold clamp_needed in Hc. rewrite Hnew in Hc. rewrite Z.ltb_irrefl in Hc. discriminate.
    + pose proof (num_owner_zeroed epoch h Hh He Hn Ho) as [Nu Ng]. rewrite E in Nu, Ng.
      unfold owner_needed in Ho. rewrite Nu, Ng in Ho. discriminate.
Qed.

Lemma render_same_iff epoch ms :
  Forall (fun m => length (m_hdr m) = 60%nat) ms -> epoch_ok epoch ->
  (existsb (member_changes epoch) ms = false <->
   flat_map render_member (map (norm_member epoch) ms) = flat_map render_member ms).
Proof.
  intros Hall He. induction Hall as [|m ms Hm _ IH]; cbn [existsb map flat_map]; [tauto|].
  assert (Hmc : member_changes epoch m = member_changes epoch (m_hdr m, [])) by reflexivity.
  destruct (norm_hdr_changes epoch (m_hdr m) Hm He) as [Hsame Hdiff].
  unfold render_member at 1 3, norm_member at 1. cbn [m_hdr m_data fst snd].
  rewrite <- !app_assoc.
  split.
  - intros H. apply orb_false_iff in H. destruct H as [H1 H2].
    rewrite Hmc in H1. rewrite (Hsame H1). f_equal. f_equal. apply IH. exact H2.
  - intros E.
    apply app_inj_len in E.
    2:{ rewrite norm_hdr_len; [symmetry; exact Hm | exact Hm | apply epoch_ok_fmt, He]. }
    destruct E as [E1 E2]. apply app_inv_head in E2.
    apply orb_false_iff. split.
    + rewrite Hmc. destruct (member_changes epoch (m_hdr m, [])) eqn:Hc; [|reflexivity].
      exfalso. exact (Hdiff Hc E1).
    + apply IH. exact E2.
Qed.

(* ---------- the output is again a well-formed archive with the normalised members ---------- *)
Definition wf_member (m : member) : Prop :=
  length (m_hdr m) = 60%nat /\ f_magic (m_hdr m) = sp_hmagic /\
  exists sz, sp_size (m_hdr m) = Some sz /\ length (m_data m) = N.to_nat (sz + sz mod 2).

Lemma members_wf fuel rest ms : members_fuel fuel rest = Some ms -> Forall wf_member ms.
Proof.
  revert rest ms; induction fuel as [|f IH]; intros rest ms H; cbn [members_fuel] in H; [discriminate|].
  destruct rest as [|b rest']; [injection H as <-; constructor|].
  remember (b :: rest') as rest eqn:Er. clear Er b rest'.
  destruct (Nat.ltb_spec (length rest) 60) as [Hl|Hl]; [discriminate|].
  destruct (bytes_eqb (f_magic (firstn 60 rest)) sp_hmagic) eqn:Hm; cbn [negb] in H; [|discriminate].
  destruct (sp_size (firstn 60 rest)) as [sz|] eqn:Hs; [|discriminate].
  destruct (N.ltb_spec (N.of_nat (length (skipn 60 rest))) (sz + sz mod 2)) as [Hb|Hb]; [discriminate|].
  destruct (members_fuel f (skipn (N.to_nat (sz + sz mod 2)) (skipn 60 rest))) as [ms'|] eqn:Hr; [|discriminate].
  injection H as <-. constructor; [|eapply IH; eassumption].
  unfold wf_member. cbn [m_hdr m_data fst snd].
  split; [rewrite firstn_length; lia|]. split; [apply bytes_eqb_eq, Hm|].
  exists sz. split; [exact Hs|]. rewrite firstn_length. clear - Hb. lia.
Qed.

Lemma members_fuel_S f rest :
  rest <> [] ->
  members_fuel (S f) rest =
    if (length rest <? 60)%nat then None
    else
      let h := firstn 60 rest in
      if negb (bytes_eqb (f_magic h) sp_hmagic) then None
      else
        match sp_size h with
        | None => None
        | Some sz =>
          let psz := sz + sz mod 2 in
          let body := skipn 60 rest in
          if N.of_nat (length body) <? psz then None
          else
            match members_fuel f (skipn (N.to_nat psz) body) with
            | None => None
            | Some ms => Some ((h, firstn (N.to_nat psz) body) :: ms)
            end
        end.
Proof. destruct rest; [contradiction | reflexivity]. Qed.

Lemma members_of_render ms : forall fuel,
  Forall wf_member ms -> (length ms < fuel)%nat -> members_fuel fuel (flat_map render_member ms) = Some ms.
Proof.
  induction ms as [|m ms IH]; intros fuel Hall Hf.
  - destruct fuel; [lia|]. reflexivity.
  - destruct fuel as [|f]; [cbn in Hf; lia|].
    inversion Hall as [|? ? Hm Hrest]; subst. destruct Hm as (Hh & Hmag & sz & Hsz & Hd).
    destruct m as [h d]. cbn [m_hdr m_data fst snd] in *.
    cbn [flat_map]. unfold render_member at 1. cbn [m_hdr m_data fst snd].
    set (tail := flat_map render_member ms).
    rewrite members_fuel_S.
    2:{ intros Er. apply (f_equal (@length N)) in Er. rewrite !app_length in Er. cbn [length] in Er. lia. }
    cbv zeta.
    assert (Hf60 : firstn 60 ((h ++ d) ++ tail) = h).
    { rewrite <- app_assoc. rewrite firstn_app, Hh, Nat.sub_diag. rewrite <- Hh at 1. rewrite firstn_all.
      unfold firstn at 1. apply app_nil_r. }
    rewrite Hf60.
    assert (Hs60 : skipn 60 ((h ++ d) ++ tail) = d ++ tail).
    { rewrite <- app_assoc. rewrite skipn_app, Hh, Nat.sub_diag. rewrite <- Hh at 1. rewrite skipn_all. reflexivity. }
    rewrite Hs60.
    destruct (Nat.ltb_spec (length ((h ++ d) ++ tail)) 60) as [Hl|Hl].
    { rewrite !app_length in Hl. lia. }
    rewrite Hmag, bytes_eqb_refl. cbn [negb]. rewrite Hsz.
    destruct (N.ltb_spec (N.of_nat (length (d ++ tail))) (sz + sz mod 2)) as [Hb|Hb].
    { rewrite app_length in Hb. clear - Hb Hd. lia. }
    rewrite <- Hd.
    rewrite skipn_app, skipn_all, Nat.sub_diag. cbn [app]. unfold skipn at 1.
    rewrite firstn_app, firstn_all, Nat.sub_diag. unfold firstn at 1. rewrite app_nil_r.
    unfold tail. rewrite IH; [reflexivity | exact Hrest | cbn [length] in Hf; lia].
Qed.

Lemma norm_member_wf epoch m : epoch_ok epoch -> wf_member m -> wf_member (norm_member epoch m).
Proof.
  intros He (Hh & Hmag & sz & Hsz & Hd). unfold wf_member, norm_member. cbn [m_hdr m_data fst snd].
  destruct (norm_hdr_fields epoch (m_hdr m) Hh (epoch_ok_fmt epoch He)) as (_ & _ & Hs & Hm & _).
  split; [apply norm_hdr_len; [exact Hh | apply epoch_ok_fmt, He]|].
  split; [rewrite Hm; exact Hmag|].
  exists sz. unfold sp_size in *. rewrite Hs. split; assumption.
Qed.

Theorem ar_output_members epoch x y hm :
  epoch_ok epoch ->
  ar_process epoch x = Ok (y, hm) ->
  exists ms, ar_members x = Some ms /\ ar_members y = Some (map (norm_member epoch) ms) /\
             x = ar_render ms /\ y = ar_render (map (norm_member epoch) ms) /\
             length y = length x /\
             (hm = false <-> y = x).
Proof.
  intros He H. destruct (ar_refines _ _ _ _ H) as (ms & Hms & Hy & Hhm & Hlen).
  exists ms. split; [exact Hms|].
  pose proof (ar_members_render _ _ Hms) as Hx.
  assert (Hwf : Forall wf_member ms).
  { unfold ar_members in Hms. destruct (bytes_eqb (firstn 8 x) sp_magic); [|discriminate]. eapply members_wf, Hms. }
  assert (Hwf' : Forall wf_member (map (norm_member epoch) ms)).
  { rewrite Forall_map. eapply Forall_impl; [|exact Hwf]. intros m. apply norm_member_wf, He. }
  split.
  - rewrite Hy. unfold ar_members, ar_render.
    assert (F8 : firstn 8 (sp_magic ++ flat_map render_member (map (norm_member epoch) ms)) = sp_magic) by reflexivity.
    rewrite F8, bytes_eqb_refl.
    assert (S8 : skipn 8 (sp_magic ++ flat_map render_member (map (norm_member epoch) ms))
                 = flat_map render_member (map (norm_member epoch) ms)) by reflexivity.
    rewrite S8. apply members_of_render; [exact Hwf'|].
    rewrite map_length, app_length.
    (* each member occupies at least 60 bytes *)
    assert (Hsz : forall l, Forall wf_member l -> (length l <= length (flat_map render_member l))%nat).
    { induction 1 as [|m l (Hh & _) _ IH]; cbn [flat_map length]; [lia|].
      unfold render_member at 1. rewrite !app_length. lia. }
    pose proof (Hsz _ Hwf'). rewrite map_length in H0. lia.
  - split; [symmetry; exact Hx|]. split; [exact Hy|]. split; [exact Hlen|].
    rewrite Hhm, Hy, <- Hx. unfold ar_render.
    rewrite render_same_iff; [|eapply Forall_impl; [|exact Hwf]; intros m Hm; apply Hm | exact He].
    split; [intros ->; reflexivity | intros E; apply app_inv_head in E; exact E].
Qed.
