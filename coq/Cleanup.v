(* Cleanup.v — C19: whatever operation fails, the temporary file does not stay behind - unless the call that
   fails is the removal itself - and a failed operation (other than a refused chown and the removal of the
   temporary file, which are only logged) makes the run report an error. *)
From AD Require Import Bytes Outcome Fs Helper HelperProofs.

Section Cleanup.
  Variable e : env.
  Variable fault : option (nat * errno).
  Variable p : path.
  Let t := tmp_path p.

  (* some unlink was attempted and failed *)
  Definition unlink_failed (s : sim) : Prop := exists q er, In (OUnlink q, Some er) (s_trace s).
  (* the temporary name is gone, or its removal failed *)
  Definition tidy (s : sim) : Prop := unlink_failed s \/ names (s_fs s) t = None.

  Definition keeps_tmp (o : op) : Prop :=
    match o with
    | OCreateExcl q | OUnlink q => q <> t
    | ORename a b => a <> t /\ b <> t
    | _ => True
    end.

  Lemma apply_keeps f o : keeps_tmp o -> names (fst (apply_op e f o)) t = names f t.
  Proof.
    assert (Hne : forall q, q <> t -> path_eqb t q = false) by (intros q Hq; apply path_eqb_neq; intros E; apply Hq; symmetry; exact E).
    destruct o; cbn [keeps_tmp apply_op]; intros H; try reflexivity.
    - destruct (names f p0); reflexivity.
    - destruct (names f p0); [reflexivity|]. cbn [fst names]. rewrite (Hne _ H). reflexivity.
    - destruct (names f p0); [|reflexivity]. cbn [fst]. rewrite upd_inode_names. cbn [set_name names]. rewrite (Hne _ H). reflexivity.
    - cbn [fst]. rewrite upd_inode_names. reflexivity.
    - cbn [fst]. rewrite upd_inode_names. reflexivity.
    - cbn [fst]. rewrite upd_inode_names. reflexivity.
    - destruct (names f p0); [|reflexivity]. destruct (inodes f n); [|reflexivity]. destruct (_ || _); reflexivity.
    - destruct H as [H1 H2]. destruct (names f src) as [i|]; [|reflexivity]. cbn [fst set_name names].
      rewrite (Hne _ H1), (Hne _ H2).
      destruct (names f dst) as [j|]; [|reflexivity]. destruct (j =? i); [reflexivity|]. rewrite upd_inode_names. reflexivity.
    - destruct (names f p0); reflexivity.
    - cbn [fst]. rewrite upd_inode_names. reflexivity.
  Qed.

  Lemma issue_keeps o s : keeps_tmp o -> names (s_fs (fst (issue e fault o s))) t = names (s_fs s) t.
  Proof.
    intros H. destruct (issue_fs e fault o s) as [E|[E _]]; rewrite E; [reflexivity | apply apply_keeps, H].
  Qed.

  Lemma issue_trace o s : s_trace (fst (issue e fault o s)) = (o, snd (issue e fault o s)) :: s_trace s.
  Proof. unfold issue. destruct fault as [[k er]|]; [destruct (Nat.eqb k (s_n s))|]; reflexivity. Qed.

  (* Drop: the temporary file is removed, or the removal fails *)
  Lemma cleanup_tidy fo s : names (s_fs s) t = Some fo -> tidy (cleanup e fault t (OutTmp fo) s).
  Proof.
    intros Hn. cbn [cleanup]. unfold tidy.
    destruct (issue_cases e fault (OUnlink t) s) as [(er & E)|E]; rewrite E; cbn [fst s_trace s_fs].
    - left. exists t, er. left. reflexivity.
    - right. cbn [apply_op]. rewrite Hn. cbn [fst]. rewrite upd_inode_names. cbn [set_name names]. rewrite path_eqb_refl. reflexivity.
  Qed.

  Lemma cleanup_none_tidy o s : (o = OutNone \/ o = OutNull) -> names (s_fs s) t = None -> tidy (cleanup e fault t o s).
  Proof. intros [-> | ->] H; right; exact H. Qed.

  (* finalize(true) from a state where the temporary name is bound to the output file *)
  Lemma finalize_tidy meta fo y s : p <> t ->
    names (s_fs s) t = Some fo -> tidy (fst (finalize_mod e fault Real p t meta (OutTmp fo) y s)).
  Proof.
    intros Hpt Hn. unfold finalize_mod.
    assert (K : forall o s', keeps_tmp o -> names (s_fs s') t = Some fo -> names (s_fs (fst (issue e fault o s'))) t = Some fo)
      by (intros o s' Hk H; rewrite issue_keeps; assumption).
    destruct (i_nlink meta =? 1).
    - pose proof (K (OLchown t (i_uid meta) (i_gid meta)) s I Hn) as H1.
      destruct (issue e fault (OLchown t (i_uid meta) (i_gid meta)) s) as [s1 r1]. cbn [fst] in H1.
      assert (G : tidy (fst (step e fault t (OutTmp fo) (OFchmod fo (i_mode meta)) s1 (fun s2 =>
                        step e fault t (OutTmp fo) (OFutimens fo (i_mtime meta)) s2 (fun s3 =>
                        step e fault t (OutTmp fo) (ORename t p) s3 (fun s4 => (s4, Some Replaced))))))).
      { unfold step.
        pose proof (K (OFchmod fo (i_mode meta)) s1 I H1) as H2.
        destruct (issue e fault (OFchmod fo (i_mode meta)) s1) as [s2 r2]. cbn [fst] in H2.
        destruct r2; [cbn [fst]; apply cleanup_tidy, H2|].
        pose proof (K (OFutimens fo (i_mtime meta)) s2 I H2) as H3.
        destruct (issue e fault (OFutimens fo (i_mtime meta)) s2) as [s3 r3]. cbn [fst] in H3.
        destruct r3; [cbn [fst]; apply cleanup_tidy, H3|].
        destruct (issue_cases e fault (ORename t p) s3) as [(er & E)|E]; rewrite E.
        - cbn [fst]. apply cleanup_tidy. cbn [s_fs]. exact H3.
        - destruct (snd (apply_op e (s_fs s3) (ORename t p))) as [er|] eqn:Er; cbn [fst].
          + apply cleanup_tidy. cbn [s_fs]. rewrite (apply_op_fail _ _ _ _ Er). exact H3.
          + right. cbn [s_fs apply_op]. rewrite H3. cbn [fst set_name names]. rewrite path_eqb_refl. reflexivity. }
      destruct r1 as [er|]; [|exact G]. destruct er; try exact G; cbn [fst]; apply cleanup_tidy, H1.
    - unfold step.
      pose proof (K (OOpenWrite p) s I Hn) as H1.
      destruct (issue e fault (OOpenWrite p) s) as [s1 r1]. cbn [fst] in H1.
      destruct r1; [cbn [fst]; apply cleanup_tidy, H1|].
      destruct (names (s_fs s1) p) as [ip|]; [|cbn [fst]; apply cleanup_tidy, H1].
      pose proof (K (OWrite ip 0 y) s1 I H1) as H2.
      destruct (issue e fault (OWrite ip 0 y) s1) as [s2 r2]. cbn [fst] in H2.
      destruct r2; [cbn [fst]; apply cleanup_tidy, H2|].
      pose proof (K (OTruncate ip (length y)) s2 I H2) as H3.
      destruct (issue e fault (OTruncate ip (length y)) s2) as [s3 r3]. cbn [fst] in H3.
      destruct r3; [cbn [fst]; apply cleanup_tidy, H3|].
      pose proof (K (OFutimens ip (i_mtime meta)) s3 I H3) as H4.
      destruct (issue e fault (OFutimens ip (i_mtime meta)) s3) as [s4 r4]. cbn [fst] in H4.
      destruct r4; cbn [fst]; apply cleanup_tidy, H4.
  Qed.

  (* open_output_real from a state without a temporary file: either it hands out the new file bound at t,
     or it fails leaving the name unbound (or a failed removal on record) *)
  Lemma open_output_tidy s : names (s_fs s) t = None ->
    match open_output_real e fault t s with
    | (s', Some i) => names (s_fs s') t = Some i
    | (s', None) => tidy s'
    end.
  Proof.
    intros Hn. unfold open_output_real.
    destruct (issue_cases e fault (OCreateExcl t) s) as [(er & E)|E]; rewrite E.
    - (* injected failure of the creation *)
      destruct er; try (right; cbn [s_fs]; exact Hn).
      (* EEXIST injected: the tool tries to remove a stale file that is not there *)
      destruct (issue_cases e fault (OUnlink t) (mk_sim (s_fs s) ((OCreateExcl t, Some EEXIST) :: s_trace s) (S (s_n s)) (s_hist s))) as [(er2 & E2)|E2]; rewrite E2.
      + left. exists t, er2. left. reflexivity.
      + cbn [s_fs apply_op]. rewrite Hn. cbn [snd fst]. left. exists t, ENOENT. left. reflexivity.
    - cbn [apply_op]. rewrite Hn. cbn [fst snd s_fs names]. rewrite path_eqb_refl. reflexivity.
  Qed.

  (* C19: the temporary file does not stay behind *)
  Theorem temp_removed prof eager handler f0 :
    names f0 t = None -> p <> t ->
    snd (run_handler e fault Real prof eager handler p (init_sim f0)) <> None ->
    tidy (fst (run_handler e fault Real prof eager handler p (init_sim f0))).
  Proof.
    intros Hn Hpt. unfold run_handler. cbv zeta. fold t.
    assert (K : forall o s', keeps_tmp o -> names (s_fs s') t = None -> names (s_fs (fst (issue e fault o s'))) t = None)
      by (intros o s' Hk H; rewrite issue_keeps; assumption).
    pose proof (K (OOpenRead p) (init_sim f0) I Hn) as H1.
    destruct (issue e fault (OOpenRead p) (init_sim f0)) as [s1 r1]. cbn [fst] in H1.
    destruct r1; [intros _; right; exact H1|].
    destruct (names (s_fs s1) p) as [ip|]; [|intros _; right; exact H1].
    pose proof (K (OFstat ip) s1 I H1) as H2.
    destruct (issue e fault (OFstat ip) s1) as [s2 r2]. cbn [fst] in H2.
    destruct r2; [intros _; right; exact H2|].
    destruct (inodes (s_fs s2) ip) as [meta|]; [|intros _; right; exact H2].
    (* what happens once the output handle [o] is known *)
    assert (After : forall o s3,
       (o = OutNone /\ names (s_fs s3) t = None \/ exists fo, o = OutTmp fo /\ names (s_fs s3) t = Some fo) ->
       let r := match handler (i_data meta) with
                | Panic => match prof with Debug => (cleanup e fault t o s3, None) | Release => (s3, None) end
                | Bad => (cleanup e fault t o s3, Some BadFormat)
                | Err => (cleanup e fault t o s3, Some Error)
                | Ok (_, false) => (cleanup e fault t o s3, Some Noop)
                | Ok (y, true) =>
                    match o with
                    | OutTmp fo => step e fault t o (OWrite fo 0 y) s3 (fun s4 => finalize_mod e fault Real p t meta o y s4)
                    | _ => finalize_mod e fault Real p t meta o y s3
                    end
                end : sim * option presult in
       snd r <> None -> tidy (fst r)).
    { intros o s3 Ho. cbv zeta.
      assert (C : tidy (cleanup e fault t o s3)).
      { destruct Ho as [[-> H]|(fo & -> & H)]; [right; exact H | apply cleanup_tidy, H]. }
      destruct (handler (i_data meta)) as [[y [|]]| | |]; try (intros _; exact C).
      - destruct Ho as [[-> H]|(fo & -> & H)].
        + cbn [finalize_mod fst]. intros _. right. exact H.
        + intros _. unfold step.
          pose proof (issue_keeps (OWrite fo 0 y) s3 I) as H4. rewrite H in H4.
          destruct (issue e fault (OWrite fo 0 y) s3) as [s4 r4]. cbn [fst] in H4.
          destruct r4; [cbn [fst]; apply cleanup_tidy, H4 | apply finalize_tidy; assumption].
      - destruct prof; cbn [snd]; [intros _; exact C | intros H; contradiction]. }
    assert (Open : forall s', names (s_fs s') t = None ->
       match open_output e fault Real t s' with
       | (s3, Some o) => exists fo, o = OutTmp fo /\ names (s_fs s3) t = Some fo
       | (s3, None) => tidy s3
       end).
    { intros s' H. unfold open_output. pose proof (open_output_tidy s' H) as Ho.
      destruct (open_output_real e fault t s') as [s3 [i|]]; [exists i; auto | exact Ho]. }
    destruct (eager (i_data meta)).
    - pose proof (Open s2 H2) as Ho. destruct (open_output e fault Real t s2) as [s3 [o|]].
      + apply After. right. exact Ho.
      + intros _. exact Ho.
    - destruct (handler (i_data meta)) as [[y [|]]| | |] eqn:Eh.
      + pose proof (Open s2 H2) as Ho. destruct (open_output e fault Real t s2) as [s3 [o|]].
        * pose proof (After o s3 (or_intror Ho)) as A. cbv beta iota zeta in A. exact A.
        * intros _. exact Ho.
      + pose proof (After OutNone s2 (or_introl (conj eq_refl H2))) as A. cbv beta iota zeta in A. exact A.
      + pose proof (After OutNone s2 (or_introl (conj eq_refl H2))) as A. cbv beta iota zeta in A. exact A.
      + pose proof (After OutNone s2 (or_introl (conj eq_refl H2))) as A. cbv beta iota zeta in A. exact A.
      + pose proof (After OutNone s2 (or_introl (conj eq_refl H2))) as A. cbv beta iota zeta in A. exact A.
  Qed.
  (* ---------- a failed operation is reported ---------- *)
  (* failures the tool only logs: removing the temporary file, a refused chown, and EEXIST on the first attempt to
     create the temporary file (a stale one is removed and the creation retried) *)
  Definition tolerated (o : op) (er : errno) : Prop :=
    (exists q, o = OUnlink q) \/ (exists q u g, o = OLchown q u g /\ (er = EPERM \/ er = EACCES)) \/ (exists q, o = OCreateExcl q /\ er = EEXIST).
  Definition quiet (s : sim) : Prop := forall o er, In (o, Some er) (s_trace s) -> tolerated o er.

  Lemma issue_quiet o s : quiet s -> (forall er, snd (issue e fault o s) = Some er -> tolerated o er) -> quiet (fst (issue e fault o s)).
  Proof.
    intros Hq Ht o' er' Hin. rewrite issue_trace in Hin. destruct Hin as [E|Hin]; [|apply Hq, Hin].
    injection E as <- E. apply Ht. exact E.
  Qed.

  Lemma issue_quiet_ok o s : quiet s -> snd (issue e fault o s) = None -> quiet (fst (issue e fault o s)).
  Proof. intros Hq Hn. apply issue_quiet; [exact Hq|]. intros er E. rewrite Hn in E. discriminate. Qed.

  Lemma cleanup_quiet o s : quiet s -> quiet (cleanup e fault t o s).
  Proof.
    intros Hq. destruct o; cbn [cleanup]; try exact Hq. apply issue_quiet; [exact Hq|]. intros er _. left. eauto.
  Qed.

  Ltac fin_error := let c := fresh in let Hc := fresh in let Hne := fresh in
    cbn [fst snd]; intros c Hc Hne; injection Hc as <-; exfalso; apply Hne; reflexivity.

  Lemma finalize_quiet meta o y s : quiet s ->
    forall c, snd (finalize_mod e fault Real p t meta o y s) = Some c -> c <> Error -> quiet (fst (finalize_mod e fault Real p t meta o y s)).
  Proof.
    intros Hq. unfold finalize_mod. destruct o as [| |fo]; [fin_error | cbn [fst snd]; intros; exact Hq|].
    destruct (i_nlink meta =? 1).
    - pose proof (issue_quiet (OLchown t (i_uid meta) (i_gid meta)) s Hq) as Q1.
      destruct (issue e fault (OLchown t (i_uid meta) (i_gid meta)) s) as [s1 r1]. cbn [fst snd] in Q1.
      assert (G : quiet s1 -> forall c,
         snd (step e fault t (OutTmp fo) (OFchmod fo (i_mode meta)) s1 (fun s2 =>
              step e fault t (OutTmp fo) (OFutimens fo (i_mtime meta)) s2 (fun s3 =>
              step e fault t (OutTmp fo) (ORename t p) s3 (fun s4 => (s4, Some Replaced))))) = Some c -> c <> Error ->
         quiet (fst (step e fault t (OutTmp fo) (OFchmod fo (i_mode meta)) s1 (fun s2 =>
              step e fault t (OutTmp fo) (OFutimens fo (i_mtime meta)) s2 (fun s3 =>
              step e fault t (OutTmp fo) (ORename t p) s3 (fun s4 => (s4, Some Replaced))))))).
      { intros Hq1. unfold step.
        pose proof (issue_quiet_ok (OFchmod fo (i_mode meta)) s1 Hq1) as Q2.
        destruct (issue e fault (OFchmod fo (i_mode meta)) s1) as [s2 r2]. cbn [fst snd] in Q2. destruct r2; [fin_error|]. specialize (Q2 eq_refl).
        pose proof (issue_quiet_ok (OFutimens fo (i_mtime meta)) s2 Q2) as Q3.
        destruct (issue e fault (OFutimens fo (i_mtime meta)) s2) as [s3 r3]. cbn [fst snd] in Q3. destruct r3; [fin_error|]. specialize (Q3 eq_refl).
        pose proof (issue_quiet_ok (ORename t p) s3 Q3) as Q4.
        destruct (issue e fault (ORename t p) s3) as [s4 r4]. cbn [fst snd] in Q4. destruct r4; [fin_error|]. intros c _ _. cbn [fst]. exact (Q4 eq_refl). }
      destruct r1 as [er|].
      + destruct er; try fin_error; apply G; apply Q1; intros er' E; injection E as <-; right; left; eauto 6.
      + apply G. apply Q1. discriminate.
    - unfold step.
      pose proof (issue_quiet_ok (OOpenWrite p) s Hq) as Q1.
      destruct (issue e fault (OOpenWrite p) s) as [s1 r1]. cbn [fst snd] in Q1. destruct r1; [fin_error|]. specialize (Q1 eq_refl).
      destruct (names (s_fs s1) p) as [ip|]; [|fin_error].
      pose proof (issue_quiet_ok (OWrite ip 0 y) s1 Q1) as Q2.
      destruct (issue e fault (OWrite ip 0 y) s1) as [s2 r2]. cbn [fst snd] in Q2. destruct r2; [fin_error|]. specialize (Q2 eq_refl).
      pose proof (issue_quiet_ok (OTruncate ip (length y)) s2 Q2) as Q3.
      destruct (issue e fault (OTruncate ip (length y)) s2) as [s3 r3]. cbn [fst snd] in Q3. destruct r3; [fin_error|]. specialize (Q3 eq_refl).
      pose proof (issue_quiet_ok (OFutimens ip (i_mtime meta)) s3 Q3) as Q4.
      destruct (issue e fault (OFutimens ip (i_mtime meta)) s3) as [s4 r4]. cbn [fst snd] in Q4. destruct r4; [fin_error|]. specialize (Q4 eq_refl).
      intros c _ _. cbn [fst]. apply cleanup_quiet, Q4.
  Qed.

  Lemma open_output_quiet s : quiet s ->
    match open_output e fault Real t s with
    | (s', Some _) => quiet s'
    | (s', None) => True
    end.
  Proof.
    intros Hq. unfold open_output, open_output_real.
    pose proof (issue_quiet (OCreateExcl t) s Hq) as Q1.
    destruct (issue e fault (OCreateExcl t) s) as [s1 r1]. cbn [fst snd] in Q1.
    destruct r1 as [er|]; [|apply Q1; discriminate].
    destruct er; try exact I.
    assert (Q1' : quiet s1) by (apply Q1; intros er' E; injection E as <-; right; right; eauto).
    pose proof (issue_quiet_ok (OUnlink t) s1 Q1') as Q2.
    destruct (issue e fault (OUnlink t) s1) as [s2 r2]. cbn [fst snd] in Q2. destruct r2; [exact I|]. specialize (Q2 eq_refl).
    pose proof (issue_quiet_ok (OCreateExcl t) s2 Q2) as Q3.
    destruct (issue e fault (OCreateExcl t) s2) as [s3 r3]. cbn [fst snd] in Q3. destruct r3; [exact I | exact (Q3 eq_refl)].
  Qed.

  (* C19: a run that does not end in Error (or a panic) met no failure other than the tolerated ones - i.e. every
     other failing operation, injected or not, is reported and counted as an error *)
  Theorem failure_reported prof eager handler f0 c :
    snd (run_handler e fault Real prof eager handler p (init_sim f0)) = Some c -> c <> Error ->
    quiet (fst (run_handler e fault Real prof eager handler p (init_sim f0))).
  Proof.
    unfold run_handler. cbv zeta. fold t.
    assert (Q0 : quiet (init_sim f0)) by (intros o er H; contradiction H).
    pose proof (issue_quiet_ok (OOpenRead p) (init_sim f0) Q0) as Q1.
    destruct (issue e fault (OOpenRead p) (init_sim f0)) as [s1 r1]. cbn [fst snd] in Q1.
    destruct r1; [destruct (names (s_fs s1) p); revert c; fin_error|]. specialize (Q1 eq_refl).
    destruct (names (s_fs s1) p) as [ip|]; [|revert c; fin_error].
    pose proof (issue_quiet_ok (OFstat ip) s1 Q1) as Q2.
    destruct (issue e fault (OFstat ip) s1) as [s2 r2]. cbn [fst snd] in Q2.
    destruct r2; [destruct (inodes (s_fs s2) ip); revert c; fin_error|]. specialize (Q2 eq_refl).
    destruct (inodes (s_fs s2) ip) as [meta|]; [|revert c; fin_error].
    assert (After : forall o s3, quiet s3 ->
       let r := match handler (i_data meta) with
                | Panic => match prof with Debug => (cleanup e fault t o s3, None) | Release => (s3, None) end
                | Bad => (cleanup e fault t o s3, Some BadFormat)
                | Err => (cleanup e fault t o s3, Some Error)
                | Ok (_, false) => (cleanup e fault t o s3, Some Noop)
                | Ok (y, true) =>
                    match o with
                    | OutTmp fo => step e fault t o (OWrite fo 0 y) s3 (fun s4 => finalize_mod e fault Real p t meta o y s4)
                    | _ => finalize_mod e fault Real p t meta o y s3
                    end
                end : sim * option presult in
       forall c, snd r = Some c -> c <> Error -> quiet (fst r)).
    { intros o s3 Hq3. cbv zeta. destruct (handler (i_data meta)) as [[y [|]]| | |].
      - destruct o as [| |fo]; try (apply finalize_quiet; exact Hq3).
        unfold step. pose proof (issue_quiet_ok (OWrite fo 0 y) s3 Hq3) as Q4.
        destruct (issue e fault (OWrite fo 0 y) s3) as [s4 r4]. cbn [fst snd] in Q4. destruct r4; [fin_error|].
        apply finalize_quiet. exact (Q4 eq_refl).
      - cbn [fst snd]. intros c' _ _. apply cleanup_quiet, Hq3.
      - cbn [fst snd]. intros c' _ _. apply cleanup_quiet, Hq3.
      - fin_error.
      - destruct prof; cbn [snd]; intros c' H; discriminate H. }
    revert c.
    destruct (eager (i_data meta)).
    - pose proof (open_output_quiet s2 Q2) as Qo. destruct (open_output e fault Real t s2) as [s3 [o|]]; [apply After, Qo | fin_error].
    - destruct (handler (i_data meta)) as [[y [|]]| | |] eqn:Eh.
      + pose proof (open_output_quiet s2 Q2) as Qo. destruct (open_output e fault Real t s2) as [s3 [o|]]; [|fin_error].
        pose proof (After o s3 Qo) as A. cbv beta iota zeta in A. exact A.
      + pose proof (After OutNone s2 Q2) as A. cbv beta iota zeta in A. exact A.
      + pose proof (After OutNone s2 Q2) as A. cbv beta iota zeta in A. exact A.
      + pose proof (After OutNone s2 Q2) as A. cbv beta iota zeta in A. exact A.
      + pose proof (After OutNone s2 Q2) as A. cbv beta iota zeta in A. exact A.
  Qed.
End Cleanup.
