(* PycRefs.v — C02: in the stream the writer produces, every back-reference points to an object that was
   written before it and carries the reference flag: no dangling, forward or "from within" reference. *)
From AD Require Import Bytes Outcome Gen PycHeader Marshal Pyc.

(* ---------- the writer's equality is equality ---------- *)
Lemma list_eqb_bytes_eq a b : list_eqb bytes_eqb a b = true <-> a = b.
Proof.
  revert b. induction a as [|x a IH]; intros [|y b]; cbn [list_eqb]; split; try discriminate; try reflexivity.
  - intros H. apply andb_prop in H. destruct H as [H1 H2]. apply bytes_eqb_eq in H1. apply IH in H2. subst. reflexivity.
  - intros E. injection E as -> ->. rewrite bytes_eqb_refl. apply IH. reflexivity.
Qed.

Lemma veqb_refl v : veqb v v = true.
Proof.
  induction v using value_ind'; cbn [veqb]; try apply N.eqb_refl; try apply bytes_eqb_refl; try apply Z.eqb_refl.
  - rewrite N.eqb_refl, bytes_eqb_refl. reflexivity.
  - rewrite N.eqb_refl. cbn [andb]. induction H as [|x l Hx _ IH]; [reflexivity|]. rewrite Hx. exact IH.
  - induction H as [|x l Hx _ IH]; [reflexivity|]. rewrite Hx. exact IH.
  - rewrite IHv1, IHv2, IHv3. reflexivity.
  - replace (list_eqb bytes_eqb i i) with true by (symmetry; apply list_eqb_bytes_eq; reflexivity). cbn [andb].
    induction H as [|x l Hx _ IH]; [reflexivity|]. rewrite Hx. exact IH.
Qed.

Lemma veqb_true a : forall b, veqb a b = true -> a = b.
Proof.
  induction a using value_ind'; intros b0 Hb; destruct b0; cbn [veqb] in Hb; try discriminate.
  - apply N.eqb_eq in Hb. subst. reflexivity.
  - apply bytes_eqb_eq in Hb. subst. reflexivity.
  - apply Z.eqb_eq in Hb. subst. reflexivity.
  - apply bytes_eqb_eq in Hb. subst. reflexivity.
  - apply bytes_eqb_eq in Hb. subst. reflexivity.
  - apply andb_prop in Hb. destruct Hb as [H1 H2]. apply N.eqb_eq in H1. apply bytes_eqb_eq in H2. subst. reflexivity.
  - apply andb_prop in Hb. destruct Hb as [H1 H2]. apply N.eqb_eq in H1. subst. f_equal.
    revert items H2. induction H as [|x l Hx _ IH]; intros [|y ys] H2; try discriminate; [reflexivity|].
    apply andb_prop in H2. destruct H2 as [E1 E2]. rewrite (Hx _ E1), (IH _ E2). reflexivity.
  - f_equal. revert kvs Hb. induction H as [|x l Hx _ IH]; intros [|y ys] H2; try discriminate; [reflexivity|].
    apply andb_prop in H2. destruct H2 as [E1 E2]. rewrite (Hx _ E1), (IH _ E2). reflexivity.
  - apply andb_prop in Hb. destruct Hb as [H12 H3]. apply andb_prop in H12. destruct H12 as [H1 H2].
    rewrite (IHa1 _ H1), (IHa2 _ H2), (IHa3 _ H3). reflexivity.
  - apply andb_prop in Hb. destruct Hb as [H1 H2]. apply list_eqb_bytes_eq in H1. subst. f_equal.
    revert objs H2. induction H as [|x l Hx _ IH]; intros [|y ys] H2; try discriminate; [reflexivity|].
    apply andb_prop in H2. destruct H2 as [E1 E2]. rewrite (Hx _ E1), (IH _ E2). reflexivity.
Qed.

Lemma seen_mem_in v l : seen_mem v l = true <-> In v l.
Proof.
  unfold seen_mem. rewrite existsb_exists. split.
  - intros (x & Hx & E). apply veqb_true in E. subst. exact Hx.
  - intros H. exists v. split; [exact H | apply veqb_refl].
Qed.

(* ---------- invariant of the writer ---------- *)
(* tokens are kept latest first: what follows a token in the list was written before it *)
Definition backed (toks : list token) : Prop :=
  forall pre k post, toks = pre ++ TRef k :: post -> exists c, In (TStart k c) post.
Definition seen_backed (s : wstate) : Prop := forall x, In x (snd s) -> exists c, In (TStart x c) (fst s).
Definition winv (s : wstate) : Prop := backed (fst s) /\ seen_backed s.

(* s' extends s: tokens were only added in front, nothing was forgotten, and the invariant holds *)
Definition ext (s s' : wstate) : Prop :=
  (exists added, fst s' = added ++ fst s) /\ (forall x, In x (snd s) -> In x (snd s')) /\ winv s'.

Lemma ext_refl s : winv s -> ext s s.
Proof. intros H. split; [exists []; reflexivity|]. split; [auto | exact H]. Qed.

Lemma ext_trans s1 s2 s3 : ext s1 s2 -> ext s2 s3 -> ext s1 s3.
Proof.
  intros ((a1 & E1) & M1 & _) ((a2 & E2) & M2 & I3). split; [exists (a2 ++ a1); rewrite E2, E1, app_assoc; reflexivity|].
  split; [auto | exact I3].
Qed.

(* a token that is not a reference can always be added *)
Lemma ext_emit t s : winv s -> (forall k, t <> TRef k) -> ext s (emit t s).
Proof.
  intros [Hb Hs] Ht. split; [exists [t]; reflexivity|]. split; [auto|]. split.
  - intros pre k post E. cbn [emit fst] in E. destruct pre as [|x pre]; cbn [app] in E.
    + injection E as E _. exfalso. exact (Ht k E).
    + injection E as _ E. apply (Hb pre k post E).
  - intros x Hx. cbn [emit snd fst] in *. destruct (Hs x Hx) as (c & Hc). exists c. right. exact Hc.
Qed.

(* a reference may be added when its target has been seen *)
Lemma ext_emit_ref v s : winv s -> In v (snd s) -> ext s (emit (TRef v) s).
Proof.
  intros [Hb Hs] Hv. split; [exists [TRef v]; reflexivity|]. split; [auto|]. split.
  - intros pre k post E. cbn [emit fst] in E. destruct pre as [|x pre]; cbn [app] in E.
    + injection E as <- <-. apply Hs, Hv.
    + injection E as _ E. apply (Hb pre k post E).
  - intros x Hx. cbn [emit snd fst] in *. destruct (Hs x Hx) as (c & Hc). exists c. right. exact Hc.
Qed.

(* closing an object: it enters the seen list; its start token is among the tokens *)
Lemma ext_close v c s0 s' : ext (emit (TStart v c) s0) s' -> ext (emit (TStart v c) s0) (fst s', v :: snd s').
Proof.
  intros ((a & E) & M & [Hb Hs]). split; [exists a; exact E|]. split; [intros x Hx; right; apply M, Hx|]. split; [exact Hb|].
  intros x [<-|Hx]; cbn [fst snd].
  - exists c. rewrite E. apply in_or_app. right. left. reflexivity.
  - apply Hs, Hx.
Qed.

Lemma ext_fold (f : value -> wstate -> wstate) items : Forall (fun x => forall s, winv s -> ext s (f x s)) items ->
  forall s, winv s -> ext s (fold_left (fun st x => f x st) items s).
Proof.
  induction 1 as [|x l Hx _ IH]; intros s Hs; cbn [fold_left]; [apply ext_refl, Hs|].
  pose proof (Hx s Hs) as E1. eapply ext_trans; [exact E1|]. apply IH. apply E1.
Qed.

Lemma ext_emit2 t1 t2 s : winv s -> (forall k, t1 <> TRef k) -> (forall k, t2 <> TRef k) -> ext s (emit t2 (emit t1 s)).
Proof.
  intros Hs H1 H2. pose proof (ext_emit t1 s Hs H1) as E1. eapply ext_trans; [exact E1|]. apply ext_emit; [apply E1 | exact H2].
Qed.

Lemma ext_winv s s' : ext s s' -> winv s'.
Proof. intros (_ & _ & H). exact H. Qed.

Ltac not_ref := let k := fresh in let Hk := fresh in intros k Hk; discriminate Hk.

(* the fields of a code object: integers and objects interleaved as the layout says *)
Lemma code_fields_ext (w : value -> wstate -> wstate) objs : Forall (fun o => forall s, winv s -> ext s (w o s)) objs ->
  forall lay ints st, winv st ->
  ext st ((fix go (l : list bool) (ints : list bytes) (objs : list value) (st : wstate) {struct objs} : wstate :=
               match objs with
               | [] => fold_left (fun st i => emit (TBytes i) st) (firstn (length (filter (fun x => x) l)) ints) st
               | o :: objs' =>
                   let fix ints_first (l : list bool) (ints : list bytes) (st : wstate) {struct l} : list bool * list bytes * wstate :=
                     match l with
                     | true :: l' => match ints with
                                     | i :: ints' => ints_first l' ints' (emit (TBytes i) st)
                                     | [] => ints_first l' [] st
                                     end
                     | _ => (l, ints, st)
                     end in
                   let '(l1, ints1, st1) := ints_first l ints st in
                   go (match l1 with _ :: t => t | [] => [] end) ints1 objs' (w o st1)
               end) lay ints objs st).
Proof.
  induction 1 as [|o objs Ho _ IH]; intros lay ints st Hst.
  + generalize (firstn (length (filter (fun x : bool => x) lay)) ints). intros tl. revert st Hst.
    induction tl as [|b tl IHt]; intros st Hst; cbn [fold_left]; [apply ext_refl, Hst|].
    assert (E1 : ext st (emit (TBytes b) st)) by (apply ext_emit; [exact Hst | not_ref]).
    eapply ext_trans; [exact E1 | apply IHt, (ext_winv _ _ E1)].
  + assert (IF : forall l0 ints0 st0, winv st0 ->
       ext st0 (snd ((fix ints_first (l : list bool) (ints : list bytes) (st : wstate) {struct l} : list bool * list bytes * wstate :=
                     match l with
                     | true :: l' => match ints with
                                     | i :: ints' => ints_first l' ints' (emit (TBytes i) st)
                                     | [] => ints_first l' [] st
                                     end
                     | _ => (l, ints, st)
                     end) l0 ints0 st0))).
    { induction l0 as [|b0 l0 IHl]; intros ints0 st0 H0; [apply ext_refl, H0|].
      destruct b0; [|apply ext_refl, H0]. destruct ints0 as [|i0 ints0].
      - apply IHl, H0.
      - assert (E1 : ext st0 (emit (TBytes i0) st0)) by (apply ext_emit; [exact H0 | not_ref]).
        eapply ext_trans; [exact E1 | apply IHl, (ext_winv _ _ E1)]. }
    specialize (IF lay ints st Hst). cbv beta iota zeta fix.
    destruct ((fix ints_first (l : list bool) (ints : list bytes) (st : wstate) {struct l} : list bool * list bytes * wstate :=
                     match l with
                     | true :: l' => match ints with
                                     | i :: ints' => ints_first l' ints' (emit (TBytes i) st)
                                     | [] => ints_first l' [] st
                                     end
                     | _ => (l, ints, st)
                     end) lay ints st) as [[l1 ints1] st1]. cbn [snd] in IF.
    eapply ext_trans; [exact IF|].
    pose proof (Ho st1 (ext_winv _ _ IF)) as E2. eapply ext_trans; [exact E2|].
    apply IH. apply (ext_winv _ _ E2).
Qed.

Theorem wval_ext layout : forall v s, winv s -> ext s (wval layout v s).
Proof.
  induction v using value_ind'; intros s Hs.
  - cbn [wval]. apply ext_emit; [exact Hs | not_ref].
  - (* VInt *) cbn [wval]. destruct (seen_mem (VInt b) (snd s)) eqn:Em; [apply ext_emit_ref; [exact Hs | apply seen_mem_in, Em]|].
    assert (E0 : ext s (emit (TStart (VInt b) pyc_code_int) s)) by (apply ext_emit; [exact Hs | not_ref]).
    eapply ext_trans; [exact E0|]. apply (ext_close (VInt b) pyc_code_int s). apply ext_emit; [apply (ext_winv _ _ E0) | not_ref].
  - (* VLong *) cbn [wval]. destruct (seen_mem (VLong v) (snd s)) eqn:Em; [apply ext_emit_ref; [exact Hs | apply seen_mem_in, Em]|].
    assert (E0 : ext s (emit (TStart (VLong v) pyc_code_long) s)) by (apply ext_emit; [exact Hs | not_ref]).
    eapply ext_trans; [exact E0|]. apply (ext_close (VLong v) pyc_code_long s).
    apply ext_emit2; [apply (ext_winv _ _ E0) | not_ref | not_ref].
  - (* VFloat *) cbn [wval]. destruct (seen_mem (VFloat b) (snd s)) eqn:Em; [apply ext_emit_ref; [exact Hs | apply seen_mem_in, Em]|].
    assert (E0 : ext s (emit (TStart (VFloat b) pyc_code_float) s)) by (apply ext_emit; [exact Hs | not_ref]).
    eapply ext_trans; [exact E0|]. apply (ext_close (VFloat b) pyc_code_float s). apply ext_emit; [apply (ext_winv _ _ E0) | not_ref].
  - (* VComplex *) cbn [wval]. destruct (seen_mem (VComplex b) (snd s)) eqn:Em; [apply ext_emit_ref; [exact Hs | apply seen_mem_in, Em]|].
    assert (E0 : ext s (emit (TStart (VComplex b) pyc_code_complex) s)) by (apply ext_emit; [exact Hs | not_ref]).
    eapply ext_trans; [exact E0|]. apply (ext_close (VComplex b) pyc_code_complex s). apply ext_emit; [apply (ext_winv _ _ E0) | not_ref].
  - (* VStr *) cbn [wval]. destruct (seen_mem (VStr c b) (snd s)) eqn:Em; [apply ext_emit_ref; [exact Hs | apply seen_mem_in, Em]|].
    assert (E0 : ext s (emit (TStart (VStr c b) c) s)) by (apply ext_emit; [exact Hs | not_ref]).
    eapply ext_trans; [exact E0|]. apply (ext_close (VStr c b) c s).
    apply ext_emit2; [apply (ext_winv _ _ E0) | not_ref | not_ref].
  - (* VSeq *) cbn [wval]. destruct (seen_mem (VSeq c l) (snd s)) eqn:Em; [apply ext_emit_ref; [exact Hs | apply seen_mem_in, Em]|].
    destruct ((c =? 40) && (length l <? pyc_small_tuple_limit)%nat)%bool.
    + assert (E0 : ext s (emit (TStart (VSeq c l) pyc_code_small_tuple) s)) by (apply ext_emit; [exact Hs | not_ref]).
      eapply ext_trans; [exact E0|]. apply (ext_close (VSeq c l) pyc_code_small_tuple s).
      assert (E1 : ext (emit (TStart (VSeq c l) pyc_code_small_tuple) s) (emit (TBytes [N.of_nat (length l) mod 256]) (emit (TStart (VSeq c l) pyc_code_small_tuple) s)))
        by (apply ext_emit; [apply (ext_winv _ _ E0) | not_ref]).
      eapply ext_trans; [exact E1|]. apply (ext_fold (wval layout)); [exact H | apply (ext_winv _ _ E1)].
    + assert (E0 : ext s (emit (TStart (VSeq c l) c) s)) by (apply ext_emit; [exact Hs | not_ref]).
      eapply ext_trans; [exact E0|]. apply (ext_close (VSeq c l) c s).
      assert (E1 : ext (emit (TStart (VSeq c l) c) s) (emit (TBytes (le_encode 4 (N.of_nat (length l)))) (emit (TStart (VSeq c l) c) s)))
        by (apply ext_emit; [apply (ext_winv _ _ E0) | not_ref]).
      eapply ext_trans; [exact E1|]. apply (ext_fold (wval layout)); [exact H | apply (ext_winv _ _ E1)].
  - (* VDict *) cbn [wval]. destruct (seen_mem (VDict l) (snd s)) eqn:Em; [apply ext_emit_ref; [exact Hs | apply seen_mem_in, Em]|].
    assert (E0 : ext s (emit (TStart (VDict l) pyc_code_dict) s)) by (apply ext_emit; [exact Hs | not_ref]).
    eapply ext_trans; [exact E0|]. apply (ext_close (VDict l) pyc_code_dict s).
    assert (E1 : ext (emit (TStart (VDict l) pyc_code_dict) s) (fold_left (fun st x => wval layout x st) l (emit (TStart (VDict l) pyc_code_dict) s)))
      by (apply (ext_fold (wval layout)); [exact H | apply (ext_winv _ _ E0)]).
    eapply ext_trans; [exact E1|]. apply ext_emit; [apply (ext_winv _ _ E1) | not_ref].
  - (* VSlice *) cbn [wval]. destruct (seen_mem (VSlice v1 v2 v3) (snd s)) eqn:Em; [apply ext_emit_ref; [exact Hs | apply seen_mem_in, Em]|].
    assert (E0 : ext s (emit (TStart (VSlice v1 v2 v3) pyc_code_slice) s)) by (apply ext_emit; [exact Hs | not_ref]).
    eapply ext_trans; [exact E0|]. apply (ext_close (VSlice v1 v2 v3) pyc_code_slice s).
    pose proof (IHv1 _ (ext_winv _ _ E0)) as E1. pose proof (IHv2 _ (ext_winv _ _ E1)) as E2. pose proof (IHv3 _ (ext_winv _ _ E2)) as E3.
    eapply ext_trans; [exact E1|]. eapply ext_trans; [exact E2 | exact E3].
  - (* VCode *) cbn [wval]. destruct (seen_mem (VCode i l) (snd s)) eqn:Em; [apply ext_emit_ref; [exact Hs | apply seen_mem_in, Em]|].
    assert (E0 : ext s (emit (TStart (VCode i l) pyc_code_code) s)) by (apply ext_emit; [exact Hs | not_ref]).
    eapply ext_trans; [exact E0|]. apply (ext_close (VCode i l) pyc_code_code s).
    apply (code_fields_ext (wval layout) l H). apply (ext_winv _ _ E0).
Qed.

(* ---------- the stream, in the order it is written ---------- *)
Definition toks_of (layout : list bool) (v : value) : list token := frev (fst (wval layout v ([], []))).

Lemma winv_init : winv ([], []).
Proof. split; [intros pre k post E; destruct pre; discriminate | intros x H; contradiction H]. Qed.

(* every reference is preceded by the start of the very object it refers to *)
Theorem refs_point_back layout v pre k post :
  toks_of layout v = pre ++ TRef k :: post -> exists c, In (TStart k c) pre.
Proof.
  unfold toks_of. rewrite frev_rev. intros E.
  destruct (wval_ext layout v ([], []) winv_init) as (_ & _ & [Hb _]).
  assert (E' : fst (wval layout v ([], [])) = rev post ++ TRef k :: rev pre).
  { rewrite <- (rev_involutive (fst (wval layout v ([], [])))). rewrite E. rewrite rev_app_distr. cbn [rev]. rewrite <- app_assoc. reflexivity. }
  destruct (Hb _ _ _ E') as (c & Hc). exists c. apply in_rev. exact Hc.
Qed.

(* the objects that carry the reference flag among a prefix of the stream, in order: the reader's table *)
Definition flagged (pre : list token) (refd : list value) : list value :=
  flat_map (fun t => match t with TStart k _ => if seen_mem k refd then [k] else [] | _ => [] end) pre.

Lemma render_app pre : forall post refd table,
  render (pre ++ post) refd table = render pre refd table ++ render post refd (table ++ flagged pre refd).
Proof.
  induction pre as [|t pre IH]; intros post refd table.
  - cbn [app render flagged flat_map]. rewrite app_nil_r. reflexivity.
  - cbn [app]. destruct t as [b|l|k c|k]; cbn [render flagged flat_map].
    + rewrite IH. reflexivity.
    + rewrite IH, <- app_assoc. reflexivity.
    + destruct (seen_mem k refd).
      * rewrite IH. cbn [app]. rewrite <- app_assoc. reflexivity.
      * rewrite IH. reflexivity.
    + rewrite IH. cbn [app]. rewrite <- !app_assoc. reflexivity.
Qed.

Lemma index_in_spec k : forall T i, In k T ->
  i <= index_in k T i /\ index_in k T i < i + N.of_nat (length T) /\ nth_N T (index_in k T i - i) = Some k.
Proof.
  induction T as [|x T IH]; intros i H; [contradiction|].
  cbn [index_in]. destruct (veqb k x) eqn:E.
  - apply veqb_true in E. subst x. rewrite N.sub_diag. cbn [nth_N length]. split; [lia|]. split; [lia | reflexivity].
  - destruct H as [->|H]; [rewrite veqb_refl in E; discriminate|].
    destruct (IH (i + 1) H) as (A & B & C). cbn [length]. split; [lia|]. split; [lia|].
    cbn [nth_N]. destruct (N.eqb_spec (index_in k T (i + 1) - i) 0) as [Z|_]; [lia|].
    replace (N.pred (index_in k T (i + 1) - i)) with (index_in k T (i + 1) - (i + 1)) by lia. exact C.
Qed.

(* C02: a reference is written as 'r' + the index of an object that precedes it in the stream, carries the
   reference flag, and is the object referred to: looking the index up in the table of flagged objects - what
   the reader does - gives that object *)
Theorem refs_resolve layout v pre k post :
  let toks := toks_of layout v in
  let refd := refd_of toks in
  toks = pre ++ TRef k :: post ->
  let T := flagged pre refd in
  index_in k T 0 < N.of_nat (length T) /\ nth_N T (index_in k T 0) = Some k /\
  to_buffer layout v = render pre refd [] ++ pyc_code_ref :: le_encode 4 (index_in k T 0) ++ render post refd T.
Proof.
  intros toks refd E T.
  destruct (refs_point_back layout v pre k post E) as (c & Hc).
  assert (Hk : In k refd).
  { unfold refd, refd_of. fold toks. rewrite E. apply in_flat_map. exists (TRef k). split; [apply in_or_app; right; left; reflexivity | left; reflexivity]. }
  assert (HT : In k T).
  { unfold T, flagged. apply in_flat_map. exists (TStart k c). split; [exact Hc|]. rewrite (proj2 (seen_mem_in k refd) Hk). left. reflexivity. }
  destruct (index_in_spec k T 0 HT) as (_ & B & C). rewrite N.sub_0_r in C.
  split; [lia|]. split; [exact C|].
  unfold to_buffer. fold (toks_of layout v). fold toks. fold refd. rewrite E.
  rewrite render_app. cbn [app render]. reflexivity.
Qed.
