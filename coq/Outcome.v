(* Outcome.v — result classes shared by all handler models. *)
From AD Require Import Bytes.

(* What a handler's `process` can end with:
   Ok a   — returned Ok(..)
   Bad    — Err(e) with e a handlers::Error  (reported as BadFormat / "unsupported")
   Err    — any other Err(e)                 (reported as Error)
   Panic  — the Rust code panics / aborts (never silently totalised) *)
Inductive outcome (A : Type) : Type :=
| Ok (a : A)
| Bad
| Err
| Panic.
Arguments Ok {A} a.
Arguments Bad {A}.
Arguments Err {A}.
Arguments Panic {A}.

Definition obind {A B} (o : outcome A) (f : A -> outcome B) : outcome B :=
  match o with
  | Ok a => f a
  | Bad => Bad
  | Err => Err
  | Panic => Panic
  end.

Definition is_ok {A} (o : outcome A) : bool := match o with Ok _ => true | _ => false end.
Definition is_panic {A} (o : outcome A) : bool := match o with Panic => true | _ => false end.

Inductive profile := Debug | Release.     (* overflow-checks on / off *)

(* handlers::ProcessResult, in declaration order (the derived PartialOrd) *)
Inductive presult := Ignored | Noop | Replaced | Rewritten | BadFormat | Error.

Definition presult_rank (r : presult) : N :=
  match r with
  | Ignored => 0 | Noop => 1 | Replaced => 2 | Rewritten => 3 | BadFormat => 4 | Error => 5
  end.

Definition presult_eqb (a b : presult) : bool := presult_rank a =? presult_rank b.

(* ProcessResult::extend_and_warn : keep the maximum *)
Definition presult_max (a b : presult) : presult :=
  if presult_rank a <? presult_rank b then b else a.

(* result of InputOutputHelper::finalize for a handler outcome, given the link count;
   a panic has no ProcessResult *)
Definition class_of {A} (nlink_one : bool) (o : outcome (A * bool)) : option presult :=
  match o with
  | Ok (_, false) => Some Noop
  | Ok (_, true) => Some (if nlink_one then Replaced else Rewritten)
  | Bad => Some BadFormat
  | Err => Some Error
  | Panic => None
  end.

(* bytes left in the file after the handler ran (no faults) *)
Definition bytes_after (x : bytes) (o : outcome (bytes * bool)) : bytes :=
  match o with
  | Ok (y, true) => y
  | _ => x
  end.
