(* Decimal.v — decimal rendering/parsing round trips (Rust's format!("{:<w}") and str::parse). *)
From AD Require Import Bytes.

Local Arguments Nat.ltb : simpl never.
Local Arguments Nat.leb : simpl never.

Definition all_digits (l : bytes) : Prop := Forall (fun b => is_digit b = true) l.

Lemma digit_is_digit v : v < 10 -> is_digit (48 + v) = true.
Proof. intros H. unfold is_digit. apply andb_true_iff; split; apply N.leb_le; lia. Qed.

Lemma digit_val_digit v : digit_val (48 + v) = v.
Proof. unfold digit_val. lia. Qed.

(* the generator, seen from the parser *)
Lemma dec_fuel_S f v acc :
  dec_digits_fuel (S f) v acc =
  if v / 10 =? 0 then (48 + v mod 10) :: acc else dec_digits_fuel f (v / 10) ((48 + v mod 10) :: acc).
Proof. reflexivity. Qed.

Lemma dec_fuel_parse f : forall v acc,
  v < 2 ^ N.of_nat (S f) ->
  exists d, dec_digits_fuel (S f) v acc = d ++ acc /\ d <> [] /\ all_digits d /\
            forall a rest, parse_digits a (d ++ rest) = parse_digits (a * 10 ^ N.of_nat (length d) + v) rest.
Proof.
  induction f as [|f IH]; intros v acc Hv.
  all: rewrite dec_fuel_S.
  all: assert (Hm : v mod 10 < 10) by (apply N.mod_lt; discriminate).
  all: destruct (N.eqb_spec (v / 10) 0) as [Hz|Hz].
  1,3: (exists [48 + v mod 10]; split; [reflexivity|]; split; [discriminate|]; split;
        [ constructor; [apply digit_is_digit, Hm | constructor]
        | intros a rest; cbn [app parse_digits length]; rewrite digit_is_digit by exact Hm; rewrite digit_val_digit;
          f_equal; change (N.of_nat 1) with 1; rewrite N.pow_1_r; pose proof (N.div_mod v 10); lia ]).
  - exfalso. apply Hz. apply N.div_small. change (2 ^ N.of_nat 1) with 2 in Hv. lia.
  - assert (Hv' : v / 10 < 2 ^ N.of_nat (S f)).
    { replace (N.of_nat (S (S f))) with (N.succ (N.of_nat (S f))) in Hv by lia. rewrite N.pow_succ_r' in Hv.
      apply N.div_lt_upper_bound; [discriminate|]. lia. }
    destruct (IH (v / 10) ((48 + v mod 10) :: acc) Hv') as (d & Hd & Hne & Hall & Hp).
    exists (d ++ [48 + v mod 10]). split; [rewrite Hd, <- app_assoc; reflexivity|].
    split; [destruct d; discriminate|]. split.
    + apply Forall_app. split; [exact Hall|]. constructor; [apply digit_is_digit, Hm | constructor].
    + intros a rest. rewrite <- app_assoc. rewrite Hp. cbn [app parse_digits].
      rewrite digit_is_digit by exact Hm. rewrite digit_val_digit. f_equal.
      rewrite app_length. cbn [length].
      replace (N.of_nat (length d + 1)) with (N.succ (N.of_nat (length d))) by lia.
      rewrite N.pow_succ_r'. pose proof (N.div_mod v 10). lia.
Qed.

Lemma dec_digits_spec v :
  dec_digits v <> [] /\ all_digits (dec_digits v) /\
  forall a rest, parse_digits a (dec_digits v ++ rest) = parse_digits (a * 10 ^ N.of_nat (length (dec_digits v)) + v) rest.
Proof.
  unfold dec_digits.
  assert (Hv : v < 2 ^ N.of_nat (S (N.to_nat (N.log2 v)))).
  { replace (N.of_nat (S (N.to_nat (N.log2 v)))) with (N.succ (N.log2 v)) by lia.
    destruct v as [|p]; [cbn; lia|]. pose proof (N.log2_spec (N.pos p) eq_refl) as [_ H]. exact H. }
  destruct (dec_fuel_parse _ v [] Hv) as (d & Hd & Hne & Hall & Hp).
  rewrite Hd, app_nil_r. auto.
Qed.

Lemma parse_digits_dec v : parse_digits 0 (dec_digits v) = Some v.
Proof.
  destruct (dec_digits_spec v) as (_ & _ & Hp).
  specialize (Hp 0 []). rewrite app_nil_r in Hp. rewrite Hp. cbn [parse_digits]. f_equal; lia.
Qed.

(* trimming the blank padding gives the digits back *)
Lemma trim_rev_digits d k : all_digits d -> d <> [] -> trim_end_sp (d ++ repeat 32 k) = d.
Proof.
  intros Hall Hne. unfold trim_end_sp. rewrite rev_app_distr.
  assert (Hr : rev (repeat 32 k) = repeat 32 k).
  { induction k as [|k IH]; [reflexivity|]. cbn [repeat rev]. rewrite IH. clear.
    induction k as [|k IH]; [reflexivity|]. cbn [repeat app]. rewrite IH. reflexivity. }
  rewrite Hr.
  assert (Hs : forall l, trim_end_sp_rev (repeat 32 k ++ l) = trim_end_sp_rev l).
  { intros l. clear Hr. induction k as [|k IH]; [reflexivity|]. cbn [repeat app trim_end_sp_rev]. exact IH. }
  rewrite Hs.
  destruct (rev d) as [|c r] eqn:Er.
  { exfalso. apply Hne. rewrite <- (rev_involutive d), Er. reflexivity. }
  assert (Hc : is_digit c = true).
  { unfold all_digits in Hall. rewrite Forall_forall in Hall. apply Hall. apply in_rev. rewrite Er. left. reflexivity. }
  assert (Hn : c <> 32).
  { intros ->. vm_compute in Hc. discriminate. }
  assert (Ht : trim_end_sp_rev (c :: r) = c :: r).
  { cbn [trim_end_sp_rev]. destruct c as [|p]; [reflexivity|].
    repeat (destruct p as [p|p|]; try reflexivity). exfalso. apply Hn. reflexivity. }
  rewrite Ht, <- Er. apply rev_involutive.
Qed.

Lemma fmt_left_pad_trim w v : trim_end_sp (fmt_left_pad w v) = dec_digits v.
Proof.
  unfold fmt_left_pad. destruct (dec_digits_spec v) as (Hne & Hall & _). apply trim_rev_digits; assumption.
Qed.

Lemma first_digit_not_sign d : all_digits d -> d <> [] ->
  exists c r, d = c :: r /\ (c =? 43) = false /\ (c =? 45) = false.
Proof.
  intros Hall Hne. destruct d as [|c r]; [contradiction|]. inversion Hall as [|? ? Hc _]; subst.
  exists c, r. split; [reflexivity|].
  unfold is_digit in Hc. apply andb_true_iff in Hc. destruct Hc as [H1 H2].
  apply N.leb_le in H1. apply N.leb_le in H2.
  split; apply N.eqb_neq; lia.
Qed.

Lemma parse_unsigned_dec max v : v <= max -> parse_unsigned max (dec_digits v) = Some v.
Proof.
  intros Hv. destruct (dec_digits_spec v) as (Hne & Hall & _).
  destruct (first_digit_not_sign _ Hall Hne) as (c & r & Ed & H43 & H45).
  pose proof (parse_digits_dec v) as Hp.
  unfold parse_unsigned, strip_plus. rewrite Ed in *. rewrite H43. rewrite Hp.
  destruct (N.leb_spec v max); [reflexivity | lia].
Qed.

Lemma parse_signed_dec max v : v <= max -> parse_signed max (dec_digits v) = Some (Z.of_N v).
Proof.
  intros Hv. destruct (dec_digits_spec v) as (Hne & Hall & _).
  destruct (first_digit_not_sign _ Hall Hne) as (c & r & Ed & H43 & H45).
  pose proof (parse_unsigned_dec max v Hv) as Hp.
  unfold parse_signed. rewrite Ed in *. rewrite H45, Hp. reflexivity.
Qed.

(* width: the digits of v < 10^w fit w columns, so format!("{:<w}") yields exactly w bytes *)
Lemma dec_fuel_len f : forall v acc,
  v < 2 ^ N.of_nat (S f) ->
  exists d, dec_digits_fuel (S f) v acc = d ++ acc /\ (1 <= length d)%nat /\
            10 ^ (N.of_nat (length d) - 1) <= N.max v 1.
Proof.
  induction f as [|f IH]; intros v acc Hv.
  all: rewrite dec_fuel_S.
  all: destruct (N.eqb_spec (v / 10) 0) as [Hz|Hz].
  1,3: (exists [48 + v mod 10]; split; [reflexivity|]; cbn [length]; split; [lia|];
        change (N.of_nat 1 - 1) with 0; rewrite N.pow_0_r; lia).
  - exfalso. apply Hz. apply N.div_small. change (2 ^ N.of_nat 1) with 2 in Hv. lia.
  - assert (Hv' : v / 10 < 2 ^ N.of_nat (S f)).
    { replace (N.of_nat (S (S f))) with (N.succ (N.of_nat (S f))) in Hv by lia. rewrite N.pow_succ_r' in Hv.
      apply N.div_lt_upper_bound; [discriminate|]. lia. }
    destruct (IH (v / 10) ((48 + v mod 10) :: acc) Hv') as (d & Hd & Hlen & Hp).
    exists (d ++ [48 + v mod 10]). split; [rewrite Hd, <- app_assoc; reflexivity|].
    rewrite app_length. cbn [length]. split; [lia|].
    replace (N.of_nat (length d + 1) - 1) with (N.succ (N.of_nat (length d) - 1)) by lia.
    rewrite N.pow_succ_r'.
    assert (Hq : 1 <= v / 10) by (destruct (v / 10); [contradiction | lia]).
    rewrite N.max_l in Hp by lia.
    pose proof (N.div_mod v 10 ltac:(discriminate)) as Hdm.
    set (q := v / 10) in *. set (r := v mod 10) in *. set (P := 10 ^ (N.of_nat (length d) - 1)) in *.
    clearbody q r P. clear - Hdm Hp Hq. lia.
Qed.

Lemma dec_digits_width w v : v < 10 ^ N.of_nat w -> (1 <= w)%nat -> (length (dec_digits v) <= w)%nat.
Proof.
  intros Hv Hw. unfold dec_digits.
  assert (Hf : v < 2 ^ N.of_nat (S (N.to_nat (N.log2 v)))).
  { replace (N.of_nat (S (N.to_nat (N.log2 v)))) with (N.succ (N.log2 v)) by lia.
    destruct v as [|p]; [cbn; lia|]. pose proof (N.log2_spec (N.pos p) eq_refl) as [_ H]. exact H. }
  destruct (dec_fuel_len _ v [] Hf) as (d & Hd & Hlen & Hp).
  rewrite Hd, app_nil_r.
  destruct (Nat.le_gt_cases (length d) w) as [Hle|Hgt]; [exact Hle|exfalso].
  assert (Hpow : 10 ^ N.of_nat w <= 10 ^ (N.of_nat (length d) - 1)) by (apply N.pow_le_mono_r; lia).
  assert (Hw1 : 10 ^ 1 <= 10 ^ N.of_nat w) by (apply N.pow_le_mono_r; lia).
  change (10 ^ 1) with 10 in Hw1. lia.
Qed.

Lemma fmt_left_pad_length w v : v < 10 ^ N.of_nat w -> (1 <= w)%nat -> length (fmt_left_pad w v) = w.
Proof.
  intros Hv Hw. unfold fmt_left_pad. rewrite app_length, repeat_length.
  pose proof (dec_digits_width w v Hv Hw). lia.
Qed.

Lemma all_digits_ascii d : all_digits d -> Forall (fun b => b < 128) d.
Proof.
  intros H. eapply Forall_impl; [|exact H]. intros b Hb. unfold is_digit in Hb.
  apply andb_true_iff in Hb. destruct Hb as [_ H2]. apply N.leb_le in H2. lia.
Qed.

