(* Extract.v — extraction of the executable models to OCaml (ExtrOcamlBasic directives only). *)
Require Extraction.
Require Import ExtrOcamlBasic.
From AD Require Import Bytes Outcome Gen Gzip Ar.
Extraction Language OCaml.
Set Extraction KeepSingleton.
Extraction "model.ml" profile gzip_init gzip_process ar_process class_of bytes_after.
