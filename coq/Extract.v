(* Extract.v — extraction of the executable models to OCaml (ExtrOcamlBasic directives only). *)
Require Extraction.
Require Import ExtrOcamlBasic.
From AD Require Import Bytes Outcome Gen Gzip Ar Fs Helper Config PycHeader Walk Brp Javadoc Marshal Pyc PycRoundTrip Zip ZipEndToEnd Multi MultiProofs.
Extraction Language OCaml.
Set Extraction KeepSingleton.
Extraction "model.ml" profile gzip_init gzip_process ar_process ar_opens_output pyc_zero_mtime pyc_header javadoc_process pyc_process zip_process zip_init class_of bytes_after
  requested_handlers make_handlers sanitize_epoch main_verdict walk init_wstate mk_hdesc brp_check run_handler init_sim obs tmp_path trace_of s_fs s_hist mk_fs mk_env mk_inode is_mutating multi_replay pyc_domain zip_domain.
