(* GzipSpec.v — independent specification: RFC 1952 member header grammar and header CRC.
   Written from the RFC, not from the handler. *)
From AD Require Import Bytes.

Record gz_hdr := mk_gz_hdr {
  h_cm : N; h_flg : N; h_mtime : N; h_xfl : N; h_os : N;
  h_extra : option bytes;      (* FEXTRA payload *)
  h_name : option bytes;       (* FNAME without the terminating 0 *)
  h_comment : option bytes;    (* FCOMMENT without the terminating 0 *)
  h_hcrc : option N;           (* stored CRC16 when FHCRC *)
  h_body : bytes               (* everything after the header: deflate data, trailer, further members *)
}.

(* split at the first 0 byte *)
Fixpoint take_cstr (l : bytes) : option (bytes * bytes) :=
  match l with
  | [] => None
  | b :: r => if b =? 0 then Some ([], r) else
              match take_cstr r with
              | Some (s, r') => Some (b :: s, r')
              | None => None
              end
  end.

Definition opt_extra (flg : N) (l : bytes) : option (option bytes * bytes) :=
  if N.testbit flg 2 then
    match l with
    | a :: b :: r =>
        let n := N.to_nat (a + 256 * b) in
        if (n <=? length r)%nat then Some (Some (firstn n r), skipn n r) else None
    | _ => None
    end
  else Some (None, l).

Definition opt_cstr (flg : N) (bit : N) (l : bytes) : option (option bytes * bytes) :=
  if N.testbit flg bit then
    match take_cstr l with
    | Some (s, r) => Some (Some s, r)
    | None => None
    end
  else Some (None, l).

Definition opt_hcrc (flg : N) (l : bytes) : option (option N * bytes) :=
  if N.testbit flg 1 then
    match l with
    | a :: b :: r => Some (Some (a + 256 * b), r)
    | _ => None
    end
  else Some (None, l).

(* the optional part, which starts at offset 10 *)
Definition gz_parse_rest (flg : N) (rest : bytes) :=
  match opt_extra flg rest with
  | Some (ex, r1) =>
    match opt_cstr flg 3 r1 with
    | Some (nm, r2) =>
      match opt_cstr flg 4 r2 with
      | Some (cm, r3) =>
        match opt_hcrc flg r3 with
        | Some (hc, r4) => Some (ex, nm, cm, hc, r4)
        | None => None
        end
      | None => None
      end
    | None => None
    end
  | None => None
  end.

Definition gz_parse (x : bytes) : option gz_hdr :=
  match x with
  | id1 :: id2 :: cm :: flg :: m0 :: m1 :: m2 :: m3 :: xfl :: os :: rest =>
      if (id1 =? 31) && (id2 =? 139) then
        match gz_parse_rest flg rest with
        | Some (ex, nm, cmt, hc, body) =>
            Some (mk_gz_hdr cm flg (le_decode [m0; m1; m2; m3]) xfl os ex nm cmt hc body)
        | None => None
        end
      else None
  | _ => None
  end.

(* ---- CRC-32 (IEEE 802.3, reflected, as RFC 1952 section 8) ---- *)
Fixpoint crc_bits (n : nat) (c : N) : N :=
  match n with
  | O => c
  | S k => crc_bits k (if N.testbit c 0 then N.lxor (N.shiftr c 1) 3988292384 else N.shiftr c 1)
  end.
Definition crc_step (c : N) (b : N) : N := crc_bits 8 (N.lxor c b).
Definition crc32 (l : bytes) : N := N.lxor (fold_left crc_step l 4294967295) 4294967295.

(* the bytes the header CRC covers: the whole header up to, not including, the CRC16 itself *)
Definition hcrc_ok (x : bytes) : Prop :=
  match gz_parse x with
  | Some h =>
      match h_hcrc h with
      | Some c => c = crc32 (firstn (length x - length (h_body h) - 2) x) mod 65536
      | None => True
      end
  | None => False
  end.

Definition hcrc_okb (x : bytes) : bool :=
  match gz_parse x with
  | Some h =>
      match h_hcrc h with
      | Some c => c =? crc32 (firstn (length x - length (h_body h) - 2) x) mod 65536
      | None => true
      end
  | None => false
  end.

Lemma hcrc_okb_spec x : hcrc_okb x = true <-> hcrc_ok x.
Proof.
  unfold hcrc_okb, hcrc_ok. destruct (gz_parse x) as [h|]; [|split; [discriminate|tauto]].
  destruct (h_hcrc h); [apply N.eqb_eq | tauto].
Qed.

(* what a standard decoder checks of the leading header *)
Definition gz_accepts (x : bytes) : Prop := exists h, gz_parse x = Some h /\ hcrc_ok x.
