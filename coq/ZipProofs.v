(* ZipProofs.v — C03: what the zip/jar rewrite keeps and how member times are clamped. *)
From AD Require Import Bytes Outcome Gen Date Cp437 Zip.
Local Arguments firstn : simpl never.
Local Arguments skipn : simpl never.
Local Arguments N.add : simpl never.
Local Arguments N.mul : simpl never.
Local Arguments N.div : simpl never.
Local Arguments N.modulo : simpl never.

(* ---------- the regenerated tables agree with the layout the model writes ---------- *)
Definition zip_layout_ok : bool :=
  bytes_eqb zip_local_magic sig_local && bytes_eqb zip_central_magic sig_central &&
  Nat.eqb zip_local_time_off 10 && Nat.eqb zip_central_time_off 12 && Nat.eqb zip_ext_off 38 && (zip_mode_shift =? 16) &&
  zip_ts_time_first && zip_heuristic_as_modelled &&
  match zip_clamp_cmp, zip_check_cmp, zip_member_bound_cmp with CGt, CGt, CGt => true | _, _, _ => false end.

Lemma zip_layout : zip_layout_ok = true.
Proof. vm_compute. reflexivity. Qed.

Definition with_time (o : zout) (t d : N) : zout :=
  mk_zout (zo_name o) (zo_method o) t d (zo_crc o) (zo_csize o) (zo_usize o) (zo_ext o) (zo_data o).
Definition with_ext (o : zout) (ext : N) : zout :=
  mk_zout (zo_name o) (zo_method o) (zo_time o) (zo_date o) (zo_crc o) (zo_csize o) (zo_usize o) ext (zo_data o).

Lemma le2 v : le_encode 2 v = [v mod 256; (v / 256) mod 256].
Proof. reflexivity. Qed.
Lemma le4 v : le_encode 4 v = [v mod 256; (v / 256) mod 256; (v / 256 / 256) mod 256; (v / 256 / 256 / 256) mod 256].
Proof. reflexivity. Qed.

(* the seek-and-overwrite of the patch loop lands on the time and date words of both header copies and
   on the external attributes of the central one: patching there = writing the record with the new value *)
Lemma local_patch o t d :
  splice zip_local_time_off (le_encode 2 t ++ le_encode 2 d) (local_record o) = local_record (with_time o t d).
Proof.
  unfold splice, local_record, sig_local. rewrite !le2, !le4.
  change zip_local_time_off with 10%nat. cbn [app length with_time zo_name zo_method zo_time zo_date zo_crc zo_csize zo_usize zo_ext zo_data].
  reflexivity.
Qed.

Lemma central_patch_time o hs t d :
  splice zip_central_time_off (le_encode 2 t ++ le_encode 2 d) (central_record o hs) = central_record (with_time o t d) hs.
Proof.
  unfold splice, central_record, sig_central. rewrite !le2, !le4.
  change zip_central_time_off with 12%nat. cbn [app length with_time zo_name zo_method zo_time zo_date zo_crc zo_csize zo_usize zo_ext zo_data].
  reflexivity.
Qed.

Lemma central_patch_ext o hs ext :
  splice zip_ext_off (le_encode 4 ext) (central_record o hs) = central_record (with_ext o ext) hs.
Proof.
  unfold splice, central_record, sig_central. rewrite !le2, !le4.
  change zip_ext_off with 38%nat. cbn [app length with_ext zo_name zo_method zo_time zo_date zo_crc zo_csize zo_usize zo_ext zo_data].
  reflexivity.
Qed.

(* ---------- DOS date/time: the epoch is rounded down to the 2-second grid, in UTC ---------- *)
Open Scope Z_scope.

Definition dos_min : Z := 315532800.      (* 1980-01-01T00:00:00Z *)
Definition dos_max : Z := 4354819199.     (* 2107-12-31T23:59:59Z *)

Fixpoint zrange (lo : Z) (n : nat) : list Z :=
  match n with O => [] | S k => lo :: zrange (lo + 1) k end.
Lemma zrange_in lo n z : lo <= z < lo + Z.of_nat n -> In z (zrange lo n).
Proof.
  revert lo. induction n as [|k IH]; intros lo H; [lia|].
  cbn [zrange]. destruct (Z.eq_dec lo z) as [->|Hn]; [left; reflexivity|]. right. apply IH. lia.
Qed.

Definition day_ok (day : Z) : bool :=
  let '(y, m, d) := civil_from_days day in
  (1980 <=? y) && (y <=? 2107) && (1 <=? m) && (m <=? 12) && (1 <=? d) && (d <=? 31) && valid_date y m d && (days_from_civil y m d =? day).

(* every day from 1980-01-01 to 2107-12-31: a finite domain, enumerated completely *)
Lemma days_sweep : forallb day_ok (zrange 3652 (Z.to_nat 46751)) = true.
Proof. vm_compute. reflexivity. Qed.

Lemma day_ok_range day : 3652 <= day <= 50402 -> day_ok day = true.
Proof.
  intros H. pose proof days_sweep as Hs. rewrite forallb_forall in Hs. apply Hs. apply zrange_in. rewrite Z2Nat.id by lia. lia.
Qed.

Lemma N_pack3 a b c : (0 <= a < 32 -> 0 <= b < 16 -> 0 <= c ->
  let w := Z.to_N (a + b * 32 + c * 512) in
  Z.of_N (w / 512) = c /\ Z.of_N ((w / 32) mod 16) = b /\ Z.of_N (w mod 32) = a)%Z.
Proof.
  intros Ha Hb Hc w. subst w.
  rewrite !N2Z.inj_div, !N2Z.inj_mod, !N2Z.inj_div, Z2N.id by lia. change (Z.of_N 512) with 512. change (Z.of_N 32) with 32. change (Z.of_N 16) with 16.
  repeat split.
  - symmetry. apply (Z.div_unique _ _ _ (a + b * 32)); lia.
  - replace (a + b * 32 + c * 512) with (a + (b + c * 16) * 32) by lia.
    rewrite Z.div_add by lia. rewrite Z.div_small by lia. rewrite Z.add_0_l. rewrite Z.mod_add by lia. apply Z.mod_small; lia.
  - replace (a + b * 32 + c * 512) with (a + (b + c * 16) * 32) by lia. rewrite Z.mod_add by lia. apply Z.mod_small; lia.
Qed.

Lemma N_pack_time s2 mi h : (0 <= s2 < 32 -> 0 <= mi < 64 -> 0 <= h ->
  let w := Z.to_N (s2 + mi * 32 + h * 2048) in
  Z.of_N (w / 2048) = h /\ Z.of_N ((w / 32) mod 64) = mi /\ Z.of_N (w mod 32) = s2)%Z.
Proof.
  intros Ha Hb Hc w. subst w.
  rewrite !N2Z.inj_div, !N2Z.inj_mod, !N2Z.inj_div, Z2N.id by lia. change (Z.of_N 2048) with 2048. change (Z.of_N 32) with 32. change (Z.of_N 64) with 64.
  repeat split.
  - symmetry. apply (Z.div_unique _ _ _ (s2 + mi * 32)); lia.
  - replace (s2 + mi * 32 + h * 2048) with (s2 + (mi + h * 64) * 32) by lia.
    rewrite Z.div_add by lia. rewrite Z.div_small by lia. rewrite Z.add_0_l. rewrite Z.mod_add by lia. apply Z.mod_small; lia.
  - replace (s2 + mi * 32 + h * 2048) with (s2 + (mi + h * 64) * 32) by lia. rewrite Z.mod_add by lia. apply Z.mod_small; lia.
Qed.

(* the conversion Zip::initialize makes once: in range exactly for 1980..2107, and reading the two words
   back gives the epoch rounded down to an even second - no time zone enters *)
Theorem dos_of_unix_spec epoch : dos_min <= epoch <= dos_max ->
  exists d t, dos_of_unix epoch = Some (d, t) /\ dos_to_unix d t = Some (epoch - epoch mod 2) /\ (d < 65536)%N /\ (t < 65536)%N.
Proof.
  unfold dos_min, dos_max. intros He.
  assert (Hday : 3652 <= epoch / 86400 <= 50402).
  { split; [apply Z.div_le_lower_bound; lia | apply Z.lt_succ_r; apply Z.div_lt_upper_bound; lia]. }
  pose proof (day_ok_range _ Hday) as Hok. unfold day_ok in Hok.
  unfold dos_of_unix. destruct (civil_from_days (epoch / 86400)) as [[y m] d] eqn:Ec.
  repeat (apply andb_prop in Hok; destruct Hok as [Hok ?]).
  repeat match goal with H : (_ <=? _) = true |- _ => apply Z.leb_le in H end.
  match goal with H : (_ =? _) = true |- _ => apply Z.eqb_eq in H; rename H into Hdfc end.
  match goal with H : valid_date _ _ _ = true |- _ => rename H into Hvd end.
  replace ((1980 <=? y) && (y <=? 2107))%bool with true by (symmetry; apply andb_true_intro; split; apply Z.leb_le; lia).
  pose proof (Z.mod_pos_bound epoch 86400 ltac:(lia)) as Hs. set (s := epoch mod 86400) in *.
  assert (Hsm : 0 <= s mod 60 < 60) by (apply Z.mod_pos_bound; lia).
  assert (Hmi : 0 <= (s / 60) mod 60 < 60) by (apply Z.mod_pos_bound; lia).
  assert (Hh : 0 <= s / 3600 <= 23) by (split; [apply Z.div_pos; lia | apply Z.lt_succ_r; apply Z.div_lt_upper_bound; lia]).
  assert (Hs2 : 0 <= s mod 60 / 2 < 32) by (split; [apply Z.div_pos; lia | apply Z.div_lt_upper_bound; lia]).
  eexists _, _. split; [reflexivity|].
  destruct (N_pack3 d m (y - 1980) ltac:(lia) ltac:(lia) ltac:(lia)) as (P1 & P2 & P3).
  destruct (N_pack_time (s mod 60 / 2) ((s / 60) mod 60) (s / 3600) ltac:(lia) ltac:(lia) ltac:(lia)) as (Q1 & Q2 & Q3).
  split; [|split].
  - unfold dos_to_unix, dos_fields. cbv zeta in P1, P2, P3, Q1, Q2, Q3.
    rewrite P1, P2, P3, Q1, Q2. rewrite N2Z.inj_mul, Q3. change (Z.of_N 2) with 2.
    replace (y - 1980 + 1980) with y by lia. rewrite Hvd.
    replace (s / 3600 <=? 23) with true by (symmetry; apply Z.leb_le; lia).
    replace ((s / 60) mod 60 <=? 59) with true by (symmetry; apply Z.leb_le; lia).
    replace (s mod 60 / 2 * 2 <=? 59) with true by (symmetry; apply Z.leb_le; pose proof (Z.mul_div_le (s mod 60) 2 ltac:(lia)); lia).
    cbn [andb]. f_equal. rewrite Hdfc.
    (* epoch = day * 86400 + s;  s = h*3600 + mi*60 + sec *)
    pose proof (Z.div_mod epoch 86400 ltac:(lia)) as E1. fold s in E1.
    pose proof (Z.div_mod s 60 ltac:(lia)) as E2.
    pose proof (Z.div_mod (s / 60) 60 ltac:(lia)) as E3.
    assert (E4 : s / 60 / 60 = s / 3600) by (rewrite Z.div_div by lia; reflexivity).
    pose proof (Z.div_mod (s mod 60) 2 ltac:(lia)) as E5.
    assert (E6 : epoch mod 2 = (s mod 60) mod 2).
    { replace epoch with (s mod 60 + (43200 * (epoch / 86400) + 30 * (s / 60)) * 2) by lia.
      rewrite Z.mod_add by lia. reflexivity. }
    lia.
  - apply N2Z.inj_lt. rewrite Z2N.id by lia. change (Z.of_N 65536) with 65536. lia.
  - apply N2Z.inj_lt. rewrite Z2N.id by lia. change (Z.of_N 65536) with 65536. lia.
Qed.

Theorem dos_of_unix_range epoch d t : dos_of_unix epoch = Some (d, t) ->
  exists y m dd, civil_from_days (epoch / 86400) = (y, m, dd) /\ 1980 <= y <= 2107.
Proof.
  unfold dos_of_unix. destruct (civil_from_days (epoch / 86400)) as [[y m] dd].
  destruct ((1980 <=? y) && (y <=? 2107))%bool eqn:E; [|discriminate]. intros _.
  apply andb_prop in E. destruct E as [E1 E2]. apply Z.leb_le in E1, E2. eauto 6.
Qed.

Close Scope Z_scope.

(* ---------- the clamp ---------- *)
Lemma clamp_member_spec epoch de o o' b : clamp_member epoch de o = (o', b) ->
  zo_name o' = zo_name o /\ zo_method o' = zo_method o /\ zo_crc o' = zo_crc o /\ zo_csize o' = zo_csize o /\
  zo_usize o' = zo_usize o /\ zo_ext o' = zo_ext o /\ zo_data o' = zo_data o /\
  match dos_to_unix (zo_date o) (zo_time o) with
  | Some t => if (epoch <? t)%Z then b = true /\ zo_date o' = fst de /\ zo_time o' = snd de
              else b = false /\ o' = o
  | None => b = false /\ o' = o          (* not a calendar date: the crate cannot convert it, left as it is *)
  end.
Proof.
  unfold clamp_member. pose proof zip_layout as L. unfold zip_layout_ok in L.
  destruct zip_clamp_cmp; try (rewrite !andb_false_r in L; discriminate L).
  cbn [cmp_Z]. destruct (dos_to_unix _ _) as [t|].
  - destruct (epoch <? t)%Z; intros H; injection H as <- <-; cbn; repeat split; reflexivity.
  - intros H; injection H as <- <-. repeat split; reflexivity.
Qed.

(* after the clamp no member is later than the epoch, so a second pass finds nothing newer *)
Lemma clamp_member_settled epoch d t o : (dos_min <= epoch <= dos_max)%Z -> dos_of_unix epoch = Some (d, t) ->
  snd (clamp_member epoch (d, t) (fst (clamp_member epoch (d, t) o))) = false.
Proof.
  intros He Hd. destruct (dos_of_unix_spec epoch He) as (d' & t' & H1 & H2 & _). rewrite Hd in H1. injection H1 as <- <-.
  unfold clamp_member at 2. pose proof zip_layout as L. unfold zip_layout_ok in L.
  destruct zip_clamp_cmp eqn:Ec; try (rewrite !andb_false_r in L; discriminate L).
  destruct (dos_to_unix (zo_date o) (zo_time o)) as [t0|] eqn:E0.
  - cbn [cmp_Z]. destruct (epoch <? t0)%Z eqn:El.
    + cbn [fst]. unfold clamp_member. cbn [zo_date zo_time fst snd]. rewrite H2, Ec. cbn [cmp_Z].
      replace (epoch <? epoch - epoch mod 2)%Z with false; [reflexivity|].
      symmetry. apply Z.ltb_ge. pose proof (Z.mod_pos_bound epoch 2 ltac:(lia)). lia.
    + cbn [fst]. unfold clamp_member. rewrite E0, Ec. cbn [cmp_Z]. rewrite El. reflexivity.
  - cbn [fst]. unfold clamp_member. rewrite E0. reflexivity.
Qed.

(* ---------- Zip::process, decomposed ---------- *)
Lemma existsb_map {A B} (f : A -> B) (g : B -> bool) l : existsb g (map f l) = existsb (fun a => g (f a)) l.
Proof. induction l as [|a r IH]; [reflexivity|]. cbn [map existsb]. rewrite IH. reflexivity. Qed.

Lemma zip_process_ok init mt x y hm : zip_process init mt x = Some (Ok (y, hm)) ->
  exists es outs,
    zip_read x = Some es /\ copy_all x es = Ok outs /\
    y = zip_write (map (fun o => fst (clamp_member (fst init) (snd init) o)) outs) /\
    hm = (existsb (fun o => snd (clamp_member (fst init) (snd init) o)) outs ||
          ((fst init * 1000000000 <? mt)%Z && negb (N.of_nat (length y) =? N.of_nat (length x))))%bool.
Proof.
  unfold zip_process. destruct (zip_read x) as [es|] eqn:Er; [|discriminate].
  destruct (negb (zip_in_class es)); [discriminate|].
  destruct (copy_all x es) as [outs| | |] eqn:Eca; try discriminate.
  intros H. injection H as <- <-. exists es, outs. rewrite !map_map, existsb_map. repeat split; try reflexivity. exact Eca.
Qed.

Lemma copy_all_length x es outs : copy_all x es = Ok outs -> length outs = length es.
Proof.
  revert outs. induction es as [|[e p] r IH]; intros outs; cbn [copy_all].
  - intros H; injection H as <-; reflexivity.
  - destruct (copy_entry x e) as [o| | |]; try discriminate. destruct (copy_all x r) as [l| | |]; try discriminate.
    intros H; injection H as <-. cbn [length]. f_equal. apply IH. reflexivity.
Qed.

(* member by member: what is copied from the input entry *)
Lemma copy_entry_fields x e o : copy_entry x e = Ok o ->
  zo_method o = ze_method e /\ zo_time o = ze_time e /\ zo_date o = ze_date e /\ zo_crc o = ze_crc e /\
  zo_csize o = ze_csize e /\ zo_usize o = ze_usize e /\
  zo_name o = (if N.testbit (ze_flags e) 11 then ze_name_raw e else cp437_to_utf8 (ze_name_raw e)) /\
  (ze_method e = 0 \/ ze_method e = 8) /\
  zo_ext o = match unix_mode e with Some m => (m * 65536) mod 4294967296 | None => 33188 * 65536 end /\
  exists lh, sub_bytes (ze_offset e) 30 x = Some lh /\
     zo_data o = sub_upto (ze_offset e + 30 + u16 (skipn 26 lh) + u16 (skipn 28 lh)) (ze_csize e) x /\
     N.of_nat (length (zo_data o)) = ze_csize e.
Proof.
  unfold copy_entry. destruct (N.testbit (ze_flags e) 0); [discriminate|].
  destruct (negb _) eqn:Em; [discriminate|].
  destruct (sub_bytes (ze_offset e) 30 x) as [lh|]; [|discriminate].
  destruct (negb (bytes_eqb _ _)); [discriminate|].
  pose proof zip_layout as L. unfold zip_layout_ok in L.
  destruct zip_member_bound_cmp eqn:Ec; try (rewrite ?andb_false_r in L; discriminate L).
  cbn [cmp_N]. set (ds := ze_offset e + 30 + u16 (skipn 26 lh) + u16 (skipn 28 lh)).
  destruct (N.of_nat (length x) <? ds + ze_csize e) eqn:El; [discriminate|].
  intros H. injection H as <-. cbn [zo_name zo_method zo_time zo_date zo_crc zo_csize zo_usize zo_ext zo_data].
  apply negb_false_iff, orb_prop in Em. repeat split; try reflexivity.
  - destruct Em as [Em|Em]; apply N.eqb_eq in Em; auto.
  - exists lh. repeat split; try reflexivity.
    apply N.ltb_ge in El. unfold sub_upto. destruct (N.of_nat (length x) <=? ds) eqn:Ed.
    + apply N.leb_le in Ed. cbn [length]. lia.
    + apply N.leb_gt in Ed. rewrite firstn_length, skipn_length. lia.
Qed.
