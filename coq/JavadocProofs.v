(* JavadocProofs.v — C06: the document is split into lines with their terminators, terminators are written
   back verbatim, only lines of the header window can change, and a changed line is the result of
   process_line, which only removes stamp text and lowers a date value. *)
From AD Require Import Bytes Outcome Gen Date Walk Javadoc.

Local Arguments Nat.ltb : simpl never.
Local Arguments Nat.leb : simpl never.
Local Arguments firstn : simpl never.
Local Arguments skipn : simpl never.

(* ---------- lines ---------- *)
Lemma split_lines_concat l : forall cur, concat (split_lines l cur) = rev cur ++ l.
Proof.
  induction l as [|c r IH]; intros cur; cbn [split_lines].
  - destruct cur; cbn [concat]; [reflexivity|]. rewrite frev_rev, !app_nil_r. reflexivity.
  - destruct (c =? 10).
    + cbn [concat]. rewrite IH, frev_rev. cbn [rev app]. rewrite <- app_assoc. reflexivity.
    + rewrite IH. cbn [rev]. rewrite <- app_assoc. reflexivity.
Qed.

Lemma split_lines_whole x : concat (split_lines x []) = x.
Proof. apply split_lines_concat. Qed.

Lemma firstn_app_len {A} (a b : list A) : firstn (length a) (a ++ b) = a.
Proof. rewrite firstn_app, Nat.sub_diag, firstn_all. unfold firstn at 1. destruct b; apply app_nil_r. Qed.

Lemma starts_with_app pre l : starts_with pre l = true -> exists r, l = pre ++ r.
Proof.
  revert l; induction pre as [|a pre IH]; intros l H; [exists l; reflexivity|].
  destruct l as [|b l]; [discriminate|]. cbn [starts_with] in H. apply andb_true_iff in H. destruct H as [E H].
  apply N.eqb_eq in E. subst b. destruct (IH l H) as [r ->]. exists r. reflexivity.
Qed.

Lemma ends_with_app suf l : ends_with suf l = true -> exists p, l = p ++ suf.
Proof.
  unfold ends_with. rewrite !frev_rev. intros H. destruct (starts_with_app _ _ H) as [r E].
  exists (rev r). apply (f_equal (@rev N)) in E. rewrite rev_involutive, rev_app_distr, rev_involutive in E. exact E.
Qed.

Definition is_eol (e : bytes) : Prop := e = [] \/ e = [10] \/ e = [13; 10].

Lemma line_eol_spec raw l e : line_eol raw = (l, e) -> raw = l ++ e /\ is_eol e.
Proof.
  unfold line_eol.
  destruct (ends_with [13; 10] raw) eqn:E1.
  { intros H; injection H as <- <-. destruct (ends_with_app _ _ E1) as [p ->]. split; [|right; right; reflexivity].
    rewrite app_length. cbn [length]. replace (length p + 2 - 2)%nat with (length p) by lia. rewrite firstn_app_len. reflexivity. }
  destruct (ends_with [10] raw) eqn:E2.
  { intros H; injection H as <- <-. destruct (ends_with_app _ _ E2) as [p ->]. split; [|right; left; reflexivity].
    rewrite app_length. cbn [length]. replace (length p + 1 - 1)%nat with (length p) by lia. rewrite firstn_app_len. reflexivity. }
  intros H; injection H as <- <-. split; [symmetry; apply app_nil_r | left; reflexivity].
Qed.

(* ---------- the loop ---------- *)
(* one output line: same terminator; content unchanged or the result of process_line *)
Definition line_rel (epoch : option Z) (raw out : bytes) : Prop :=
  exists l e l', line_eol raw = (l, e) /\ out = l' ++ e /\ (l' = l \/ process_line epoch l = Some l').

(* a line may only change while the header window is open *)
Fixpoint window_rel (epoch : option Z) (open : bool) (num : nat) (raws outs : list bytes) : Prop :=
  match raws, outs with
  | [], [] => True
  | raw :: raws', out :: outs' =>
      line_rel epoch raw out /\
      (open = false -> out = raw) /\
      (let line := fst (line_eol raw) in
       let closes := cmp_N javadoc_window_cmp (N.of_nat (S num)) (N.of_nat javadoc_header_lines) || contains_ci head_end line in
       window_rel epoch (open && negb closes) (S num) raws' outs')
  | _, _ => False
  end.

Lemma jd_loop_spec epoch : forall lines num after_header have_mod acc y hm,
  jd_loop epoch lines num after_header have_mod acc = Some (y, hm) ->
  exists outs, y = acc ++ concat outs /\ window_rel epoch (negb after_header) num lines outs /\
               (hm = false -> have_mod = false /\ outs = lines).
Proof.
  induction lines as [|raw rest IH]; intros num ah hmod acc y hm H; cbn [jd_loop] in H.
  { injection H as <- <-. exists []. cbn [concat window_rel]. rewrite app_nil_r. auto. }
  destruct (utf8_ok raw); cbn [negb] in H; [|discriminate].
  destruct (line_eol raw) as [line eol] eqn:El.
  destruct (line_eol_spec _ _ _ El) as [Eraw Heol].
  set (line2 := if ah then None else process_line epoch line) in *.
  set (out := match line2 with Some l2 => l2 | None => line end) in *.
  set (hm' := hmod || match line2 with Some _ => true | None => false end) in *.
  set (closes := cmp_N javadoc_window_cmp (N.of_nat (S num)) (N.of_nat javadoc_header_lines) || contains_ci head_end line) in *.
  assert (Hrel : line_rel epoch raw (out ++ eol)).
  { exists line, eol, out. split; [exact El|]. split; [reflexivity|]. unfold out, line2.
    destruct ah; [left; reflexivity|]. destruct (process_line epoch line); [right; reflexivity | left; reflexivity]. }
  assert (Hclosed : negb ah = false -> out ++ eol = raw).
  { intros Ha. apply negb_false_iff in Ha. unfold out, line2. rewrite Ha. symmetry. exact Eraw. }
  assert (Hsame : hm' = false -> hmod = false /\ out ++ eol = raw).
  { unfold hm', out. intros Hh. apply orb_false_iff in Hh. destruct Hh as [A B]. split; [exact A|].
    destruct line2; [discriminate | symmetry; exact Eraw]. }
  destruct (negb ah && closes) eqn:Ec.
  - destruct hm' eqn:Ehm; [|discriminate].
    destruct (IH _ _ _ _ _ _ H) as (outs & Ey & Hw & Hs).
    exists ((out ++ eol) :: outs). split; [rewrite Ey; cbn [concat]; rewrite <- !app_assoc; reflexivity|]. split.
    + cbn [window_rel]. split; [exact Hrel|]. split; [exact Hclosed|]. rewrite El. cbn [fst]. fold closes.
      apply andb_true_iff in Ec. destruct Ec as [Ea Eb]. rewrite Ea, Eb. exact Hw.
    + intros Hf. destruct (Hs Hf) as [A _]. discriminate.
  - destruct (IH _ _ _ _ _ _ H) as (outs & Ey & Hw & Hs).
    exists ((out ++ eol) :: outs). split; [rewrite Ey; cbn [concat]; rewrite <- !app_assoc; reflexivity|]. split.
    + cbn [window_rel]. split; [exact Hrel|]. split; [exact Hclosed|]. rewrite El. cbn [fst]. fold closes.
      replace (negb ah && negb closes) with (negb ah); [exact Hw|].
      destruct ah; cbn in *; [reflexivity|]. rewrite Ec. reflexivity.
    + intros Hf. destruct (Hs Hf) as [A B]. destruct (Hsame A) as [C D]. split; [exact C|]. rewrite D, B. reflexivity.
Qed.

Lemma window_rel_lengths epoch : forall raws outs open num, window_rel epoch open num raws outs -> length outs = length raws.
Proof.
  induction raws as [|r raws IH]; intros [|o outs] open num H; cbn [window_rel] in H; try contradiction; [reflexivity|].
  destruct H as (_ & _ & H). cbn [length]. f_equal. eapply IH, H.
Qed.

(* C06, structure: same lines, same terminators; a line changes only as process_line says, and only while
   the header window is open; nothing reported => nothing changed *)
Theorem javadoc_structure epoch x y hm :
  javadoc_process epoch x = Ok (y, hm) ->
  exists raws outs, concat raws = x /\ concat outs = y /\ raws = split_lines x [] /\
                    window_rel epoch true 0 raws outs /\ (hm = false -> y = x).
Proof.
  unfold javadoc_process.
  destruct (jd_loop epoch (split_lines x []) 0 false false []) as [[y' hm']|] eqn:E.
  - intros H; injection H as <- <-.
    destruct (jd_loop_spec _ _ _ _ _ _ _ _ E) as (outs & Ey & Hw & Hs). cbn [app] in Ey.
    exists (split_lines x []), outs. split; [apply split_lines_whole|]. split; [symmetry; exact Ey|]. split; [reflexivity|].
    split; [exact Hw|]. intros Hf. destruct (Hs Hf) as [_ B]. rewrite Ey, B. apply split_lines_whole.
  - intros H; injection H as <- <-.
    exists (split_lines x []), (split_lines x []). split; [apply split_lines_whole|]. split; [apply split_lines_whole|].
    split; [reflexivity|]. split; [|reflexivity].
    generalize (split_lines x []) 0%nat true. clear. intros l. induction l as [|raw l IH]; intros n o; cbn [window_rel]; [exact I|].
    split; [|split; [reflexivity | apply IH]].
    destruct (line_eol raw) as [ln e] eqn:El. destruct (line_eol_spec _ _ _ El) as [Er _].
    exists ln, e, ln. split; [exact El|]. split; [exact Er | left; reflexivity].
Qed.

(* lines at or after the window bound can never change: once `num` lines have been read with
   num >= javadoc_header_lines (for the >= comparison of the source), the window is closed *)
Lemma window_closed_unchanged epoch : forall raws outs num, window_rel epoch false num raws outs -> outs = raws.
Proof.
  induction raws as [|r raws IH]; intros [|o outs] num H; cbn [window_rel] in H; try contradiction; [reflexivity|].
  destruct H as (_ & Hc & H). rewrite (Hc eq_refl). f_equal. cbn [andb] in H. eapply IH, H.
Qed.

(* ---------- what process_line can do to a line ---------- *)
Lemma index_of_spec c l j :
  index_of c l = Some j -> l = firstn j l ++ c :: skipn (S j) l /\ ~ In c (firstn j l) /\ (j < length l)%nat.
Proof.
  revert j; induction l as [|b r IH]; intros j H; cbn [index_of] in H; [discriminate|].
  destruct (N.eqb_spec b c) as [->|Hne].
  - injection H as <-. unfold firstn, skipn. cbn. split; [reflexivity|]. split; [tauto | lia].
  - destruct (index_of c r) as [n|] eqn:E; [|discriminate]. injection H as <-.
    destruct (IH n eq_refl) as (A & B & C). split; [|split].
    + change (firstn (S n) (b :: r)) with (b :: firstn n r). change (skipn (S (S n)) (b :: r)) with (skipn (S n) r).
      cbn [app]. f_equal. exact A.
    + change (firstn (S n) (b :: r)) with (b :: firstn n r). intros [E1|E1]; [congruence | contradiction].
    + cbn [length]. lia.
Qed.

(* a version/date text is removed from inside a stamp; every other byte is kept, in order *)
Inductive stamps_removed : bytes -> bytes -> Prop :=
| sr_nil : stamps_removed [] []
| sr_keep c l l' : stamps_removed l l' -> stamps_removed (c :: l) (c :: l')
| sr_stamp v s s' : v <> [] -> ~ In 62 v -> stamps_removed s s' ->
    stamps_removed (stamp_head ++ [32] ++ v ++ stamp_tail ++ s) (stamp_head ++ stamp_tail ++ s').

Lemma stamp_match_spec l v rest :
  stamp_match l = Some (v, rest) ->
  l = stamp_head ++ [32] ++ v ++ stamp_tail ++ rest /\ v <> [] /\ ~ In 62 v.
Proof.
  unfold stamp_match. destruct (starts_with (stamp_head ++ [32]) l) eqn:Es; [|discriminate].
  destruct (starts_with_app _ _ Es) as [r ->].
  assert (Hr : skipn (length stamp_head + 1) ((stamp_head ++ [32]) ++ r) = r).
  { replace (length stamp_head + 1)%nat with (length (stamp_head ++ [32])) by (rewrite app_length; reflexivity).
    rewrite skipn_app, skipn_all, Nat.sub_diag. reflexivity. }
  rewrite Hr. destruct (index_of 62 r) as [j|] eqn:Ei; [|discriminate].
  destruct (index_of_spec _ _ _ Ei) as (Er & Hnot & Hj).
  destruct (Nat.leb_spec 4 j) as [H4|H4]; cbn [andb]; [|discriminate].
  destruct (bytes_eqb (skipn (j - 3) (firstn j r)) [32; 45; 45]) eqn:Eb; [|discriminate].
  apply bytes_eqb_eq in Eb. intros H; injection H as <- <-.
  assert (Hbody : firstn j r = firstn (j - 3) (firstn j r) ++ [32; 45; 45]) by (rewrite <- Eb; symmetry; apply firstn_skipn).
  split; [|split].
  - rewrite <- !app_assoc. f_equal. cbn [app]. f_equal. rewrite Er at 1. rewrite Hbody at 1.
    rewrite <- !app_assoc. reflexivity.
  - intros E. apply (f_equal (@length N)) in E. rewrite !firstn_length in E. cbn [length] in E. lia.
  - intros Hin. apply Hnot. rewrite Hbody. apply in_or_app. left. exact Hin.
Qed.

Lemma strip_stamps_removed fuel : forall l, (length l <= fuel)%nat -> stamps_removed l (strip_stamps fuel l).
Proof.
  induction fuel as [|f IH]; intros l Hl.
  - destruct l; [constructor | cbn in Hl; lia].
  - cbn [strip_stamps]. destruct l as [|c r]; [constructor|].
    destruct (stamp_match (c :: r)) as [[v rest]|] eqn:Em.
    + destruct (stamp_match_spec _ _ _ Em) as (El & Hv & Hn). rewrite El at 1.
      apply sr_stamp; [exact Hv | exact Hn|]. apply IH.
      apply (f_equal (@length N)) in El. rewrite !app_length in El. cbn [length] in *. lia.
    + apply sr_keep. apply IH. cbn [length] in Hl. lia.
Qed.

(* the date value of the leftmost date / dc.created meta tag is lowered to the epoch's date when it is later *)
Definition meta_lowered (d : Z * Z * Z) (l l' : bytes) : Prop :=
  exists before tag v after dd,
    l = before ++ tag ++ v ++ [34; 62] ++ after /\
    l' = before ++ tag ++ fmt_date d ++ [34; 62] ++ after /\
    (starts_with_ci (meta_a ++ meta_date ++ meta_b) tag = true /\ length tag = length (meta_a ++ meta_date ++ meta_b) \/
     starts_with_ci (meta_a ++ meta_dcc ++ meta_b) tag = true /\ length tag = length (meta_a ++ meta_dcc ++ meta_b)) /\
    v <> [] /\ ~ In 34 v /\ parse_ymd v = Some dd /\ date_ltb d dd = true.

Lemma starts_with_ci_len pre l : starts_with_ci pre l = true -> starts_with_ci pre (firstn (length pre) l) = true /\ length (firstn (length pre) l) = length pre.
Proof.
  revert l; induction pre as [|a pre IH]; intros l H; [split; reflexivity|].
  destruct l as [|b l]; [discriminate|]. cbn [starts_with_ci] in H. apply andb_true_iff in H. destruct H as [E H].
  cbn [length]. change (firstn (S (length pre)) (b :: l)) with (b :: firstn (length pre) l).
  destruct (IH l H) as [A B]. split; [cbn [starts_with_ci]; rewrite E, A; reflexivity | cbn [length]; rewrite B; reflexivity].
Qed.

Lemma meta_try_spec nm l n v after :
  meta_try nm l = Some (n, v, after) ->
  l = firstn n l ++ v ++ [34; 62] ++ after /\ v <> [] /\ ~ In 34 v /\
  starts_with_ci (meta_a ++ nm ++ meta_b) (firstn n l) = true /\ length (firstn n l) = length (meta_a ++ nm ++ meta_b).
Proof.
  unfold meta_try. set (pre := meta_a ++ nm ++ meta_b).
  destruct (starts_with_ci pre l) eqn:Es; [|discriminate].
  set (rest := skipn (length pre) l).
  destruct (index_of 34 rest) as [j|] eqn:Ei; [|discriminate].
  destruct (Nat.leb_spec 1 j) as [Hj|Hj]; [|discriminate].
  destruct (index_of_spec _ _ _ Ei) as (Er & Hnot & Hlt).
  destruct (skipn (S j) rest) as [|g after'] eqn:Esk; [discriminate|].
  destruct (N.eqb_spec g 62) as [->|]; [|discriminate].
  intros H.
  assert (Hn : n = length pre) by congruence.
  assert (Hv : v = firstn j rest) by congruence.
  assert (Ha : after = after') by congruence.
  subst n v after. clear H.
  destruct (starts_with_ci_len _ _ Es) as [S1 S2].
  split; [|split; [|split; [|split]]]; try assumption.
  - rewrite <- (firstn_skipn (length pre) l) at 1. f_equal. fold rest. rewrite Er at 1. reflexivity.
  - intros E. apply (f_equal (@length N)) in E. rewrite firstn_length in E. cbn [length] in E. lia.
Qed.

Lemma meta_find_spec : forall l acc before n v after here,
  meta_find l acc = Some (before, n, v, after, here) ->
  rev acc ++ l = before ++ here /\ meta_match_here here = Some (n, v, after).
Proof.
  induction l as [|c r IH]; intros acc before n v after here H; cbn [meta_find] in H.
  - destruct (meta_match_here []) as [[[n' v'] a']|] eqn:Em; [|discriminate].
    injection H as <- <- <- <- <-. rewrite frev_rev. split; [reflexivity | exact Em].
  - destruct (meta_match_here (c :: r)) as [[[n' v'] a']|] eqn:Em.
    + injection H as <- <- <- <- <-. rewrite frev_rev. split; [reflexivity | exact Em].
    + destruct (IH _ _ _ _ _ _ H) as [A B]. split; [|exact B]. rewrite <- A. cbn [rev]. rewrite <- app_assoc. reflexivity.
Qed.

Theorem meta_rewrite_spec d l : meta_rewrite d l = l \/ meta_lowered d l (meta_rewrite d l).
Proof.
  unfold meta_rewrite. change javadoc_date_cmp with CLt. cbv iota.
  destruct (meta_find l []) as [[[[[before n] v] after] here]|] eqn:Ef; [|left; reflexivity].
  destruct (parse_ymd v) as [dd|] eqn:Ep; [|left; reflexivity].
  destruct (date_ltb d dd) eqn:El; [|left; reflexivity].
  right. destruct (meta_find_spec _ _ _ _ _ _ _ Ef) as [Hl Hm]. cbn [rev app] in Hl.
  unfold meta_match_here in Hm.
  assert (Hsp : exists nm, (nm = meta_date \/ nm = meta_dcc) /\ meta_try nm here = Some (n, v, after)).
  { destruct (meta_try meta_date here) as [r|] eqn:E1; [injection Hm as ->; exists meta_date; auto | exists meta_dcc; auto]. }
  destruct Hsp as (nm & Hnm & Ht).
  destruct (meta_try_spec _ _ _ _ _ Ht) as (Eh & Hv & Hq & Hci & Hlen).
  exists before, (firstn n here), v, after, dd.
  split; [rewrite Hl; rewrite Eh at 1; reflexivity|]. split; [reflexivity|].
  split; [destruct Hnm as [-> | ->]; [left | right]; split; assumption|].
  repeat split; assumption.
Qed.

(* a changed line: stamp text removed, then possibly one date value lowered *)
Theorem process_line_spec epoch l l' :
  process_line epoch l = Some l' ->
  exists l1, stamps_removed l l1 /\
    (l' = l1 \/ exists e d, epoch = Some e /\ date_of_unix e = Some d /\ meta_lowered d l1 l').
Proof.
  unfold process_line. set (l1 := strip_stamps (length l) l).
  assert (H1 : stamps_removed l l1) by (apply strip_stamps_removed; lia).
  destruct epoch as [e|].
  - destruct (date_of_unix e) as [d|] eqn:Ed.
    + destruct (bytes_eqb (meta_rewrite d l1) l); [discriminate|]. intros H; injection H as <-.
      exists l1. split; [exact H1|]. destruct (meta_rewrite_spec d l1) as [E|E]; [left; exact E | right; exists e, d; auto].
    + destruct (bytes_eqb l1 l); [discriminate|]. intros H; injection H as <-. exists l1. auto.
  - destruct (bytes_eqb l1 l); [discriminate|]. intros H; injection H as <-. exists l1. auto.
Qed.

(* without an epoch (or with one beyond the calendar) dates are never touched *)
Corollary process_line_no_epoch l l' : process_line None l = Some l' -> stamps_removed l l'.
Proof. intros H. destruct (process_line_spec _ _ _ H) as (l1 & A & [->|(e & d & E & _)]); [exact A | discriminate]. Qed.
