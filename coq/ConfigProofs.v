(* ConfigProofs.v — handler selection equals the documented function; the exit verdict equals the
   documented contract; Stats partition. *)
From Coq Require Import String Ascii.
From AD Require Import Bytes Outcome Gen Config.
Open Scope string_scope.
Open Scope N_scope.

(* ---------- C17: the verdict ---------- *)
Lemma verdict_contract check brp errors mis repl rew :
  main_verdict check brp errors mis repl rew =
    ((check || negb brp) && (0 <? errors)) || (check && ((0 <? mis) || (0 <? repl + rew))).
Proof.
  unfold main_verdict.
  destruct (N.ltb_spec 0 errors), (N.ltb_spec 0 mis), (N.ltb_spec 0 repl), (N.ltb_spec 0 rew), (N.ltb_spec 0 (repl + rew));
    destruct check, brp; try reflexivity; try lia.
Qed.

Lemma verdict_plain errors mis repl rew : main_verdict false false errors mis repl rew = (0 <? errors).
Proof. rewrite verdict_contract. cbn. now rewrite orb_false_r. Qed.

Lemma verdict_brp_nocheck errors mis repl rew : main_verdict false true errors mis repl rew = false.
Proof. rewrite verdict_contract. reflexivity. Qed.

Lemma verdict_check brp errors mis repl rew :
  main_verdict true brp errors mis repl rew = (0 <? errors) || (0 <? mis) || (0 <? repl + rew).
Proof. rewrite verdict_contract. cbn. now rewrite orb_assoc. Qed.

Lemma verdict_clean check brp : main_verdict check brp 0 0 0 0 = false.
Proof. rewrite verdict_contract. destruct check, brp; reflexivity. Qed.

(* ---------- C14: Stats::add_one partitions the processed inodes ---------- *)
Definition count (r : presult) (l : list presult) : N := N.of_nat (length (List.filter (presult_eqb r) l)).

Lemma add_one_cases s :
  add_one s Ignored = s /\
  add_one s Noop = mk_stats (st_dirs s) (st_files s) (st_processed s + 1) (st_replaced s + 0) (st_rewritten s + 0) (st_mis s + 0) (st_errors s + 0) /\
  add_one s Replaced = mk_stats (st_dirs s) (st_files s) (st_processed s + 1) (st_replaced s + 1) (st_rewritten s + 0) (st_mis s + 0) (st_errors s + 0) /\
  add_one s Rewritten = mk_stats (st_dirs s) (st_files s) (st_processed s + 1) (st_replaced s + 0) (st_rewritten s + 1) (st_mis s + 0) (st_errors s + 0) /\
  add_one s BadFormat = mk_stats (st_dirs s) (st_files s) (st_processed s + 1) (st_replaced s + 0) (st_rewritten s + 0) (st_mis s + 1) (st_errors s + 0) /\
  add_one s Error = mk_stats (st_dirs s) (st_files s) (st_processed s + 1) (st_replaced s + 0) (st_rewritten s + 0) (st_mis s + 0) (st_errors s + 1).
Proof. repeat split; reflexivity. Qed.

Lemma count_cons r x l : count r (x :: l) = (if presult_eqb r x then 1 else 0) + count r l.
Proof. unfold count. cbn [List.filter]. destruct (presult_eqb r x); cbn [length]; lia. Qed.

Lemma fold_add_one l : forall s,
  let s' := fold_left add_one l s in
  st_processed s' = st_processed s + (count Noop l + count Replaced l + count Rewritten l + count BadFormat l + count Error l) /\
  st_replaced s' = st_replaced s + count Replaced l /\
  st_rewritten s' = st_rewritten s + count Rewritten l /\
  st_mis s' = st_mis s + count BadFormat l /\
  st_errors s' = st_errors s + count Error l /\
  st_dirs s' = st_dirs s /\ st_files s' = st_files s.
Proof.
  induction l as [|r l IH]; intros s; cbn [fold_left].
  - unfold count. cbn. repeat split; lia.
  - destruct (add_one_cases s) as (E0 & E1 & E2 & E3 & E4 & E5).
    specialize (IH (add_one s r)). cbv zeta in IH. destruct IH as (A & B & C & D & E & F & G).
    cbv zeta. rewrite A, B, C, D, E, F, G.
    rewrite !count_cons.
    destruct r;
      repeat match goal with
             | |- context [presult_eqb ?a ?b] => let v := eval vm_compute in (presult_eqb a b) in change (presult_eqb a b) with v
             end;
      first [rewrite E0 | rewrite E1 | rewrite E2 | rewrite E3 | rewrite E4 | rewrite E5];
      cbn [st_processed st_replaced st_rewritten st_mis st_errors st_dirs st_files]; repeat split; lia.
Qed.

Theorem stats_partition l :
  let s := fold_left add_one l stats0 in
  st_processed s = count Noop l + st_replaced s + st_rewritten s + st_mis s + st_errors s /\
  st_replaced s = count Replaced l /\ st_rewritten s = count Rewritten l /\
  st_mis s = count BadFormat l /\ st_errors s = count Error l.
Proof.
  destruct (fold_add_one l stats0) as (A & B & C & D & E & _). cbv zeta in *. cbn [stats0 st_processed st_replaced st_rewritten st_mis st_errors] in *.
  rewrite A, B, C, D, E. repeat split; lia.
Qed.

Lemma stats_add_partition a b na nb :
  st_processed a = na + st_replaced a + st_rewritten a + st_mis a + st_errors a ->
  st_processed b = nb + st_replaced b + st_rewritten b + st_mis b + st_errors b ->
  st_processed (stats_add a b) = (na + nb) + st_replaced (stats_add a b) + st_rewritten (stats_add a b) + st_mis (stats_add a b) + st_errors (stats_add a b).
Proof.
  intros Ha Hb. unfold stats_add.
  assert (M : forallb merged stats_fields = true) by (vm_compute; reflexivity).
  assert (M' : forall f, In f stats_fields -> merged f = true) by (apply forallb_forall; exact M).
  rewrite !M' by (cbn; tauto).
  cbn [st_processed st_replaced st_rewritten st_mis st_errors]. lia.
Qed.

(* every counter of a worker reaches the totals *)
Lemma stats_add_all_fields a b :
  stats_add a b = mk_stats (st_dirs a + st_dirs b) (st_files a + st_files b) (st_processed a + st_processed b) (st_replaced a + st_replaced b)
                           (st_rewritten a + st_rewritten b) (st_mis a + st_mis b) (st_errors a + st_errors b).
Proof.
  unfold stats_add.
  assert (M : forallb merged stats_fields = true) by (vm_compute; reflexivity).
  assert (M' : forall f, In f stats_fields -> merged f = true) by (apply forallb_forall; exact M).
  rewrite !M' by (cbn; tauto). reflexivity.
Qed.

(* ---------- C16: selection ---------- *)
Lemma mem_str_rev s l : mem_str s (rev l) = mem_str s l.
Proof.
  unfold mem_str. apply eq_true_iff_eq. rewrite !existsb_exists. split; intros (x & Hx & E); exists x; split; auto.
  - apply in_rev. exact Hx.
  - apply in_rev. rewrite rev_involutive. exact Hx.
Qed.

Lemma forallb_rev {A} (f : A -> bool) l : forallb f (rev l) = forallb f l.
Proof.
  apply eq_true_iff_eq. rewrite !forallb_forall. split; intros H x Hx; apply H.
  - apply in_rev in Hx. exact Hx.
  - apply in_rev. exact Hx.
Qed.

Lemma fbn_positive name nf d l :
  forallb (fun x => negb (starts_dash x)) l = true ->
  filter_by_name_rev name nf d l = match l with [] => d && nf | _ => mem_str name l end.
Proof.
  revert nf; induction l as [|f r IH]; intros nf H; cbn [filter_by_name_rev]; [reflexivity|].
  cbn [forallb] in H. apply andb_true_iff in H. destruct H as [Hf Hr].
  apply negb_true_iff in Hf. rewrite Hf. unfold mem_str. cbn [existsb].
  destruct (String.eqb name f); [reflexivity|]. cbn [orb].
  rewrite (IH false Hr). destruct r; [cbn; now rewrite andb_false_r | reflexivity].
Qed.

Lemma fbn_negative name nf d l :
  forallb starts_dash l = true ->
  filter_by_name_rev name nf d l = negb (mem_str name (map strip_dash l)) && (d && nf).
Proof.
  induction l as [|f r IH]; intros H; cbn [filter_by_name_rev map]; [reflexivity|].
  cbn [forallb] in H. apply andb_true_iff in H. destruct H as [Hf Hr]. rewrite Hf.
  unfold mem_str. cbn [existsb]. destruct (String.eqb name (strip_dash f)); [reflexivity|]. cbn [orb]. apply IH, Hr.
Qed.

Definition is_nil {A} (l : list A) : bool := match l with [] => true | _ => false end.

(* the documented selection function *)
Definition spec_select (filter : list string) : option (list string * bool) :=
  if is_nil filter then Some (map fst (List.filter snd handlers_table), false)
  else if existsb starts_dash filter && existsb (fun x => negb (starts_dash x)) filter then None
  else if negb (forallb (fun x => mem_str (strip_dash x) handler_names) filter) then None
  else
    let sel := if existsb starts_dash filter
               then List.filter (fun h => snd h && negb (mem_str (fst h) (map strip_dash filter))) handlers_table
               else List.filter (fun h => mem_str (fst h) filter) handlers_table in
    match map fst sel with [] => None | l => Some (l, true) end.

Lemma existsb_negb_forallb {A} (f : A -> bool) l : existsb (fun x => negb (f x)) l = negb (forallb f l).
Proof. induction l as [|x l IH]; cbn; [reflexivity|]. rewrite IH, negb_andb. reflexivity. Qed.

Lemma filter_ext_in' {A} (f g : A -> bool) l : (forall x, In x l -> f x = g x) -> List.filter f l = List.filter g l.
Proof. induction l as [|x l IH]; intros H; cbn; [reflexivity|]. rewrite (H x (or_introl eq_refl)), IH; [reflexivity|]. intros y Hy. apply H. right. exact Hy. Qed.

Theorem requested_handlers_spec filter : requested_handlers filter = spec_select filter.
Proof.
  unfold requested_handlers, spec_select.
  change strict_when_filter_nonempty with true. cbv iota.
  destruct filter as [|f0 fr].
  { cbn [existsb is_nil andb]. cbn [negb]. unfold filter_by_name. cbn [rev filter_by_name_rev].
    assert (E : List.filter (fun h => snd h && true) handlers_table = List.filter snd handlers_table)
      by (apply filter_ext_in'; intros x _; apply andb_true_r).
    rewrite E. vm_compute. reflexivity. }
  remember (f0 :: fr) as filter eqn:Ef.
  assert (Hn : is_nil filter = false) by (subst; reflexivity). rewrite Hn.
  destruct (existsb starts_dash filter) eqn:Hneg; destruct (existsb (fun x => negb (starts_dash x)) filter) eqn:Hpos; cbn [andb].
  - reflexivity.
  - (* all negative *)
    rewrite existsb_negb_forallb. destruct (forallb (fun x => mem_str (strip_dash x) handler_names) filter); cbn [negb]; [|reflexivity].
    rewrite existsb_negb_forallb in Hpos. apply negb_false_iff in Hpos.
    assert (E : List.filter (fun h => filter_by_name (fst h) (snd h) filter) handlers_table =
                List.filter (fun h => snd h && negb (mem_str (fst h) (map strip_dash filter))) handlers_table).
    { apply filter_ext_in'. intros h _. unfold filter_by_name. rewrite fbn_negative by (rewrite forallb_rev; exact Hpos).
      rewrite map_rev, mem_str_rev, andb_true_r. apply andb_comm. }
    rewrite E. destruct (map fst _); [reflexivity|]. subst filter. reflexivity.
  - (* all positive *)
    rewrite existsb_negb_forallb. destruct (forallb (fun x => mem_str (strip_dash x) handler_names) filter); cbn [negb]; [|reflexivity].
    assert (Hall : forallb (fun x => negb (starts_dash x)) filter = true).
    { apply forallb_forall. intros x Hx. destruct (starts_dash x) eqn:Ex; [|reflexivity].
      exfalso. assert (existsb starts_dash filter = true) by (apply existsb_exists; eauto). congruence. }
    assert (E : List.filter (fun h => filter_by_name (fst h) (snd h) filter) handlers_table =
                List.filter (fun h => mem_str (fst h) filter) handlers_table).
    { apply filter_ext_in'. intros h _. unfold filter_by_name. rewrite fbn_positive by (rewrite forallb_rev; exact Hall).
      destruct (rev filter) eqn:Er.
      - exfalso. subst filter. apply (f_equal (@length string)) in Er. rewrite rev_length in Er. discriminate.
      - rewrite <- Er. apply mem_str_rev. }
    rewrite E. destruct (map fst _); [reflexivity|]. subst filter. reflexivity.
  - (* neither: impossible for a non-empty list *)
    exfalso. subst filter. cbn [existsb] in Hneg, Hpos. destruct (starts_dash f0); cbn in *; discriminate.
Qed.

(* the default set, from the regenerated table: everything except pyc-zero-mtime *)
Lemma default_selection :
  requested_handlers [] = Some (["ar"; "jar"; "javadoc"; "gzip"; "pyc"; "zip"], false).
Proof. vm_compute. reflexivity. Qed.

(* ---------- C16: initialisation ---------- *)
Lemma make_handlers_from_spec table selected strict epoch :
  make_handlers_from table selected strict epoch =
    if strict && existsb (fun n => mem_str n selected && negb (init_ok n epoch)) table then None
    else Some (List.filter (fun n => mem_str n selected && init_ok n epoch) table).
Proof.
  induction table as [|n r IH]; cbn [make_handlers_from existsb List.filter]; [now rewrite andb_false_r|].
  rewrite IH. destruct (mem_str n selected); cbn [andb orb]; [|reflexivity].
  destruct (init_ok n epoch); cbn [negb andb orb].
  - destruct (strict && existsb _ r); reflexivity.
  - destruct strict; cbn [andb]; reflexivity.
Qed.

(* a handler that is not selected is never among the handlers that run *)
Lemma unselected_never_runs selected strict epoch l n :
  make_handlers selected strict epoch = Some l -> In n l -> mem_str n selected = true.
Proof.
  unfold make_handlers. rewrite make_handlers_from_spec.
  destruct (strict && _); [discriminate|]. intros E H.
  assert (El : List.filter (fun n0 => mem_str n0 selected && init_ok n0 epoch) handler_names = l) by congruence.
  rewrite <- El in H. apply filter_In in H. destruct H as [_ H]. apply andb_true_iff in H. apply H.
Qed.

(* lenient mode never fails; strict mode fails exactly when a selected handler cannot initialise *)
Lemma make_handlers_lenient selected epoch : make_handlers selected false epoch <> None.
Proof. unfold make_handlers. rewrite make_handlers_from_spec. cbn [andb]. discriminate. Qed.

(* the derived order of ProcessResult (variant order regenerated from the source) is the rank the model uses:
   extend_and_warn keeps the maximum, so an error is never hidden by "unsupported" or "modified" *)
Lemma presult_order_as_modelled :
  presult_order = map presult_name [Ignored; Noop; Replaced; Rewritten; BadFormat; Error] /\
  forall a b, presult_rank (presult_max a b) = N.max (presult_rank a) (presult_rank b).
Proof.
  split; [reflexivity|]. intros a b. unfold presult_max. destruct (N.ltb_spec (presult_rank a) (presult_rank b)); lia.
Qed.
