(* GzipProofs.v — lemmas about the gzip model (C05, and the gzip parts of C01, C07). *)
From AD Require Import Bytes Outcome Gen Gzip GzipSpec.

Local Arguments Nat.ltb : simpl never.
Local Arguments Nat.leb : simpl never.

(* ---------- obligation: the layout the code uses is the RFC 1952 one ---------- *)
Definition cmpop_eqb (a b : cmpop) : bool :=
  match a, b with
  | CLe, CLe | CLt, CLt | CGt, CGt | CGe, CGe | CNe, CNe | CEq, CEq => true
  | _, _ => false
  end.

Definition gzip_layout_ok : bool :=
  bytes_eqb gzip_magic [31; 139] && (gzip_header_len =? 10)%nat &&
  (gzip_magic_lo =? 0)%nat && (gzip_magic_hi =? 2)%nat &&
  (gzip_mtime_lo =? 4)%nat && (gzip_mtime_hi =? 8)%nat && gzip_mtime_read_le &&
  (gzip_write_lo =? 4)%nat && (gzip_write_hi =? 8)%nat && gzip_write_le &&
  cmpop_eqb gzip_keep_cmp CLe && (gzip_epoch_bits =? 32).

Lemma gzip_layout : gzip_layout_ok = true.
Proof. vm_compute. reflexivity. Qed.

(* ---------- canonical form of the model with the RFC constants ---------- *)
Definition gzip_canon (epoch : N) (x : bytes) : outcome (bytes * bool) :=
  if (length x <? 10)%nat then Err
  else if negb (bytes_eqb (firstn 2 x) [31; 139]) then Bad
  else if le_decode (slice 4 8 x) <=? epoch then Ok (x, false)
  else Ok (firstn 4 x ++ le_encode 4 epoch ++ skipn 8 x, true).

Lemma slice_firstn lo hi n (x : bytes) : (hi <= n)%nat -> slice lo hi (firstn n x) = slice lo hi x.
Proof.
  intros H. unfold slice. rewrite skipn_firstn_comm, firstn_firstn. f_equal. lia.
Qed.

Lemma skipn_firstn_app a b (x : bytes) :
  (a <= b)%nat -> (b <= length x)%nat -> skipn a (firstn b x) ++ skipn b x = skipn a x.
Proof.
  intros Hab Hb.
  rewrite <- (firstn_skipn b x) at 3.
  rewrite skipn_app. f_equal.
  rewrite firstn_length, Nat.min_l by lia.
  replace (a - b)%nat with 0%nat by lia. reflexivity.
Qed.

Lemma gzip_process_canon epoch x : gzip_process epoch x = gzip_canon epoch x.
Proof.
  unfold gzip_process, gzip_canon.
  change gzip_header_len with 10%nat. change gzip_magic_lo with 0%nat. change gzip_magic_hi with 2%nat.
  change gzip_mtime_lo with 4%nat. change gzip_mtime_hi with 8%nat. change gzip_mtime_read_le with true.
  change gzip_write_lo with 4%nat. change gzip_write_hi with 8%nat. change gzip_write_le with true.
  change gzip_keep_cmp with CLe. change gzip_magic with [31; 139].
  cbn [decode_end encode_end cmp_N].
  destruct (Nat.ltb_spec (length x) 10) as [Hl|Hl]; [reflexivity|].
  rewrite !slice_firstn by lia.
  replace (slice 0 2 x) with (firstn 2 x) by reflexivity.
  destruct (negb (bytes_eqb (firstn 2 x) [31; 139])); [reflexivity|].
  destruct (le_decode (slice 4 8 x) <=? epoch); [reflexivity|].
  f_equal. f_equal.
  unfold splice. rewrite le_encode_length.
  change (8 - 4)%nat with 4%nat. change (4 + 4)%nat with 8%nat.
  rewrite firstn_firstn. change (Nat.min 4 10) with 4%nat.
  rewrite <- !app_assoc. f_equal. f_equal.
  apply skipn_firstn_app; lia.
Qed.

(* ---------- C05: frame ---------- *)
Definition gz_mtime (x : bytes) : N := le_decode (slice 4 8 x).

Lemma slice_4_8_length x : (10 <= length x)%nat -> length (slice 4 8 x) = 4%nat.
Proof. intros H. rewrite slice_length by lia. reflexivity. Qed.

Lemma bytes_ok_slice lo hi x : bytes_ok x -> bytes_ok (slice lo hi x).
Proof. intros H. unfold slice. apply Forall_firstn', Forall_skipn', H. Qed.

Lemma rebuild_4_8 x : (8 <= length x)%nat -> firstn 4 x ++ slice 4 8 x ++ skipn 8 x = x.
Proof.
  intros H. unfold slice. change (8 - 4)%nat with 4%nat.
  rewrite <- (firstn_skipn 4 x) at 4. f_equal.
  rewrite <- (firstn_skipn 4 (skipn 4 x)) at 2. f_equal.
  rewrite skipn_skipn. reflexivity.
Qed.

Lemma gzip_frame epoch x y hm :
  bytes_ok x ->
  gzip_process epoch x = Ok (y, hm) ->
  y = firstn 4 x ++ le_encode 4 (N.min (gz_mtime x) epoch) ++ skipn 8 x /\
  (hm = true <-> epoch < gz_mtime x) /\
  (hm = false -> y = x) /\
  length y = length x /\
  (10 <= length x)%nat /\ firstn 2 x = [31; 139].
Proof.
  intros Hok. rewrite gzip_process_canon. unfold gzip_canon, gz_mtime.
  destruct (Nat.ltb_spec (length x) 10) as [Hl|Hl]; [discriminate|].
  destruct (bytes_eqb (firstn 2 x) [31; 139]) eqn:Hm; cbn [negb]; [|discriminate].
  apply bytes_eqb_eq in Hm.
  assert (Hlen : forall m, length (firstn 4 x ++ le_encode 4 m ++ skipn 8 x) = length x).
  { intros m. rewrite !app_length, firstn_length, skipn_length, le_encode_length. lia. }
  destruct (N.leb_spec (le_decode (slice 4 8 x)) epoch) as [Hc|Hc]; intros E; injection E as Ey Ehm.
  - rewrite N.min_l by assumption.
    pose proof (le_encode_decode (slice 4 8 x) (bytes_ok_slice 4 8 x Hok)) as E.
    rewrite (slice_4_8_length x Hl) in E. rewrite E.
    rewrite rebuild_4_8 by lia. subst y hm.
    split; [reflexivity|]. split; [split; [discriminate | lia]|].
    split; [reflexivity|]. split; [reflexivity|]. split; [exact Hl | exact Hm].
  - rewrite N.min_r by lia. subst hm.
    split; [symmetry; exact Ey|]. split; [split; [intros _; exact Hc | reflexivity]|].
    split; [discriminate|]. split; [|split; [exact Hl | exact Hm]].
    rewrite <- Ey. apply Hlen.
Qed.

(* no byte outside [4,8) changes *)
Lemma gzip_outside epoch x y hm i d :
  bytes_ok x -> gzip_process epoch x = Ok (y, hm) -> (i < 4 \/ 8 <= i)%nat -> nth i y d = nth i x d.
Proof.
  intros Hok H Hi. destruct (gzip_frame _ _ _ _ Hok H) as (Hy & _ & _ & _ & Hl & _).
  rewrite Hy.
  change (firstn 4 x ++ le_encode 4 (N.min (gz_mtime x) epoch) ++ skipn 8 x)
    with (splice 4 (le_encode 4 (N.min (gz_mtime x) epoch)) x).
  apply splice_nth_outside; rewrite le_encode_length; lia.
Qed.

(* the stored MTIME of the output *)
Lemma gzip_mtime_out epoch x y hm :
  bytes_ok x -> epoch < 2 ^ 32 -> gzip_process epoch x = Ok (y, hm) ->
  gz_mtime y = N.min (gz_mtime x) epoch.
Proof.
  intros Hok He H. destruct (gzip_frame _ _ _ _ Hok H) as (Hy & _ & _ & _ & Hl & _).
  unfold gz_mtime at 1. rewrite Hy.
  change (firstn 4 x ++ le_encode 4 (N.min (gz_mtime x) epoch) ++ skipn 8 x)
    with (splice 4 (le_encode 4 (N.min (gz_mtime x) epoch)) x).
  assert (E : slice 4 8 (splice 4 (le_encode 4 (N.min (gz_mtime x) epoch)) x)
              = le_encode 4 (N.min (gz_mtime x) epoch)).
  { pose proof (splice_slice 4 (le_encode 4 (N.min (gz_mtime x) epoch)) x) as S.
    rewrite le_encode_length in S. apply S. lia. }
  rewrite E. apply le_encode_small. change (256 ^ N.of_nat 4) with (2 ^ 32). lia.
Qed.

(* ---------- C05: the RFC 1952 reading of the header is preserved ---------- *)
Definition set_mtime (h : gz_hdr) (m : N) : gz_hdr :=
  mk_gz_hdr (h_cm h) (h_flg h) m (h_xfl h) (h_os h) (h_extra h) (h_name h) (h_comment h) (h_hcrc h) (h_body h).

Lemma gzip_header_preserved epoch x y hm h :
  bytes_ok x -> epoch < 2 ^ 32 ->
  gzip_process epoch x = Ok (y, hm) ->
  gz_parse x = Some h ->
  gz_parse y = Some (set_mtime h (N.min (h_mtime h) epoch)) /\ h_mtime h = gz_mtime x.
Proof.
  intros Hok He H Hp.
  destruct (gzip_frame _ _ _ _ Hok H) as (Hy & _ & _ & _ & Hl & _).
  destruct x as [|b0 [|b1 [|cm [|flg [|m0 [|m1 [|m2 [|m3 [|xfl [|os rest]]]]]]]]]]; cbn [length] in Hl; try lia.
  assert (Hm : gz_mtime (b0 :: b1 :: cm :: flg :: m0 :: m1 :: m2 :: m3 :: xfl :: os :: rest) = le_decode [m0; m1; m2; m3])
    by reflexivity.
  rewrite Hm in *.
  assert (Hok4 : bytes_ok [m0; m1; m2; m3]).
  { unfold bytes_ok in *. repeat match goal with H : Forall _ (_ :: _) |- _ => inversion H; subst; clear H end.
    repeat constructor; assumption. }
  assert (Hb : le_decode [m0; m1; m2; m3] < 2 ^ 32) by (apply (le_decode_bound _ Hok4)).
  cbn [firstn skipn app] in Hy.
  remember (N.min (le_decode [m0; m1; m2; m3]) epoch) as m eqn:Em.
  assert (Hmb : m < 2 ^ 32) by lia.
  assert (Henc : exists n0 n1 n2 n3, le_encode 4 m = [n0; n1; n2; n3] /\ le_decode [n0; n1; n2; n3] = m).
  { cbn [le_encode]. do 4 eexists. split; [reflexivity|].
    change (le_decode (le_encode 4 m) = m). apply le_encode_small. exact Hmb. }
  destruct Henc as (n0 & n1 & n2 & n3 & Henc & Hdec).
  rewrite Henc in Hy. cbn [app] in Hy. subst y.
  unfold gz_parse in *.
  destruct ((b0 =? 31) && (b1 =? 139)); [|discriminate].
  destruct (gz_parse_rest flg rest) as [[[[[ex nm] cmt] hc] body]|] eqn:Hr; [|discriminate].
  injection Hp as <-. cbn [h_mtime]. split; [|reflexivity].
  rewrite Hdec. unfold set_mtime.
  cbn [h_cm h_flg h_mtime h_xfl h_os h_extra h_name h_comment h_hcrc h_body].
  subst m. reflexivity.
Qed.

(* ---------- header CRC ---------- *)
(* The class of inputs on which the pinned code breaks the header CRC. *)
Definition Known_C05_hcrc (epoch : N) (x : bytes) : Prop :=
  exists h, gz_parse x = Some h /\ h_hcrc h <> None /\ epoch < gz_mtime x.

Lemma gzip_accept_preserved epoch x y hm :
  bytes_ok x -> epoch < 2 ^ 32 ->
  gzip_process epoch x = Ok (y, hm) ->
  ~ Known_C05_hcrc epoch x ->
  gz_accepts x -> gz_accepts y.
Proof.
  intros Hok He H Hk (h & Hp & Hc).
  destruct (gzip_frame _ _ _ _ Hok H) as (Hy & Hhm & Hsame & Hlen & Hl & _).
  destruct (gzip_header_preserved _ _ _ _ _ Hok He H Hp) as (Hp' & Hmt).
  destruct hm.
  - (* modified: then FHCRC must be absent *)
    assert (Hlt : epoch < gz_mtime x) by (apply Hhm; reflexivity).
    assert (Hn : h_hcrc h = None).
    { destruct (h_hcrc h) eqn:E; [|reflexivity]. exfalso. apply Hk. exists h. repeat split; try assumption. congruence. }
    exists (set_mtime h (N.min (h_mtime h) epoch)). split; [exact Hp'|].
    unfold hcrc_ok. rewrite Hp'. cbn [set_mtime h_hcrc]. rewrite Hn. exact I.
  - rewrite (Hsame eq_refl). exists h. split; assumption.
Qed.

(* witness: FHCRC header, MTIME 0x00000064, epoch 1: the stored CRC16 goes stale *)
Definition hcrc_witness_body : bytes := [3; 0; 0; 0; 0; 0; 0; 0; 0; 0].
Definition hcrc_witness_hdr : bytes := [31; 139; 8; 2; 100; 0; 0; 0; 0; 3].
Definition hcrc_witness : bytes :=
  hcrc_witness_hdr ++ le_encode 2 (crc32 hcrc_witness_hdr mod 65536) ++ hcrc_witness_body.

Lemma gzip_hcrc_refuted :
  exists epoch x y, bytes_ok x /\ gz_accepts x /\ gzip_process epoch x = Ok (y, true) /\ ~ hcrc_ok y /\
                    Known_C05_hcrc epoch x.
Proof.
  exists 1, hcrc_witness.
  eexists. split; [|split; [|split; [|split]]].
  - vm_compute. repeat constructor.
  - eexists. split; [vm_compute; reflexivity|]. apply hcrc_okb_spec. vm_compute. reflexivity.
  - vm_compute. reflexivity.
  - intros Hc. apply hcrc_okb_spec in Hc. vm_compute in Hc. discriminate.
  - eexists. split; [vm_compute; reflexivity|]. split; [cbn; discriminate|]. vm_compute. reflexivity.
Qed.

(* ---------- C07 (gzip part): idempotence ---------- *)
Lemma gzip_idempotent epoch x y hm :
  bytes_ok x -> epoch < 2 ^ 32 ->
  gzip_process epoch x = Ok (y, hm) -> gzip_process epoch y = Ok (y, false).
Proof.
  intros Hok He H.
  pose proof (gzip_mtime_out _ _ _ _ Hok He H) as Hm.
  destruct (gzip_frame _ _ _ _ Hok H) as (Hy & _ & _ & Hlen & Hl & Hmag).
  rewrite gzip_process_canon. unfold gzip_canon.
  destruct (Nat.ltb_spec (length y) 10) as [Hl'|Hl']; [lia|].
  assert (Hf : firstn 2 y = [31; 139]).
  { rewrite Hy. rewrite firstn_app. rewrite firstn_firstn. change (Nat.min 2 4) with 2%nat.
    rewrite firstn_length. rewrite Nat.min_l by lia. change (2 - 4)%nat with 0%nat. cbn [firstn].
    rewrite app_nil_r. exact Hmag. }
  rewrite Hf. cbn [bytes_eqb]. rewrite !N.eqb_refl. cbn [andb negb].
  fold (gz_mtime y). rewrite Hm.
  destruct (N.leb_spec (N.min (gz_mtime x) epoch) epoch); [reflexivity | lia].
Qed.

(* ---------- C01 (gzip part): variants that differ only in MTIME, both later than the epoch ---------- *)
Definition gz_variant (x x' : bytes) : Prop :=
  length x = length x' /\ firstn 4 x = firstn 4 x' /\ skipn 8 x = skipn 8 x'.

Lemma gzip_variants_equal epoch x x' y y' hm hm' :
  bytes_ok x -> bytes_ok x' -> gz_variant x x' ->
  epoch < gz_mtime x -> epoch < gz_mtime x' ->
  gzip_process epoch x = Ok (y, hm) -> gzip_process epoch x' = Ok (y', hm') ->
  y = y' /\ hm = true /\ hm' = true.
Proof.
  intros Hok Hok' (Hlen & Hf & Hs) Hlt Hlt' H H'.
  destruct (gzip_frame _ _ _ _ Hok H) as (Hy & Hhm & _).
  destruct (gzip_frame _ _ _ _ Hok' H') as (Hy' & Hhm' & _).
  rewrite N.min_r in Hy by lia. rewrite N.min_r in Hy' by lia.
  split; [|split; [apply Hhm | apply Hhm']; assumption].
  rewrite Hy, Hy', Hf, Hs. reflexivity.
Qed.

(* non-vacuity: a concrete FNAME+FCOMMENT+FEXTRA member *)
Definition gz_example : bytes :=
  [31; 139; 8; 28; 0; 202; 154; 59; 2; 3] ++ [2; 0; 65; 66] ++ [102; 0] ++ [99; 33; 0] ++ [3; 0; 0; 0; 0; 0; 0; 0; 0; 0].

Example gz_example_runs :
  bytes_ok gz_example /\ gz_accepts gz_example /\ ~ Known_C05_hcrc 1000 gz_example /\
  exists y, gzip_process 1000 gz_example = Ok (y, true) /\ gz_mtime y = 1000.
Proof.
  split; [vm_compute; repeat constructor|].
  split; [eexists; split; [vm_compute; reflexivity | apply hcrc_okb_spec; vm_compute; reflexivity]|].
  split.
  - intros (h & Hp & Hn & _). vm_compute in Hp. injection Hp as <-. apply Hn. reflexivity.
  - eexists. split; vm_compute; reflexivity.
Qed.
