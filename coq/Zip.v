(* Zip.v — executable model of src/handlers/zip.rs together with the parts of the `zip` crate (0.6.6) it
   relies on: ZipArchive::new (end-of-central-directory search, central headers), by_index (local header
   check), ZipWriter::raw_copy_file + finish (the layout of the re-created archive), DateTime conversions.
   Class modelled: single disk, no zip64 records, sizes and offsets below 2^32-1. *)
From AD Require Import Bytes Outcome Gen Date Cp437.

Definition u16 (l : bytes) : N := le_decode (firstn 2 l).
Definition u32 (l : bytes) : N := le_decode (firstn 4 l).

(* bytes [off, off+len) when they exist *)
Definition sub_bytes (off len : N) (x : bytes) : option bytes :=
  if off + len <=? N.of_nat (length x) then Some (firstn (N.to_nat len) (skipn (N.to_nat off) x)) else None.
(* as many as there are (io::Read::take) *)
Definition sub_upto (off len : N) (x : bytes) : bytes :=
  if N.of_nat (length x) <=? off then [] else firstn (N.to_nat (N.min len (N.of_nat (length x) - off))) (skipn (N.to_nat off) x).

Definition sig_eocd : bytes := [80; 75; 5; 6].
Definition sig_central : bytes := [80; 75; 1; 2].
Definition sig_local : bytes := [80; 75; 3; 4].
Definition sig_zip64_locator : bytes := [80; 75; 6; 7].

(* ---------- reading ---------- *)
Record zentry := mk_zentry {
  ze_made_by : N; ze_flags : N; ze_method : N; ze_time : N; ze_date : N; ze_crc : N; ze_csize : N; ze_usize : N;
  ze_ext : N; ze_offset : N; ze_name_raw : bytes; ze_extra : bytes
}.

(* CentralDirectoryEnd::find_and_parse: the last position, within 64 KiB + 22 of the end, that carries the signature *)
Fixpoint find_eocd (x : bytes) (steps : nat) (pos : N) (lower : N) : option N :=
  match steps with
  | O => None
  | S k =>
      if pos <? lower then None
      else match sub_bytes pos 4 x with
           | Some s => if bytes_eqb s sig_eocd then Some pos
                       else if pos =? 0 then None else find_eocd x k (pos - 1) lower
           | None => None
           end
  end.

(* central directory entries, n of them, starting at pos *)
Fixpoint read_central (x : bytes) (n : nat) (pos : N) (archive_offset : N) : option (list (zentry * N)) :=
  match n with
  | O => Some []
  | S k =>
      match sub_bytes pos 46 x with
      | Some h =>
          if negb (bytes_eqb (firstn 4 h) sig_central) then None
          else
            let nl := u16 (skipn 28 h) in
            let el := u16 (skipn 30 h) in
            let cl := u16 (skipn 32 h) in
            match sub_bytes (pos + 46) (nl + el + cl) x with
            | Some v =>
                let e := mk_zentry (u16 (skipn 4 h)) (u16 (skipn 8 h)) (u16 (skipn 10 h)) (u16 (skipn 12 h)) (u16 (skipn 14 h))
                                   (u32 (skipn 16 h)) (u32 (skipn 20 h)) (u32 (skipn 24 h)) (u32 (skipn 38 h))
                                   (u32 (skipn 42 h) + archive_offset) (firstn (N.to_nat nl) v) (firstn (N.to_nat el) (skipn (N.to_nat nl) v)) in
                match read_central x k (pos + 46 + nl + el + cl) archive_offset with
                | Some r => Some ((e, pos) :: r)
                | None => None
                end
            | None => None
            end
      | None => None
      end
  end.

(* does an extra field carry a zip64 (0x0001) or AES (0x9901) record?  (outside the modelled class) *)
Fixpoint extra_special (fuel : nat) (ex : bytes) : bool :=
  match fuel with
  | O => false
  | S f =>
      match ex with
      | a :: b :: c :: d :: r =>
          let kind := a + 256 * b in
          let len := N.to_nat (c + 256 * d) in
          (kind =? 1) || (kind =? 39169) || extra_special f (skipn len r)
      | _ => false
      end
  end.

Definition zip_read (x : bytes) : option (list (zentry * N)) :=
  let len := N.of_nat (length x) in
  if len <? 22 then None
  else
    match find_eocd x (S (length x)) (len - 22) (len - 22 - N.min (len - 22) 65535) with
    | None => None
    | Some pos =>
        match sub_bytes pos 22 x with
        | None => None
        | Some h =>
            let disk := u16 (skipn 4 h) in
            let disk_cd := u16 (skipn 6 h) in
            let n_here := u16 (skipn 8 h) in
            let cd_size := u32 (skipn 12 h) in
            let cd_off := u32 (skipn 16 h) in
            let clen := u16 (skipn 20 h) in
            match sub_bytes (pos + 22) clen x with
            | None => None                                         (* comment runs past the end *)
            | Some _ =>
                if negb (disk =? disk_cd) && negb ((disk =? 65535) || (n_here =? 65535) || (cd_size =? 4294967295) || (cd_off =? 4294967295)) then None
                else
                  (* a zip64 locator 20 bytes before the EOCD takes the other (unmodelled) path *)
                  let has_locator := if 42 + clen <=? len then
                                       match sub_bytes (len - (42 + clen)) 4 x with
                                       | Some s => bytes_eqb s sig_zip64_locator
                                       | None => false
                                       end
                                     else false in
                  if has_locator then None
                  else if pos <? cd_size + cd_off then None
                  else
                    let archive_offset := pos - cd_size - cd_off in
                    read_central x (N.to_nat n_here) (cd_off + archive_offset) archive_offset
            end
        end
    end.

(* ---------- DOS date and time ---------- *)
Definition dos_fields (date time : N) : Z * Z * Z * Z * Z * Z :=
  (Z.of_N (date / 512) + 1980, Z.of_N ((date / 32) mod 16), Z.of_N (date mod 32),
   Z.of_N (time / 2048), Z.of_N ((time / 32) mod 64), Z.of_N ((time mod 32) * 2))%Z.

(* DateTime::to_time: Some (unix seconds) for a valid calendar date and time of day *)
Definition dos_to_unix (date time : N) : option Z :=
  let '(y, m, d, hh, mm, ss) := dos_fields date time in
  if valid_date y m d && (hh <=? 23)%Z && (mm <=? 59)%Z && (ss <=? 59)%Z
  then Some (days_from_civil y m d * 86400 + hh * 3600 + mm * 60 + ss)%Z else None.

(* DateTime::try_from(OffsetDateTime::from_unix_timestamp(epoch)): (date, time) words, None outside 1980..2107 *)
Definition dos_of_unix (epoch : Z) : option (N * N) :=
  let '(y, m, d) := civil_from_days (epoch / 86400) in
  let s := (epoch mod 86400)%Z in
  if (1980 <=? y)%Z && (y <=? 2107)%Z then
    Some (Z.to_N (d + m * 32 + (y - 1980) * 512), Z.to_N ((s mod 60) / 2 + ((s / 60) mod 60) * 32 + (s / 3600) * 2048))
  else None.

(* ---------- writing ---------- *)
Definition is_ascii (l : bytes) : bool := forallb (fun b => b <? 128) l.

(* ZipFileData::unix_mode *)
Definition unix_mode (e : zentry) : option N :=
  if ze_ext e =? 0 then None
  else
    let sys := (ze_made_by e / 256) mod 256 in
    if sys =? 3 then Some (ze_ext e / 65536)
    else if sys =? 0 then
      let m := if N.testbit (ze_ext e) 4 then 16384 + 509 else 32768 + 436 in
      Some (if N.testbit (ze_ext e) 0 then N.land m 365 else m)
    else None.

(* a member as it is written: output name, method, time words, crc, sizes, external attributes, data *)
Record zout := mk_zout { zo_name : bytes; zo_method : N; zo_time : N; zo_date : N; zo_crc : N; zo_csize : N; zo_usize : N; zo_ext : N; zo_data : bytes }.

Definition local_record (o : zout) : bytes :=
  sig_local ++ le_encode 2 20 ++ le_encode 2 (if is_ascii (zo_name o) then 0 else 2048) ++ le_encode 2 (zo_method o) ++
  le_encode 2 (zo_time o) ++ le_encode 2 (zo_date o) ++ le_encode 4 (zo_crc o) ++ le_encode 4 (zo_csize o) ++ le_encode 4 (zo_usize o) ++
  le_encode 2 (N.of_nat (length (zo_name o))) ++ le_encode 2 0 ++ zo_name o ++ zo_data o.

Definition central_record (o : zout) (header_start : N) : bytes :=
  sig_central ++ le_encode 2 (3 * 256 + 46) ++ le_encode 2 20 ++ le_encode 2 (if is_ascii (zo_name o) then 0 else 2048) ++ le_encode 2 (zo_method o) ++
  le_encode 2 (zo_time o) ++ le_encode 2 (zo_date o) ++ le_encode 4 (zo_crc o) ++ le_encode 4 (zo_csize o) ++ le_encode 4 (zo_usize o) ++
  le_encode 2 (N.of_nat (length (zo_name o))) ++ le_encode 2 0 ++ le_encode 2 0 ++ le_encode 2 0 ++ le_encode 2 0 ++
  le_encode 4 (zo_ext o) ++ le_encode 4 header_start ++ zo_name o.

Fixpoint write_locals (l : list zout) (pos : N) : bytes * list N :=
  match l with
  | [] => ([], [])
  | o :: r => let rec := local_record o in
              let '(b, offs) := write_locals r (pos + N.of_nat (length rec)) in (rec ++ b, pos :: offs)
  end.

Definition zip_write (l : list zout) : bytes :=
  let '(locals, offs) := write_locals l 0 in
  let central := concat (map (fun p => central_record (fst p) (snd p)) (combine l offs)) in
  let n := N.of_nat (length l) in
  locals ++ central ++ sig_eocd ++ le_encode 2 0 ++ le_encode 2 0 ++ le_encode 2 n ++ le_encode 2 n ++
  le_encode 4 (N.of_nat (length central)) ++ le_encode 4 (N.of_nat (length locals)) ++ le_encode 2 0.

(* by_index + check_member_data + raw_copy_file for one entry.  Err = an error of the crate (encrypted,
   unsupported method, bad local header); Bad = Zip::check_member_data (an Error::Other of the handler) *)
Definition copy_entry (x : bytes) (e : zentry) : outcome zout :=
  if N.testbit (ze_flags e) 0 then Err                                   (* encrypted: password required *)
  else if negb ((ze_method e =? 0) || (ze_method e =? 8)) then Err      (* compression method not supported *)
  else
    match sub_bytes (ze_offset e) 30 x with
    | Some lh =>
        if negb (bytes_eqb (firstn 4 lh) sig_local) then Err
        else
          let data_start := ze_offset e + 30 + u16 (skipn 26 lh) + u16 (skipn 28 lh) in
          if cmp_N zip_member_bound_cmp (data_start + ze_csize e) (N.of_nat (length x)) then Bad
          else
          let name := if N.testbit (ze_flags e) 11 then ze_name_raw e else cp437_to_utf8 (ze_name_raw e) in
          (* permissions through raw_copy_file, kind and set-id bits written back by the patch loop *)
          let ext := match unix_mode e with
                     | Some m => (m * 65536) mod 4294967296
                     | None => 33188 * 65536                                          (* default 0o100644 *)
                     end in
          Ok (mk_zout name (ze_method e) (ze_time e) (ze_date e) (ze_crc e) (ze_csize e) (ze_usize e) ext
                      (sub_upto data_start (ze_csize e) x))
    | None => Err
    end.

Fixpoint copy_all (x : bytes) (es : list (zentry * N)) : outcome (list zout) :=
  match es with
  | [] => Ok []
  | (e, _) :: r => match copy_entry x e with
                   | Ok o => match copy_all x r with Ok l => Ok (o :: l) | Bad => Bad | Err => Err | Panic => Panic end
                   | Bad => Bad | Err => Err | Panic => Panic
                   end
  end.

(* the clamp applied by the patch loop of Zip::process *)
Definition clamp_member (epoch : Z) (dos_epoch : N * N) (o : zout) : zout * bool :=
  match dos_to_unix (zo_date o) (zo_time o) with
  | Some t => if cmp_Z zip_clamp_cmp t epoch
              then (mk_zout (zo_name o) (zo_method o) (snd dos_epoch) (fst dos_epoch) (zo_crc o) (zo_csize o) (zo_usize o) (zo_ext o) (zo_data o), true)
              else (o, false)
  | None => (o, false)
  end.

(* Zip::initialize *)
Definition zip_init (epoch : option Z) : option (Z * (N * N)) :=
  match epoch with
  | Some e => match dos_of_unix e with Some d => Some (e, d) | None => None end
  | None => None
  end.

(* is this archive inside the modelled class? (no zip64 / AES extra records, names decodable, sizes small) *)
Definition zip_in_class (es : list (zentry * N)) : bool :=
  forallb (fun p => let e := fst p in
                    negb (extra_special 64 (ze_extra e)) &&
                    (if N.testbit (ze_flags e) 11 then utf8_ok (ze_name_raw e) else true) &&
                    (ze_csize e <? 4294967295) && (ze_usize e <? 4294967295) && (ze_offset e <? 4294967295)) es
  && (N.of_nat (length es) <? 65535).

(* Zip::process. [file_mtime_ns] is the modification time of the file itself (the size heuristic).
   Result None: outside the modelled class. *)
Definition zip_process (init : Z * (N * N)) (file_mtime_ns : Z) (x : bytes) : option (outcome (bytes * bool)) :=
  match zip_read x with
  | None => Some Err
  | Some es =>
      if negb (zip_in_class es) then None
      else
        match copy_all x es with
        | Bad => Some Bad | Err => Some Err | Panic => Some Panic
        | Ok outs =>
            let clamped := map (clamp_member (fst init) (snd init)) outs in
            let y := zip_write (map fst clamped) in
            let newer := existsb snd clamped in
            let have_mod := newer || ((fst init * 1000000000 <? file_mtime_ns)%Z && negb (N.of_nat (length y) =? N.of_nat (length x))) in
            Some (Ok (y, have_mod))
        end
  end.
