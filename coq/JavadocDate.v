(* JavadocDate.v — the date the javadoc handler writes is read back as itself (finite sweep over the epochs' days). *)
From AD Require Import Bytes Outcome Gen Date Walk Javadoc JavadocProofs JavadocVariants StripIdem.
Local Arguments firstn : simpl never.
Local Arguments skipn : simpl never.

(* ---------- the date written is read back as itself: every day from 1970-01-01 to 2106-02-07 ---------- *)
Definition date_eqb (a b : Z * Z * Z) : bool :=
  let '(y1, m1, d1) := a in let '(y2, m2, d2) := b in ((y1 =? y2) && (m1 =? m2) && (d1 =? d2))%Z.

Lemma date_eqb_eq a b : date_eqb a b = true -> a = b.
Proof.
  destruct a as [[y1 m1] d1], b as [[y2 m2] d2]. cbn [date_eqb]. intros H.
  apply andb_prop in H. destruct H as [H H3]. apply andb_prop in H. destruct H as [H1 H2].
  apply Z.eqb_eq in H1, H2, H3. subst. reflexivity.
Qed.

Fixpoint zrange (lo : Z) (n : nat) : list Z :=
  match n with O => [] | S k => lo :: zrange (lo + 1) k end.
Lemma zrange_in lo n z : (lo <= z < lo + Z.of_nat n)%Z -> In z (zrange lo n).
Proof.
  revert lo. induction n as [|k IH]; intros lo H; [lia|].
  cbn [zrange]. destruct (Z.eq_dec lo z) as [->|Hn]; [left; reflexivity|]. right. apply IH. lia.
Qed.

Definition day_ok (k : Z) : bool :=
  let d := civil_from_days k in
  match parse_ymd (fmt_date d) with
  | Some d' => date_eqb d' d && negb (date_ltb d d) && forallb (fun b => negb (b =? 34) && negb (b =? 60) && negb (b =? 62) && negb (b =? 10)) (fmt_date d)
               && negb (match fmt_date d with [] => true | _ => false end)
  | None => false
  end.

Lemma days_sweep : forallb day_ok (zrange 0 (Z.to_nat 49711)) = true.
Proof. vm_compute. reflexivity. Qed.

Lemma date_written_reads_back e d : (0 <= e < 4294967296)%Z -> date_of_unix e = Some d ->
  parse_ymd (fmt_date d) = Some d /\ date_ltb d d = false /\ ~ In 34 (fmt_date d) /\ ~ In 60 (fmt_date d) /\ ~ In 62 (fmt_date d) /\ fmt_date d <> [] /\
  ~ In 10 (fmt_date d).
Proof.
  intros He Hd. apply date_of_unix_utc in Hd. subst d.
  pose proof days_sweep as S. rewrite forallb_forall in S.
  assert (Hk : In (e / 86400)%Z (zrange 0 (Z.to_nat 49711))).
  { apply zrange_in. rewrite Z2Nat.id by lia. split; [apply Z.div_pos; lia | apply Z.div_lt_upper_bound; lia]. }
  specialize (S _ Hk). unfold day_ok in S.
  cbv zeta in S. destruct (parse_ymd (fmt_date (civil_from_days (e / 86400)))) as [d'|]; [|discriminate].
  apply andb_prop in S. destruct S as [S S4]. apply andb_prop in S. destruct S as [S S3]. apply andb_prop in S. destruct S as [S1 S2].
  apply date_eqb_eq in S1. subst d'. apply negb_true_iff in S2.
  rewrite forallb_forall in S3.
  assert (Hn : forall c, (c = 34 \/ c = 60 \/ c = 62 \/ c = 10) -> ~ In c (fmt_date (civil_from_days (e / 86400)))).
  { intros c Hc Hin. specialize (S3 c Hin). destruct Hc as [-> | [-> | [-> | ->]]]; discriminate S3. }
  split; [reflexivity|]. split; [exact S2|]. split; [apply Hn; auto|]. split; [apply Hn; auto|]. split; [apply Hn; auto|].
  split; [|apply Hn; auto].
  intros E. rewrite E in S4. discriminate.
Qed.

