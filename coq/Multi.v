(* Multi.v — C11: the controller / worker protocol of src/multiprocess.rs as a labelled transition system.

   The controller walks the arguments and puts one datagram per job on the job socket, then one empty datagram
   per worker; a worker loops { recv; empty => send statistics, exit; otherwise process the job, count the
   result }; the controller reads one result per worker and adds them up.

   The job socket is a FIFO queue of messages; which worker receives the next message, and how the processing
   of different jobs overlaps, is decided by the scheduler: here an arbitrary list of events.  The queue is
   modelled as filled in advance (the controller does not wait for anything but queue space): this admits every
   real schedule and more.  *)
From AD Require Import Bytes Outcome Gen Config ConfigProofs.
From Coq Require Import Permutation.

Section Multi.
  Variable state : Type.                               (* the tree *)
  Variable job : Type.
  Variable effect : job -> state -> state * presult.   (* a worker processing one job, alone *)

  Inductive msg := MJob (j : job) | MQuit.

  Record worker := mk_worker { w_busy : option job; w_stats : stats; w_done : bool }.
  Record sys := mk_sys { queue : list msg; workers : list worker; tree : state; results : list stats; finished : list (job * presult) }.

  Inductive event := Recv (w : nat) | Finish (w : nat).

  Definition set_worker (ws : list worker) (i : nat) (w : worker) : list worker :=
    firstn i ws ++ w :: skipn (S i) ws.

  Definition step (s : sys) (e : event) : option sys :=
    match e with
    | Recv i =>
        match nth_error (workers s) i, queue s with
        | Some w, m :: q =>
            if w_done w then None
            else match w_busy w with
                 | Some _ => None
                 | None =>
                     match m with
                     | MJob j => Some (mk_sys q (set_worker (workers s) i (mk_worker (Some j) (w_stats w) false)) (tree s) (results s) (finished s))
                     | MQuit => Some (mk_sys q (set_worker (workers s) i (mk_worker None (w_stats w) true)) (tree s) (w_stats w :: results s) (finished s))
                     end
                 end
        | _, _ => None
        end
    | Finish i =>
        match nth_error (workers s) i with
        | Some w =>
            match w_busy w with
            | Some j =>
                let '(t', r) := effect j (tree s) in
                Some (mk_sys (queue s) (set_worker (workers s) i (mk_worker None (add_one (w_stats w) r) (w_done w))) t' (results s) (finished s ++ [(j, r)]))
            | None => None
            end
        | None => None
        end
    end.

  Fixpoint run (s : sys) (es : list event) : option sys :=
    match es with
    | [] => Some s
    | e :: r => match step s e with Some s' => run s' r | None => None end
    end.

  Definition init (n : nat) (jobs : list job) (t : state) : sys :=
    mk_sys (map MJob jobs ++ repeat MQuit n) (repeat (mk_worker None stats0 false) n) t [] [].

  (* Controller::read_results after all workers have exited *)
  Definition totals (s : sys) : stats := fold_left stats_add (results s) stats0.

  Definition terminal (s : sys) : Prop := queue s = [] /\ Forall (fun w => w_busy w = None) (workers s).

  (* the serial run *)
  Fixpoint serial (jobs : list job) (t : state) : state * list (job * presult) :=
    match jobs with
    | [] => (t, [])
    | j :: r => let '(t1, res) := effect j t in let '(t2, l) := serial r t1 in (t2, (j, res) :: l)
    end.

  (* ---------- invariant ---------- *)
  Definition busy_jobs (ws : list worker) : list job := flat_map (fun w => match w_busy w with Some j => [j] | None => [] end) ws.
  Definition live (ws : list worker) : nat := length (filter (fun w => negb (w_done w)) ws).

  (* jobs still queued ++ jobs being processed ++ jobs finished = all jobs (as multisets); the queue is the rest
     of the job list followed by one quit message per worker that has not exited; a worker that has exited is
     idle; the tree is the result of the finished jobs in the order they finished *)
  Record inv (jobs : list job) (t0 : state) (s : sys) : Prop := {
    inv_queue : exists rest, queue s = map MJob rest ++ repeat MQuit (live (workers s)) /\
                             Permutation jobs (map fst (finished s) ++ busy_jobs (workers s) ++ rest) /\
                             (rest <> [] -> live (workers s) = length (workers s));
    inv_done_idle : Forall (fun w => w_done w = true -> w_busy w = None) (workers s);
    inv_tree : serial (map fst (finished s)) t0 = (tree s, finished s);
    inv_results : (length (results s) + live (workers s) = length (workers s))%nat
  }.

  Lemma serial_app l1 l2 t : serial (l1 ++ l2) t = let '(t1, r1) := serial l1 t in let '(t2, r2) := serial l2 t1 in (t2, r1 ++ r2).
  Proof.
    revert t. induction l1 as [|j l1 IH]; intros t; cbn [app serial].
    - destruct (serial l2 t); reflexivity.
    - destruct (effect j t) as [t1 r]. rewrite IH. destruct (serial l1 t1) as [t2 r1]. destruct (serial l2 t2). reflexivity.
  Qed.

  Lemma set_worker_length ws i w : (i < length ws)%nat -> length (set_worker ws i w) = length ws.
  Proof. intros H. unfold set_worker. rewrite app_length, firstn_length. cbn [length]. rewrite skipn_length. lia. Qed.

  Lemma nth_error_split (ws : list worker) i w : nth_error ws i = Some w -> ws = firstn i ws ++ w :: skipn (S i) ws /\ (i < length ws)%nat.
  Proof.
    revert i. induction ws as [|a ws IH]; intros [|i] H; cbn in H; try discriminate.
    - injection H as ->. split; [reflexivity | cbn; lia].
    - destruct (IH _ H) as [E L]. split; [|cbn; lia]. cbn [firstn skipn app]. f_equal. exact E.
  Qed.

  Lemma busy_jobs_app a b : busy_jobs (a ++ b) = busy_jobs a ++ busy_jobs b.
  Proof. unfold busy_jobs. apply flat_map_app. Qed.
  Lemma live_app a b : live (a ++ b) = (live a + live b)%nat.
  Proof. unfold live. rewrite filter_app, app_length. reflexivity. Qed.

  Lemma inv_init n jobs t : inv jobs t (init n jobs t).
  Proof.
    assert (L : forall k, live (repeat (mk_worker None stats0 false) k) = k) by (induction k; cbn; [reflexivity | unfold live in *; cbn; f_equal; assumption]).
    assert (B : forall k, busy_jobs (repeat (mk_worker None stats0 false) k) = []) by (induction k; cbn; auto).
    constructor; cbn [init queue workers tree results finished].
    - exists jobs. rewrite L, B. cbn [map app]. split; [reflexivity|]. split; [apply Permutation_refl|]. intros _. rewrite repeat_length. reflexivity.
    - apply Forall_forall. intros w Hw. apply repeat_spec in Hw. subst w. discriminate.
    - reflexivity.
    - rewrite L, repeat_length. reflexivity.
  Qed.

  Lemma set_worker_split ws i w w' : nth_error ws i = Some w -> exists A B, ws = A ++ w :: B /\ set_worker ws i w' = A ++ w' :: B.
  Proof. intros H. exists (firstn i ws), (skipn (S i) ws). split; [apply nth_error_split; exact H | reflexivity]. Qed.

  Lemma live_cons w ws : live (w :: ws) = ((if w_done w then 0 else 1) + live ws)%nat.
  Proof. unfold live. cbn [filter]. destruct (w_done w); reflexivity. Qed.
  Lemma busy_cons w ws : busy_jobs (w :: ws) = (match w_busy w with Some j => [j] | None => [] end) ++ busy_jobs ws.
  Proof. reflexivity. Qed.

  Lemma inv_step jobs t0 s e s' : inv jobs t0 s -> step s e = Some s' -> inv jobs t0 s'.
  Proof.
    intros [ (rest & Hq & Hp & Hn) Hd Ht Hr] Hs. destruct e as [i|i]; cbn [step] in Hs.
    - destruct (nth_error (workers s) i) as [w|] eqn:Ew; [|discriminate].
      destruct (queue s) as [|m q] eqn:Eq; [discriminate|].
      destruct (w_done w) eqn:Edone; [discriminate|]. destruct (w_busy w) eqn:Eb; [discriminate|].
      destruct m as [j|]; injection Hs as <-.
      + (* a job is taken *)
        destruct (set_worker_split _ _ _ (mk_worker (Some j) (w_stats w) false) Ew) as (A & B & Ews & Esw).
        destruct rest as [|j' rest']; cbn [map app] in Hq.
        { destruct (live (workers s)); cbn in Hq; discriminate. }
        injection Hq as -> ->.
        constructor; cbn [queue workers tree results finished]; rewrite ?Esw; clear Esw; rewrite Ews in *.
        * exists rest'. rewrite !live_app, !busy_jobs_app, !live_cons, !busy_cons in *. cbn [w_done w_busy] in *. rewrite Edone, Eb in *.
          split; [reflexivity|]. split.
          -- eapply Permutation_trans; [exact Hp|]. apply Permutation_app_head. rewrite <- !app_assoc. apply Permutation_app_head.
             cbn [app]. apply Permutation_sym, Permutation_middle.
          -- intros _. rewrite !app_length in *. cbn [length] in *. apply Hn. discriminate.
        * apply Forall_app in Hd. destruct Hd as [H1 H2]. inversion H2; subst.
          apply Forall_app. split; [assumption|]. constructor; [discriminate | assumption].
        * exact Ht.
        * rewrite !live_app, !app_length, !live_cons in *. cbn [w_done length] in *. rewrite Edone in Hr. exact Hr.
      + (* a quit message: only when no job is queued *)
        destruct (set_worker_split _ _ _ (mk_worker None (w_stats w) true) Ew) as (A & B & Ews & Esw).
        destruct rest as [|j' rest']; cbn [map app] in Hq; [|discriminate].
        constructor; cbn [queue workers tree results finished]; rewrite ?Esw; clear Esw; rewrite Ews in *.
        * exists []. rewrite !live_app, !busy_jobs_app, !live_cons, !busy_cons in *. cbn [w_done w_busy map app] in *. rewrite Edone, Eb in *.
          rewrite Nat.add_succ_r in Hq. cbn [repeat Nat.add] in Hq. injection Hq as ->.
          split; [reflexivity|]. split; [exact Hp | intros H; contradiction].
        * apply Forall_app in Hd. destruct Hd as [H1 H2]. inversion H2; subst.
          apply Forall_app. split; [assumption|]. constructor; [reflexivity | assumption].
        * exact Ht.
        * rewrite !live_app, !app_length, !live_cons in *. cbn [w_done length] in *. rewrite Edone in Hr. lia.
    - destruct (nth_error (workers s) i) as [w|] eqn:Ew; [|discriminate].
      destruct (w_busy w) as [j|] eqn:Eb; [|discriminate].
      destruct (effect j (tree s)) as [t' r] eqn:Ee. injection Hs as <-.
      destruct (set_worker_split _ _ _ (mk_worker None (add_one (w_stats w) r) (w_done w)) Ew) as (A & B & Ews & Esw).
      assert (Edone : w_done w = false).
      { rewrite Ews in Hd. apply Forall_app in Hd. destruct Hd as [_ H2]. inversion H2 as [|? ? Hw _]; subst.
        destruct (w_done w); [rewrite Hw in Eb by reflexivity; discriminate | reflexivity]. }
      constructor; cbn [queue workers tree results finished]; rewrite ?Esw; clear Esw; rewrite Ews in *.
      + exists rest. rewrite !live_app, !busy_jobs_app, !live_cons, !busy_cons in *. cbn [w_done w_busy] in *. rewrite Edone, Eb in *.
        split; [exact Hq|]. split.
        * rewrite map_app. cbn [map fst app]. eapply Permutation_trans; [exact Hp|].
          rewrite <- !app_assoc. apply Permutation_app_head. cbn [app].
          apply Permutation_sym, Permutation_middle.
        * intros H. rewrite !app_length in *. cbn [length] in *. apply Hn. exact H.
      + apply Forall_app in Hd. destruct Hd as [H1 H2]. inversion H2; subst.
        apply Forall_app. split; [assumption|]. constructor; [reflexivity | assumption].
      + rewrite map_app. cbn [map fst]. rewrite serial_app. rewrite Ht. cbn [serial]. rewrite Ee. reflexivity.
      + rewrite !live_app, !app_length, !live_cons in *. cbn [w_done length] in *. rewrite Edone in *. exact Hr.
  Qed.

  Lemma inv_run jobs t0 es : forall s s', inv jobs t0 s -> run s es = Some s' -> inv jobs t0 s'.
  Proof.
    induction es as [|e es IH]; intros s s' Hi Hr; cbn [run] in Hr.
    - injection Hr as <-. exact Hi.
    - destruct (step s e) as [s1|] eqn:Es; [|discriminate]. eapply IH; [eapply inv_step; eassumption | exact Hr].
  Qed.

  (* ---------- every schedule that runs to completion ---------- *)
  Lemma busy_none ws : Forall (fun w => w_busy w = None) ws -> busy_jobs ws = [].
  Proof. induction 1 as [|w ws Hw _ IH]; [reflexivity|]. cbn. rewrite Hw. exact IH. Qed.

  Lemma run_workers_length es : forall s s', run s es = Some s' -> length (workers s') = length (workers s).
  Proof.
    induction es as [|e es IH]; intros s s' H; cbn [run] in H; [injection H as <-; reflexivity|].
    destruct (step s e) as [s1|] eqn:Es; [|discriminate]. rewrite (IH _ _ H).
    destruct e as [i|i]; cbn [step] in Es.
    - destruct (nth_error (workers s) i) as [w|] eqn:Ew; [|discriminate]. destruct (queue s) as [|m q]; [discriminate|].
      destruct (w_done w); [discriminate|]. destruct (w_busy w); [discriminate|].
      destruct (nth_error_split _ _ _ Ew) as [_ Hi]. destruct m; injection Es as <-; cbn [workers]; apply set_worker_length; exact Hi.
    - destruct (nth_error (workers s) i) as [w|] eqn:Ew; [|discriminate]. destruct (w_busy w) as [j|]; [|discriminate].
      destruct (effect j (tree s)). injection Es as <-. destruct (nth_error_split _ _ _ Ew) as [_ Hi]. cbn [workers]. apply set_worker_length; exact Hi.
  Qed.

  Theorem completed_run n jobs t0 es s :
    run (init n jobs t0) es = Some s -> terminal s ->
    (* every job was processed exactly once, the tree is the result of processing them one after the other in
       the order they finished, every worker has exited and handed in its statistics *)
    Permutation jobs (map fst (finished s)) /\
    serial (map fst (finished s)) t0 = (tree s, finished s) /\
    length (results s) = n /\ Forall (fun w => w_done w = true) (workers s).
  Proof.
    intros Hr [Hq Hb]. pose proof (inv_run jobs t0 es _ _ (inv_init n jobs t0) Hr) as [ (rest & Eq & Hp & Hn) Hd Ht Hres].
    rewrite Hq in Eq. symmetry in Eq. apply app_eq_nil in Eq. destruct Eq as [E1 E2].
    apply map_eq_nil in E1. subst rest.
    assert (Hl : live (workers s) = 0%nat) by (destruct (live (workers s)); [reflexivity | discriminate]).
    rewrite (busy_none _ Hb) in Hp. cbn [app] in Hp. rewrite app_nil_r in Hp.
    assert (Hlen : length (workers s) = n).
    { rewrite (run_workers_length _ _ _ Hr). cbn [init workers]. apply repeat_length. }
    repeat split; try assumption.
    - lia.
    - clear - Hl. unfold live in Hl. induction (workers s) as [|w ws IH]; [constructor|].
      cbn [filter] in Hl. destruct (w_done w) eqn:E; cbn [negb] in Hl; [constructor; [exact E | apply IH; exact Hl] | cbn in Hl; lia].
  Qed.

  (* ---------- no deadlock, and termination ---------- *)
  Definition measure (s : sys) : nat := (2 * length (queue s) + length (busy_jobs (workers s)))%nat.

  Lemma step_decreases s e s' : step s e = Some s' -> (measure s' < measure s)%nat.
  Proof.
    intros Hs. unfold measure. destruct e as [i|i]; cbn [step] in Hs.
    - destruct (nth_error (workers s) i) as [w|] eqn:Ew; [|discriminate].
      destruct (queue s) as [|m q] eqn:Eq; [discriminate|].
      destruct (w_done w) eqn:Edone; [discriminate|]. destruct (w_busy w) eqn:Eb; [discriminate|].
      destruct m as [j|]; injection Hs as <-; cbn [queue workers length].
      + destruct (set_worker_split _ _ _ (mk_worker (Some j) (w_stats w) false) Ew) as (A & B & Ews & Esw). rewrite Esw, Ews.
        rewrite !busy_jobs_app, !busy_cons, !app_length. cbn [w_busy]. rewrite Eb. cbn [length app]. lia.
      + destruct (set_worker_split _ _ _ (mk_worker None (w_stats w) true) Ew) as (A & B & Ews & Esw). rewrite Esw, Ews.
        rewrite !busy_jobs_app, !busy_cons, !app_length. cbn [w_busy]. rewrite Eb. cbn [length app]. lia.
    - destruct (nth_error (workers s) i) as [w|] eqn:Ew; [|discriminate].
      destruct (w_busy w) as [j|] eqn:Eb; [|discriminate]. destruct (effect j (tree s)) as [t' r]. injection Hs as <-.
      destruct (set_worker_split _ _ _ (mk_worker None (add_one (w_stats w) r) (w_done w)) Ew) as (A & B & Ews & Esw).
      cbn [queue workers]. rewrite Esw, Ews. rewrite !busy_jobs_app, !busy_cons, !app_length. cbn [w_busy]. rewrite Eb. cbn [length app]. lia.
  Qed.

  (* hence no schedule is longer than twice the number of messages *)
  Theorem run_bounded es : forall s s', run s es = Some s' -> (length es + measure s' <= measure s)%nat.
  Proof.
    induction es as [|e es IH]; intros s s' H; cbn [run] in H; [injection H as <-; cbn; lia|].
    destruct (step s e) as [s1|] eqn:Es; [|discriminate]. pose proof (step_decreases _ _ _ Es). pose proof (IH _ _ H). cbn [length]. lia.
  Qed.

  (* in every reachable state that is not final some event is enabled: no schedule gets stuck *)
  Theorem progress n jobs t0 es s : (0 < n)%nat ->
    run (init n jobs t0) es = Some s -> ~ terminal s -> exists e s', step s e = Some s'.
  Proof.
    intros Hn0 Hr Hnt.
    assert (Hlen : length (workers s) = n) by (rewrite (run_workers_length _ _ _ Hr); cbn [init workers]; apply repeat_length). pose proof (inv_run jobs t0 es _ _ (inv_init n jobs t0) Hr) as [ (rest & Eq & Hp & Hn) Hd Ht Hres].
    (* a busy worker can finish *)
    assert (Hbusy : (exists i w j, nth_error (workers s) i = Some w /\ w_busy w = Some j) -> exists e s', step s e = Some s').
    { intros (i & w & j & Ew & Eb). exists (Finish i). cbn [step]. rewrite Ew, Eb. destruct (effect j (tree s)). eauto. }
    set (isbusy := fun w : worker => match w_busy w with Some _ => true | None => false end).
    destruct (existsb isbusy (workers s)) eqn:Eex.
    { apply existsb_exists in Eex. destruct Eex as (w & Hin & Hb). unfold isbusy in Hb. destruct (w_busy w) as [j|] eqn:Eb; [|discriminate].
      apply In_nth_error in Hin. destruct Hin as [i Ei]. apply Hbusy. eauto 6. }
    assert (Hidle : Forall (fun w => w_busy w = None) (workers s)).
    { apply Forall_forall. intros w Hin. destruct (w_busy w) eqn:Eb; [|reflexivity]. exfalso.
      assert (E : existsb isbusy (workers s) = true) by (apply existsb_exists; exists w; unfold isbusy; rewrite Eb; auto). congruence. }
    - (* all idle: the queue is not empty, and some worker has not exited *)
      destruct (queue s) as [|m q] eqn:Eqq; [exfalso; apply Hnt; split; assumption|].
      assert (Hlive : (0 < live (workers s))%nat).
      { destruct rest as [|j rest']; cbn [map app] in Eq.
        - destruct (live (workers s)); [discriminate | lia].
        - rewrite (Hn ltac:(discriminate)). lia. }
      assert (Hex : exists i w, nth_error (workers s) i = Some w /\ w_done w = false).
      { clear - Hlive. unfold live in Hlive. induction (workers s) as [|w ws IH]; [cbn in Hlive; lia|].
        destruct (w_done w) eqn:E.
        - cbn [filter] in Hlive. rewrite E in Hlive. cbn [negb] in Hlive. destruct (IH Hlive) as (i & w' & A & B). exists (S i), w'. auto.
        - exists 0%nat, w. auto. }
      destruct Hex as (i & w & Ew & Edone). exists (Recv i). cbn [step]. rewrite Ew, Edone.
      assert (Eb : w_busy w = None) by (rewrite Forall_forall in Hidle; apply Hidle; eapply nth_error_In; eassumption).
      rewrite Eb, Eqq. destruct m; eexists; reflexivity.
  Qed.

  (* ---------- with jobs that do not interfere: the serial result ---------- *)
  (* two different jobs commute: same tree and same results in either order *)
  Definition commute (j1 j2 : job) : Prop :=
    forall t, let '(t1, r1) := effect j1 t in let '(t12, r2) := effect j2 t1 in
              let '(t2, r2') := effect j2 t in let '(t21, r1') := effect j1 t2 in
              t12 = t21 /\ r1 = r1' /\ r2 = r2'.

  Lemma serial_perm l l' : Permutation l l' -> (forall a b, In a l -> In b l -> a <> b -> commute a b) -> NoDup l ->
    forall t, fst (serial l t) = fst (serial l' t) /\ Permutation (snd (serial l t)) (snd (serial l' t)).
  Proof.
    induction 1 as [|x l l' Hp IH|x y l|l l' l'' H1 IH1 H2 IH2]; intros Hc Hnd t.
    - split; [reflexivity | constructor].
    - cbn [serial]. destruct (effect x t) as [t1 r].
      destruct (IH (fun a b Ha Hb => Hc a b (or_intror Ha) (or_intror Hb)) ltac:(inversion Hnd; assumption) t1) as [A B].
      destruct (serial l t1) as [t2 l2], (serial l' t1) as [t2' l2']. cbn [fst snd] in *. split; [exact A | constructor; exact B].
    - cbn [serial].
      assert (Hxy : y <> x) by (inversion Hnd as [|? ? Hin _]; intros E; apply Hin; left; symmetry; exact E).
      pose proof (Hc y x (or_introl eq_refl) (or_intror (or_introl eq_refl)) Hxy t) as C.
      destruct (effect y t) as [t1 r1]. destruct (effect x t1) as [t12 r2]. destruct (effect x t) as [t2 r2']. destruct (effect y t2) as [t21 r1'].
      destruct C as (-> & -> & ->). destruct (serial l t21) as [tf lf]. cbn [fst snd]. split; [reflexivity | apply perm_swap].
    - destruct (IH1 Hc Hnd t) as [A1 B1].
      assert (Hc' : forall a b, In a l' -> In b l' -> a <> b -> commute a b).
      { intros a b Ha Hb. apply Hc; eapply Permutation_in; try eassumption; apply Permutation_sym; assumption. }
      destruct (IH2 Hc' (Permutation_NoDup H1 Hnd) t) as [A2 B2].
      split; [congruence | eapply Permutation_trans; eassumption].
  Qed.

  Theorem parallel_equals_serial n jobs t0 es s :
    NoDup jobs -> (forall a b, In a jobs -> In b jobs -> a <> b -> commute a b) ->
    run (init n jobs t0) es = Some s -> terminal s ->
    tree s = fst (serial jobs t0) /\ Permutation (finished s) (snd (serial jobs t0)).
  Proof.
    intros Hnd Hc Hr Ht. destruct (completed_run n jobs t0 es s Hr Ht) as (Hp & Hs & _).
    destruct (serial_perm _ _ Hp Hc Hnd t0) as [A B]. rewrite Hs in A, B. cbn [fst snd] in A, B.
    split; [symmetry; exact A | apply Permutation_sym; exact B].
  Qed.
  (* ---------- the totals: every result is counted once, whichever worker handled it ---------- *)
  Section Linear.
    Variable phi : stats -> N.            (* one counter of the statistics *)
    Variable delta : presult -> N.        (* what one result adds to it *)
    Hypothesis phi0 : phi stats0 = 0.
    Hypothesis phi_add : forall a b, phi (stats_add a b) = phi a + phi b.
    Hypothesis phi_one : forall s r, phi (add_one s r) = phi s + delta r.

    Definition pending (ws : list worker) : N := fold_right (fun w acc => (if w_done w then 0 else phi (w_stats w)) + acc) 0 ws.
    Definition handed (rs : list stats) : N := fold_right (fun r acc => phi r + acc) 0 rs.
    Definition counted (l : list (job * presult)) : N := fold_right (fun jr acc => delta (snd jr) + acc) 0 l.

    Lemma pending_app a b : pending (a ++ b) = pending a + pending b.
    Proof. induction a as [|w a IH]; cbn [app pending fold_right]; [reflexivity|]. fold (pending (a ++ b)) (pending a). rewrite IH. lia. Qed.
    Lemma counted_app a b : counted (a ++ b) = counted a + counted b.
    Proof. induction a as [|w a IH]; cbn [app counted fold_right]; [reflexivity|]. fold (counted (a ++ b)) (counted a). rewrite IH. lia. Qed.

    Definition lin_inv (s : sys) : Prop :=
      (handed (results s) + pending (workers s) = counted (finished s)) /\
      Forall (fun w => w_done w = true -> w_busy w = None) (workers s).

    Lemma lin_step s e s' : lin_inv s -> step s e = Some s' -> lin_inv s'.
    Proof.
      intros [Hl Hd] Hs. destruct e as [i|i]; cbn [step] in Hs.
      - destruct (nth_error (workers s) i) as [w|] eqn:Ew; [|discriminate].
        destruct (queue s) as [|m q]; [discriminate|].
        destruct (w_done w) eqn:Edone; [discriminate|]. destruct (w_busy w) eqn:Eb; [discriminate|].
        destruct m as [j|]; injection Hs as <-; unfold lin_inv; cbn [workers results finished].
        + destruct (set_worker_split _ _ _ (mk_worker (Some j) (w_stats w) false) Ew) as (A & B & Ews & Esw). rewrite Esw. rewrite Ews in Hl, Hd.
          split.
          * rewrite pending_app in *. cbn [pending fold_right w_done w_stats] in *. rewrite Edone in Hl. exact Hl.
          * apply Forall_app in Hd. destruct Hd as [H1 H2]. inversion H2; subst. apply Forall_app. split; [assumption|]. constructor; [discriminate | assumption].
        + destruct (set_worker_split _ _ _ (mk_worker None (w_stats w) true) Ew) as (A & B & Ews & Esw). rewrite Esw. rewrite Ews in Hl, Hd.
          split.
          * rewrite pending_app in *. cbn [pending handed fold_right w_done w_stats] in *. rewrite Edone in Hl. fold (handed (results s)). fold (pending B) in *. lia.
          * apply Forall_app in Hd. destruct Hd as [H1 H2]. inversion H2; subst. apply Forall_app. split; [assumption|]. constructor; [reflexivity | assumption].
      - destruct (nth_error (workers s) i) as [w|] eqn:Ew; [|discriminate].
        destruct (w_busy w) as [j|] eqn:Eb; [|discriminate].
        destruct (effect j (tree s)) as [t' r]. injection Hs as <-. unfold lin_inv. cbn [workers results finished].
        destruct (set_worker_split _ _ _ (mk_worker None (add_one (w_stats w) r) (w_done w)) Ew) as (A & B & Ews & Esw). rewrite Esw. rewrite Ews in Hl, Hd.
        assert (Edone : w_done w = false).
        { apply Forall_app in Hd. destruct Hd as [_ H2]. inversion H2 as [|? ? Hw _]; subst.
          destruct (w_done w); [rewrite Hw in Eb by reflexivity; discriminate | reflexivity]. }
        split.
        + rewrite pending_app, counted_app in *. cbn [pending counted fold_right w_done w_stats snd] in *. rewrite Edone in *. rewrite phi_one.
          fold (pending B) in *. lia.
        + apply Forall_app in Hd. destruct Hd as [H1 H2]. inversion H2; subst. apply Forall_app. split; [assumption|]. constructor; [reflexivity | assumption].
    Qed.

    Lemma lin_init n jobs t : lin_inv (init n jobs t).
    Proof.
      unfold lin_inv. split; cbn [init workers results finished handed counted fold_right].
      - induction n as [|n IH]; cbn [repeat pending fold_right w_done w_stats]; [reflexivity|]. fold (pending (repeat (mk_worker None stats0 false) n)). rewrite phi0. lia.
      - apply Forall_forall. intros w Hw. apply repeat_spec in Hw. subst w. discriminate.
    Qed.

    Lemma lin_run es : forall s s', lin_inv s -> run s es = Some s' -> lin_inv s'.
    Proof.
      induction es as [|e es IH]; intros s s' Hi Hr; cbn [run] in Hr; [injection Hr as <-; exact Hi|].
      destruct (step s e) as [s1|] eqn:Es; [|discriminate]. eapply IH; [eapply lin_step; eassumption | exact Hr].
    Qed.

    Lemma phi_totals rs : forall acc, phi (fold_left stats_add rs acc) = phi acc + handed rs.
    Proof.
      induction rs as [|r rs IH]; intros acc; cbn [fold_left handed fold_right]; [lia|]. rewrite IH, phi_add. fold (handed rs). lia.
    Qed.

    (* the controller's total of this counter = the sum over all processed jobs *)
    Theorem totals_count n jobs t0 es s :
      run (init n jobs t0) es = Some s -> terminal s -> phi (totals s) = counted (finished s).
    Proof.
      intros Hr Ht. destruct (lin_run es _ _ (lin_init n jobs t0) Hr) as [Hl _].
      destruct (completed_run n jobs t0 es s Hr Ht) as (_ & _ & _ & Hdone).
      assert (P0 : pending (workers s) = 0).
      { clear - Hdone. induction Hdone as [|w ws Hw _ IH]; [reflexivity|]. cbn [pending fold_right]. rewrite Hw. exact IH. }
      unfold totals. rewrite phi_totals, phi0. lia.
    Qed.
  End Linear.
End Multi.
