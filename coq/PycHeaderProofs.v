(* PycHeaderProofs.v — C18: pyc-zero-mtime zeroes exactly the timestamp field. *)
From AD Require Import Bytes Outcome Gen PycHeader.

Local Arguments Nat.ltb : simpl never.
Local Arguments firstn : simpl never.
Local Arguments skipn : simpl never.

(* obligation on the regenerated table and offsets: header lengths are 8/12/16, the 16-byte layout is
   exactly the versions from 3.7 on (PEP 552), the flags word sits at 4, the timestamp at 4 (8- and
   12-byte headers) or 8 (16-byte header), read and written at the same place, 4 zero bytes *)
Definition row_ok (r : list (N * N) * (N * N * nat)) : bool :=
  let '(_, (ma, mi, hl)) := r in
  ((hl =? 8) || (hl =? 12) || (hl =? 16))%nat && Bool.eqb (hl =? 16)%nat (ver_leb (3, 7) (ma, mi)).

Definition pyc_layout_ok : bool :=
  forallb row_ok magic_table && bytes_eqb pyc_magic [13; 10] &&
  (fst pyc_mtime_split =? 3) && (snd pyc_mtime_split =? 7) && (fst pyc_zero_split =? 3) && (snd pyc_zero_split =? 7) &&
  (fst pyc_hash_from =? 3) && (snd pyc_hash_from =? 7) &&
  (pyc_mtime_off_old =? 4)%nat && (pyc_mtime_off_new =? 8)%nat && (pyc_zero_off_old =? 4)%nat && (pyc_zero_off_new =? 8)%nat &&
  (pyc_zero_len =? 4)%nat && (pyc_zero_fill =? 0) && (pyc_flags_off =? 4)%nat && (pyc_hash_mask =? 1).

Lemma pyc_layout : pyc_layout_ok = true.
Proof. vm_compute. reflexivity. Qed.

Lemma lookup_rows v t ver hl :
  forallb row_ok t = true -> lookup_magic v t = Some (ver, hl) ->
  (hl = 8 \/ hl = 12 \/ hl = 16)%nat /\ ((hl =? 16)%nat = ver_leb (3, 7) ver).
Proof.
  induction t as [|[r [[ma mi] h]] t IH]; cbn [lookup_magic forallb]; [discriminate|].
  intros H. apply andb_true_iff in H. destruct H as [Hr Ht].
  destruct (in_ranges v r); [|apply IH, Ht].
  intros E; injection E as <- <-. unfold row_ok in Hr. apply andb_true_iff in Hr. destruct Hr as [H1 H2].
  split.
  - apply orb_true_iff in H1. destruct H1 as [H1|H1]; [apply orb_true_iff in H1; destruct H1 as [H1|H1]|];
      apply Nat.eqb_eq in H1; auto.
  - apply Bool.eqb_prop in H2. exact H2.
Qed.

Definition mtime_off (ver : version) : nat := if ver_ltb ver (3, 7) then 4%nat else 8%nat.
Definition hash_based (ver : version) (x : bytes) : bool := ver_leb (3, 7) ver && N.odd (read_long_at 4 x).

Lemma land_1_odd n : (N.land n 1 =? 0) = negb (N.odd n).
Proof.
  destruct n as [|p]; [reflexivity|]. destruct p; reflexivity.
Qed.

(* canonical form of the handler with the PEP 552 constants *)
Lemma pyc_zero_mtime_canon x :
  pyc_zero_mtime x =
    match pyc_header x with
    | Ok (ver, hl) =>
        if hash_based ver x then Ok (x, false)
        else if read_long_at (mtime_off ver) x =? 0 then Ok (x, false)
        else Ok (splice (mtime_off ver) [0; 0; 0; 0] x, true)
    | Bad => Bad | Err => Err | Panic => Panic
    end.
Proof.
  unfold pyc_zero_mtime, hash_based, mtime_off.
  change pyc_hash_from with (3, 7). change pyc_flags_off with 4%nat. change pyc_hash_mask with 1.
  change pyc_mtime_split with (3, 7). change pyc_zero_split with (3, 7).
  change pyc_mtime_off_old with 4%nat. change pyc_mtime_off_new with 8%nat.
  change pyc_zero_off_old with 4%nat. change pyc_zero_off_new with 8%nat.
  change (repeat pyc_zero_fill pyc_zero_len) with [0; 0; 0; 0].
  destruct (pyc_header x) as [[ver hl]| | |]; try reflexivity.
  rewrite land_1_odd, Bool.negb_involutive. reflexivity.
Qed.

Lemma pyc_header_len x ver hl :
  pyc_header x = Ok (ver, hl) -> (hl <= length x)%nat /\ (hl = 8 \/ hl = 12 \/ hl = 16)%nat /\ ((hl =? 16)%nat = ver_leb (3, 7) ver).
Proof.
  unfold pyc_header. destruct (length x <? 4)%nat; [discriminate|].
  destruct (negb (bytes_eqb (slice 2 4 x) pyc_magic)); [discriminate|].
  destruct (lookup_magic (le_decode (firstn 2 x)) magic_table) as [[v h]|] eqn:El; [|discriminate].
  destruct (Nat.ltb_spec (length x) h); [discriminate|].
  intros E; injection E as <- <-. split; [assumption|].
  apply (lookup_rows (le_decode (firstn 2 x)) magic_table); [|exact El].
  pose proof pyc_layout as L. unfold pyc_layout_ok in L.
  repeat (apply andb_true_iff in L; destruct L as [L _]). exact L.
Qed.

Lemma mtime_off_in_header ver hl : (hl = 8 \/ hl = 12 \/ hl = 16)%nat -> (hl =? 16)%nat = ver_leb (3, 7) ver -> (mtime_off ver + 4 <= hl)%nat.
Proof.
  intros Hh He. unfold mtime_off, ver_leb in *. destruct (ver_ltb ver (3, 7)); cbn [negb] in He.
  - lia.
  - apply Nat.eqb_eq in He. lia.
Qed.

(* C18: everything the handler can do to the bytes *)
Theorem zero_mtime_spec x y hm :
  pyc_zero_mtime x = Ok (y, hm) ->
  exists ver hl, pyc_header x = Ok (ver, hl) /\ (mtime_off ver + 4 <= hl <= length x)%nat /\
    length y = length x /\
    (forall i d, (i < mtime_off ver \/ mtime_off ver + 4 <= i)%nat -> nth i y d = nth i x d) /\
    (hm = false -> y = x) /\
    (hash_based ver x = true -> hm = false) /\
    (hm = true <-> (hash_based ver x = false /\ read_long_at (mtime_off ver) x <> 0)) /\
    (hash_based ver x = false -> read_long_at (mtime_off ver) y = 0).
Proof.
  rewrite pyc_zero_mtime_canon. destruct (pyc_header x) as [[ver hl]| | |] eqn:Eh; try discriminate.
  destruct (pyc_header_len _ _ _ Eh) as (Hl & Hh & He).
  pose proof (mtime_off_in_header ver hl Hh He) as Ho.
  intros H. exists ver, hl. split; [reflexivity|]. split; [lia|].
  destruct (hash_based ver x) eqn:Hb.
  { injection H as <- <-. repeat split; auto; try discriminate. intros [A _]; discriminate. }
  destruct (N.eqb_spec (read_long_at (mtime_off ver) x) 0) as [Hz|Hz].
  { injection H as <- <-. repeat split; auto; try discriminate. intros [_ A]; contradiction. }
  injection H as <- <-.
  assert (Hs : (mtime_off ver + length [0; 0; 0; 0] <= length x)%nat) by (cbn [length]; lia).
  split; [apply splice_length, Hs|].
  split; [intros i d Hi; apply splice_nth_outside; [exact Hs | cbn [length]; lia]|].
  split; [discriminate|]. split; [discriminate|]. split; [split; [auto | reflexivity]|].
  intros _. unfold read_long_at.
  pose proof (splice_slice (mtime_off ver) [0; 0; 0; 0] x Hs) as S. cbn [length] in S. rewrite S. reflexivity.
Qed.

Lemma firstn_le {A} a b (l : list A) : (a <= b)%nat -> firstn a l = firstn a (firstn b l).
Proof. intros H. rewrite firstn_firstn. rewrite Nat.min_l by exact H. reflexivity. Qed.

(* idempotence (C07 part): the header test only looks at bytes 0..4 and the length *)
Lemma pyc_header_splice x off new ver hl :
  pyc_header x = Ok (ver, hl) -> (4 <= off)%nat -> (off + length new <= length x)%nat ->
  pyc_header (splice off new x) = Ok (ver, hl).
Proof.
  intros H Ho Hl. unfold pyc_header in *. rewrite splice_length by exact Hl.
  destruct (Nat.ltb_spec (length x) 4) as [H4|H4]; [discriminate|].
  assert (F4 : firstn 4 (splice off new x) = firstn 4 x).
  { rewrite (firstn_le 4 off (splice off new x)) by exact Ho. rewrite (firstn_le 4 off x) by exact Ho.
    rewrite splice_firstn by lia. reflexivity. }
  assert (S1 : slice 2 4 (splice off new x) = slice 2 4 x).
  { unfold slice. rewrite !(firstn_skipn_comm (4 - 2) 2).
    change (2 + (4 - 2))%nat with 4%nat. rewrite F4. reflexivity. }
  assert (S2 : firstn 2 (splice off new x) = firstn 2 x).
  { rewrite (firstn_le 2 4 (splice off new x)) by lia. rewrite (firstn_le 2 4 x) by lia. rewrite F4. reflexivity. }
  rewrite S1, S2. exact H.
Qed.

Theorem zero_mtime_idempotent x y hm :
  pyc_zero_mtime x = Ok (y, hm) -> pyc_zero_mtime y = Ok (y, false).
Proof.
  intros H. destruct (zero_mtime_spec _ _ _ H) as (ver & hl & Eh & Hr & Hlen & Hout & Hsame & Hhb & Hhm & Hz).
  destruct hm; [|pose proof (Hsame eq_refl) as Ey; subst y; exact H].
  destruct (proj1 Hhm eq_refl) as [Hb Hnz].
  assert (Ey : y = splice (mtime_off ver) [0; 0; 0; 0] x).
  { rewrite pyc_zero_mtime_canon, Eh, Hb in H.
    destruct (read_long_at (mtime_off ver) x =? 0); [discriminate|]. injection H as <-. reflexivity. }
  rewrite pyc_zero_mtime_canon.
  assert (Ehy : pyc_header y = Ok (ver, hl)).
  { rewrite Ey. apply pyc_header_splice; [exact Eh | unfold mtime_off; destruct (ver_ltb ver (3, 7)); lia | cbn [length]; lia]. }
  rewrite Ehy.
  assert (Hby : hash_based ver y = false).
  { unfold hash_based in *. apply andb_false_iff in Hb. apply andb_false_iff.
    destruct Hb as [Hb|Hb]; [left; exact Hb|].
    destruct (ver_leb (3, 7) ver) eqn:Ev; [|left; reflexivity]. right.
    (* 16-byte header: the flags word at 4 is outside the zeroed field at 8 *)
    assert (Em : mtime_off ver = 8%nat) by (unfold mtime_off, ver_leb in *; destruct (ver_ltb ver (3, 7)); [discriminate | reflexivity]).
    unfold read_long_at in *. rewrite Ey, Em.
    replace (slice 4 (4 + 4) (splice 8 [0; 0; 0; 0] x)) with (slice 4 (4 + 4) x); [exact Hb|].
    unfold slice. change (4 + 4 - 4)%nat with 4%nat.
    rewrite !(firstn_skipn_comm 4 4). change (4 + 4)%nat with 8%nat.
    rewrite splice_firstn by lia. reflexivity. }
  rewrite Hby. rewrite (Hz Hb). reflexivity.
Qed.

(* ---------- the regenerated magic table against CPython's release history ---------- *)
(* first and last magic number of every Python 3 release series and the last of 2.7 (CPython,
   Lib/importlib/_bootstrap_external.py), with the header length of that release; written down here
   independently of the tool's table *)
Definition release_magics : list (N * (N * N * nat)) :=
  [(62211, (2, 7, 8%nat)); (3131, (3, 0, 8%nat)); (3151, (3, 1, 8%nat)); (3180, (3, 2, 8%nat)); (3190, (3, 3, 12%nat)); (3230, (3, 3, 12%nat));
   (3250, (3, 4, 12%nat)); (3310, (3, 4, 12%nat)); (3320, (3, 5, 12%nat)); (3350, (3, 5, 12%nat)); (3351, (3, 5, 12%nat));
   (3360, (3, 6, 12%nat)); (3379, (3, 6, 12%nat)); (3390, (3, 7, 16%nat)); (3394, (3, 7, 16%nat)); (3400, (3, 8, 16%nat)); (3413, (3, 8, 16%nat));
   (3420, (3, 9, 16%nat)); (3425, (3, 9, 16%nat)); (3430, (3, 10, 16%nat)); (3439, (3, 10, 16%nat)); (3450, (3, 11, 16%nat)); (3495, (3, 11, 16%nat));
   (3500, (3, 12, 16%nat)); (3531, (3, 12, 16%nat)); (3550, (3, 13, 16%nat)); (3571, (3, 13, 16%nat)); (3600, (3, 14, 16%nat)); (3627, (3, 14, 16%nat))].

Definition release_row_ok (r : N * (N * N * nat)) : bool :=
  let '(m, (ma, mi, hl)) := r in
  match lookup_magic m magic_table with
  | Some ((ma', mi'), hl') => (ma' =? ma) && (mi' =? mi) && (hl' =? hl)%nat
  | None => false
  end.

Lemma release_magics_classified : forallb release_row_ok release_magics = true.
Proof. vm_compute. reflexivity. Qed.
