(* MultiFiles.v — C11: the hypothesis of the parallel = serial theorem is met by jobs that each rewrite their own file. *)
From Coq Require Import Permutation.
From AD Require Import Bytes Outcome Gen Config Multi.

(* the tree as the list of its files' contents; job j = one handler applied to file number j *)
Fixpoint upd {A} (j : nat) (y : A) (s : list A) {struct s} : list A :=
  match s, j with
  | [], _ => []
  | _ :: r, O => y :: r
  | x :: r, S k => x :: upd k y r
  end.

Lemma nth_upd_other {A} (y : A) : forall s a b, a <> b -> nth_error (upd a y s) b = nth_error s b.
Proof.
  induction s as [|x s IH]; intros a b H; [reflexivity|].
  destruct a as [|a], b as [|b]; cbn [upd nth_error]; try reflexivity; [contradiction|]. apply IH. intros E. apply H. f_equal. exact E.
Qed.

Lemma upd_comm {A} (y z : A) : forall s a b, a <> b -> upd a y (upd b z s) = upd b z (upd a y s).
Proof.
  induction s as [|x s IH]; intros a b H; [reflexivity|].
  destruct a as [|a], b as [|b]; cbn [upd]; try reflexivity; [contradiction|]. f_equal. apply IH. intros E. apply H. f_equal. exact E.
Qed.

Definition file_effect (h : bytes -> outcome (bytes * bool)) (j : nat) (s : list bytes) : list bytes * presult :=
  match nth_error s j with
  | None => (s, Error)                                  (* the entry vanished *)
  | Some x =>
      match h x with
      | Ok (y, true) => (upd j y s, Replaced)
      | Ok (_, false) => (s, Noop)
      | Bad => (s, BadFormat)
      | Err => (s, Error)
      | Panic => (s, Error)
      end
  end.

(* what a job does is a function of its own entry *)
Definition outcome_of (h : bytes -> outcome (bytes * bool)) (e : option bytes) : option bytes * presult :=
  match e with
  | None => (None, Error)
  | Some x => match h x with
              | Ok (y, true) => (Some y, Replaced)
              | Ok (_, false) => (None, Noop)
              | Bad => (None, BadFormat)
              | Err => (None, Error)
              | Panic => (None, Error)
              end
  end.
Definition apply_w (j : nat) (w : option bytes) (s : list bytes) : list bytes := match w with Some y => upd j y s | None => s end.

Lemma file_effect_eq h j s :
  file_effect h j s = (apply_w j (fst (outcome_of h (nth_error s j))) s, snd (outcome_of h (nth_error s j))).
Proof.
  unfold file_effect, outcome_of. destruct (nth_error s j) as [x|]; [|reflexivity].
  destruct (h x) as [[y [|]]| | |]; reflexivity.
Qed.

Lemma nth_apply_other a b w s : a <> b -> nth_error (apply_w a w s) b = nth_error s b.
Proof. intros H. destruct w as [y|]; [apply nth_upd_other, H | reflexivity]. Qed.

Lemma apply_comm a b w w' s : a <> b -> apply_w a w (apply_w b w' s) = apply_w b w' (apply_w a w s).
Proof. intros H. destruct w as [y|], w' as [z|]; cbn [apply_w]; try reflexivity. apply upd_comm, H. Qed.

(* jobs on different files do not interfere: each reads and writes its own entry only *)
Lemma file_effect_commute h a b : a <> b -> commute (list bytes) nat (file_effect h) a b.
Proof.
  intros H t. rewrite (file_effect_eq h a t), (file_effect_eq h b t).
  rewrite (file_effect_eq h b (apply_w a _ t)), (file_effect_eq h a (apply_w b _ t)).
  rewrite (nth_apply_other a b _ t H), (nth_apply_other b a _ t (not_eq_sym H)).
  split; [apply apply_comm, not_eq_sym, H | split; reflexivity].
Qed.

(* so, for ANY byte-level handler, any number of workers and any schedule: the files end up as after the serial run and every
   file gets the result the serial run gives it *)
Theorem files_parallel_equals_serial h n jobs t0 es s :
  NoDup jobs -> run (list bytes) nat (file_effect h) (init (list bytes) nat n jobs t0) es = Some s -> terminal (list bytes) nat s ->
  tree (list bytes) nat s = fst (serial (list bytes) nat (file_effect h) jobs t0) /\
  Permutation (finished (list bytes) nat s) (snd (serial (list bytes) nat (file_effect h) jobs t0)).
Proof.
  intros Hnd Hr Ht. apply (parallel_equals_serial (list bytes) nat (file_effect h) n jobs t0 es s Hnd); [|exact Hr | exact Ht].
  intros a b _ _ Hab. apply file_effect_commute, Hab.
Qed.
