(* NoPanic.v — C08: no modelled handler panics on any content, a failing file is left as it was, and the
   walk goes on with the remaining entries. *)
From AD Require Import Bytes Outcome Gen Gzip Ar ArSpec ArProofs Decimal PycHeader PycHeaderProofs Marshal Pyc PycProofs Date Javadoc
     Fs Helper HelperProofs Config Walk.

Lemma gzip_never_panics e x : gzip_process e x <> Panic.
Proof.
  unfold gzip_process. destruct (length x <? gzip_header_len)%nat; [discriminate|].
  destruct (negb _); [discriminate|]. destruct (cmp_N _ _ _); discriminate.
Qed.

Lemma javadoc_never_panics e x : javadoc_process e x <> Panic.
Proof. unfold javadoc_process. destruct (jd_loop _ _ _ _ _ _) as [[y hm]|]; discriminate. Qed.

Lemma pyc_zero_mtime_never_panics x : pyc_zero_mtime x <> Panic.
Proof.
  unfold pyc_zero_mtime, pyc_header.
  destruct (length x <? 4)%nat; [discriminate|].
  destruct (negb (bytes_eqb (slice 2 4 x) pyc_magic)); [discriminate|].
  destruct (lookup_magic _ _) as [[ver hl]|]; [|discriminate].
  destruct (length x <? hl)%nat; [discriminate|].
  destruct (_ && _); [discriminate|]. destruct (_ =? 0); discriminate.
Qed.

(* ar: the only panic of the source is copy_from_slice with a 13-digit epoch string; not reachable for epochs
   below 10^12 (and for larger epochs no 12-column timestamp can be later) *)
Lemma ar_fix_header_np epoch h : epoch_ok epoch -> ar_fix_header epoch h <> Panic.
Proof.
  intros He. unfold ar_fix_header.
  destruct (parse_field _ _ _ _ h); [|discriminate].
  destruct (parse_field _ _ _ _ h); [|discriminate].
  destruct (parse_field _ _ _ _ h); [|discriminate].
  destruct (parse_field _ _ _ _ h); [|discriminate].
  destruct epoch as [e|].
  - destruct (cmp_Z ar_clamp_cmp z e).
    + pose proof (epoch_ok_fmt (Some e) He) as Hf. cbn [fmt_ok] in Hf.
      change ar_mtime_fmt_width with 12%nat. rewrite Hf. change (ar_mtime_whi - ar_mtime_wlo)%nat with 12%nat.
      cbn [Nat.eqb]. destruct (owner_test z0 z1); discriminate.
    + destruct (owner_test z0 z1); discriminate.
  - destruct (owner_test z0 z1); discriminate.
Qed.

Lemma ar_loop_np epoch : epoch_ok epoch -> forall fuel rest, (length rest < fuel)%nat -> ar_loop fuel epoch rest <> Panic.
Proof.
  intros He. induction fuel as [|f IH]; intros rest Hl; [lia|].
  rewrite ar_loop_S. destruct rest as [|b rest']; [discriminate|].
  remember (b :: rest') as rest eqn:Er.
  destruct (Nat.ltb_spec (length rest) 60) as [H60|H60]; [discriminate|].
  cbv zeta.
  destruct (negb _); [discriminate|]. destruct (negb _); [discriminate|].
  destruct (parse_field false 4294967295 48 58 (firstn 60 rest)) as [z|]; [|discriminate].
  assert (Hfix : (if bytes_eqb (field 0 16 (firstn 60 rest)) [47; 47] then Ok (firstn 60 rest, false) else ar_fix_header epoch (firstn 60 rest)) <> Panic).
  { destruct (bytes_eqb _ _); [discriminate | apply ar_fix_header_np, He]. }
  destruct (if bytes_eqb (field 0 16 (firstn 60 rest)) [47; 47] then Ok (firstn 60 rest, false) else ar_fix_header epoch (firstn 60 rest)) as [[h' m]| | |];
    try discriminate; [|contradiction].
  destruct (padded_size (Z.to_N z)) as [psz|]; [|discriminate].
  destruct (N.of_nat (length (skipn 60 rest)) <? psz); [discriminate|].
  assert (Hl2 : (length (skipn (N.to_nat psz) (skipn 60 rest)) < f)%nat).
  { rewrite !skipn_length. subst rest. cbn [length] in *. lia. }
  specialize (IH _ Hl2).
  destruct (ar_loop f epoch (skipn (N.to_nat psz) (skipn 60 rest))) as [[out m2]| | |]; try discriminate. contradiction.
Qed.

Lemma ar_never_panics epoch x : epoch_ok epoch -> ar_process epoch x <> Panic.
Proof.
  intros He. rewrite ar_process_canon.
  destruct (length x <? 8)%nat; [discriminate|]. destruct (negb _); [discriminate|].
  assert (H : ar_loop (S (length x)) epoch (skipn 8 x) <> Panic) by (apply ar_loop_np; [exact He | rewrite skipn_length; lia]).
  destruct (ar_loop (S (length x)) epoch (skipn 8 x)) as [[out m]| | |]; try discriminate. contradiction.
Qed.

(* the process dies (class None) only if the handler's own code panics *)
Ltac disc := cbn [snd]; let Hd := fresh in intro Hd; discriminate Hd.

Lemma run_handler_none e fault m prof eager handler p s :
  snd (run_handler e fault m prof eager handler p s) = None -> exists x, handler x = Panic.
Proof.
  unfold run_handler. cbv zeta.
  destruct (issue e fault (OOpenRead p) s) as [s1 r1].
  destruct r1; [destruct (names (s_fs s1) p); disc|].
  destruct (names (s_fs s1) p) as [ip|]; [|disc].
  destruct (issue e fault (OFstat ip) s1) as [s2 r2].
  destruct r2; [destruct (inodes (s_fs s2) ip); disc|].
  destruct (inodes (s_fs s2) ip) as [meta|]; [|disc].
  assert (Hfin : forall o y s', snd (finalize_mod e fault m p (tmp_path p) meta o y s') <> None).
  { intros o y s'. unfold finalize_mod. destruct o as [| |i].
    - cbn [snd]. discriminate.
    - cbn [snd]. discriminate.
    - destruct (i_nlink meta =? 1).
      + destruct (issue e fault (OLchown _ _ _) s') as [sa ra].
        assert (G : forall sb, snd (step e fault (tmp_path p) (OutTmp i) (OFchmod i (i_mode meta)) sb (fun s2 =>
                     step e fault (tmp_path p) (OutTmp i) (OFutimens i (i_mtime meta)) s2 (fun s3 =>
                     step e fault (tmp_path p) (OutTmp i) (ORename (tmp_path p) p) s3 (fun s4 => (s4, Some Replaced))))) <> None).
        { intros sb. unfold step. destruct (issue _ _ _ sb) as [sc rc]. destruct rc; [cbn [snd]; discriminate|].
          destruct (issue _ _ _ sc) as [sd rd]. destruct rd; [cbn [snd]; discriminate|].
          destruct (issue _ _ _ sd) as [se re]. destruct re; cbn [snd]; discriminate. }
        destruct ra as [er|]; [|apply G]. destruct er; try apply G; cbn [snd]; discriminate.
      + unfold step. destruct (issue _ _ _ s') as [sa ra]. destruct ra; [cbn [snd]; discriminate|].
        destruct (names (s_fs sa) p); [|cbn [snd]; discriminate].
        destruct (issue _ _ _ sa) as [sb rb]. destruct rb; [cbn [snd]; discriminate|].
        destruct (issue _ _ _ sb) as [sc rc]. destruct rc; [cbn [snd]; discriminate|].
        destruct (issue _ _ _ sc) as [sd rd]. destruct rd; cbn [snd]; discriminate. }
  assert (Hafter : forall o s3,
     snd (match handler (i_data meta) with
        | Panic => match prof with Debug => (cleanup e fault (tmp_path p) o s3, None) | Release => (s3, None) end
        | Bad => (cleanup e fault (tmp_path p) o s3, Some BadFormat)
        | Err => (cleanup e fault (tmp_path p) o s3, Some Error)
        | Ok (_, false) => (cleanup e fault (tmp_path p) o s3, Some Noop)
        | Ok (y, true) =>
            match o with
            | OutTmp fo => step e fault (tmp_path p) o (OWrite fo 0 y) s3 (fun s4 => finalize_mod e fault m p (tmp_path p) meta o y s4)
            | _ => finalize_mod e fault m p (tmp_path p) meta o y s3
            end
        end : sim * option presult) = None -> exists x, handler x = Panic).
  { intros o s3. destruct (handler (i_data meta)) as [[y [|]]| | |] eqn:Eh; try disc.
    - destruct o; try (intros H; exfalso; exact (Hfin _ _ _ H)).
      unfold step. destruct (issue _ _ _ s3) as [s4 r4]. destruct r4; [disc|]. intros H; exfalso; exact (Hfin _ _ _ H).
    - intros _. exists (i_data meta). exact Eh. }
  destruct (eager (i_data meta)).
  - destruct (open_output e fault m (tmp_path p) s2) as [s3 [o|]]; [apply Hafter | disc].
  - destruct (handler (i_data meta)) as [[y [|]]| | |] eqn:Eh.
    + destruct (open_output e fault m (tmp_path p) s2) as [s3 [o|]]; [|disc].
      exact (Hafter o s3).
    + exact (Hafter OutNone s2).
    + exact (Hafter OutNone s2).
    + exact (Hafter OutNone s2).
    + intros _. exists (i_data meta). exact Eh.
Qed.

(* with handlers that never panic, every entry is processed and counted: the walk never stops early *)
Lemma pff_total e fault m prof hs : (forall h, In h hs -> forall x, hd_fun h x <> Panic) ->
  forall n already p s sel acc, snd (process_file_from e fault m prof hs n already p s sel acc) <> None.
Proof.
  induction hs as [|h hs IH]; intros Hh n already p s sel acc; cbn [process_file_from]; [discriminate|].
  assert (Hh' : forall h0, In h0 hs -> forall x, hd_fun h0 x <> Panic) by (intros; apply Hh; right; assumption).
  destruct (N.testbit already n); [apply IH, Hh'|].
  destruct (hfilter h p); [|apply IH, Hh'].
  pose proof (run_handler_none e fault m prof (hd_eager h) (hd_fun h) p s) as Hn.
  destruct (run_handler e fault m prof (hd_eager h) (hd_fun h) p s) as [s' r]. cbn [snd] in Hn.
  destruct r; [apply IH, Hh'|]. exfalso. destruct (Hn eq_refl) as [x Hx]. exact (Hh h (or_introl eq_refl) x Hx).
Qed.

Theorem walk_total e fault m prof hs : (forall h, In h hs -> forall x, hd_fun h x <> Panic) ->
  forall entries w, walk e fault m prof hs w entries <> None.
Proof.
  intros Hh. induction entries as [|p rest IH]; intros w; cbn [walk]; [discriminate|].
  assert (Hpe : process_entry e fault m prof hs w p <> None).
  { unfold process_entry. destruct (is_tmp_name _); [discriminate|].
    destruct (obs _ p) as [[ino nd]|]; [|discriminate]. destruct (i_kind nd); try discriminate.
    pose proof (pff_total e fault m prof hs Hh 0 (w_seen w ino) p (w_sim w) 0 Ignored) as H.
    destruct (process_file_from _ _ _ _ _ _ _ _ _ _ _) as [[s' sel] r]. cbn [snd] in H. destruct r; [discriminate | contradiction]. }
  destruct (process_entry e fault m prof hs w p); [apply IH | contradiction].
Qed.
