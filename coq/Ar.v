(* Ar.v — executable model of src/handlers/ar.rs (Ar::process).
   Slice ranges, magics, integer types, comparison operators, the format width and the
   padding rule come from Gen.v (the Rust text as it is now). *)
From AD Require Import Bytes Outcome Gen.

Definition field (lo hi : nat) (hdr : bytes) : bytes := trim_end_sp (slice lo hi hdr).

(* std::str::from_utf8(&buf[lo..hi])?.trim_end_matches(' ').parse::<T>()?  — None = any error *)
Definition parse_field (signed : bool) (max : N) (lo hi : nat) (hdr : bytes) : option Z :=
  if utf8_ok (slice lo hi hdr) then
    if signed then parse_signed max (field lo hi hdr)
    else match parse_unsigned max (field lo hi hdr) with
         | Some v => Some (Z.of_N v)
         | None => None
         end
  else None.

Definition owner_test (uid gid : Z) : bool :=
  let a := cmp_Z ar_uid_cmp uid 0 in
  let b := cmp_Z ar_gid_cmp gid 0 in
  if ar_owner_or then a || b else a && b.

Fixpoint apply_writes (ws : list (nat * bytes)) (hdr : bytes) : bytes :=
  match ws with
  | [] => hdr
  | (lo, v) :: r => apply_writes r (splice lo v hdr)
  end.

(* the part of the loop body between the size parse and output.write_all(&buf), for a member
   that is not the long-name table: returns the (possibly edited) header and whether it changed *)
Definition ar_fix_header (epoch : option Z) (hdr : bytes) : outcome (bytes * bool) :=
  match parse_field ar_mtime_signed ar_mtime_max ar_mtime_lo ar_mtime_hi hdr with
  | None => Err
  | Some mtime =>
    match parse_field ar_uid_signed ar_uid_max ar_uid_lo ar_uid_hi hdr with
    | None => Err
    | Some uid =>
      match parse_field ar_gid_signed ar_gid_max ar_gid_lo ar_gid_hi hdr with
      | None => Err
      | Some gid =>
        match parse_field ar_mode_signed ar_mode_max ar_mode_lo ar_mode_hi hdr with
        | None => Err
        | Some _ =>
          let step1 : outcome (bytes * bool) :=
            match epoch with
            | Some e =>
              if cmp_Z ar_clamp_cmp mtime e then
                let s := fmt_left_pad ar_mtime_fmt_width (Z.to_N e) in
                (* copy_from_slice panics when the lengths differ *)
                if (length s =? ar_mtime_whi - ar_mtime_wlo)%nat then Ok (splice ar_mtime_wlo s hdr, true) else Panic
              else Ok (hdr, false)
            | None => Ok (hdr, false)
            end in
          match step1 with
          | Ok (h1, m1) =>
            if owner_test uid gid then Ok (apply_writes ar_owner_writes h1, true) else Ok (h1, m1)
          | e => e
          end
        end
      end
    end
  end.

(* size.checked_add(size % 2) in u32: None on overflow (reported as Error::Other) *)
Definition padded_size (size : N) : option N :=
  let p := size + size mod ar_pad_mod in
  if p <=? ar_size_max then Some p else None.

Fixpoint ar_loop (fuel : nat) (epoch : option Z) (rest : bytes) : outcome (bytes * bool) :=
  match fuel with
  | O => Panic                                  (* unreachable: fuel = length of the input *)
  | S f =>
    match rest with
    | [] => Ok ([], false)                      (* read_exact_or_zero: clean EOF *)
    | _ =>
      if (length rest <? ar_header_len)%nat then Bad            (* Error::UnexpectedEOF *)
      else
        let hdr := firstn ar_header_len rest in
        if negb (bytes_eqb (skipn ar_hmagic_from hdr) ar_header_magic) then Bad   (* Error::BadMagic *)
        else if negb (utf8_ok (slice ar_name_lo ar_name_hi hdr)) then Err
        else
          let name := field ar_name_lo ar_name_hi hdr in
          match parse_field ar_size_signed ar_size_max ar_size_lo ar_size_hi hdr with
          | None => Err
          | Some zsize =>
            let size := Z.to_N zsize in
            let fixed := if bytes_eqb name ar_longnames_name then Ok (hdr, false) else ar_fix_header epoch hdr in
            match fixed with
            | Ok (hdr', m) =>
              match padded_size size with
              | None => Bad
              | Some psz =>
                let body := skipn ar_header_len rest in
                if N.of_nat (length body) <? psz then Err        (* read_exact: UnexpectedEof (io::Error) *)
                else
                  match ar_loop f epoch (skipn (N.to_nat psz) body) with
                  | Ok (out, m2) => Ok (hdr' ++ firstn (N.to_nat psz) body ++ out, m || m2)
                  | e => e
                  end
              end
            | Bad => Bad
            | Err => Err
            | Panic => Panic
            end
          end
    end
  end.

Definition ar_process (epoch : option Z) (x : bytes) : outcome (bytes * bool) :=
  if (length x <? length ar_magic)%nat then Err                   (* read_exact of the global magic *)
  else if negb (bytes_eqb (firstn (length ar_magic) x) ar_magic) then Bad
  else
    match ar_loop (S (length x)) epoch (skipn (length ar_magic) x) with
    | Ok (out, m) => Ok (ar_magic ++ out, m)
    | e => e
    end.

(* does Ar::process get as far as io.open_output()?  (after the global magic was read and accepted) *)
Definition ar_opens_output (x : bytes) : bool :=
  negb (length x <? length ar_magic)%nat && bytes_eqb (firstn (length ar_magic) x) ar_magic.
