(* CheckPredicts.v — C10: for one file, absent failures, --check reports the result a real run reports. *)
From AD Require Import Bytes Outcome Fs Helper HelperProofs Rewrite Cleanup.

Lemma issue_nofault_fs e o s : s_fs (fst (issue e None o s)) = fst (apply_op e (s_fs s) o) /\ snd (issue e None o s) = snd (apply_op e (s_fs s) o).
Proof. rewrite issue_nofault. split; reflexivity. Qed.

(* chown on an existing name either succeeds or is refused with EPERM *)
Lemma lchown_result e f q u g i n : names f q = Some i -> inodes f i = Some n ->
  snd (apply_op e f (OLchown q u g)) = None \/ snd (apply_op e f (OLchown q u g)) = Some EPERM.
Proof. intros H1 H2. cbn [apply_op]. rewrite H1, H2. destruct (_ || _); cbn [snd]; auto. Qed.

Lemma lchown_inodes e f q u g i : names f q = Some i -> inodes f i <> None -> inodes (fst (apply_op e f (OLchown q u g))) i <> None.
Proof.
  intros H1 H2. cbn [apply_op]. rewrite H1. destruct (inodes f i) as [n|] eqn:E; [|contradiction].
  destruct (_ || _); cbn [fst]; [|rewrite E; discriminate]. cbn [set_inode inodes]. rewrite N.eqb_refl. discriminate.
Qed.

(* a real run on a single-link file whose handler wants a change ends in Replaced when nothing fails *)
Lemma real_single_replaced e prof eager handler p f0 ip meta y :
  names f0 p = Some ip -> inodes f0 ip = Some meta -> i_nlink meta = 1 -> names f0 (tmp_path p) = None ->
  handler (i_data meta) = Ok (y, true) ->
  snd (run_handler e None Real prof eager handler p (init_sim f0)) = Some Replaced.
Proof.
  intros Hp Hi Hn Ht Hh. set (t := tmp_path p) in *.
  assert (Hnl : (i_nlink meta =? 1) = true) by (apply N.eqb_eq; exact Hn).
  unfold run_handler. cbv zeta. fold t.
  rewrite issue_nofault. cbn [apply_op init_sim s_fs fst snd]. rewrite Hp. cbn [fst snd s_fs]. rewrite Hp.
  rewrite issue_nofault. cbn [apply_op s_fs fst snd]. rewrite Hi, Hh.
  assert (G : forall s2, s_fs s2 = f0 ->
     snd (match open_output e None Real t s2 with
          | (s3, Some o) =>
              match o with
              | OutTmp fo => step e None t o (OWrite fo 0 y) s3 (fun s4 => finalize_mod e None Real p t meta o y s4)
              | _ => finalize_mod e None Real p t meta o y s3
              end
          | (s3, None) => (s3, Some Error)
          end) = Some Replaced).
  { intros s2 Hs2. unfold open_output, open_output_real.
    assert (O1 : snd (apply_op e f0 (OCreateExcl t)) = None) by (cbn [apply_op]; rewrite Ht; reflexivity).
    rewrite issue_ok by (rewrite Hs2; exact O1). rewrite Hs2. cbn [fst snd s_fs s_trace s_n s_hist].
    set (F1 := fst (apply_op e f0 (OCreateExcl t))).
    assert (N1 : names F1 t = Some (next_ino f0)) by (unfold F1; cbn [apply_op]; rewrite Ht; cbn [fst names]; rewrite path_eqb_refl; reflexivity).
    assert (I1 : inodes F1 (next_ino f0) <> None) by (unfold F1; cbn [apply_op]; rewrite Ht; cbn [fst inodes]; rewrite N.eqb_refl; discriminate).
    unfold step at 1. rewrite issue_ok by reflexivity. cbn [s_fs s_trace s_n s_hist].
    set (F2 := fst (apply_op e F1 (OWrite (next_ino f0) 0 y))).
    assert (N2 : names F2 t = Some (next_ino f0)) by (unfold F2; cbn [apply_op fst]; rewrite upd_inode_names; exact N1).
    assert (I2 : inodes F2 (next_ino f0) <> None).
    { unfold F2. cbn [apply_op fst]. destruct (inodes F1 (next_ino f0)) as [n|] eqn:E; [|contradiction].
      rewrite (upd_inode_same _ _ _ _ E). discriminate. }
    unfold finalize_mod. rewrite Hnl.
    rewrite issue_nofault. cbn [s_fs fst snd].
    set (F3 := fst (apply_op e F2 (OLchown t (i_uid meta) (i_gid meta)))).
    assert (N3 : names F3 t = Some (next_ino f0)).
    { unfold F3. pose proof (apply_keeps e p F2 (OLchown t (i_uid meta) (i_gid meta)) I) as K. fold t in K. rewrite K. exact N2. }
    assert (Cont : forall tr n h,
       snd (step e None t (OutTmp (next_ino f0)) (OFchmod (next_ino f0) (i_mode meta)) (mk_sim F3 tr n h) (fun s2 =>
            step e None t (OutTmp (next_ino f0)) (OFutimens (next_ino f0) (i_mtime meta)) s2 (fun s3 =>
            step e None t (OutTmp (next_ino f0)) (ORename t p) s3 (fun s4 => (s4, Some Replaced))))) = Some Replaced).
    { intros tr n h. unfold step.
      rewrite issue_ok by reflexivity. cbn [s_fs s_trace s_n s_hist].
      rewrite issue_ok by reflexivity. cbn [s_fs s_trace s_n s_hist].
      rewrite issue_ok; [reflexivity|]. cbn [s_fs apply_op].
      assert (N5 : names (fst (apply_op e (fst (apply_op e F3 (OFchmod (next_ino f0) (i_mode meta)))) (OFutimens (next_ino f0) (i_mtime meta)))) t = Some (next_ino f0)).
      { pose proof (apply_keeps e p (fst (apply_op e F3 (OFchmod (next_ino f0) (i_mode meta)))) (OFutimens (next_ino f0) (i_mtime meta)) I) as K1.
        pose proof (apply_keeps e p F3 (OFchmod (next_ino f0) (i_mode meta)) I) as K2. fold t in K1, K2. rewrite K1, K2. exact N3. }
      cbn [apply_op] in N5. rewrite N5. reflexivity. }
    destruct (inodes F2 (next_ino f0)) as [n2|] eqn:E2; [|exfalso; apply I2; reflexivity].
    destruct (lchown_result e F2 t (i_uid meta) (i_gid meta) _ _ N2 E2) as [R|R]; rewrite R; apply Cont. }
  destruct (eager (i_data meta)); apply G; reflexivity.
Qed.

(* --check on one file reports what a real run reports (absent failures, no stale temporary file) *)
Theorem check_predicts_real e prof eager handler p f0 ip meta :
  names f0 p = Some ip -> inodes f0 ip = Some meta -> ip < next_ino f0 -> names f0 (tmp_path p) = None ->
  snd (run_handler e None Check prof eager handler p (init_sim f0)) = snd (run_handler e None Real prof eager handler p (init_sim f0)).
Proof.
  intros Hp Hi Hlt Ht.
  destruct (handler (i_data meta)) as [[y [|]]| | |] eqn:Eh.
  - (* the handler wants a change *)
    assert (Ec : snd (run_handler e None Check prof eager handler p (init_sim f0)) = Some (if i_nlink meta =? 1 then Replaced else Rewritten)).
    { unfold run_handler. cbv zeta.
      rewrite issue_nofault. cbn [apply_op init_sim s_fs fst snd]. rewrite Hp. cbn [fst snd s_fs]. rewrite Hp.
      rewrite issue_nofault. cbn [apply_op s_fs fst snd]. rewrite Hi, Eh.
      unfold open_output. rewrite !issue_nofault. cbn [apply_op fst snd].
      destruct (eager (i_data meta)); reflexivity. }
    rewrite Ec. destruct (N.eqb_spec (i_nlink meta) 1) as [H1|H1].
    + symmetry. apply (real_single_replaced e prof eager handler p f0 ip meta y); assumption.
    + symmetry. apply (rewritten_ops e prof eager handler p f0 ip meta y); assumption.
  - (* nothing to change *)
    unfold run_handler. cbv zeta.
    rewrite !issue_nofault. cbn [apply_op init_sim s_fs fst snd]. rewrite Hp. cbn [fst snd s_fs]. rewrite Hp.
    rewrite !issue_nofault. cbn [apply_op s_fs fst snd]. rewrite Hi, Eh.
    unfold open_output, open_output_real. rewrite !issue_nofault. cbn [apply_op s_fs fst snd]. rewrite Ht. cbn [fst snd].
    destruct (eager (i_data meta)); reflexivity.
  - unfold run_handler. cbv zeta.
    rewrite !issue_nofault. cbn [apply_op init_sim s_fs fst snd]. rewrite Hp. cbn [fst snd s_fs]. rewrite Hp.
    rewrite !issue_nofault. cbn [apply_op s_fs fst snd]. rewrite Hi, Eh.
    unfold open_output, open_output_real. rewrite !issue_nofault. cbn [apply_op s_fs fst snd]. rewrite Ht. cbn [fst snd].
    destruct (eager (i_data meta)); reflexivity.
  - unfold run_handler. cbv zeta.
    rewrite !issue_nofault. cbn [apply_op init_sim s_fs fst snd]. rewrite Hp. cbn [fst snd s_fs]. rewrite Hp.
    rewrite !issue_nofault. cbn [apply_op s_fs fst snd]. rewrite Hi, Eh.
    unfold open_output, open_output_real. rewrite !issue_nofault. cbn [apply_op s_fs fst snd]. rewrite Ht. cbn [fst snd].
    destruct (eager (i_data meta)); reflexivity.
  - unfold run_handler. cbv zeta.
    rewrite !issue_nofault. cbn [apply_op init_sim s_fs fst snd]. rewrite Hp. cbn [fst snd s_fs]. rewrite Hp.
    rewrite !issue_nofault. cbn [apply_op s_fs fst snd]. rewrite Hi, Eh.
    unfold open_output, open_output_real. rewrite !issue_nofault. cbn [apply_op s_fs fst snd]. rewrite Ht. cbn [fst snd].
    destruct (eager (i_data meta)); destruct prof; reflexivity.
Qed.
