(* Pyc.v — the marshal writer (PycWriter) and Pyc::process of src/handlers/pyc.rs.
   The writer is modelled on dereferenced values (equality and hashing in the Rust code look through
   references, so the output depends on the object tree only).  Offsets are not modelled: the order in which
   objects start in the stream IS the order of their offsets, which is all that add_ref_flags (sort by offset)
   and fix_refs use. *)
From AD Require Import Bytes Outcome Gen PycHeader Marshal.

Inductive token :=
| TByte (b : N)
| TBytes (l : bytes)
| TStart (k : value) (code : N)      (* first byte of an object that may later be referenced *)
| TRef (k : value).                  (* 'r' + index of k, fixed up at the end *)

Definition seen_mem (v : value) (seen : list value) : bool := existsb (veqb v) seen.

(* base-2^15 digits of a non-negative number, least significant first, exactly n of them *)
Fixpoint long_digits (n : nat) (v : Z) : bytes :=
  match n with
  | O => []
  | S k => let r := Z.to_N (v mod 32768) in (r mod 256) :: (r / 256) :: long_digits k (v / 32768)
  end.
Definition long_ndigits (v : Z) : N := (Z.to_N (Z.log2 (Z.abs v)) + (if (Z.abs v =? 0)%Z then 0 else 1) + 14) / 15.   (* bits().div_ceil(15) *)

Definition wstate := (list token * list value)%type.      (* tokens (latest first), seen *)

Definition emit (t : token) (s : wstate) : wstate := (t :: fst s, snd s).

(* interleave integers and objects according to the layout of the version *)
Fixpoint wfields (w : value -> wstate -> wstate) (layout : list bool) (ints : list bytes) (objs : list value) (s : wstate) : wstate :=
  match layout with
  | [] => s
  | true :: l' => match ints with
                  | i :: ints' => wfields w l' ints' objs (emit (TBytes i) s)
                  | [] => wfields w l' [] objs s
                  end
  | false :: l' => match objs with
                   | o :: objs' => wfields w l' ints objs' (w o s)
                   | [] => wfields w l' ints [] s
                   end
  end.

Fixpoint wval (layout : list bool) (v : value) (s : wstate) {struct v} : wstate :=
  match v with
  | VSingle c => emit (TByte c) s
  | _ =>
    if seen_mem v (snd s) then emit (TRef v) s
    else
      let s' :=
        match v with
        | VSingle c => s
        | VInt b => emit (TBytes b) (emit (TStart v pyc_code_int) s)
        | VLong z =>
            let n := long_ndigits z in
            let sz := if (z <? 0)%Z then (4294967296 - n) mod 4294967296 else n in
            emit (TBytes (long_digits (N.to_nat n) (Z.abs z))) (emit (TBytes (le_encode 4 sz)) (emit (TStart v pyc_code_long) s))
        | VFloat b => emit (TBytes b) (emit (TStart v pyc_code_float) s)
        | VComplex b => emit (TBytes b) (emit (TStart v pyc_code_complex) s)
        | VStr c b =>
            let len := N.of_nat (length b) in
            let lenb := if mem_N c pyc_short_string_codes then [len mod 256] else le_encode 4 len in
            emit (TBytes b) (emit (TBytes lenb) (emit (TStart v c) s))
        | VSeq c items =>
            let len := length items in
            let s1 := if (c =? 40) && (len <? pyc_small_tuple_limit)%nat
                      then emit (TBytes [N.of_nat len mod 256]) (emit (TStart v pyc_code_small_tuple) s)
                      else emit (TBytes (le_encode 4 (N.of_nat len))) (emit (TStart v c) s) in
            fold_left (fun st x => wval layout x st) items s1
        | VDict kvs =>
            emit (TByte 48) (fold_left (fun st x => wval layout x st) kvs (emit (TStart v pyc_code_dict) s))
        | VSlice a b c =>
            wval layout c (wval layout b (wval layout a (emit (TStart v pyc_code_slice) s)))
        | VCode ints objs =>
            (fix go (l : list bool) (ints : list bytes) (objs : list value) (st : wstate) {struct objs} : wstate :=
               match objs with
               | [] => fold_left (fun st i => emit (TBytes i) st) (firstn (length (filter (fun x => x) l)) ints) st
               | o :: objs' =>
                   (* integers that precede the next object field, then the object *)
                   let fix ints_first (l : list bool) (ints : list bytes) (st : wstate) {struct l} : list bool * list bytes * wstate :=
                     match l with
                     | true :: l' => match ints with
                                     | i :: ints' => ints_first l' ints' (emit (TBytes i) st)
                                     | [] => ints_first l' [] st
                                     end
                     | _ => (l, ints, st)
                     end in
                   let '(l1, ints1, st1) := ints_first l ints st in
                   go (match l1 with _ :: t => t | [] => [] end) ints1 objs' (wval layout o st1)
               end) layout ints objs (emit (TStart v pyc_code_code) s)
        end in
      (fst s', v :: snd s')
  end.

(* PycWriter::add_ref_flags + fix_refs, in stream order: an object that is referenced gets the flag bit and the
   next reference number; a reference is the number of its target *)
Fixpoint index_in (v : value) (l : list value) (i : N) : N :=
  match l with
  | [] => 0
  | x :: r => if veqb v x then i else index_in v r (i + 1)
  end.

Fixpoint render (toks : list token) (refd : list value) (table : list value) : bytes :=
  match toks with
  | [] => []
  | TByte b :: r => b :: render r refd table
  | TBytes l :: r => l ++ render r refd table
  | TStart k c :: r =>
      if seen_mem k refd then N.lor c pyc_flag_ref :: render r refd (table ++ [k])
      else c :: render r refd table
  | TRef k :: r => pyc_code_ref :: le_encode 4 (index_in k table 0) ++ render r refd table
  end.

Definition refd_of (toks : list token) : list value :=
  flat_map (fun t => match t with TRef k => [k] | _ => [] end) toks.

Definition to_buffer (layout : list bool) (v : value) : bytes :=
  let toks := frev (fst (wval layout v ([], []))) in
  render toks (refd_of toks) [].

(* Pyc::process on the file content *)
Definition pyc_process (x : bytes) : outcome (bytes * bool) :=
  match pyc_header x with
  | Ok (ver, hl) =>
      if ver_ltb ver pyc_skip_below then Ok (x, false)
      else
        let payload := skipn hl x in
        match parse ver (S (length payload)) 0 payload [] with
        | Ok (v, _, _) =>
            let new := firstn hl x ++ to_buffer (code_layout ver) v in
            Ok (new, negb (bytes_eqb new x))
        | Bad => Bad | Err => Err | Panic => Panic
        end
  | Bad => Bad | Err => Err | Panic => Panic
  end.
