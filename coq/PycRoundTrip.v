(* PycRoundTrip.v — C02: what the marshal writer produces for an object tree is read back by the reader as the
   same tree, references included. *)
From AD Require Import Bytes Outcome Gen PycHeader PycHeaderProofs Marshal Pyc PycRefs PycLong.
Close Scope Z_scope.
Open Scope N_scope.

(* ---------- one level of the reader, with the recursive call as a parameter ---------- *)
Definition parse_body (ver : version) (sub : bytes -> refs -> pres) (f : nat) (code : N) (rest0 : bytes) (r0 : refs) : pres :=
        if mem_N code pyc_singleton_codes then Ok (VSingle code, rest0, r0)
        else if code =? pyc_code_code then
          match parse_fields sub (code_layout ver) rest0 r0 [] [] with
          | Ok (ints, objs, rest', r') => Ok (VCode ints objs, rest', r')
          | Bad => Bad | Err => Err | Panic => Panic
          end
        else if code =? pyc_code_float then
          match take 8 rest0 with Some (x, rest') => Ok (VFloat x, rest', r0) | None => Bad end
        else if code =? pyc_code_int then
          match take 4 rest0 with Some (x, rest') => Ok (VInt x, rest', r0) | None => Bad end
        else if code =? pyc_code_long then
          match take 4 rest0 with
          | Some (x, rest1) =>
              let u := le_decode x in
              let neg := 2147483648 <=? u in
              let n := if neg then 4294967296 - u else u in
              match read_digits f n 0 rest1 0%Z with
              | Some (v, rest') => Ok (VLong (if neg then (- v)%Z else v), rest', r0)
              | None => Bad
              end
          | None => Bad
          end
        else if code =? pyc_code_complex then
          match take 16 rest0 with Some (x, rest') => Ok (VComplex x, rest', r0) | None => Bad end
        else if code =? pyc_code_ref then
          match take 4 rest0 with
          | Some (x, rest') =>
              match nth_N r0 (le_decode x) with
              | Some (Some t) => Ok (t, rest', r0)
              | _ => Bad
              end
          | None => Bad
          end
        else if mem_N code pyc_string_codes then
          let szlen := if mem_N code pyc_short_string_codes then 1 else 4 in
          match take szlen rest0 with
          | Some (x, rest1) => match take (le_decode x) rest1 with
                               | Some (s, rest') => Ok (VStr code s, rest', r0)
                               | None => Bad
                               end
          | None => Bad
          end
        else if code =? pyc_code_small_tuple then
          match take 1 rest0 with
          | Some (x, rest1) =>
              match parse_items sub f (le_decode x) rest1 r0 [] with
              | Ok (items, rest', r') => Ok (VSeq 40 items, rest', r')
              | Bad => Bad | Err => Err | Panic => Panic
              end
          | None => Bad
          end
        else if mem_N code pyc_seq_codes then
          match take 4 rest0 with
          | Some (x, rest1) =>
              match parse_items sub f (le_decode x) rest1 r0 [] with
              | Ok (items, rest', r') => Ok (VSeq code items, rest', r')
              | Bad => Bad | Err => Err | Panic => Panic
              end
          | None => Bad
          end
        else if code =? pyc_code_dict then
          match parse_dict sub f rest0 r0 [] with
          | Ok (kvs, rest', r') => Ok (VDict kvs, rest', r')
          | Bad => Bad | Err => Err | Panic => Panic
          end
        else if code =? pyc_code_slice then
          match sub rest0 r0 with
          | Ok (a, rest1, r1) =>
            match sub rest1 r1 with
            | Ok (b', rest2, r2) =>
              match sub rest2 r2 with
              | Ok (c, rest3, r3) => Ok (VSlice a b' c, rest3, r3)
              | Bad => Bad | Err => Err | Panic => Panic
              end
            | Bad => Bad | Err => Err | Panic => Panic
            end
          | Bad => Bad | Err => Err | Panic => Panic
          end
        else Bad.

Lemma parse_unfold ver f d b rest0 r : (d < pyc_max_depth)%nat ->
  parse ver (S f) d (b :: rest0) r =
    let res := parse_body ver (parse ver f (S d)) f (N.land b (pyc_flag_ref - 1)) rest0
                     (if negb (N.land b pyc_flag_ref =? 0) then r ++ [None] else r) in
    match res with
    | Ok (v, rest', r') => Ok (v, rest', if negb (N.land b pyc_flag_ref =? 0) then set_slot r' (length r) v else r')
    | _ => res
    end.
Proof.
  intros Hd. cbn [parse]. destruct (Nat.leb_spec pyc_max_depth d) as [H|_]; [lia|]. reflexivity.
Qed.

(* ---------- small facts about lists, slots and the first byte ---------- *)
Lemma nth_N_error {A} (l : list A) : forall i, nth_N l i = nth_error l (N.to_nat i).
Proof.
  induction l as [|a l IH]; intros i; cbn [nth_N].
  - destruct (N.to_nat i); reflexivity.
  - destruct (N.eqb_spec i 0) as [->|Hi]; [reflexivity|].
    rewrite IH. replace (N.to_nat i) with (S (N.to_nat (N.pred i))) by lia. reflexivity.
Qed.

Lemma set_slot_mid (r x : refs) v : set_slot (r ++ None :: x) (length r) v = r ++ Some v :: x.
Proof. induction r as [|a r IH]; cbn [app length set_slot]; [reflexivity | rewrite IH; reflexivity]. Qed.

Definition hdbyte (fl : bool) (c : N) : N := if fl then N.lor c pyc_flag_ref else c.

Lemma hdbyte_spec fl c : c < 128 ->
  N.land (hdbyte fl c) (pyc_flag_ref - 1) = c /\ negb (N.land (hdbyte fl c) pyc_flag_ref =? 0) = fl.
Proof.
  intros Hc.
  assert (S : forallb (fun n => let c := N.of_nat n in
                        (N.land (N.lor c pyc_flag_ref) (pyc_flag_ref - 1) =? c) && negb (N.land (N.lor c pyc_flag_ref) pyc_flag_ref =? 0) &&
                        (N.land c (pyc_flag_ref - 1) =? c) && (N.land c pyc_flag_ref =? 0)) (seq 0 128) = true) by (vm_compute; reflexivity).
  rewrite forallb_forall in S. specialize (S (N.to_nat c)). rewrite N2Nat.id in S. cbv zeta in S.
  assert (Hin : In (N.to_nat c) (seq 0 128)) by (apply in_seq; lia).
  specialize (S Hin). apply andb_prop in S. destruct S as [S S4]. apply andb_prop in S. destruct S as [S S3].
  apply andb_prop in S. destruct S as [S1 S2]. apply N.eqb_eq in S1, S3.
  destruct fl; cbn [hdbyte]; split; [exact S1 | exact S2 | exact S3 | rewrite S4; reflexivity].
Qed.

Lemma parse_start ver f d fl c rest0 r : c < 128 -> (d < pyc_max_depth)%nat ->
  parse ver (S f) d (hdbyte fl c :: rest0) r =
    let res := parse_body ver (parse ver f (S d)) f c rest0 (if fl then r ++ [None] else r) in
    match res with
    | Ok (v, rest', r') => Ok (v, rest', if fl then set_slot r' (length r) v else r')
    | _ => res
    end.
Proof.
  intros Hc Hd. rewrite parse_unfold by exact Hd. destruct (hdbyte_spec fl c Hc) as [E1 E2]. rewrite E1, E2. reflexivity.
Qed.

Lemma parse_plain ver f d c rest0 r : c < 128 -> (d < pyc_max_depth)%nat ->
  parse ver (S f) d (c :: rest0) r =
    let res := parse_body ver (parse ver f (S d)) f c rest0 r in
    match res with
    | Ok (v, rest', r') => Ok (v, rest', r')
    | _ => res
    end.
Proof. exact (parse_start ver f d false c rest0 r). Qed.

(* ---------- nesting depth, and the shape the reader produces ---------- *)
Fixpoint vdepth (v : value) : nat :=
  match v with
  | VSeq _ l | VCode _ l => S (list_max (map vdepth l))
  | VDict l => S (Nat.max 1 (list_max (map vdepth l)))       (* the closing NULL is read one level down, too *)
  | VSlice a b c => S (Nat.max (vdepth a) (Nat.max (vdepth b) (vdepth c)))
  | _ => 1
  end.

Lemma vdepth_in x l : In x l -> (vdepth x <= list_max (map vdepth l))%nat.
Proof.
  induction l as [|a l IH]; [contradiction|]. intros [->|H]; cbn [map list_max fold_right]; [lia|]. specialize (IH H). unfold list_max in IH. lia.
Qed.

Lemma vdepth_pos v : (1 <= vdepth v)%nat.
Proof. destruct v; cbn [vdepth]; lia. Qed.

Definition is_null (v : value) : bool := match v with VSingle c => c =? 48 | _ => false end.
Fixpoint keys_ok (l : list value) : bool :=
  match l with
  | [] => true
  | k :: _ :: r => negb (is_null k) && keys_ok r
  | [_] => false
  end.

Definition n_true (l : list bool) : nat := length (filter (fun x => x) l).
Definition n_false (l : list bool) : nat := length (filter negb l).

Fixpoint wfb (layout : list bool) (v : value) : bool :=
  match v with
  | VSingle c => mem_N c pyc_singleton_codes
  | VInt b => (length b =? 4)%nat
  | VLong _ => true
  | VFloat b => (length b =? 8)%nat
  | VComplex b => (length b =? 16)%nat
  | VStr c b => mem_N c pyc_string_codes && (if mem_N c pyc_short_string_codes then (length b <? 256)%nat else true)
  | VSeq c l => mem_N c pyc_seq_codes && forallb (wfb layout) l
  | VDict l => keys_ok l && forallb (wfb layout) l
  | VSlice a b c => wfb layout a && wfb layout b && wfb layout c
  | VCode ints objs => (length ints =? n_true layout)%nat && forallb (fun i => (length i =? 4)%nat) ints &&
                       (length objs =? n_false layout)%nat && forallb (wfb layout) objs
  end.

(* ---------- the reader's table against the writer's ---------- *)
(* T: the objects that carry the flag so far, in stream order (the writer's numbering).  r: the reader's table.
   An empty slot belongs to an object that is still being read: it is deeper-nested than anything read from
   here on (bound m) and has not been completed (not in seen). *)
Definition Inv (refd : list value) (m : nat) (seen T : list value) (r : refs) : Prop :=
  length r = length T /\
  (forall i x, nth_error T i = Some x ->
     (nth_error r i = Some None /\ (m < vdepth x)%nat /\ ~ In x seen) \/ (nth_error r i = Some (Some x) /\ In x seen)) /\
  (forall x, In x seen -> In x refd -> In x T).

Lemma inv_weaken refd m m' seen T r : Inv refd m seen T r -> (m' <= m)%nat -> Inv refd m' seen T r.
Proof.
  intros (L & S & C) H. split; [exact L|]. split; [|exact C].
  intros i x Hx. destruct (S i x Hx) as [(A & B & D)|A]; [left; split; [exact A|split; [lia|exact D]] | right; exact A].
Qed.

Lemma inv_open refd m m' seen T r v : Inv refd m seen T r -> ~ In v seen -> (m' < vdepth v)%nat -> (m' <= m)%nat ->
  Inv refd m' seen (T ++ [v]) (r ++ [None]).
Proof.
  intros (L & S & C) Hv H1 H2. split; [rewrite !app_length, L; reflexivity|]. split.
  - intros i x Hx. destruct (Nat.lt_ge_cases i (length T)) as [Hi|Hi].
    + rewrite nth_error_app1 in Hx by exact Hi. rewrite nth_error_app1 by (rewrite L; exact Hi).
      destruct (S i x Hx) as [(A & B & D)|A]; [left; split; [exact A|split; [lia|exact D]] | right; exact A].
    + rewrite nth_error_app2 in Hx by exact Hi. rewrite nth_error_app2 by (rewrite L; exact Hi). rewrite L.
      destruct (i - length T)%nat as [|k]; cbn [nth_error] in *; [|destruct k; discriminate].
      injection Hx as <-. left. split; [reflexivity|]. split; assumption.
  - intros x Hx Hr. apply in_or_app. left. apply C; assumption.
Qed.

Lemma inv_extend refd m seen T r sadd F : Inv refd m seen T r ->
  (forall y, In y sadd -> (vdepth y <= m)%nat) ->
  (forall y, In y sadd -> In y refd -> In y F) -> (forall y, In y F -> In y sadd) ->
  Inv refd m (sadd ++ seen) (T ++ F) (r ++ map Some F).
Proof.
  intros (L & S & C) Hd H1 H2. split; [rewrite !app_length, map_length, L; reflexivity|]. split.
  - intros i x Hx. destruct (Nat.lt_ge_cases i (length T)) as [Hi|Hi].
    + rewrite nth_error_app1 in Hx by exact Hi. rewrite nth_error_app1 by (rewrite L; exact Hi).
      destruct (S i x Hx) as [(A & B & D)|[A B]].
      * left. split; [exact A|]. split; [exact B|]. intros Hin. apply in_app_or in Hin. destruct Hin as [Hin|Hin]; [|exact (D Hin)].
        specialize (Hd x Hin). lia.
      * right. split; [exact A | apply in_or_app; right; exact B].
    + rewrite nth_error_app2 in Hx by exact Hi. rewrite nth_error_app2 by (rewrite L; exact Hi). rewrite L.
      right. split; [rewrite nth_error_map, Hx; reflexivity|]. apply in_or_app. left. apply H2. eapply nth_error_In, Hx.
  - intros x Hx Hr. apply in_app_or in Hx. apply in_or_app. destruct Hx as [Hx|Hx]; [right; apply H1; assumption | left; apply C; assumption].
Qed.

Lemma flagged_app a b refd : flagged (a ++ b) refd = flagged a refd ++ flagged b refd.
Proof. unfold flagged. apply flat_map_app. Qed.

Lemma flagged_le o refd : forall T, (length (flagged o refd) <= length (render o refd T))%nat.
Proof.
  induction o as [|t o IH]; intros T; [cbn; lia|].
  destruct t as [b|l|k c|k]; cbn [flagged flat_map render app length].
  - apply le_S, IH.
  - rewrite app_length. specialize (IH T). unfold flagged in IH. lia.
  - destruct (seen_mem k refd); cbn [app length]; [specialize (IH (T ++ [k])) | specialize (IH T)]; unfold flagged in IH; lia.
  - rewrite app_length. specialize (IH T). unfold flagged in IH. lia.
Qed.

Lemma mem_N_in c l : mem_N c l = true -> In c l.
Proof. unfold mem_N. rewrite existsb_exists. intros (x & Hx & E). apply N.eqb_eq in E. subst. exact Hx. Qed.

Ltac each_in H tac := cbn [In] in H; repeat (destruct H as [H|H]; [subst; tac|]); try contradiction.

(* conditions of parse_body on a closed type code *)
Ltac pb c :=
  unfold parse_body;
  repeat match goal with
         | |- context [mem_N c ?l] => let v := eval vm_compute in (mem_N c l) in change (mem_N c l) with v
         | |- context [c =? ?d] => let v := eval vm_compute in (c =? d) in change (c =? d) with v
         end; cbv iota.

Section RoundTrip.
Variable ver : version.
Let layout := code_layout ver.

(* v written from writer state s gave the tokens o (in stream order) and completed the objects sadd *)
Definition Q (v : value) (s : wstate) (o : list token) (sadd : list value) : Prop :=
  (forall refd T, (1 <= length (render o refd T))%nat) /\
  (forall y, In y sadd -> (vdepth y <= vdepth v)%nat) /\
  (is_null v = false -> forall refd T, exists b tl,
     render o refd T = b :: tl /\ (N.land b (pyc_flag_ref - 1) =? 48) = false) /\
  forall refd T r m d f rest,
    (forall k, In (TRef k) o -> In k refd) ->
    Inv refd m (snd s) T r -> (vdepth v <= m)%nat -> (d + vdepth v <= pyc_max_depth)%nat ->
    (length (render o refd T) < f)%nat ->
    N.of_nat (length T) + N.of_nat (length (render o refd T)) < 4294967296 ->
    parse ver f d (render o refd T ++ rest) r = Ok (v, rest, r ++ map Some (flagged o refd)) /\
    (forall y, In y sadd -> In y refd -> In y (flagged o refd)) /\
    (forall y, In y (flagged o refd) -> In y sadd).

Definition P (v : value) : Prop :=
  wfb layout v = true ->
  forall s, exists o sadd, wval layout v s = (rev o ++ fst s, sadd ++ snd s) /\ Q v s o sadd.

Lemma P_single c : P (VSingle c).
Proof.
  intros Hw s. exists [TByte c], []. split; [reflexivity|].
  cbn [wfb] in Hw. apply mem_N_in in Hw. unfold pyc_singleton_codes in Hw.
  split; [intros; cbn; lia|]. split; [intros y []|]. split.
  { intros Hn refd T. exists c, []. split; [reflexivity|]. cbn [is_null] in Hn.
    each_in Hw ltac:(idtac; first [discriminate Hn | reflexivity]). }
  intros refd T r m d f rest _ _ _ Hd Hf _. cbn [render app length] in *. destruct f as [|f]; [lia|].
  cbn [vdepth] in Hd.
  split; [|split; [intros y [] | intros y []]].
  cbn [flagged flat_map map]. rewrite app_nil_r.
  each_in Hw ltac:(idtac; match goal with |- parse _ _ _ (?b :: _) _ = _ =>
    rewrite (parse_plain ver f d b rest r) by (try reflexivity; lia); pb b; reflexivity end).
Qed.

Lemma P_seen v s : (forall c, v <> VSingle c) -> seen_mem v (snd s) = true ->
  exists o sadd, wval layout v s = (rev o ++ fst s, sadd ++ snd s) /\ Q v s o sadd.
Proof.
  intros Hns Hseen. exists [TRef v], []. split.
  { destruct v; try (cbn [wval]; rewrite Hseen; reflexivity). exfalso. eapply Hns. reflexivity. }
  split; [intros; cbn [render length]; lia|]. split; [intros y []|]. split.
  { intros _ refd T. eexists _, _. split; [reflexivity|]. reflexivity. }
  intros refd T r m d f rest Hrefs (L & S & C) _ Hd Hf Hb.
  split; [|split; [intros y [] | intros y []]].
  cbn [flagged flat_map map]. rewrite app_nil_r. cbn [render] in *. rewrite app_nil_r in *. cbn [length] in Hf, Hb.
  destruct f as [|f]; [lia|]. pose proof (vdepth_pos v) as Hp.
  change (pyc_code_ref :: le_encode 4 (index_in v T 0)) with ([pyc_code_ref] ++ le_encode 4 (index_in v T 0)). rewrite <- app_assoc. cbn [app].
  rewrite (parse_plain ver f d pyc_code_ref _ r) by (try reflexivity; lia). pb pyc_code_ref.
  rewrite (take_len (le_encode 4 (index_in v T 0)) rest 4) by (rewrite le_encode_length; reflexivity).
  assert (Hin : In v T).
  { apply C; [apply seen_mem_in, Hseen | apply Hrefs; left; reflexivity]. }
  destruct (index_in_spec v T 0 Hin) as (_ & B & HN). rewrite N.sub_0_r in HN.
  rewrite le_encode_small by (change (256 ^ N.of_nat 4) with 4294967296; lia).
  rewrite nth_N_error in HN. rewrite nth_N_error.
  destruct (S _ _ HN) as [(_ & _ & D)|[A _]]; [exfalso; apply D, seen_mem_in, Hseen|].
  rewrite A. reflexivity.
Qed.

(* what has to be shown about the part of an object after its type code *)
Definition BodyOK (v : value) (s : wstate) (c : N) (ob : list token) (sb : list value) : Prop :=
  (forall y, In y sb -> (vdepth y <= vdepth v)%nat) /\
  forall refd T0 r0 m' d f rest,
    (forall k, In (TRef k) ob -> In k refd) ->
    Inv refd m' (snd s) T0 r0 -> vdepth v = S m' -> (d + vdepth v <= pyc_max_depth)%nat ->
    (length (render ob refd T0) <= f)%nat ->
    N.of_nat (length T0) + N.of_nat (length (render ob refd T0)) < 4294967296 ->
    parse_body ver (parse ver f (S d)) f c (render ob refd T0 ++ rest) r0 = Ok (v, rest, r0 ++ map Some (flagged ob refd)) /\
    (forall y, In y sb -> In y refd -> In y (flagged ob refd)) /\
    (forall y, In y (flagged ob refd) -> In y sb).

Lemma P_new v s c ob sb : c < 128 -> c <> 48 -> seen_mem v (snd s) = false ->
  wval layout v s = (rev ob ++ TStart v c :: fst s, v :: sb ++ snd s) ->
  BodyOK v s c ob sb ->
  exists o sadd, wval layout v s = (rev o ++ fst s, sadd ++ snd s) /\ Q v s o sadd.
Proof.
  intros Hc Hc48 Hseen E [Bd B]. exists (TStart v c :: ob), (v :: sb). split.
  { rewrite E. cbn [rev]. rewrite <- app_assoc. reflexivity. }
  split.
  { intros refd T. cbn [render]. destruct (seen_mem v refd); cbn [length]; lia. }
  split.
  { intros y [<-|Hy]; [lia | apply Bd, Hy]. }
  split.
  { intros _ refd T. cbn [render].
    destruct (seen_mem v refd); eexists _, _; (split; [reflexivity|]).
    - destruct (hdbyte_spec true c Hc) as [E1 _]. cbn [hdbyte] in E1. rewrite E1. apply N.eqb_neq, Hc48.
    - destruct (hdbyte_spec false c Hc) as [E1 _]. cbn [hdbyte] in E1. rewrite E1. apply N.eqb_neq, Hc48. }
  intros refd T r m d f rest Hrefs HI Hm Hd Hf Hb.
  assert (Hns : ~ In v (snd s)).
  { intros H. apply seen_mem_in in H. rewrite H in Hseen. discriminate. }
  pose proof (vdepth_pos v) as Hp. set (m' := Nat.pred (vdepth v)). assert (Ev : vdepth v = S m') by (unfold m'; lia).
  set (fl := seen_mem v refd).
  set (T0 := if fl then T ++ [v] else T).
  assert (ER : render (TStart v c :: ob) refd T = hdbyte fl c :: render ob refd T0).
  { cbn [render]. unfold T0, fl. destruct (seen_mem v refd); reflexivity. }
  assert (EF : flagged (TStart v c :: ob) refd = (if fl then [v] else []) ++ flagged ob refd).
  { unfold flagged at 1. cbn [flat_map]. fold (flagged ob refd). reflexivity. }
  rewrite ER in Hf, Hb |- *. cbn [length] in Hf, Hb. destruct f as [|f]; [lia|].
  cbn [app]. rewrite (parse_start ver f d fl c _ r) by (try exact Hc; lia). cbv zeta.
  assert (HI0 : Inv refd m' (snd s) T0 (if fl then r ++ [None] else r)).
  { unfold T0. destruct fl; [apply (inv_open refd m m'); [exact HI | exact Hns | rewrite Ev; lia | lia] | apply (inv_weaken refd m); [exact HI | lia]]. }
  assert (HT0 : (length T0 <= S (length T))%nat) by (unfold T0; destruct fl; [rewrite app_length; cbn [length]; lia | lia]).
  destruct (B refd T0 (if fl then r ++ [None] else r) m' d f rest) as (Ep & S1 & S2).
  - intros k Hk. apply Hrefs. right. exact Hk.
  - exact HI0.
  - exact Ev.
  - exact Hd.
  - lia.
  - lia.
  - rewrite Ep. rewrite EF. split; [|split].
    + f_equal. f_equal. destruct fl.
      * rewrite <- app_assoc. cbn [app]. rewrite set_slot_mid. cbn [app map]. reflexivity.
      * reflexivity.
    + intros y [<-|Hy] Hr.
      * apply seen_mem_in in Hr. fold fl in Hr. rewrite Hr. left. reflexivity.
      * apply in_or_app. right. apply S1; assumption.
    + intros y Hy. apply in_app_or in Hy. destruct Hy as [Hy|Hy]; [|right; apply S2, Hy].
      destruct fl; [destruct Hy as [<-|[]]; left; reflexivity | contradiction Hy].
Qed.

(* ---------- objects without children ---------- *)
Lemma body_leaf v s c ob bs :
  (forall refd T0, render ob refd T0 = bs) -> (forall refd, flagged ob refd = []) ->
  (forall sub f rest r0, (length bs <= f)%nat -> N.of_nat (length bs) < 4294967296 ->
     parse_body ver sub f c (bs ++ rest) r0 = Ok (v, rest, r0)) ->
  BodyOK v s c ob [].
Proof.
  intros Hr Hfl Hp. split; [intros y []|].
  intros refd T0 r0 m' d f rest _ _ _ _ Hf Hb. rewrite Hr in *. rewrite Hfl. cbn [map]. rewrite app_nil_r.
  split; [apply Hp; [exact Hf | lia] | split; [intros y [] | intros y []]].
Qed.

Lemma long_digits_length n v : length (long_digits n v) = (2 * n)%nat.
Proof. revert v. induction n as [|n IH]; intros v; cbn [long_digits length]; [reflexivity | rewrite IH; lia]. Qed.

Lemma body_long sub f z rest r0 : (length (long_body z) <= f)%nat -> N.of_nat (length (long_body z)) < 4294967296 ->
  parse_body ver sub f pyc_code_long (long_body z ++ rest) r0 = Ok (VLong z, rest, r0).
Proof.
  intros Hf Hb.
  assert (L : length (long_body z) = (4 + 2 * N.to_nat (long_ndigits z))%nat).
  { unfold long_body. cbv zeta. rewrite app_length, le_encode_length, long_digits_length. reflexivity. }
  rewrite L in Hf, Hb.
  pose proof (long_roundtrip z rest f ltac:(lia) ltac:(lia)) as R. unfold read_long_body in R.
  pb pyc_code_long.
  destruct (take 4 (long_body z ++ rest)) as [[x rest1]|]; [|discriminate R].
  cbv zeta in R |- *.
  destruct (read_digits f _ 0 rest1 0) as [[v rest']|]; [|discriminate R].
  injection R as <- <-. reflexivity.
Qed.

Ltac not_single := let c := fresh in let H := fresh in intros c H; discriminate H.

Lemma P_int b : P (VInt b).
Proof.
  intros Hw s. destruct (seen_mem (VInt b) (snd s)) eqn:Hseen; [apply P_seen; [not_single | exact Hseen]|].
  apply (P_new _ _ pyc_code_int [TBytes b] []); [reflexivity | discriminate | exact Hseen | cbn [wval]; rewrite Hseen; reflexivity |].
  apply (body_leaf _ _ _ _ b); [intros; cbn [render]; apply app_nil_r | reflexivity |].
  intros sub f rest r0 _ _. cbn [wfb] in Hw. apply Nat.eqb_eq in Hw. pb pyc_code_int.
  rewrite (take_len b rest 4) by (rewrite Hw; reflexivity). reflexivity.
Qed.

Lemma P_float b : P (VFloat b).
Proof.
  intros Hw s. destruct (seen_mem (VFloat b) (snd s)) eqn:Hseen; [apply P_seen; [not_single | exact Hseen]|].
  apply (P_new _ _ pyc_code_float [TBytes b] []); [reflexivity | discriminate | exact Hseen | cbn [wval]; rewrite Hseen; reflexivity |].
  apply (body_leaf _ _ _ _ b); [intros; cbn [render]; apply app_nil_r | reflexivity |].
  intros sub f rest r0 _ _. cbn [wfb] in Hw. apply Nat.eqb_eq in Hw. pb pyc_code_float.
  rewrite (take_len b rest 8) by (rewrite Hw; reflexivity). reflexivity.
Qed.

Lemma P_complex b : P (VComplex b).
Proof.
  intros Hw s. destruct (seen_mem (VComplex b) (snd s)) eqn:Hseen; [apply P_seen; [not_single | exact Hseen]|].
  apply (P_new _ _ pyc_code_complex [TBytes b] []); [reflexivity | discriminate | exact Hseen | cbn [wval]; rewrite Hseen; reflexivity |].
  apply (body_leaf _ _ _ _ b); [intros; cbn [render]; apply app_nil_r | reflexivity |].
  intros sub f rest r0 _ _. cbn [wfb] in Hw. apply Nat.eqb_eq in Hw. pb pyc_code_complex.
  rewrite (take_len b rest 16) by (rewrite Hw; reflexivity). reflexivity.
Qed.

Lemma P_long z : P (VLong z).
Proof.
  intros _ s. destruct (seen_mem (VLong z) (snd s)) eqn:Hseen; [apply P_seen; [not_single | exact Hseen]|].
  set (n := long_ndigits z).
  set (sz := if (z <? 0)%Z then (4294967296 - n) mod 4294967296 else n).
  apply (P_new _ _ pyc_code_long [TBytes (le_encode 4 sz); TBytes (long_digits (N.to_nat n) (Z.abs z))] []); [reflexivity | discriminate | exact Hseen | cbn [wval]; rewrite Hseen; reflexivity |].
  apply (body_leaf _ _ _ _ (long_body z)); [intros; cbn [render]; rewrite app_nil_r; reflexivity | reflexivity |].
  intros sub f rest r0 Hf Hb. apply body_long; assumption.
Qed.

Lemma P_str c b : P (VStr c b).
Proof.
  intros Hw s. destruct (seen_mem (VStr c b) (snd s)) eqn:Hseen; [apply P_seen; [not_single | exact Hseen]|].
  set (len := N.of_nat (length b)).
  set (lenb := if mem_N c pyc_short_string_codes then [len mod 256] else le_encode 4 len).
  cbn [wfb] in Hw. apply andb_prop in Hw. destruct Hw as [Hc1 Hc2].
  apply mem_N_in in Hc1. unfold pyc_string_codes in Hc1.
  apply (P_new _ _ c [TBytes lenb; TBytes b] []);
    [each_in Hc1 ltac:(idtac; reflexivity) | each_in Hc1 ltac:(idtac; discriminate) | exact Hseen | cbn [wval]; rewrite Hseen; reflexivity |].
  apply (body_leaf _ _ _ _ (lenb ++ b)); [intros; cbn [render]; rewrite app_nil_r; reflexivity | reflexivity |].
  intros sub f rest r0 _ Hb. rewrite app_length in Hb. rewrite <- app_assoc.
  each_in Hc1 ltac:(idtac; match goal with |- parse_body _ _ _ ?c0 _ _ = _ =>
      pb c0; unfold lenb, len in *;
      let sh := eval vm_compute in (mem_N c0 pyc_short_string_codes) in
      change (mem_N c0 pyc_short_string_codes) with sh in *; cbv iota in *;
      first [ apply Nat.ltb_lt in Hc2; rewrite N.mod_small by lia;
              rewrite (take_len [N.of_nat (length b)] (b ++ rest) 1 eq_refl); cbv beta iota zeta;
              change (le_decode [N.of_nat (length b)]) with (N.of_nat (length b) + 256 * 0); rewrite N.mul_0_r, N.add_0_r;
              rewrite (take_len b rest _ eq_refl); reflexivity
            | rewrite (take_len (le_encode 4 (N.of_nat (length b))) (b ++ rest) 4) by (rewrite le_encode_length; reflexivity);
              cbv beta iota zeta; rewrite le_encode_small by (change (256 ^ N.of_nat 4) with 4294967296; lia);
              rewrite (take_len b rest _ eq_refl); reflexivity ] end).
Qed.

(* ---------- sub-objects written one after the other ---------- *)
Fixpoint chain (items : list value) (s : wstate) (o : list token) (sa : list value) : Prop :=
  match items with
  | [] => o = [] /\ sa = []
  | x :: l => exists o1 sa1 o2 sa2, o = o1 ++ o2 /\ sa = sa2 ++ sa1 /\
        wval layout x s = (rev o1 ++ fst s, sa1 ++ snd s) /\ Q x s o1 sa1 /\
        chain l (rev o1 ++ fst s, sa1 ++ snd s) o2 sa2
  end.

Lemma fold_chain items : Forall P items -> forallb (wfb layout) items = true -> forall s, exists o sa,
  fold_left (fun st x => wval layout x st) items s = (rev o ++ fst s, sa ++ snd s) /\ chain items s o sa.
Proof.
  induction 1 as [|x l Hx _ IH]; intros Hw s.
  - exists [], []. split; [destruct s; reflexivity | split; reflexivity].
  - cbn [forallb] in Hw. apply andb_prop in Hw. destruct Hw as [Hw1 Hw2].
    destruct (Hx Hw1 s) as (o1 & sa1 & E1 & Q1). destruct (IH Hw2 (rev o1 ++ fst s, sa1 ++ snd s)) as (o2 & sa2 & E2 & C2).
    exists (o1 ++ o2), (sa2 ++ sa1). split.
    + cbn [fold_left]. rewrite E1, E2. cbn [fst snd]. rewrite rev_app_distr, <- !app_assoc. reflexivity.
    + cbn [chain]. exists o1, sa1, o2, sa2. split; [reflexivity|]. split; [reflexivity|]. split; [exact E1|]. split; [exact Q1 | exact C2].
Qed.

Lemma list_max_cons a l : list_max (a :: l) = Nat.max a (list_max l).
Proof. reflexivity. Qed.

Lemma parse_items_0 p f' rest r acc : parse_items p f' 0 rest r acc = Ok (frev acc, rest, r).
Proof. destruct f'; reflexivity. Qed.

(* every object takes at least one byte *)
Lemma chain_len items : forall s o sa, chain items s o sa -> forall refd T, (length items <= length (render o refd T))%nat.
Proof.
  induction items as [|x l IH]; intros s o sa C refd T; [cbn [length]; lia|].
  destruct C as (o1 & sa1 & o2 & sa2 & -> & -> & _ & (Ql & _) & C2).
  rewrite render_app, app_length. specialize (Ql refd T). specialize (IH _ _ _ C2 refd (T ++ flagged o1 refd)). cbn [length]. lia.
Qed.

Lemma chain_items items : forall s o sa, chain items s o sa ->
  (forall y, In y sa -> (vdepth y <= list_max (map vdepth items))%nat) /\
  forall refd T r m d f f' acc rest,
    (forall k, In (TRef k) o -> In k refd) ->
    Inv refd m (snd s) T r -> (list_max (map vdepth items) <= m)%nat ->
    (d + list_max (map vdepth items) <= pyc_max_depth)%nat ->
    (items = [] \/ length (render o refd T) + 2 <= f + length items)%nat -> (length items <= f')%nat ->
    N.of_nat (length T) + N.of_nat (length (render o refd T)) < 4294967296 ->
    parse_items (parse ver f d) f' (N.of_nat (length items)) (render o refd T ++ rest) r acc
      = Ok (rev acc ++ items, rest, r ++ map Some (flagged o refd)) /\
    (forall y, In y sa -> In y refd -> In y (flagged o refd)) /\
    (forall y, In y (flagged o refd) -> In y sa).
Proof.
  induction items as [|x l IH]; intros s o sa C.
  - destruct C as [-> ->]. split; [intros y []|].
    intros refd T r m d f f' acc rest _ _ _ _ _ _ _. cbn [length render app flagged flat_map map]. change (N.of_nat 0) with 0.
    rewrite parse_items_0, frev_rev, !app_nil_r. split; [reflexivity | split; [intros y [] | intros y []]].
  - destruct C as (o1 & sa1 & o2 & sa2 & -> & -> & E1 & (Ql & Qd & _ & Qp) & C2). destruct (IH _ _ _ C2) as [Id Ip]. clear IH.
    cbn [map]. rewrite list_max_cons. split.
    { intros y Hy. apply in_app_or in Hy. destruct Hy as [Hy|Hy]; [specialize (Id y Hy) | specialize (Qd y Hy)]; lia. }
    intros refd T r m d f f' acc rest Hrefs HI Hm Hd Hf Hf' Hb.
    destruct Hf as [Hf|Hf]; [discriminate Hf|].
    rewrite render_app in *. rewrite app_length in Hf, Hb. rewrite <- app_assoc.
    pose proof (chain_len _ _ _ _ C2 refd (T ++ flagged o1 refd)) as HL2. cbn [snd fst] in HL2. specialize (Ql refd T). cbn [length] in Hf.
    destruct f' as [|f']; [cbn [length] in Hf'; lia|]. cbn [length] in Hf' |- *. cbn [parse_items].
    destruct (N.eqb_spec (N.of_nat (S (length l))) 0) as [Hz|_]; [lia|].
    destruct (Qp refd T r m d f (render o2 refd (T ++ flagged o1 refd) ++ rest)) as (Ep & S1 & S2);
      [intros k Hk; apply Hrefs, in_or_app; left; exact Hk | exact HI | lia | lia | lia | lia |].
    rewrite Ep. replace (N.of_nat (S (length l)) - 1) with (N.of_nat (length l)) by lia.
    pose proof (flagged_le o1 refd T) as HF1.
    destruct (Ip refd (T ++ flagged o1 refd) (r ++ map Some (flagged o1 refd)) m d f f' (x :: acc) rest) as (Ep2 & S3 & S4).
    + intros k Hk. apply Hrefs, in_or_app. right. exact Hk.
    + cbn [snd]. apply inv_extend; [exact HI | intros y Hy; specialize (Qd y Hy); lia | exact S1 | exact S2].
    + lia.
    + lia.
    + destruct l; [left; reflexivity | right; cbn [length] in *; lia].
    + lia.
    + rewrite app_length. lia.
    + rewrite Ep2. rewrite flagged_app, map_app, app_assoc. cbn [rev]. rewrite <- app_assoc. split; [reflexivity|]. split.
      * intros y Hy Hr. apply in_app_or in Hy. apply in_or_app. destruct Hy as [Hy|Hy]; [right; apply S3; assumption | left; apply S1; assumption].
      * intros y Hy. apply in_app_or in Hy. apply in_or_app. destruct Hy as [Hy|Hy]; [right; apply S2, Hy | left; apply S4, Hy].
Qed.

(* ---------- tuples, lists, sets ---------- *)
Lemma body_seq_small sub f bs r0 n : n < 256 ->
  parse_body ver sub f pyc_code_small_tuple ([n] ++ bs) r0 =
    match parse_items sub f n bs r0 [] with
    | Ok (items, rest', r') => Ok (VSeq 40 items, rest', r')
    | Bad => Bad | Err => Err | Panic => Panic
    end.
Proof.
  intros Hn. pb pyc_code_small_tuple. rewrite (take_len [n] bs 1 eq_refl). cbv beta iota zeta.
  change (le_decode [n]) with (n + 256 * 0). rewrite N.mul_0_r, N.add_0_r. reflexivity.
Qed.

Lemma body_seq_large sub f bs r0 c n : In c pyc_seq_codes -> n < 4294967296 ->
  parse_body ver sub f c (le_encode 4 n ++ bs) r0 =
    match parse_items sub f n bs r0 [] with
    | Ok (items, rest', r') => Ok (VSeq c items, rest', r')
    | Bad => Bad | Err => Err | Panic => Panic
    end.
Proof.
  intros Hc Hn. unfold pyc_seq_codes in Hc.
  each_in Hc ltac:(idtac; match goal with |- parse_body _ _ _ ?c0 _ _ = _ =>
    pb c0; rewrite (take_len (le_encode 4 n) bs 4) by (rewrite le_encode_length; reflexivity); cbv beta iota zeta;
    rewrite le_encode_small by (change (256 ^ N.of_nat 4) with 4294967296; lia); reflexivity end).
Qed.

Lemma body_seq s c lb o sa c0 items : (1 <= length lb)%nat ->
  chain items (TBytes lb :: TStart (VSeq c0 items) c :: fst s, snd s) o sa ->
  (forall sub f bs r0, N.of_nat (length items) < 4294967296 ->
     parse_body ver sub f c (lb ++ bs) r0 =
       match parse_items sub f (N.of_nat (length items)) bs r0 [] with
       | Ok (its, rest', r') => Ok (VSeq c0 its, rest', r')
       | Bad => Bad | Err => Err | Panic => Panic
       end) ->
  BodyOK (VSeq c0 items) s c (TBytes lb :: o) sa.
Proof.
  intros Hlb C Hpb. destruct (chain_items _ _ _ _ C) as [Cd Cp]. split.
  { intros y Hy. specialize (Cd y Hy). cbn [vdepth]. lia. }
  intros refd T0 r0 m' d f rest Hrefs HI Hm Hd Hf Hb.
  cbn [render] in *. rewrite app_length in Hf, Hb. rewrite <- app_assoc.
  pose proof (chain_len _ _ _ _ C refd T0) as HL.
  rewrite Hpb by lia. cbn [vdepth] in Hm, Hd. injection Hm as Hm.
  destruct (Cp refd T0 r0 m' (S d) f f [] rest) as (Ep & S1 & S2).
  - intros k Hk. apply Hrefs. right. exact Hk.
  - exact HI.
  - lia.
  - lia.
  - destruct items; [left; reflexivity | right; cbn [length] in *; lia].
  - lia.
  - lia.
  - rewrite Ep. cbn [rev app flagged flat_map]. fold (flagged o refd). split; [reflexivity | split; assumption].
Qed.

Lemma P_seq c items : Forall P items -> P (VSeq c items).
Proof.
  intros HP Hw s. destruct (seen_mem (VSeq c items) (snd s)) eqn:Hseen; [apply P_seen; [not_single | exact Hseen]|].
  cbn [wfb] in Hw. apply andb_prop in Hw. destruct Hw as [Hc Hw]. apply mem_N_in in Hc.
  set (v := VSeq c items) in *.
  destruct ((c =? 40) && (length items <? pyc_small_tuple_limit)%nat) eqn:Hsmall.
  - apply andb_prop in Hsmall. destruct Hsmall as [Hc40 Hlen]. apply N.eqb_eq in Hc40. apply Nat.ltb_lt in Hlen. unfold pyc_small_tuple_limit in Hlen.
    set (lb := [N.of_nat (length items) mod 256]).
    destruct (fold_chain items HP Hw (emit (TBytes lb) (emit (TStart v pyc_code_small_tuple) s))) as (o & sa & E & C).
    apply (P_new _ _ pyc_code_small_tuple (TBytes lb :: o) sa); [reflexivity | discriminate | exact Hseen | |].
    + unfold v. cbn [wval]. fold v. rewrite Hseen. subst c.
      replace (length items <? pyc_small_tuple_limit)%nat with true by (symmetry; apply Nat.ltb_lt; unfold pyc_small_tuple_limit; exact Hlen).
      change ((40 =? 40) && true) with true. cbv iota. fold lb. rewrite E. cbn [emit fst snd rev]. rewrite <- app_assoc. reflexivity.
    + subst c. apply body_seq; [cbn; lia | exact C |].
      intros sub f bs r0 _. unfold lb. rewrite N.mod_small by lia. apply body_seq_small. lia.
  - set (lb := le_encode 4 (N.of_nat (length items))).
    destruct (fold_chain items HP Hw (emit (TBytes lb) (emit (TStart v c) s))) as (o & sa & E & C).
    apply (P_new _ _ c (TBytes lb :: o) sa);
      [unfold pyc_seq_codes in Hc; each_in Hc ltac:(idtac; reflexivity) | unfold pyc_seq_codes in Hc; each_in Hc ltac:(idtac; discriminate) | exact Hseen | |].
    + unfold v. cbn [wval]. fold v. rewrite Hseen, Hsmall.
      fold lb. rewrite E. cbn [emit fst snd rev]. rewrite <- app_assoc. reflexivity.
    + apply body_seq; [unfold lb; rewrite le_encode_length; lia | exact C |].
      intros sub f bs r0 Hn. apply body_seq_large; assumption.
Qed.

(* ---------- slices: three objects in a row ---------- *)
Lemma slice_via_items (sub : bytes -> refs -> pres) bs r0 a b c rest r' :
  parse_items sub 3 3 bs r0 [] = Ok ([a; b; c], rest, r') ->
  match sub bs r0 with
  | Ok (a, rest1, r1) =>
    match sub rest1 r1 with
    | Ok (b', rest2, r2) =>
      match sub rest2 r2 with
      | Ok (c, rest3, r3) => Ok (VSlice a b' c, rest3, r3)
      | Bad => Bad | Err => Err | Panic => Panic
      end
    | Bad => Bad | Err => Err | Panic => Panic
    end
  | Bad => Bad | Err => Err | Panic => Panic
  end = Ok (VSlice a b c, rest, r').
Proof.
  cbn [parse_items]. change (3 =? 0) with false. cbv iota.
  destruct (sub bs r0) as [[[x1 rest1] r1]| | |]; try discriminate.
  change (3 - 1 =? 0) with false. cbv iota.
  destruct (sub rest1 r1) as [[[x2 rest2] r2]| | |]; try discriminate.
  change (3 - 1 - 1 =? 0) with false. cbv iota.
  destruct (sub rest2 r2) as [[[x3 rest3] r3]| | |]; try discriminate.
  change (3 - 1 - 1 - 1 =? 0) with true. cbv iota.
  intros H. injection H as <- <- <- <- <-. reflexivity.
Qed.

Lemma P_slice a b c : P a -> P b -> P c -> P (VSlice a b c).
Proof.
  intros Pa Pb Pc Hw s. set (v := VSlice a b c) in *.
  destruct (seen_mem v (snd s)) eqn:Hseen; [apply P_seen; [not_single | exact Hseen]|].
  change (wfb layout a && wfb layout b && wfb layout c = true) in Hw. apply andb_prop in Hw. destruct Hw as [Hw Hwc]. apply andb_prop in Hw. destruct Hw as [Hwa Hwb].
  assert (HP : Forall P [a; b; c]) by (repeat constructor; assumption).
  assert (Hw3 : forallb (wfb layout) [a; b; c] = true) by (cbn [forallb]; rewrite Hwa, Hwb, Hwc; reflexivity).
  destruct (fold_chain _ HP Hw3 (emit (TStart v pyc_code_slice) s)) as (o & sa & E & C).
  apply (P_new _ _ pyc_code_slice o sa); [reflexivity | discriminate | exact Hseen | |].
  { unfold v. cbn [wval]. fold v. rewrite Hseen. cbn [fold_left] in E. rewrite E. reflexivity. }
  destruct (chain_items _ _ _ _ C) as [Cd Cp].
  assert (HM : list_max (map vdepth [a; b; c]) = Nat.max (vdepth a) (Nat.max (vdepth b) (vdepth c))).
  { cbn [map]. rewrite !list_max_cons. change (list_max []) with 0%nat. lia. }
  rewrite HM in Cd, Cp. split.
  { intros y Hy. specialize (Cd y Hy). unfold v. cbn [vdepth]. lia. }
  intros refd T0 r0 m' d f rest Hrefs HI Hm Hd Hf Hb. unfold v in Hm, Hd. cbn [vdepth] in Hm, Hd. injection Hm as Hm.
  pose proof (chain_len _ _ _ _ C refd T0) as HL. cbn [length] in HL.
  destruct (Cp refd T0 r0 m' (S d) f 3%nat [] rest) as (Ep & S1 & S2);
    [exact Hrefs | exact HI | lia | lia | right; cbn [length]; lia | cbn [length]; lia | lia |].
  split; [|split; assumption].
  pb pyc_code_slice. apply slice_via_items. exact Ep.
Qed.

(* ---------- dicts: key/value pairs until a NULL ---------- *)
Lemma pair_ind {A} (R : list A -> Prop) :
  R [] -> (forall a, R [a]) -> (forall a b l, R l -> R (a :: b :: l)) -> forall l, R l.
Proof.
  intros H0 H1 H2. assert (H : forall l, R l /\ forall a, R (a :: l)).
  { induction l as [|b l [IH1 IH2]]; [split; [exact H0 | exact H1] | split; [apply IH2 | intros a; apply H2, IH1]]. }
  intros l. apply H.
Qed.

Lemma parse_dict_cons p f' b0 tl r acc :
  parse_dict p (S f') (b0 :: tl) r acc =
    match p (b0 :: tl) r with
    | Ok (k, rest1, r1) =>
        if N.land b0 (pyc_flag_ref - 1) =? 48 then Ok (frev acc, rest1, r1)
        else match p rest1 r1 with
             | Ok (v, rest2, r2) => parse_dict p f' rest2 r2 (v :: k :: acc)
             | Bad => Bad | Err => Err | Panic => Panic
             end
    | Bad => Bad | Err => Err | Panic => Panic
    end.
Proof. reflexivity. Qed.

Lemma chain_dict kvs : keys_ok kvs = true -> forall s o sa, chain kvs s o sa ->
  forall refd T r m d f f' acc rest,
    (forall k, In (TRef k) o -> In k refd) ->
    Inv refd m (snd s) T r -> (list_max (map vdepth kvs) <= m)%nat ->
    (d + list_max (map vdepth kvs) <= pyc_max_depth)%nat -> (d < pyc_max_depth)%nat ->
    (length (render o refd T) < f)%nat -> (length kvs < f')%nat ->
    N.of_nat (length T) + N.of_nat (length (render o refd T)) < 4294967296 ->
    parse_dict (parse ver f d) f' (render o refd T ++ 48 :: rest) r acc
      = Ok (rev acc ++ kvs, rest, r ++ map Some (flagged o refd)) /\
    (forall y, In y sa -> In y refd -> In y (flagged o refd)) /\
    (forall y, In y (flagged o refd) -> In y sa).
Proof.
  induction kvs as [|a|a b l IH] using pair_ind; intros Hk s o sa C.
  - destruct C as [-> ->].
    intros refd T r m d f f' acc rest _ _ _ _ Hd Hf Hf' _. cbn [render app flagged flat_map map length] in *.
    destruct f' as [|f']; [lia|]. destruct f as [|f]; [lia|].
    rewrite parse_dict_cons. rewrite (parse_plain ver f d 48 rest r) by (try reflexivity; lia). pb 48.
    change (N.land 48 (pyc_flag_ref - 1) =? 48) with true. cbv iota.
    rewrite frev_rev, !app_nil_r. split; [reflexivity | split; [intros y [] | intros y []]].
  - discriminate Hk.
  - cbn [keys_ok] in Hk. apply andb_prop in Hk. destruct Hk as [Hna Hk]. apply negb_true_iff in Hna.
    destruct C as (o1 & sa1 & oR & saR & -> & -> & E1 & (Ql1 & Qd1 & Qh1 & Qp1) & C').
    destruct C' as (o2 & sa2 & o3 & sa3 & -> & -> & E2 & (Ql2 & Qd2 & _ & Qp2) & C3).
    cbn [fst snd] in *.
    intros refd T r m d f f' acc rest Hrefs HI Hm Hd Hdd Hf Hf' Hb.
    cbn [map] in Hm, Hd. rewrite !list_max_cons in Hm, Hd.
    set (F1 := flagged o1 refd). set (F2 := flagged o2 refd).
    rewrite !render_app in *. fold F1 in Hf, Hb |- *. fold F2 in Hf, Hb |- *. rewrite !app_length in Hf, Hb. rewrite <- !app_assoc in Hf. rewrite <- !app_assoc in Hb. rewrite <- !app_assoc.
    pose proof (flagged_le o1 refd T) as HF1. fold F1 in HF1.
    pose proof (flagged_le o2 refd (T ++ F1)) as HF2. fold F2 in HF2.
    destruct f' as [|f']; [lia|]. cbn [length] in Hf'.
    destruct (Qh1 Hna refd T) as (b0 & tl & Er & Hnb).
    set (X := render o2 refd (T ++ F1) ++ render o3 refd (T ++ F1 ++ F2) ++ 48 :: rest).
    rewrite Er. change ((b0 :: tl) ++ X) with (b0 :: tl ++ X). rewrite parse_dict_cons.
    change (b0 :: tl ++ X) with ((b0 :: tl) ++ X). rewrite <- Er. rewrite Hnb.
    destruct (Qp1 refd T r m d f X) as (Ep1 & S1 & S2);
      [intros k Hk1; apply Hrefs, in_or_app; left; exact Hk1 | exact HI | lia | lia | lia | lia |].
    rewrite Ep1. fold F1. unfold X.
    assert (HI1 : Inv refd m (sa1 ++ snd s) (T ++ F1) (r ++ map Some F1)).
    { apply inv_extend; [exact HI | intros y Hy; specialize (Qd1 y Hy); lia | exact S1 | exact S2]. }
    destruct (Qp2 refd (T ++ F1) (r ++ map Some F1) m d f (render o3 refd (T ++ F1 ++ F2) ++ 48 :: rest)) as (Ep2 & S3 & S4);
      [intros k Hk1; apply Hrefs, in_or_app; right; apply in_or_app; left; exact Hk1 | exact HI1 | lia | lia | lia | rewrite app_length; lia |].
    rewrite Ep2. fold F2. rewrite <- (app_assoc r).
    assert (HI2 : Inv refd m (sa2 ++ sa1 ++ snd s) ((T ++ F1) ++ F2) ((r ++ map Some F1) ++ map Some F2)).
    { apply inv_extend; [exact HI1 | intros y Hy; specialize (Qd2 y Hy); lia | exact S3 | exact S4]. }
    rewrite <- !app_assoc in HI2.
    destruct (IH Hk _ _ _ C3 refd (T ++ F1 ++ F2) (r ++ map Some F1 ++ map Some F2) m d f f' (b :: a :: acc) rest) as (Ep3 & S5 & S6).
    + intros k Hk1. apply Hrefs, in_or_app. right. apply in_or_app. right. exact Hk1.
    + exact HI2.
    + lia.
    + lia.
    + exact Hdd.
    + lia.
    + lia.
    + rewrite !app_length. lia.
    + rewrite Ep3. rewrite !flagged_app, !map_app. fold F1 F2. cbn [rev]. rewrite <- !app_assoc. split; [reflexivity|]. split.
      * intros y Hy Hr. apply in_app_or in Hy. destruct Hy as [Hy|Hy]; [|apply in_app_or in Hy; destruct Hy as [Hy|Hy]].
        -- apply in_or_app. right. apply in_or_app. right. apply S5; assumption.
        -- apply in_or_app. right. apply in_or_app. left. apply S3; assumption.
        -- apply in_or_app. left. apply S1; assumption.
      * intros y Hy. apply in_app_or in Hy. destruct Hy as [Hy|Hy]; [|apply in_app_or in Hy; destruct Hy as [Hy|Hy]].
        -- apply in_or_app. right. apply in_or_app. right. apply S2, Hy.
        -- apply in_or_app. right. apply in_or_app. left. apply S4, Hy.
        -- apply in_or_app. left. apply S6, Hy.
Qed.

Lemma P_dict kvs : Forall P kvs -> P (VDict kvs).
Proof.
  intros HP Hw s. set (v := VDict kvs) in *.
  destruct (seen_mem v (snd s)) eqn:Hseen; [apply P_seen; [not_single | exact Hseen]|].
  change (keys_ok kvs && forallb (wfb layout) kvs = true) in Hw. apply andb_prop in Hw. destruct Hw as [Hk Hw].
  destruct (fold_chain kvs HP Hw (emit (TStart v pyc_code_dict) s)) as (o & sa & E & C).
  apply (P_new _ _ pyc_code_dict (o ++ [TByte 48]) sa); [reflexivity | discriminate | exact Hseen | |].
  { unfold v. cbn [wval]. fold v. rewrite Hseen. rewrite E. cbn [emit fst snd]. rewrite rev_unit. reflexivity. }
  destruct (chain_items _ _ _ _ C) as [Cd _]. split.
  { intros y Hy. specialize (Cd y Hy). unfold v. change (vdepth (VDict kvs)) with (S (Nat.max 1 (list_max (map vdepth kvs)))). lia. }
  intros refd T0 r0 m' d f rest Hrefs HI Hm Hd Hf Hb. unfold v in Hm, Hd.
  change (vdepth (VDict kvs)) with (S (Nat.max 1 (list_max (map vdepth kvs)))) in Hm, Hd. apply Nat.succ_inj in Hm.
  rewrite render_app in *. cbn [render] in *. rewrite app_length in Hf, Hb. cbn [length] in Hf, Hb. rewrite <- app_assoc. cbn [app].
  pose proof (chain_len _ _ _ _ C refd T0) as HL.
  pb pyc_code_dict.
  destruct (chain_dict kvs Hk _ _ _ C refd T0 r0 m' (S d) f f [] rest) as (Ep & S1 & S2).
  - intros k Hk1. apply Hrefs, in_or_app. left. exact Hk1.
  - exact HI.
  - lia.
  - lia.
  - lia.
  - lia.
  - lia.
  - lia.
  - rewrite Ep. rewrite flagged_app. cbn [flagged flat_map]. rewrite app_nil_r. fold (flagged o refd).
    split; [reflexivity | split; assumption].
Qed.

(* ---------- code objects: integers and objects interleaved as the layout of the version says ---------- *)
Definition code_go (w : value -> wstate -> wstate) : list bool -> list bytes -> list value -> wstate -> wstate :=
  fix go (l : list bool) (ints : list bytes) (objs : list value) (st : wstate) {struct objs} : wstate :=
    match objs with
    | [] => fold_left (fun st i => emit (TBytes i) st) (firstn (length (filter (fun x => x) l)) ints) st
    | o :: objs' =>
        let fix ints_first (l : list bool) (ints : list bytes) (st : wstate) {struct l} : list bool * list bytes * wstate :=
          match l with
          | true :: l' => match ints with
                          | i :: ints' => ints_first l' ints' (emit (TBytes i) st)
                          | [] => ints_first l' [] st
                          end
          | _ => (l, ints, st)
          end in
        let '(l1, ints1, st1) := ints_first l ints st in
        go (match l1 with _ :: t => t | [] => [] end) ints1 objs' (w o st1)
    end.

Lemma wval_code ints objs s : seen_mem (VCode ints objs) (snd s) = false ->
  wval layout (VCode ints objs) s =
    (fst (code_go (wval layout) layout ints objs (emit (TStart (VCode ints objs) pyc_code_code) s)),
     VCode ints objs :: snd (code_go (wval layout) layout ints objs (emit (TStart (VCode ints objs) pyc_code_code) s))).
Proof. intros H. cbn [wval]. rewrite H. reflexivity. Qed.

Lemma go_true w l' i ints' objs st :
  code_go w (true :: l') (i :: ints') objs st = code_go w l' ints' objs (emit (TBytes i) st).
Proof. destruct objs; reflexivity. Qed.

Lemma go_false w l' ints x objs' st :
  code_go w (false :: l') ints (x :: objs') st = code_go w l' ints objs' (w x st).
Proof. reflexivity. Qed.

Lemma go_fields : forall l ints objs,
  Forall P objs -> forallb (wfb layout) objs = true -> forallb (fun i => (length i =? 4)%nat) ints = true ->
  length ints = n_true l -> length objs = n_false l ->
  forall st, exists o sa,
    code_go (wval layout) l ints objs st = (rev o ++ fst st, sa ++ snd st) /\
    (forall y, In y sa -> (vdepth y <= list_max (map vdepth objs))%nat) /\
    (forall refd T, (length l <= length (render o refd T))%nat) /\
    forall refd T r m d f ai ao rest,
      (forall k, In (TRef k) o -> In k refd) ->
      Inv refd m (snd st) T r -> (list_max (map vdepth objs) <= m)%nat ->
      (d + list_max (map vdepth objs) <= pyc_max_depth)%nat ->
      (l = [] \/ length (render o refd T) + 2 <= f + length l)%nat ->
      N.of_nat (length T) + N.of_nat (length (render o refd T)) < 4294967296 ->
      parse_fields (parse ver f d) l (render o refd T ++ rest) r ai ao
        = Ok (rev ai ++ ints, rev ao ++ objs, rest, r ++ map Some (flagged o refd)) /\
      (forall y, In y sa -> In y refd -> In y (flagged o refd)) /\
      (forall y, In y (flagged o refd) -> In y sa).
Proof.
  induction l as [|[|] l' IH]; intros ints objs HP Hw Hi Hli Hlo st.
  - destruct ints; [|discriminate Hli]. destruct objs; [|discriminate Hlo].
    exists [], []. split; [destruct st; reflexivity|]. split; [intros y []|]. split; [intros; cbn; lia|].
    intros refd T r m d f ai ao rest _ _ _ _ _ _. cbn [render app parse_fields flagged flat_map map].
    rewrite !frev_rev, !app_nil_r. split; [reflexivity | split; [intros y [] | intros y []]].
  - destruct ints as [|i ints']; [discriminate Hli|]. rewrite go_true.
    cbn [forallb] in Hi. apply andb_prop in Hi. destruct Hi as [Hi4 Hi]. apply Nat.eqb_eq in Hi4.
    change (n_true (true :: l')) with (S (n_true l')) in Hli. change (n_false (true :: l')) with (n_false l') in Hlo.
    destruct (IH ints' objs HP Hw Hi ltac:(cbn [length] in Hli; lia) Hlo (emit (TBytes i) st)) as (o' & sa' & E' & Dd & Dl & Dp).
    exists (TBytes i :: o'), sa'. split.
    { rewrite E'. cbn [emit fst snd rev]. rewrite <- app_assoc. reflexivity. }
    split; [exact Dd|]. split.
    { intros refd T. cbn [render]. rewrite app_length. specialize (Dl refd T). cbn [length]. lia. }
    intros refd T r m d f ai ao rest Hrefs HI Hm Hd Hf Hb.
    cbn [render] in *. rewrite app_length in Hf, Hb. rewrite <- app_assoc. cbn [parse_fields].
    rewrite (take_len i _ 4) by (rewrite Hi4; reflexivity). cbv beta iota.
    destruct Hf as [Hf|Hf]; [discriminate Hf|]. cbn [length] in Hf.
    destruct (Dp refd T r m d f (i :: ai) ao rest) as (Ep & S1 & S2).
    + intros k Hk. apply Hrefs. right. exact Hk.
    + exact HI.
    + exact Hm.
    + exact Hd.
    + destruct l'; [left; reflexivity | right; cbn [length] in *; lia].
    + lia.
    + split; [|split; assumption]. etransitivity; [exact Ep|]. cbn [rev]. rewrite <- app_assoc. reflexivity.
  - destruct objs as [|x objs']; [discriminate Hlo|]. rewrite go_false.
    change (n_true (false :: l')) with (n_true l') in Hli. change (n_false (false :: l')) with (S (n_false l')) in Hlo.
    inversion HP as [|x0 l0 Px HP']; subst x0 l0.
    cbn [forallb] in Hw. apply andb_prop in Hw. destruct Hw as [Hwx Hw].
    destruct (Px Hwx st) as (o1 & sa1 & E1 & (Ql1 & Qd1 & _ & Qp1)). rewrite E1.
    destruct (IH ints objs' HP' Hw Hi Hli ltac:(cbn [length] in Hlo; lia) (rev o1 ++ fst st, sa1 ++ snd st)) as (o2 & sa2 & E2 & Dd & Dl & Dp).
    exists (o1 ++ o2), (sa2 ++ sa1). split.
    { rewrite E2. cbn [fst snd]. rewrite rev_app_distr, <- !app_assoc. reflexivity. }
    cbn [map]. rewrite list_max_cons. split.
    { intros y Hy. apply in_app_or in Hy. destruct Hy as [Hy|Hy]; [specialize (Dd y Hy) | specialize (Qd1 y Hy)]; lia. }
    split.
    { intros refd T. rewrite render_app, app_length. specialize (Ql1 refd T). specialize (Dl refd (T ++ flagged o1 refd)). cbn [length]. lia. }
    intros refd T r m d f ai ao rest Hrefs HI Hm Hd Hf Hb.
    destruct Hf as [Hf|Hf]; [discriminate Hf|].
    rewrite render_app in *. rewrite app_length in Hf, Hb. rewrite <- app_assoc. cbn [length] in Hf.
    specialize (Ql1 refd T). specialize (Dl refd (T ++ flagged o1 refd)).
    cbn [parse_fields].
    destruct (Qp1 refd T r m d f (render o2 refd (T ++ flagged o1 refd) ++ rest)) as (Ep & S1 & S2);
      [intros k Hk; apply Hrefs, in_or_app; left; exact Hk | exact HI | lia | lia | lia | lia |].
    rewrite Ep. pose proof (flagged_le o1 refd T) as HF1.
    destruct (Dp refd (T ++ flagged o1 refd) (r ++ map Some (flagged o1 refd)) m d f ai (x :: ao) rest) as (Ep2 & S3 & S4).
    + intros k Hk. apply Hrefs, in_or_app. right. exact Hk.
    + cbn [snd]. apply inv_extend; [exact HI | intros y Hy; specialize (Qd1 y Hy); lia | exact S1 | exact S2].
    + lia.
    + lia.
    + destruct l'; [left; reflexivity | right; cbn [length] in *; lia].
    + rewrite app_length. lia.
    + rewrite Ep2. rewrite flagged_app, map_app, app_assoc. cbn [rev]. rewrite <- app_assoc. split; [reflexivity|]. split.
      * intros y Hy Hr. apply in_app_or in Hy. apply in_or_app. destruct Hy as [Hy|Hy]; [right; apply S3; assumption | left; apply S1; assumption].
      * intros y Hy. apply in_app_or in Hy. apply in_or_app. destruct Hy as [Hy|Hy]; [right; apply S2, Hy | left; apply S4, Hy].
Qed.

(* every version's code object has at least two fields *)
Lemma layout_two : (2 <= length layout)%nat.
Proof.
  unfold layout, code_layout. rewrite map_length.
  assert (Hp : field_present ver (true, 0, 0, 0) = true) by reflexivity.
  change pyc_code_fields with ([(true, 0, 0, 0)] ++ firstn 1 (skipn 1 pyc_code_fields) ++ [(true, 0, 0, 0)] ++ skipn 3 pyc_code_fields).
  rewrite !filter_app, !app_length. cbn [filter]. rewrite Hp. cbn [length]. lia.
Qed.

Lemma P_code ints objs : Forall P objs -> P (VCode ints objs).
Proof.
  intros HP Hw s. set (v := VCode ints objs) in *.
  destruct (seen_mem v (snd s)) eqn:Hseen; [apply P_seen; [not_single | exact Hseen]|].
  change (((length ints =? n_true layout)%nat && forallb (fun i => (length i =? 4)%nat) ints &&
           (length objs =? n_false layout)%nat && forallb (wfb layout) objs) = true) in Hw.
  apply andb_prop in Hw. destruct Hw as [Hw Hwo]. apply andb_prop in Hw. destruct Hw as [Hw Hlo].
  apply andb_prop in Hw. destruct Hw as [Hli Hi]. apply Nat.eqb_eq in Hli, Hlo.
  destruct (go_fields layout ints objs HP Hwo Hi Hli Hlo (emit (TStart v pyc_code_code) s)) as (o & sa & E & Dd & Dl & Dp).
  apply (P_new _ _ pyc_code_code o sa); [reflexivity | discriminate | exact Hseen | |].
  { unfold v. rewrite wval_code by exact Hseen. fold v. rewrite E. reflexivity. }
  split.
  { intros y Hy. specialize (Dd y Hy). unfold v. cbn [vdepth]. lia. }
  intros refd T0 r0 m' d f rest Hrefs HI Hm Hd Hf Hb. unfold v in Hm, Hd. cbn [vdepth] in Hm, Hd. apply Nat.succ_inj in Hm.
  pose proof layout_two as H2.
  destruct (Dp refd T0 r0 m' (S d) f [] [] rest) as (Ep & S1 & S2);
    [exact Hrefs | exact HI | lia | lia | right; lia | lia |].
  split; [|split; assumption].
  pb pyc_code_code. fold layout. rewrite Ep. reflexivity.
Qed.

Theorem P_all : forall v, P v.
Proof.
  induction v using value_ind'.
  - apply P_single.
  - apply P_int.
  - apply P_long.
  - apply P_float.
  - apply P_complex.
  - apply P_str.
  - apply P_seq; assumption.
  - apply P_dict; assumption.
  - apply P_slice; assumption.
  - apply P_code; assumption.
Qed.

(* C02: what the writer produces for a tree is read back as that tree.  Domain: the shape the reader produces
   (wfb), nesting no deeper than the reader's limit, fuel above the length of the output (the handler passes the
   payload length plus one), output shorter than 4 GiB (reference numbers and lengths are 32-bit). *)
Theorem to_buffer_roundtrip v rest f :
  wfb layout v = true -> (vdepth v <= pyc_max_depth)%nat ->
  (length (to_buffer layout v) < f)%nat -> N.of_nat (length (to_buffer layout v)) < 4294967296 ->
  exists r, parse ver f 0 (to_buffer layout v ++ rest) [] = Ok (v, rest, r).
Proof.
  intros Hw Hd Hf Hb. destruct (P_all v Hw ([], [])) as (o & sadd & E & (_ & _ & _ & Qp)).
  assert (Eo : frev (fst (wval layout v ([], []))) = o).
  { rewrite E. cbn [fst]. rewrite frev_rev, app_nil_r. apply rev_involutive. }
  unfold to_buffer in *. rewrite Eo in *.
  destruct (Qp (refd_of o) [] [] (vdepth v) 0%nat f rest) as (Ep & _).
  - intros k Hk. unfold refd_of. apply in_flat_map. exists (TRef k). split; [exact Hk | left; reflexivity].
  - split; [reflexivity|]. split; [intros i x Hx; destruct i; discriminate Hx | intros x []].
  - lia.
  - exact Hd.
  - exact Hf.
  - cbn [length]. lia.
  - eexists. exact Ep.
Qed.

End RoundTrip.

(* the header test looks at the first four bytes and the length only *)
Lemma pyc_header_prefix x y ver hl :
  pyc_header x = Ok (ver, hl) -> firstn hl y = firstn hl x -> (hl <= length y)%nat -> pyc_header y = Ok (ver, hl).
Proof.
  intros H Hp Hl. destruct (pyc_header_len _ _ _ H) as (Hlx & Hh & _).
  assert (F4 : firstn 4 y = firstn 4 x).
  { rewrite (firstn_le 4 hl y) by lia. rewrite (firstn_le 4 hl x) by lia. rewrite Hp. reflexivity. }
  unfold pyc_header in *.
  destruct (Nat.ltb_spec (length x) 4) as [H4|H4]; [discriminate|].
  destruct (Nat.ltb_spec (length y) 4) as [H4'|_]; [lia|].
  assert (S1 : slice 2 4 y = slice 2 4 x).
  { unfold slice. rewrite !(firstn_skipn_comm (4 - 2) 2). change (2 + (4 - 2))%nat with 4%nat. rewrite F4. reflexivity. }
  assert (S2 : firstn 2 y = firstn 2 x).
  { rewrite (firstn_le 2 4 y) by lia. rewrite (firstn_le 2 4 x) by lia. rewrite F4. reflexivity. }
  rewrite S1, S2. destruct (negb (bytes_eqb (slice 2 4 x) pyc_magic)); [discriminate|].
  destruct (lookup_magic (le_decode (firstn 2 x)) magic_table) as [[v h]|]; [|discriminate].
  destruct (Nat.ltb_spec (length x) h); [discriminate|]. injection H as -> ->.
  destruct (Nat.ltb_spec (length y) hl); [lia | reflexivity].
Qed.

(* C02 end to end, and C07 for pyc: the rewritten file has the same header, its payload is read back as the
   tree the input was read as, with nothing left over; running the handler on it again changes nothing *)
Theorem pyc_reread x y hm ver hl v rest0 r0 :
  pyc_process x = Ok (y, hm) -> pyc_header x = Ok (ver, hl) -> ver_ltb ver pyc_skip_below = false ->
  parse ver (S (length (skipn hl x))) 0 (skipn hl x) [] = Ok (v, rest0, r0) ->
  wfb (code_layout ver) v = true -> (vdepth v <= pyc_max_depth)%nat -> N.of_nat (length y) < 4294967296 ->
  pyc_header y = Ok (ver, hl) /\
  (exists r, parse ver (S (length (skipn hl y))) 0 (skipn hl y) [] = Ok (v, [], r)) /\
  pyc_process y = Ok (y, false).
Proof.
  intros Hp Eh Ev Epar Hw Hd Hb.
  destruct (pyc_header_len _ _ _ Eh) as (Hl & _).
  assert (Ey : y = firstn hl x ++ to_buffer (code_layout ver) v).
  { unfold pyc_process in Hp. rewrite Eh, Ev, Epar in Hp. injection Hp as <- _. reflexivity. }
  assert (Lf : length (firstn hl x) = hl) by (rewrite firstn_length; lia).
  assert (Fy : firstn hl y = firstn hl x).
  { rewrite Ey. rewrite firstn_app, Lf, Nat.sub_diag. cbn [firstn]. rewrite app_nil_r. rewrite firstn_firstn, Nat.min_id. reflexivity. }
  assert (Sy : skipn hl y = to_buffer (code_layout ver) v).
  { rewrite Ey. rewrite skipn_app, Lf, Nat.sub_diag. cbn [skipn]. rewrite <- Lf at 1. rewrite skipn_all. reflexivity. }
  assert (Ly : (hl <= length y)%nat) by (rewrite Ey, app_length, Lf; lia).
  assert (Ehy : pyc_header y = Ok (ver, hl)) by (apply (pyc_header_prefix x); assumption).
  assert (Lt : length y = (hl + length (to_buffer (code_layout ver) v))%nat) by (rewrite Ey at 1; rewrite app_length, Lf; reflexivity).
  destruct (to_buffer_roundtrip ver v [] (S (length (to_buffer (code_layout ver) v))) Hw Hd ltac:(lia) ltac:(lia)) as (r & Er).
  rewrite app_nil_r in Er.
  split; [exact Ehy|]. split.
  - exists r. rewrite Sy. exact Er.
  - unfold pyc_process. rewrite Ehy, Ev. rewrite Sy, Er. rewrite Fy, <- Ey. rewrite bytes_eqb_refl. reflexivity.
Qed.

Corollary pyc_idempotent x y hm ver hl v rest0 r0 :
  pyc_process x = Ok (y, hm) -> pyc_header x = Ok (ver, hl) -> ver_ltb ver pyc_skip_below = false ->
  parse ver (S (length (skipn hl x))) 0 (skipn hl x) [] = Ok (v, rest0, r0) ->
  wfb (code_layout ver) v = true -> (vdepth v <= pyc_max_depth)%nat -> N.of_nat (length y) < 4294967296 ->
  pyc_process y = Ok (y, false).
Proof. intros H1 H2 H3 H4 H5 H6 H7. exact (proj2 (proj2 (pyc_reread x y hm ver hl v rest0 r0 H1 H2 H3 H4 H5 H6 H7))). Qed.

(* ---------- executable: is an input inside the domain of the theorems, and does its output re-read? ---------- *)
(* None: not a file the handler rewrites (bad header, Python < 3.4, payload the reader rejects).
   Some (dom, rr): dom = the tree read from the input meets the hypotheses of pyc_reread; rr = the payload the
   handler writes is read back as that tree with nothing left over.  Run on the inputs of the correspondence
   check, it measures how much of what is sampled the theorems speak about. *)
Definition pyc_domain (x : bytes) : option (bool * bool) :=
  match pyc_header x with
  | Ok (ver, hl) =>
      if ver_ltb ver pyc_skip_below then None else
      let payload := skipn hl x in
      match parse ver (S (length payload)) 0 payload [] with
      | Ok (v, _, _) =>
          let lay := code_layout ver in
          let out := to_buffer lay v in
          let dom := wfb lay v && (vdepth v <=? pyc_max_depth)%nat && (N.of_nat (hl + length out) <? 4294967296) in
          let rr := match parse ver (S (length out)) 0 out [] with
                    | Ok (v', [], _) => veqb v v'
                    | _ => false
                    end in
          Some (dom, rr)
      | _ => None
      end
  | _ => None
  end.

Theorem pyc_domain_sound x rr : pyc_domain x = Some (true, rr) -> rr = true.
Proof.
  unfold pyc_domain. destruct (pyc_header x) as [[ver hl]| | |]; try discriminate.
  destruct (ver_ltb ver pyc_skip_below); [discriminate|].
  destruct (parse ver (S (length (skipn hl x))) 0 (skipn hl x) []) as [[[v rest0] r0]| | |]; try discriminate.
  cbv zeta. set (pr := parse ver (S (length (to_buffer (code_layout ver) v))) 0 (to_buffer (code_layout ver) v) []).
  intros H. injection H as Hd Hr.
  apply andb_prop in Hd. destruct Hd as [Hd Hb]. apply andb_prop in Hd. destruct Hd as [Hw Hd].
  apply Nat.leb_le in Hd. apply N.ltb_lt in Hb.
  destruct (to_buffer_roundtrip ver v [] (S (length (to_buffer (code_layout ver) v))) Hw Hd ltac:(lia) ltac:(lia)) as (r & Er).
  rewrite app_nil_r in Er. unfold pr in Hr. rewrite Er in Hr. rewrite veqb_refl in Hr. symmetry. exact Hr.
Qed.
