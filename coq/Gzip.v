(* Gzip.v — executable model of src/handlers/gzip.rs (Gzip::initialize, Gzip::process).
   Constants, slice ranges, endianness and the comparison operator come from Gen.v,
   i.e. from the Rust text as it is now. *)
From AD Require Import Bytes Outcome Gen.

Definition decode_end (le : bool) (l : bytes) : N := if le then le_decode l else le_decode (rev l).
Definition encode_end (le : bool) (n : nat) (v : N) : bytes := if le then le_encode n v else rev (le_encode n v).

(* Gzip::initialize — None: the handler cannot be used (missing or out-of-range epoch) *)
Definition gzip_init (epoch : option Z) : option N :=
  match epoch with
  | None => None
  | Some e => if (0 <=? e)%Z && (e <? 2 ^ Z.of_N gzip_epoch_bits)%Z then Some (Z.to_N e) else None
  end.

(* Gzip::process on file content x with the initialised epoch.
   Ok (y, have_mod): y is what the handler hands to finalize (x itself when have_mod = false). *)
Definition gzip_process (epoch : N) (x : bytes) : outcome (bytes * bool) :=
  if (length x <? gzip_header_len)%nat then Err          (* read_exact: UnexpectedEof, an io::Error *)
  else
    let buf := firstn gzip_header_len x in
    if negb (bytes_eqb (slice gzip_magic_lo gzip_magic_hi buf) gzip_magic) then Bad   (* Error::BadMagic *)
    else
      let mtime := decode_end gzip_mtime_read_le (slice gzip_mtime_lo gzip_mtime_hi buf) in
      if cmp_N gzip_keep_cmp mtime epoch then Ok (x, false)
      else
        let buf' := splice gzip_write_lo (encode_end gzip_write_le (gzip_write_hi - gzip_write_lo) epoch) buf in
        Ok (buf' ++ skipn gzip_header_len x, true).
