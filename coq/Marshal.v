(* Marshal.v — the marshal object tree as the tool sees it after dereferencing references, and the
   reader (PycParser::read_object) of src/handlers/pyc.rs. *)
From AD Require Import Bytes Outcome Gen PycHeader.

(* type codes are kept as the byte of the stream; small tuples are tuples ('(') *)
Inductive value :=
| VSingle (c : N)                       (* '0' 'N' 'F' 'T' '.' 'S' *)
| VInt (b : bytes)                      (* 'i': the 4 bytes *)
| VLong (v : Z)                         (* 'l' *)
| VFloat (b : bytes)                    (* 'g': the 8 bytes *)
| VComplex (b : bytes)                  (* 'y': the 16 bytes *)
| VStr (code : N) (b : bytes)           (* 'z' 'Z' 's' 't' 'u' 'a' 'A' *)
| VSeq (code : N) (items : list value)  (* '(' '[' '<' '>' *)
| VDict (kvs : list value)              (* keys and values, alternating *)
| VSlice (a b c : value)
| VCode (ints : list bytes) (objs : list value).

Section value_ind'.
  Variable P : value -> Prop.
  Hypothesis HS : forall c, P (VSingle c).
  Hypothesis HI : forall b, P (VInt b).
  Hypothesis HL : forall v, P (VLong v).
  Hypothesis HF : forall b, P (VFloat b).
  Hypothesis HC : forall b, P (VComplex b).
  Hypothesis HStr : forall c b, P (VStr c b).
  Hypothesis HSeq : forall c l, Forall P l -> P (VSeq c l).
  Hypothesis HD : forall l, Forall P l -> P (VDict l).
  Hypothesis HSl : forall a b c, P a -> P b -> P c -> P (VSlice a b c).
  Hypothesis HCo : forall i l, Forall P l -> P (VCode i l).
  Fixpoint value_ind' (v : value) : P v :=
    let go := fix go (l : list value) : Forall P l :=
      match l with [] => Forall_nil _ | x :: r => Forall_cons _ (value_ind' x) (go r) end in
    match v with
    | VSingle c => HS c | VInt b => HI b | VLong z => HL z | VFloat b => HF b | VComplex b => HC b
    | VStr c b => HStr c b
    | VSeq c l => HSeq c l (go l)
    | VDict l => HD l (go l)
    | VSlice a b c => HSl a b c (value_ind' a) (value_ind' b) (value_ind' c)
    | VCode i l => HCo i l (go l)
    end.
End value_ind'.

Fixpoint list_eqb {A} (f : A -> A -> bool) (a b : list A) : bool :=
  match a, b with
  | [], [] => true
  | x :: a', y :: b' => f x y && list_eqb f a' b'
  | _, _ => false
  end.

(* Object's PartialEq after dereferencing: structural equality *)
Fixpoint veqb (a b : value) {struct a} : bool :=
  match a, b with
  | VSingle c, VSingle d => c =? d
  | VInt x, VInt y => bytes_eqb x y
  | VLong x, VLong y => (x =? y)%Z
  | VFloat x, VFloat y => bytes_eqb x y
  | VComplex x, VComplex y => bytes_eqb x y
  | VStr c x, VStr d y => (c =? d) && bytes_eqb x y
  | VSeq c xs, VSeq d ys =>
      (c =? d) && (fix go (xs ys : list value) : bool :=
                     match xs, ys with
                     | [], [] => true
                     | x :: xs', y :: ys' => veqb x y && go xs' ys'
                     | _, _ => false
                     end) xs ys
  | VDict xs, VDict ys =>
      (fix go (xs ys : list value) : bool :=
         match xs, ys with
         | [], [] => true
         | x :: xs', y :: ys' => veqb x y && go xs' ys'
         | _, _ => false
         end) xs ys
  | VSlice a1 a2 a3, VSlice b1 b2 b3 => veqb a1 b1 && veqb a2 b2 && veqb a3 b3
  | VCode i xs, VCode j ys =>
      list_eqb bytes_eqb i j &&
      (fix go (xs ys : list value) : bool :=
         match xs, ys with
         | [], [] => true
         | x :: xs', y :: ys' => veqb x y && go xs' ys'
         | _, _ => false
         end) xs ys
  | _, _ => false
  end.

(* ---------- code object layout for a version: true = 4-byte integer, false = object ---------- *)
Definition field_present (ver : version) (f : bool * N * N * N) : bool :=
  let '(_, guard, ma, mi) := f in
  if guard =? 0 then true
  else if guard =? 1 then ver_ltb ver (ma, mi)
  else ver_leb (ma, mi) ver.
Definition code_layout (ver : version) : list bool :=
  map (fun f => fst (fst (fst f))) (filter (field_present ver) pyc_code_fields).

(* ---------- the reader ---------- *)
Definition mem_N (c : N) (l : list N) : bool := existsb (N.eqb c) l.

(* PycParser::take: the next n bytes, None when fewer are left (walks only the bytes taken) *)
Fixpoint take_acc (rest : bytes) (n : N) (acc : bytes) : option (bytes * bytes) :=
  if n =? 0 then Some (frev acc, rest)
  else match rest with
       | [] => None
       | b :: r => take_acc r (n - 1) (b :: acc)
       end.
Definition take (n : N) (rest : bytes) : option (bytes * bytes) := take_acc rest n [].

Definition refs := list (option value).
Fixpoint set_slot (r : refs) (i : nat) (v : value) : refs :=
  match r, i with
  | [], _ => []
  | _ :: t, O => Some v :: t
  | x :: t, S k => x :: set_slot t k v
  end.

Definition pres := outcome (value * bytes * refs).

(* `count` objects in a row; each consumes at least one byte, so any `fuel` >= the bytes available suffices
   (the caller passes its own remaining fuel, which is at least the number of bytes left) *)
(* flag_refs[index] with a 32-bit index: no conversion of the index to unary *)
Fixpoint nth_N {A} (l : list A) (n : N) : option A :=
  match l with [] => None | a :: r => if n =? 0 then Some a else nth_N r (N.pred n) end.

Fixpoint parse_items (p : bytes -> refs -> pres) (fuel : nat) (count : N) (rest : bytes) (r : refs) (acc : list value)
  : outcome (list value * bytes * refs) :=
  if count =? 0 then Ok (frev acc, rest, r)
  else match fuel with
       | O => Bad
       | S f => match p rest r with
                | Ok (v, rest', r') => parse_items p f (count - 1) rest' r' (v :: acc)
                | Bad => Bad | Err => Err | Panic => Panic
                end
       end.

(* dict: key/value pairs until a NULL object stands where a key is expected *)
Fixpoint parse_dict (p : bytes -> refs -> pres) (fuel : nat) (rest : bytes) (r : refs) (acc : list value)
  : outcome (list value * bytes * refs) :=
  match fuel with
  | O => Bad
  | S f =>
    match rest with
    | [] => Bad
    | b :: _ =>
      match p rest r with
      | Ok (k, rest1, r1) =>
          if N.land b (pyc_flag_ref - 1) =? 48 then Ok (frev acc, rest1, r1)     (* the key is a NULL object itself *)
          else match p rest1 r1 with
               | Ok (v, rest2, r2) => parse_dict p f rest2 r2 (v :: k :: acc)
               | Bad => Bad | Err => Err | Panic => Panic
               end
      | Bad => Bad | Err => Err | Panic => Panic
      end
    end
  end.

(* code object: fields in layout order *)
Fixpoint parse_fields (p : bytes -> refs -> pres) (layout : list bool) (rest : bytes) (r : refs) (ints : list bytes) (objs : list value)
  : outcome (list bytes * list value * bytes * refs) :=
  match layout with
  | [] => Ok (frev ints, frev objs, rest, r)
  | true :: l' => match take 4 rest with
                  | Some (b, rest') => parse_fields p l' rest' r (b :: ints) objs
                  | None => Bad
                  end
  | false :: l' => match p rest r with
                   | Ok (v, rest', r') => parse_fields p l' rest' r' ints (v :: objs)
                   | Bad => Bad | Err => Err | Panic => Panic
                   end
  end.

(* _read_short with the sign-extension of the source, then the shifted sum *)
Fixpoint read_digits (fuel : nat) (n : N) (i : N) (rest : bytes) (acc : Z) : option (Z * bytes) :=
  if n =? 0 then Some (acc, rest)
  else match fuel with
       | O => None
       | S f => match rest with
                | b0 :: b1 :: rest' =>
                    let x := Z.of_N (b0 + 256 * b1) in
                    let part := if (32768 <=? x)%Z then (x - 65536)%Z else x in
                    read_digits f (n - 1) (i + 1) rest' (acc + Z.shiftl part (Z.of_N (i * pyc_long_shift)))%Z
                | _ => None
                end
       end.

Fixpoint parse (ver : version) (fuel : nat) (depth : nat) (rest : bytes) (r : refs) {struct fuel} : pres :=
  match fuel with
  | O => Bad
  | S f =>
    if (pyc_max_depth <=? depth)%nat then Bad            (* "objects are nested too deeply" *)
    else
    match rest with
    | [] => Bad                                          (* UnexpectedEOF *)
    | b :: rest0 =>
      let flagged := negb (N.land b pyc_flag_ref =? 0) in
      let code := N.land b (pyc_flag_ref - 1) in
      let slot := length r in
      let r0 := if flagged then r ++ [None] else r in
      let sub := parse ver f (S depth) in
      let result : pres :=
        if mem_N code pyc_singleton_codes then Ok (VSingle code, rest0, r0)
        else if code =? pyc_code_code then
          match parse_fields sub (code_layout ver) rest0 r0 [] [] with
          | Ok (ints, objs, rest', r') => Ok (VCode ints objs, rest', r')
          | Bad => Bad | Err => Err | Panic => Panic
          end
        else if code =? pyc_code_float then
          match take 8 rest0 with Some (x, rest') => Ok (VFloat x, rest', r0) | None => Bad end
        else if code =? pyc_code_int then
          match take 4 rest0 with Some (x, rest') => Ok (VInt x, rest', r0) | None => Bad end
        else if code =? pyc_code_long then
          match take 4 rest0 with
          | Some (x, rest1) =>
              let u := le_decode x in
              let neg := 2147483648 <=? u in
              let n := if neg then 4294967296 - u else u in        (* unsigned_abs *)
              match read_digits f n 0 rest1 0%Z with
              | Some (v, rest') => Ok (VLong (if neg then (- v)%Z else v), rest', r0)
              | None => Bad
              end
          | None => Bad
          end
        else if code =? pyc_code_complex then
          match take 16 rest0 with Some (x, rest') => Ok (VComplex x, rest', r0) | None => Bad end
        else if code =? pyc_code_ref then
          match take 4 rest0 with
          | Some (x, rest') =>
              match nth_N r0 (le_decode x) with
              | Some (Some t) => Ok (t, rest', r0)
              | _ => Bad                                  (* out of range, or "reference from within" *)
              end
          | None => Bad
          end
        else if mem_N code pyc_string_codes then
          let szlen := if mem_N code pyc_short_string_codes then 1 else 4 in
          match take szlen rest0 with
          | Some (x, rest1) => match take (le_decode x) rest1 with
                               | Some (s, rest') => Ok (VStr code s, rest', r0)
                               | None => Bad
                               end
          | None => Bad
          end
        else if code =? pyc_code_small_tuple then
          match take 1 rest0 with
          | Some (x, rest1) =>
              match parse_items sub f (le_decode x) rest1 r0 [] with
              | Ok (items, rest', r') => Ok (VSeq 40 items, rest', r')
              | Bad => Bad | Err => Err | Panic => Panic
              end
          | None => Bad
          end
        else if mem_N code pyc_seq_codes then
          match take 4 rest0 with
          | Some (x, rest1) =>
              match parse_items sub f (le_decode x) rest1 r0 [] with
              | Ok (items, rest', r') => Ok (VSeq code items, rest', r')
              | Bad => Bad | Err => Err | Panic => Panic
              end
          | None => Bad
          end
        else if code =? pyc_code_dict then
          match parse_dict sub f rest0 r0 [] with
          | Ok (kvs, rest', r') => Ok (VDict kvs, rest', r')
          | Bad => Bad | Err => Err | Panic => Panic
          end
        else if code =? pyc_code_slice then
          match sub rest0 r0 with
          | Ok (a, rest1, r1) =>
            match sub rest1 r1 with
            | Ok (b', rest2, r2) =>
              match sub rest2 r2 with
              | Ok (c, rest3, r3) => Ok (VSlice a b' c, rest3, r3)
              | Bad => Bad | Err => Err | Panic => Panic
              end
            | Bad => Bad | Err => Err | Panic => Panic
            end
          | Bad => Bad | Err => Err | Panic => Panic
          end
        else Bad                                           (* unimplemented / unknown type code *)
      in
      match result with
      | Ok (v, rest', r') => Ok (v, rest', if flagged then set_slot r' slot v else r')
      | e => e
      end
    end
  end.
