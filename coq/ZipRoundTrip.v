(* ZipRoundTrip.v — C03/C07: the archive written by the model's writer reads back, with the model's reader,
   as the members that were written. *)
From AD Require Import Bytes Outcome Gen Date Cp437 Zip ZipProofs.
Local Arguments firstn : simpl never.
Local Arguments skipn : simpl never.
Local Arguments N.add : simpl never.
Local Arguments N.mul : simpl never.
Local Arguments N.div : simpl never.
Local Arguments N.modulo : simpl never.
Local Arguments N.of_nat : simpl never.
Local Arguments N.to_nat : simpl never.

(* ---------- slices of concatenations ---------- *)
Lemma sub_bytes_app (P A : bytes) k : (N.to_nat k <= length A)%nat ->
  sub_bytes (N.of_nat (length P)) k (P ++ A) = Some (firstn (N.to_nat k) A).
Proof.
  intros Hk. unfold sub_bytes. rewrite app_length.
  destruct (N.leb_spec (N.of_nat (length P) + k) (N.of_nat (length P + length A))) as [_|H]; [|lia].
  rewrite Nat2N.id. rewrite skipn_app, skipn_all, Nat.sub_diag. reflexivity.
Qed.

Lemma firstn_app_le {A} n (a b : list A) : (n <= length a)%nat -> firstn n (a ++ b) = firstn n a.
Proof. intros H. rewrite firstn_app. replace (n - length a)%nat with 0%nat by lia. change (firstn 0 b) with (@nil A). apply app_nil_r. Qed.

Lemma firstn_len_app {A} (a b : list A) : firstn (length a) (a ++ b) = a.
Proof. rewrite firstn_app, Nat.sub_diag, firstn_all. change (firstn 0 b) with (@nil A). apply app_nil_r. Qed.

Lemma skipn_len_app {A} (a b : list A) : skipn (length a) (a ++ b) = b.
Proof. rewrite skipn_app, skipn_all, Nat.sub_diag. reflexivity. Qed.

(* ---------- the fields of the records the writer produces ---------- *)
Definition name_flag (o : zout) : N := if is_ascii (zo_name o) then 0 else 2048.

Record wf_zout (o : zout) : Prop := {
  wf_name : N.of_nat (length (zo_name o)) < 65536;
  wf_method : zo_method o = 0 \/ zo_method o = 8;
  wf_time : zo_time o < 65536; wf_date : zo_date o < 65536;
  wf_crc : zo_crc o < 4294967296; wf_csize : zo_csize o < 4294967295; wf_usize : zo_usize o < 4294967295;
  wf_ext : zo_ext o < 4294967296;
  wf_data : N.of_nat (length (zo_data o)) = zo_csize o
}.

Lemma le2_small v : v < 65536 -> le_decode (le_encode 2 v) = v.
Proof. intros H. apply le_encode_small. exact H. Qed.
Lemma le4_small v : v < 4294967296 -> le_decode (le_encode 4 v) = v.
Proof. intros H. apply le_encode_small. exact H. Qed.

Lemma central_record_length o hs : length (central_record o hs) = (46 + length (zo_name o))%nat.
Proof. unfold central_record. rewrite !app_length, !le_encode_length. reflexivity. Qed.
Lemma local_record_length o : length (local_record o) = (30 + length (zo_name o) + length (zo_data o))%nat.
Proof. unfold local_record. rewrite !app_length, !le_encode_length. cbn [length sig_local]. lia. Qed.

Lemma central_head o hs : firstn 46 (central_record o hs) =
  sig_central ++ le_encode 2 814 ++ le_encode 2 20 ++ le_encode 2 (name_flag o) ++ le_encode 2 (zo_method o) ++
  le_encode 2 (zo_time o) ++ le_encode 2 (zo_date o) ++ le_encode 4 (zo_crc o) ++ le_encode 4 (zo_csize o) ++ le_encode 4 (zo_usize o) ++
  le_encode 2 (N.of_nat (length (zo_name o))) ++ le_encode 2 0 ++ le_encode 2 0 ++ le_encode 2 0 ++ le_encode 2 0 ++
  le_encode 4 (zo_ext o) ++ le_encode 4 hs.
Proof. reflexivity. Qed.

Lemma central_tail o hs : skipn 46 (central_record o hs) = zo_name o.
Proof. reflexivity. Qed.

Lemma central_fields o hs : wf_zout o -> hs < 4294967296 ->
  let h := firstn 46 (central_record o hs) in
  firstn 4 h = sig_central /\ u16 (skipn 4 h) = 814 /\ u16 (skipn 8 h) = name_flag o /\ u16 (skipn 10 h) = zo_method o /\
  u16 (skipn 12 h) = zo_time o /\ u16 (skipn 14 h) = zo_date o /\ u32 (skipn 16 h) = zo_crc o /\ u32 (skipn 20 h) = zo_csize o /\
  u32 (skipn 24 h) = zo_usize o /\ u16 (skipn 28 h) = N.of_nat (length (zo_name o)) /\ u16 (skipn 30 h) = 0 /\ u16 (skipn 32 h) = 0 /\
  u32 (skipn 38 h) = zo_ext o /\ u32 (skipn 42 h) = hs.
Proof.
  intros W Hhs h. subst h. rewrite central_head. destruct W.
  assert (Hfl : name_flag o < 65536) by (unfold name_flag; destruct (is_ascii _); lia).
  repeat match goal with |- _ /\ _ => split end.
  - reflexivity.
  - change (u16 (skipn 4 _)) with (le_decode (le_encode 2 814)). reflexivity.
  - change (u16 (skipn 8 _)) with (le_decode (le_encode 2 (name_flag o))). apply le2_small, Hfl.
  - change (u16 (skipn 10 _)) with (le_decode (le_encode 2 (zo_method o))). apply le2_small. destruct wf_method0 as [-> | ->]; lia.
  - change (u16 (skipn 12 _)) with (le_decode (le_encode 2 (zo_time o))). apply le2_small; assumption.
  - change (u16 (skipn 14 _)) with (le_decode (le_encode 2 (zo_date o))). apply le2_small; assumption.
  - change (u32 (skipn 16 _)) with (le_decode (le_encode 4 (zo_crc o))). apply le4_small; assumption.
  - change (u32 (skipn 20 _)) with (le_decode (le_encode 4 (zo_csize o))). apply le4_small; lia.
  - change (u32 (skipn 24 _)) with (le_decode (le_encode 4 (zo_usize o))). apply le4_small; lia.
  - change (u16 (skipn 28 _)) with (le_decode (le_encode 2 (N.of_nat (length (zo_name o))))). apply le2_small; assumption.
  - change (u16 (skipn 30 _)) with (le_decode (le_encode 2 0)). reflexivity.
  - change (u16 (skipn 32 _)) with (le_decode (le_encode 2 0)). reflexivity.
  - change (u32 (skipn 38 _)) with (le_decode (le_encode 4 (zo_ext o))). apply le4_small; assumption.
  - change (u32 (skipn 42 _)) with (le_decode (le_encode 4 hs)). apply le4_small; assumption.
Qed.

(* ---------- the central directory reads back ---------- *)
Definition entry_of (o : zout) (hs : N) : zentry :=
  mk_zentry 814 (name_flag o) (zo_method o) (zo_time o) (zo_date o) (zo_crc o) (zo_csize o) (zo_usize o) (zo_ext o) hs (zo_name o) [].

Lemma read_central_spec : forall (ps : list (zout * N)) (P S : bytes),
  Forall (fun p => wf_zout (fst p) /\ snd p < 4294967296) ps ->
  exists es, read_central (P ++ concat (map (fun p => central_record (fst p) (snd p)) ps) ++ S) (length ps) (N.of_nat (length P)) 0 = Some es /\
             map fst es = map (fun p => entry_of (fst p) (snd p)) ps.
Proof.
  induction ps as [|[o hs] ps IH]; intros P S Hwf.
  - exists []. split; reflexivity.
  - inversion Hwf as [|? ? [W Hhs] Hwf']; subst. cbn [fst snd] in *.
    cbn [length read_central map concat fst snd].
    set (rest := concat (map (fun p => central_record (fst p) (snd p)) ps)).
    set (cr := central_record o hs).
    assert (Lcr : length cr = (46 + length (zo_name o))%nat) by apply central_record_length.
    rewrite <- app_assoc.
    rewrite (sub_bytes_app P (cr ++ rest ++ S) 46) by (rewrite app_length; change (N.to_nat 46) with 46%nat; lia).
    change (N.to_nat 46) with 46%nat.
    rewrite (firstn_app_le 46 cr (rest ++ S)) by lia.
    destruct (central_fields o hs W Hhs) as (F0 & F1 & F2 & F3 & F4 & F5 & F6 & F7 & F8 & F9 & F10 & F11 & F12 & F13).
    fold cr in F0, F1, F2, F3, F4, F5, F6, F7, F8, F9, F10, F11, F12, F13.
    rewrite F0, bytes_eqb_refl. cbn [negb]. cbv zeta.
    rewrite F1, F2, F3, F4, F5, F6, F7, F8, F9, F10, F11, F12, F13.
    replace (N.of_nat (length (zo_name o)) + 0 + 0) with (N.of_nat (length (zo_name o))) by lia.
    (* the name follows the 46 fixed bytes *)
    assert (Ecr : cr = firstn 46 cr ++ zo_name o) by (rewrite <- (central_tail o hs); fold cr; symmetry; apply firstn_skipn).
    assert (L46 : length (firstn 46 cr) = 46%nat) by (rewrite firstn_length; lia).
    replace (P ++ cr ++ rest ++ S) with ((P ++ firstn 46 cr) ++ zo_name o ++ rest ++ S) by (rewrite Ecr at 2; rewrite <- !app_assoc; reflexivity).
    replace (N.of_nat (length P) + 46) with (N.of_nat (length (P ++ firstn 46 cr))) by (rewrite app_length, L46; lia).
    rewrite sub_bytes_app by (rewrite Nat2N.id, app_length; lia).
    rewrite !Nat2N.id. rewrite firstn_len_app.
    replace (N.of_nat (length (P ++ firstn 46 cr)) + N.of_nat (length (zo_name o)) + 0 + 0) with (N.of_nat (length (P ++ cr)))
      by (rewrite !app_length, L46, Lcr; lia).
    replace ((P ++ firstn 46 cr) ++ zo_name o ++ rest ++ S) with ((P ++ cr) ++ rest ++ S) by (rewrite Ecr at 1; rewrite <- !app_assoc; reflexivity).
    destruct (IH (P ++ cr) S Hwf') as (es & Hes & Hm). fold rest in Hes. rewrite Hes.
    eexists. split; [reflexivity|]. cbn [map fst]. rewrite Hm. f_equal.
    unfold entry_of. rewrite N.add_0_r. rewrite firstn_all. reflexivity.
Qed.

(* ---------- the local part and the offsets ---------- *)
Fixpoint offsets (l : list zout) (pos : N) : list N :=
  match l with [] => [] | o :: r => pos :: offsets r (pos + N.of_nat (length (local_record o))) end.

Lemma write_locals_spec l : forall pos, write_locals l pos = (concat (map local_record l), offsets l pos).
Proof.
  induction l as [|o r IH]; intros pos; cbn [write_locals map concat offsets]; [reflexivity|].
  rewrite IH. reflexivity.
Qed.

Lemma offsets_length l : forall pos, length (offsets l pos) = length l.
Proof. induction l as [|o r IH]; intros pos; cbn [offsets length]; [reflexivity | rewrite IH; reflexivity]. Qed.

Definition locals_of (l : list zout) : bytes := concat (map local_record l).
Definition central_of (l : list zout) : bytes := concat (map (fun p => central_record (fst p) (snd p)) (combine l (offsets l 0))).
Definition eocd_of (l : list zout) : bytes :=
  sig_eocd ++ le_encode 2 0 ++ le_encode 2 0 ++ le_encode 2 (N.of_nat (length l)) ++ le_encode 2 (N.of_nat (length l)) ++
  le_encode 4 (N.of_nat (length (central_of l))) ++ le_encode 4 (N.of_nat (length (locals_of l))) ++ le_encode 2 0.

Lemma zip_write_eq l : zip_write l = locals_of l ++ central_of l ++ eocd_of l.
Proof. unfold zip_write. rewrite write_locals_spec. reflexivity. Qed.

Lemma offsets_bound l : forall pos, pos + N.of_nat (length (locals_of l)) < 4294967296 -> Forall (fun x => x < 4294967296) (offsets l pos).
Proof.
  induction l as [|o r IH]; intros pos H; cbn [offsets]; [constructor|].
  unfold locals_of in *. cbn [map concat] in H. rewrite app_length in H. constructor; [lia|]. apply IH. lia.
Qed.

(* the archive is in the class the reader handles when the last 20 bytes before the end record do not happen to
   start with the zip64 locator signature (they are the tail of the last central record: offset and name) *)
Definition no_locator (y : bytes) : Prop :=
  (if 42 <=? N.of_nat (length y) then match sub_bytes (N.of_nat (length y) - 42) 4 y with Some s => bytes_eqb s sig_zip64_locator | None => false end else false) = false.

Theorem zip_read_write l :
  Forall wf_zout l -> N.of_nat (length l) < 65535 ->
  N.of_nat (length (locals_of l)) < 4294967295 -> N.of_nat (length (central_of l)) < 4294967296 ->
  no_locator (zip_write l) ->
  exists es, zip_read (zip_write l) = Some es /\ map fst es = map (fun p => entry_of (fst p) (snd p)) (combine l (offsets l 0)).
Proof.
  intros Hwf Hn Hloc Hcen Hnl. unfold no_locator in Hnl. rewrite zip_write_eq in *.
  set (L := locals_of l) in *. set (C := central_of l) in *. set (E := eocd_of l) in *.
  assert (LE : length E = 22%nat) by (unfold E, eocd_of; rewrite !app_length, !le_encode_length; reflexivity).
  set (y := L ++ C ++ E) in *.
  assert (Ly : length y = (length L + length C + 22)%nat) by (unfold y; rewrite !app_length, LE; lia).
  assert (Ey : y = (L ++ C) ++ E) by (unfold y; rewrite app_assoc; reflexivity).
  assert (Lpos : N.of_nat (length y) - 22 = N.of_nat (length (L ++ C))) by (rewrite Ly, app_length; lia).
  unfold zip_read. cbv zeta.
  destruct (N.ltb_spec (N.of_nat (length y)) 22) as [H|_]; [lia|].
  rewrite Lpos.
  cbn [find_eocd].
  destruct (N.ltb_spec (N.of_nat (length (L ++ C))) (N.of_nat (length (L ++ C)) - N.min (N.of_nat (length (L ++ C))) 65535)) as [H|_]; [lia|].
  assert (S4 : sub_bytes (N.of_nat (length (L ++ C))) 4 y = Some sig_eocd).
  { rewrite Ey. rewrite (sub_bytes_app (L ++ C) E 4) by (rewrite LE; change (N.to_nat 4) with 4%nat; lia). reflexivity. }
  assert (S22 : sub_bytes (N.of_nat (length (L ++ C))) 22 y = Some E).
  { rewrite Ey. rewrite (sub_bytes_app (L ++ C) E 22) by (rewrite LE; change (N.to_nat 22) with 22%nat; lia).
    change (N.to_nat 22) with 22%nat. rewrite <- LE. rewrite firstn_all. reflexivity. }
  rewrite S4, bytes_eqb_refl, S22.
  change (u16 (skipn 4 E)) with (le_decode (le_encode 2 0)).
  change (u16 (skipn 6 E)) with (le_decode (le_encode 2 0)).
  change (u16 (skipn 8 E)) with (le_decode (le_encode 2 (N.of_nat (length l)))).
  change (u32 (skipn 12 E)) with (le_decode (le_encode 4 (N.of_nat (length C)))).
  change (u32 (skipn 16 E)) with (le_decode (le_encode 4 (N.of_nat (length L)))).
  change (u16 (skipn 20 E)) with (le_decode (le_encode 2 0)).
  rewrite (le2_small (N.of_nat (length l))) by lia. rewrite (le4_small (N.of_nat (length C))) by lia. rewrite (le4_small (N.of_nat (length L))) by lia.
  change (le_decode (le_encode 2 0)) with 0.
  assert (Sb : sub_bytes (N.of_nat (length (L ++ C)) + 22) 0 y = Some []).
  { unfold sub_bytes. destruct (N.leb_spec (N.of_nat (length (L ++ C)) + 22 + 0) (N.of_nat (length y))) as [_|H]; [reflexivity|]. rewrite Ly, app_length in H. lia. }
  rewrite Sb. rewrite N.eqb_refl. cbn [negb andb].
  change (42 + 0) with 42. rewrite Hnl.
  destruct (N.ltb_spec (N.of_nat (length (L ++ C))) (N.of_nat (length C) + N.of_nat (length L))) as [H|_]; [rewrite app_length in H; lia|].
  replace (N.of_nat (length (L ++ C)) - N.of_nat (length C) - N.of_nat (length L)) with 0 by (rewrite app_length; lia).
  rewrite N.add_0_r. rewrite Nat2N.id.
  assert (Hps : Forall (fun p => wf_zout (fst p) /\ snd p < 4294967296) (combine l (offsets l 0))).
  { pose proof (offsets_bound l 0 ltac:(fold L; lia)) as Ho.
    apply Forall_forall. intros [o hs] Hin. cbn [fst snd]. split.
    - rewrite Forall_forall in Hwf. apply Hwf. eapply in_combine_l; eassumption.
    - rewrite Forall_forall in Ho. apply Ho. eapply in_combine_r; eassumption. }
  destruct (read_central_spec (combine l (offsets l 0)) L E Hps) as (es & Hes & Hm).
  rewrite combine_length, offsets_length, Nat.min_id in Hes.
  exists es. split; [exact Hes | exact Hm].
Qed.

(* ---------- each member is found again at its offset ---------- *)
Lemma cp437_ascii l : is_ascii l = true -> cp437_to_utf8 l = l.
Proof.
  unfold is_ascii, cp437_to_utf8. induction l as [|b l IH]; cbn [forallb flat_map]; [reflexivity|].
  intros H. apply andb_true_iff in H. destruct H as [Hb Hl]. rewrite Hb. cbn [app]. rewrite IH by exact Hl. reflexivity.
Qed.

Lemma offsets_split l : forall pos o off, In (o, off) (combine l (offsets l pos)) ->
  exists A B, locals_of l = A ++ local_record o ++ B /\ pos + N.of_nat (length A) = off.
Proof.
  induction l as [|o' r IH]; intros pos o off Hin; cbn [offsets combine] in Hin; [contradiction|].
  destruct Hin as [E|Hin].
  - injection E as -> <-. exists [], (locals_of r). split; [reflexivity | cbn [length]; lia].
  - destruct (IH _ _ _ Hin) as (A & B & EL & Eoff). exists (local_record o' ++ A), B.
    split; [unfold locals_of in *; cbn [map concat]; rewrite EL, <- app_assoc; reflexivity|].
    rewrite app_length. lia.
Qed.

Definition renorm (o : zout) : zout :=
  with_ext o (if zo_ext o =? 0 then 33188 * 65536 else ((zo_ext o / 65536) * 65536) mod 4294967296).

Lemma local_head o : firstn 30 (local_record o) =
  sig_local ++ le_encode 2 20 ++ le_encode 2 (name_flag o) ++ le_encode 2 (zo_method o) ++
  le_encode 2 (zo_time o) ++ le_encode 2 (zo_date o) ++ le_encode 4 (zo_crc o) ++ le_encode 4 (zo_csize o) ++ le_encode 4 (zo_usize o) ++
  le_encode 2 (N.of_nat (length (zo_name o))) ++ le_encode 2 0.
Proof. reflexivity. Qed.

Lemma local_tail o : skipn 30 (local_record o) = zo_name o ++ zo_data o.
Proof. reflexivity. Qed.

Lemma copy_entry_written (A B : bytes) o : wf_zout o ->
  copy_entry (A ++ local_record o ++ B) (entry_of o (N.of_nat (length A))) = Ok (renorm o).
Proof.
  intros W. destruct W.
  set (lr := local_record o).
  assert (Llr : length lr = (30 + length (zo_name o) + length (zo_data o))%nat) by apply local_record_length.
  unfold copy_entry, entry_of. cbn [ze_flags ze_method ze_offset ze_csize ze_name_raw ze_time ze_date ze_crc ze_usize].
  assert (Hf0 : N.testbit (name_flag o) 0 = false) by (unfold name_flag; destruct (is_ascii _); reflexivity).
  rewrite Hf0.
  assert (Hm : negb ((zo_method o =? 0) || (zo_method o =? 8)) = false) by (destruct wf_method0 as [-> | ->]; reflexivity).
  rewrite Hm.
  rewrite (sub_bytes_app A (lr ++ B) 30) by (rewrite app_length; change (N.to_nat 30) with 30%nat; lia).
  change (N.to_nat 30) with 30%nat. rewrite (firstn_app_le 30 lr B) by lia.
  unfold lr at 1 2 3. rewrite local_head.
  assert (F0 : firstn 4 (sig_local ++ le_encode 2 20 ++ le_encode 2 (name_flag o) ++ le_encode 2 (zo_method o) ++ le_encode 2 (zo_time o) ++ le_encode 2 (zo_date o) ++
                         le_encode 4 (zo_crc o) ++ le_encode 4 (zo_csize o) ++ le_encode 4 (zo_usize o) ++ le_encode 2 (N.of_nat (length (zo_name o))) ++ le_encode 2 0) = sig_local) by reflexivity.
  rewrite F0, bytes_eqb_refl. cbn [negb].
  change (u16 (skipn 26 _)) with (le_decode (le_encode 2 (N.of_nat (length (zo_name o))))).
  change (u16 (skipn 28 _)) with (le_decode (le_encode 2 0)).
  rewrite le2_small by assumption. change (le_decode (le_encode 2 0)) with 0.
  change zip_member_bound_cmp with CGt. cbn [cmp_N].
  set (ds := N.of_nat (length A) + 30 + N.of_nat (length (zo_name o)) + 0).
  assert (Hb : N.of_nat (length (A ++ lr ++ B)) <? ds + zo_csize o = false).
  { apply N.ltb_ge. unfold ds. rewrite !app_length, Llr. lia. }
  rewrite Hb.
  (* name *)
  assert (Hname : (if N.testbit (name_flag o) 11 then zo_name o else cp437_to_utf8 (zo_name o)) = zo_name o).
  { unfold name_flag. destruct (is_ascii (zo_name o)) eqn:Ea; [apply cp437_ascii, Ea | reflexivity]. }
  rewrite Hname.
  (* data *)
  assert (Hdata : sub_upto ds (zo_csize o) (A ++ lr ++ B) = zo_data o).
  { unfold sub_upto. destruct (N.leb_spec (N.of_nat (length (A ++ lr ++ B))) ds) as [H|_].
    - unfold ds in H. rewrite !app_length, Llr in H.
      assert (zo_csize o = 0) by lia. destruct (zo_data o); [reflexivity | cbn [length] in wf_data0; lia].
    - assert (Els : A ++ lr ++ B = (A ++ firstn 30 lr ++ zo_name o) ++ zo_data o ++ B).
      { rewrite <- (firstn_skipn 30 lr) at 1. unfold lr at 2. rewrite local_tail. rewrite <- !app_assoc. reflexivity. }
      assert (Lpre : N.to_nat ds = length (A ++ firstn 30 lr ++ zo_name o)).
      { unfold ds. rewrite !app_length, firstn_length. lia. }
      rewrite Els, Lpre, skipn_len_app.
      match goal with |- firstn ?k _ = _ => replace k with (length (zo_data o)) end; [apply firstn_len_app|].
      rewrite (app_length (A ++ firstn 30 lr ++ zo_name o)), (app_length (zo_data o)), <- Lpre. clear Hb Els Lpre. clearbody ds. lia. }
  rewrite Hdata.
  (* attributes *)
  unfold unix_mode. cbn [ze_ext ze_made_by]. unfold renorm, with_ext.
  destruct (N.eqb_spec (zo_ext o) 0) as [E0|E0]; [reflexivity|].
  change ((814 / 256) mod 256 =? 3) with true. cbv iota. reflexivity.
Qed.

Lemma copy_all_entries y : forall (ps : list (zout * N)) (es : list (zentry * N)),
  (forall o off, In (o, off) ps -> wf_zout o /\ exists A B, y = A ++ local_record o ++ B /\ N.of_nat (length A) = off) ->
  map fst es = map (fun p => entry_of (fst p) (snd p)) ps ->
  copy_all y es = Ok (map (fun p => renorm (fst p)) ps).
Proof.
  induction ps as [|[o off] ps IH]; intros es Hin Hm.
  - destruct es; [reflexivity | discriminate].
  - destruct es as [|[e pos] es]; [discriminate|]. cbn [map fst snd] in Hm. injection Hm as He Hm.
    cbn [copy_all map fst]. subst e.
    destruct (Hin o off (or_introl eq_refl)) as (W & A & B & Ey & Eoff). rewrite Ey at 1. rewrite <- Eoff.
    rewrite (copy_entry_written A B o W).
    rewrite (IH es (fun o' off' H => Hin o' off' (or_intror H)) Hm). reflexivity.
Qed.

Lemma map_fst_combine {A B C} (f : A -> C) (l : list A) (l' : list B) : length l = length l' ->
  map (fun p => f (fst p)) (combine l l') = map f l.
Proof.
  revert l'. induction l as [|a l IH]; intros [|b l'] H; cbn [combine map length] in *; try reflexivity; try discriminate.
  cbn [fst]. f_equal. apply IH. lia.
Qed.

(* C03: the archive the writer produces is read back by the reader as exactly the members written - same
   order, names, methods, times, CRCs, sizes and data, attributes as raw_copy_file re-derives them *)
Theorem zip_members_read_back l :
  Forall wf_zout l -> N.of_nat (length l) < 65535 ->
  N.of_nat (length (locals_of l)) < 4294967295 -> N.of_nat (length (central_of l)) < 4294967296 ->
  no_locator (zip_write l) ->
  exists es, zip_read (zip_write l) = Some es /\ length es = length l /\ copy_all (zip_write l) es = Ok (map renorm l).
Proof.
  intros Hwf Hn Hloc Hcen Hnl.
  destruct (zip_read_write l Hwf Hn Hloc Hcen Hnl) as (es & Hr & Hm).
  exists es. split; [exact Hr|]. split.
  - apply (f_equal (@length zentry)) in Hm. rewrite !map_length, combine_length, offsets_length, Nat.min_id in Hm. exact Hm.
  - rewrite <- (map_fst_combine renorm l (offsets l 0)) by (symmetry; apply offsets_length).
    apply copy_all_entries; [|exact Hm].
    intros o off Hin. split.
    + rewrite Forall_forall in Hwf. apply Hwf. eapply in_combine_l; eassumption.
    + destruct (offsets_split l 0 o off Hin) as (A & B & EL & Eoff). exists A, (B ++ central_of l ++ eocd_of l).
      split; [rewrite zip_write_eq, EL, <- !app_assoc; reflexivity | lia].
Qed.

(* ---------- C07 (zip/jar part): a second pass over the handler's own output reports nothing ---------- *)
Lemma clamp_snd_renorm epoch de o : snd (clamp_member epoch de (renorm o)) = snd (clamp_member epoch de o).
Proof.
  unfold clamp_member, renorm, with_ext. cbn [zo_date zo_time].
  destruct (dos_to_unix (zo_date o) (zo_time o)); [|reflexivity]. destruct (cmp_Z zip_clamp_cmp z epoch); reflexivity.
Qed.

Lemma local_record_length_renorm o : length (local_record (renorm o)) = length (local_record o).
Proof. rewrite !local_record_length. reflexivity. Qed.

Lemma zip_write_length l : length (zip_write l) = (length (locals_of l) + length (central_of l) + 22)%nat.
Proof. rewrite zip_write_eq, !app_length. unfold eocd_of. rewrite !app_length, !le_encode_length. cbn [length sig_eocd]. lia. Qed.

Lemma locals_length_ext (f : zout -> zout) l : (forall o, length (local_record (f o)) = length (local_record o)) ->
  length (locals_of (map f l)) = length (locals_of l).
Proof.
  intros Hf. unfold locals_of. induction l as [|o r IH]; [reflexivity|]. cbn [map concat]. rewrite !app_length, Hf, IH. reflexivity.
Qed.

Lemma central_length_gen : forall (l : list zout) (offs offs' : list N) (f : zout -> zout),
  (forall o, length (zo_name (f o)) = length (zo_name o)) -> length offs = length l -> length offs' = length l ->
  length (concat (map (fun p => central_record (fst p) (snd p)) (combine (map f l) offs'))) =
  length (concat (map (fun p => central_record (fst p) (snd p)) (combine l offs))).
Proof.
  induction l as [|o r IH]; intros offs offs' f Hf H1 H2; [reflexivity|].
  destruct offs as [|a offs]; [discriminate|]. destruct offs' as [|a' offs']; [discriminate|].
  cbn [map combine concat fst snd]. rewrite !app_length, !central_record_length, Hf. f_equal. apply IH; [exact Hf | cbn in *; lia | cbn in *; lia].
Qed.

Lemma zip_write_length_renorm l : length (zip_write (map renorm l)) = length (zip_write l).
Proof.
  rewrite !zip_write_length. f_equal. f_equal.
  - apply locals_length_ext. apply local_record_length_renorm.
  - unfold central_of. apply central_length_gen; [reflexivity | apply offsets_length | rewrite offsets_length, map_length; reflexivity].
Qed.

(* the entries read back are inside the class of the model *)
Lemma in_class_written (l : list zout) (es : list (zentry * N)) offs :
  map fst es = map (fun p => entry_of (fst p) (snd p)) (combine l offs) -> length offs = length l ->
  Forall wf_zout l -> Forall (fun x => x < 4294967295) offs -> N.of_nat (length l) < 65535 ->
  Forall (fun o => is_ascii (zo_name o) = false -> utf8_ok (zo_name o) = true) l ->
  zip_in_class es = true.
Proof.
  intros Hm Hlen Hwf Hoff Hn Hutf. unfold zip_in_class.
  assert (Hl : length es = length l).
  { apply (f_equal (@length zentry)) in Hm. rewrite !map_length, combine_length, Hlen, Nat.min_id in Hm. exact Hm. }
  rewrite Hl. replace (N.of_nat (length l) <? 65535) with true by (symmetry; apply N.ltb_lt; exact Hn). rewrite andb_true_r.
  apply forallb_forall. intros [e pos] Hin. cbn [fst].
  assert (He : In e (map fst es)) by (apply in_map_iff; exists (e, pos); auto).
  rewrite Hm in He. apply in_map_iff in He. destruct He as ([o off] & <- & Hino). cbn [fst snd].
  assert (W : wf_zout o) by (rewrite Forall_forall in Hwf; apply Hwf; eapply in_combine_l; eassumption).
  assert (Ho : off < 4294967295) by (rewrite Forall_forall in Hoff; apply Hoff; eapply in_combine_r; eassumption).
  assert (Hu : is_ascii (zo_name o) = false -> utf8_ok (zo_name o) = true) by (rewrite Forall_forall in Hutf; apply Hutf; eapply in_combine_l; eassumption).
  destruct W. unfold entry_of. cbn [ze_extra ze_flags ze_name_raw ze_csize ze_usize ze_offset].
  change (extra_special 64 []) with false. cbn [negb andb].
  apply andb_true_intro. split; [apply andb_true_intro; split; [apply andb_true_intro; split|]|]; try (apply N.ltb_lt; assumption).
  unfold name_flag. destruct (is_ascii (zo_name o)) eqn:Ea; [reflexivity | apply Hu; reflexivity].
Qed.

Lemma offsets_bound' l : forall pos, pos + N.of_nat (length (locals_of l)) < 4294967295 -> Forall (fun x => x < 4294967295) (offsets l pos).
Proof.
  induction l as [|o r IH]; intros pos H; cbn [offsets]; [constructor|].
  unfold locals_of in *. cbn [map concat] in H. rewrite app_length in H. constructor; [lia|]. apply IH. lia.
Qed.

Definition settled (epoch : Z) (de : N * N) (o : zout) : Prop := snd (clamp_member epoch de o) = false.

Theorem zip_second_pass init mt l :
  Forall wf_zout l -> N.of_nat (length l) < 65535 ->
  N.of_nat (length (locals_of l)) < 4294967295 -> N.of_nat (length (central_of l)) < 4294967296 ->
  no_locator (zip_write l) ->
  Forall (fun o => is_ascii (zo_name o) = false -> utf8_ok (zo_name o) = true) l ->
  Forall (settled (fst init) (snd init)) l ->
  exists y', zip_process init mt (zip_write l) = Some (Ok (y', false)).
Proof.
  intros Hwf Hn Hloc Hcen Hnl Hutf Hset.
  destruct (zip_read_write l Hwf Hn Hloc Hcen Hnl) as (es & Hr & Hm).
  destruct (zip_members_read_back l Hwf Hn Hloc Hcen Hnl) as (es' & Hr' & _ & Hc). rewrite Hr in Hr'. injection Hr' as <-.
  unfold zip_process. rewrite Hr.
  assert (Hoffs : Forall (fun x => x < 4294967295) (offsets l 0)) by (apply offsets_bound'; lia).
  rewrite (in_class_written l es (offsets l 0) Hm (offsets_length l 0) Hwf Hoffs Hn Hutf). cbn [negb]. rewrite Hc.
  (* nothing is newer than the epoch *)
  assert (Hnone : existsb snd (map (clamp_member (fst init) (snd init)) (map renorm l)) = false).
  { clear - Hset. induction Hset as [|o r Ho _ IH]; [reflexivity|]. cbn [map existsb]. rewrite clamp_snd_renorm. unfold settled in Ho. rewrite Ho, IH. reflexivity. }
  rewrite Hnone. cbn [orb].
  (* and the size heuristic stays quiet: the re-created archive has the same length *)
  assert (Hsame : map fst (map (clamp_member (fst init) (snd init)) (map renorm l)) = map renorm l).
  { clear - Hset. induction Hset as [|o r Ho _ IH]; [reflexivity|]. cbn [map]. rewrite IH. f_equal.
    unfold settled in Ho. rewrite <- clamp_snd_renorm in Ho. unfold clamp_member in *.
    destruct (dos_to_unix (zo_date (renorm o)) (zo_time (renorm o))); [|reflexivity].
    destruct (cmp_Z zip_clamp_cmp z (fst init)); [discriminate Ho | reflexivity]. }
  rewrite Hsame, zip_write_length_renorm, N.eqb_refl. cbn [negb]. rewrite andb_false_r.
  eexists. reflexivity.
Qed.
