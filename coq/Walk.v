(* Walk.v — process_file / process_entry / the walk of src/handlers/mod.rs: temp-name skip, file-type
   test, extension filter, per-inode handler bitmask (inodes_seen), statistics. *)
From AD Require Import Bytes Outcome Fs Helper Config.

Record hdesc := mk_hdesc {
  hd_ext : bytes;                                   (* Processor::filter: path.extension() == ext *)
  hd_eager : bytes -> bool;
  hd_fun : bytes -> outcome (bytes * bool)
}.

(* ---- Path::file_name / Path::extension on the last component ---- *)
Definition basename (p : path) : bytes := snd (split_path p).

Fixpoint starts_with (pre l : bytes) : bool :=
  match pre, l with
  | [], _ => true
  | a :: pre', b :: l' => (a =? b) && starts_with pre' l'
  | _, [] => false
  end.
Definition ends_with (suf l : bytes) : bool := starts_with (frev suf) (frev l).

(* our own temporary files: name.starts_with(".#.") && name.ends_with(".tmp") *)
Definition is_tmp_name (name : bytes) : bool := starts_with tmp_prefix name && ends_with tmp_suffix name.

(* text after the last '.', None when there is no '.', or only a leading one *)
Fixpoint ext_rev (r acc : bytes) : option bytes :=      (* r = reversed name *)
  match r with
  | [] => None
  | c :: r' => if c =? 46 then (match r' with [] => None | _ => Some acc end) else ext_rev r' (c :: acc)
  end.
Definition extension (name : bytes) : option bytes :=
  if bytes_eqb name [46; 46] then None else ext_rev (rev name) [].

Definition hfilter (h : hdesc) (p : path) : bool :=
  match extension (basename p) with Some x => bytes_eqb x (hd_ext h) | None => false end.

(* ---- inodes_seen: inode number -> bitmask of handlers already applied ---- *)
Definition seen_map := N -> N.
Definition seen_set (m : seen_map) (i v : N) : seen_map := fun j => if j =? i then v else m j.

(* process_file in serial mode: handlers in order; n-th handler is skipped when bit n of `already` is set;
   result: simulation state, bits of the handlers selected now, maximum of the results (None = a handler panicked) *)
Fixpoint process_file_from (e : env) (fault : option (nat * errno)) (m : hmode) (prof : profile)
         (hs : list hdesc) (n : N) (already : N) (p : path) (s : sim) (selected : N) (acc : presult)
  : sim * N * option presult :=
  match hs with
  | [] => (s, selected, Some acc)
  | h :: rest =>
      if N.testbit already n then process_file_from e fault m prof rest (n + 1) already p s selected acc
      else if hfilter h p then
        let '(s', r) := run_handler e fault m prof (hd_eager h) (hd_fun h) p s in
        match r with
        | None => (s', N.lor selected (N.shiftl 1 n), None)
        | Some c => process_file_from e fault m prof rest (n + 1) already p s' (N.lor selected (N.shiftl 1 n)) (presult_max acc c)
        end
      else process_file_from e fault m prof rest (n + 1) already p s selected acc
  end.

Record wstate := mk_wstate { w_sim : sim; w_seen : seen_map; w_stats : stats; w_applied : list (N * N) (* (inode, handler index) log *) }.

Definition bump_dirs (s : stats) := mk_stats (st_dirs s + 1) (st_files s) (st_processed s) (st_replaced s) (st_rewritten s) (st_mis s) (st_errors s).
Definition bump_files (s : stats) := mk_stats (st_dirs s) (st_files s + 1) (st_processed s) (st_replaced s) (st_rewritten s) (st_mis s) (st_errors s).

(* handlers applied by one process_file call, for the log *)
Fixpoint bits_of (mask : N) (n : nat) (k : N) : list N :=
  match n with
  | O => []
  | S n' => (if N.testbit mask k then [k] else []) ++ bits_of mask n' (k + 1)
  end.

(* process_entry + stats.add_one for one path yielded by the directory walk; None = the process died *)
Definition process_entry (e : env) (fault : option (nat * errno)) (m : hmode) (prof : profile) (hs : list hdesc)
           (w : wstate) (p : path) : option wstate :=
  if is_tmp_name (basename p) then Some w                    (* Ok(Ignored): nothing is counted *)
  else
    match obs (s_fs (w_sim w)) p with                        (* entry.metadata(): lstat *)
    | None => Some (mk_wstate (w_sim w) (w_seen w) (add_one (w_stats w) Error) (w_applied w))
    | Some (ino, nd) =>
        match i_kind nd with
        | KDir => Some (mk_wstate (w_sim w) (w_seen w) (bump_dirs (w_stats w)) (w_applied w))
        | KReg =>
            let st1 := bump_files (w_stats w) in
            let already := w_seen w ino in
            let '(s', selected, r) := process_file_from e fault m prof hs 0 already p (w_sim w) 0 Ignored in
            match r with
            | None => None
            | Some c =>
                let already' := N.lor already selected in
                let seen1 := seen_set (w_seen w) ino already' in
                let seen2 := if presult_eqb c Noop then seen1
                             else match obs (s_fs s') p with
                                  | Some (ino2, _) => if ino2 =? ino then seen1 else seen_set seen1 ino2 already'
                                  | None => seen1        (* metadata() error -> Err; not modelled further *)
                                  end in
                Some (mk_wstate s' seen2 (add_one st1 c)
                                (w_applied w ++ map (fun k => (ino, k)) (bits_of selected (length hs) 0)))
            end
        | _ => Some (mk_wstate (w_sim w) (w_seen w) (bump_files (w_stats w)) (w_applied w))   (* "not a file" *)
        end
    end.

Fixpoint walk (e : env) (fault : option (nat * errno)) (m : hmode) (prof : profile) (hs : list hdesc)
         (w : wstate) (entries : list path) : option wstate :=
  match entries with
  | [] => Some w
  | p :: rest => match process_entry e fault m prof hs w p with
                 | Some w' => walk e fault m prof hs w' rest
                 | None => None
                 end
  end.

Definition init_wstate (f : fs) : wstate := mk_wstate (init_sim f) (fun _ => 0) stats0 [].
