(* Bytes.v — bytes as N, little-endian codecs, slicing, Rust-style decimal parsing.
   Model file: definitions and their characterising lemmas (stdlib only). *)
From Coq Require Export List NArith ZArith Bool Lia Arith.
Export ListNotations.
Open Scope N_scope.

Arguments N.add : simpl never.
Arguments N.sub : simpl never.
Arguments N.mul : simpl never.
Arguments N.eqb : simpl never.
Arguments N.ltb : simpl never.
Arguments N.leb : simpl never.
Arguments N.div : simpl never.
Arguments N.modulo : simpl never.
Arguments N.pow : simpl never.

Definition bytes := list N.
Definition bytes_ok (l : bytes) : Prop := Forall (fun b => b < 256) l.

Fixpoint bytes_eqb (a b : bytes) : bool :=
  match a, b with
  | [], [] => true
  | x :: a', y :: b' => (x =? y) && bytes_eqb a' b'
  | _, _ => false
  end.

Lemma bytes_eqb_eq a b : bytes_eqb a b = true <-> a = b.
Proof.
  revert b; induction a as [|x a IH]; intros [|y b]; cbn; try (split; congruence).
  rewrite andb_true_iff, N.eqb_eq, IH. split; [intros [-> ->]; reflexivity | intros E; injection E; auto].
Qed.

Lemma bytes_eqb_refl a : bytes_eqb a a = true.
Proof. apply bytes_eqb_eq; reflexivity. Qed.

Lemma bytes_eqb_neq a b : bytes_eqb a b = false <-> a <> b.
Proof.
  split.
  - intros H E. apply bytes_eqb_eq in E. congruence.
  - intros H. destruct (bytes_eqb a b) eqn:E; [apply bytes_eqb_eq in E; contradiction | reflexivity].
Qed.

(* linear-time reversal (List.rev is quadratic); equal to rev *)
Definition frev {A} (l : list A) : list A := rev_append l [].
Lemma frev_rev {A} (l : list A) : frev l = rev l.
Proof. unfold frev. symmetry. apply rev_alt. Qed.

(* ---------- little endian ---------- *)
Fixpoint le_decode (l : bytes) : N :=
  match l with
  | [] => 0
  | b :: r => b + 256 * le_decode r
  end.

Fixpoint le_encode (n : nat) (v : N) : bytes :=
  match n with
  | O => []
  | S k => (v mod 256) :: le_encode k (v / 256)
  end.

Lemma le_encode_length n v : length (le_encode n v) = n.
Proof. revert v; induction n as [|n IH]; intros v; cbn; [reflexivity | now rewrite IH]. Qed.

Lemma le_encode_ok n v : bytes_ok (le_encode n v).
Proof.
  revert v; induction n as [|n IH]; intros v; cbn; constructor.
  - apply N.mod_lt. discriminate.
  - apply IH.
Qed.

Lemma le_decode_encode n v : le_decode (le_encode n v) = v mod (256 ^ N.of_nat n).
Proof.
  revert v; induction n as [|n IH]; intros v.
  - cbn. now rewrite N.mod_1_r.
  - cbn [le_encode le_decode]. rewrite IH.
    replace (N.of_nat (S n)) with (N.succ (N.of_nat n)) by lia.
    rewrite N.pow_succ_r'.
    assert (Hp : 256 ^ N.of_nat n <> 0) by (apply N.pow_nonzero; discriminate).
    rewrite (N.mod_mul_r v 256 (256 ^ N.of_nat n)) by (assumption || discriminate).
    reflexivity.
Qed.

Lemma le_decode_bound l : bytes_ok l -> le_decode l < 256 ^ N.of_nat (length l).
Proof.
  induction 1 as [|b r Hb _ IH]; cbn [le_decode length].
  - cbn. lia.
  - replace (N.of_nat (S (length r))) with (N.succ (N.of_nat (length r))) by lia.
    rewrite N.pow_succ_r'. nia.
Qed.

Lemma le_encode_decode l : bytes_ok l -> le_encode (length l) (le_decode l) = l.
Proof.
  induction 1 as [|b r Hb _ IH]; cbn [le_decode length le_encode]; [reflexivity|].
  f_equal.
  - rewrite (N.mul_comm 256), N.mod_add by discriminate. now apply N.mod_small.
  - rewrite (N.mul_comm 256), N.div_add by discriminate.
    rewrite (N.div_small b 256) by assumption. rewrite N.add_0_l. exact IH.
Qed.

Lemma le_encode_small n v : v < 256 ^ N.of_nat n -> le_decode (le_encode n v) = v.
Proof. intros H. rewrite le_decode_encode. now apply N.mod_small. Qed.

Lemma le_encode_inj n v w :
  v < 256 ^ N.of_nat n -> w < 256 ^ N.of_nat n -> le_encode n v = le_encode n w -> v = w.
Proof. intros Hv Hw E. rewrite <- (le_encode_small n v Hv), <- (le_encode_small n w Hw). now rewrite E. Qed.

(* ---------- slicing ---------- *)
Definition slice (lo hi : nat) (x : bytes) : bytes := firstn (hi - lo) (skipn lo x).

(* replace x[lo .. lo + length new) by new (caller guarantees the range exists) *)
Definition splice (lo : nat) (new : bytes) (x : bytes) : bytes :=
  firstn lo x ++ new ++ skipn (lo + length new) x.

Lemma skipn_skipn {A} (a b : nat) (l : list A) : skipn a (skipn b l) = skipn (b + a) l.
Proof.
  revert l; induction b as [|b IH]; intros l; [reflexivity|].
  destruct l as [|x l]; cbn [skipn Nat.add]; [now rewrite skipn_nil | apply IH].
Qed.

Lemma slice_length lo hi x : (hi <= length x)%nat -> length (slice lo hi x) = (hi - lo)%nat.
Proof. intros H. unfold slice. rewrite firstn_length, skipn_length. lia. Qed.

Lemma splice_length lo new x :
  (lo + length new <= length x)%nat -> length (splice lo new x) = length x.
Proof. intros H. unfold splice. rewrite !app_length, firstn_length, skipn_length. lia. Qed.

Lemma splice_nth_outside lo new x i d :
  (lo + length new <= length x)%nat ->
  (i < lo \/ lo + length new <= i)%nat -> nth i (splice lo new x) d = nth i x d.
Proof.
  intros Hl Hi. unfold splice.
  assert (Hf : length (firstn lo x) = lo) by (rewrite firstn_length; lia).
  destruct Hi as [Hi|Hi].
  - rewrite app_nth1 by lia. rewrite <- (firstn_skipn lo x) at 2. rewrite app_nth1 by lia. reflexivity.
  - rewrite app_nth2 by lia. rewrite app_nth2 by lia. rewrite Hf.
    rewrite <- (firstn_skipn (lo + length new) x) at 2.
    rewrite app_nth2 by (rewrite firstn_length; lia).
    rewrite firstn_length. f_equal. lia.
Qed.

Lemma splice_slice lo new x :
  (lo + length new <= length x)%nat -> slice lo (lo + length new) (splice lo new x) = new.
Proof.
  intros H. unfold slice, splice.
  assert (Hf : length (firstn lo x) = lo) by (rewrite firstn_length; lia).
  rewrite skipn_app, Hf, Nat.sub_diag. cbn [skipn].
  rewrite (skipn_all2 (n:=lo)) by lia. cbn [app].
  replace (lo + length new - lo)%nat with (length new) by lia.
  rewrite firstn_app, Nat.sub_diag, firstn_all. cbn [firstn]. now rewrite app_nil_r.
Qed.

Lemma splice_same lo new x :
  (lo + length new <= length x)%nat -> slice lo (lo + length new) x = new -> splice lo new x = x.
Proof.
  intros H E. unfold splice, slice in *.
  replace (lo + length new - lo)%nat with (length new) in E by lia.
  rewrite <- E at 1.
  rewrite <- (firstn_skipn lo x) at 4.
  f_equal.
  rewrite <- (firstn_skipn (length new) (skipn lo x)) at 2.
  f_equal. rewrite skipn_skipn. reflexivity.
Qed.

Lemma splice_firstn lo new x : (lo <= length x)%nat -> firstn lo (splice lo new x) = firstn lo x.
Proof.
  intros H. unfold splice.
  rewrite firstn_app, firstn_firstn, Nat.min_id.
  rewrite firstn_length, Nat.min_l by lia. rewrite Nat.sub_diag. cbn [firstn]. now rewrite app_nil_r.
Qed.

Lemma splice_skipn lo new x :
  (lo + length new <= length x)%nat ->
  skipn (lo + length new) (splice lo new x) = skipn (lo + length new) x.
Proof.
  intros H. unfold splice.
  assert (Hf : length (firstn lo x) = lo) by (rewrite firstn_length; lia).
  rewrite skipn_app, Hf.
  rewrite (skipn_all2 (n:=(lo + length new)%nat) (firstn lo x)) by lia. cbn [app].
  replace (lo + length new - lo)%nat with (length new) by lia.
  rewrite skipn_app, Nat.sub_diag, skipn_all. reflexivity.
Qed.

Lemma Forall_firstn' {A} (P : A -> Prop) n l : Forall P l -> Forall P (firstn n l).
Proof. revert l; induction n as [|n IH]; intros [|a l] H; cbn; auto. inversion H; subst. constructor; auto. Qed.
Lemma Forall_skipn' {A} (P : A -> Prop) n l : Forall P l -> Forall P (skipn n l).
Proof. revert l; induction n as [|n IH]; intros [|a l] H; cbn; auto. inversion H; subst. auto. Qed.

Lemma splice_ok lo new x : bytes_ok x -> bytes_ok new -> bytes_ok (splice lo new x).
Proof.
  intros Hx Hn. unfold splice, bytes_ok in *. rewrite !Forall_app. repeat split.
  - now apply Forall_firstn'.
  - assumption.
  - now apply Forall_skipn'.
Qed.

(* ---------- ASCII helpers ---------- *)
Definition is_digit (b : N) : bool := (48 <=? b) && (b <=? 57).
Definition digit_val (b : N) : N := b - 48.

Fixpoint trim_end_sp_rev (r : bytes) : bytes :=   (* on the reversed list *)
  match r with
  | 32 :: r' => trim_end_sp_rev r'
  | _ => r
  end.
(* Rust: str::trim_end_matches(' ') *)
Definition trim_end_sp (l : bytes) : bytes := rev (trim_end_sp_rev (rev l)).

(* Rust <uN as FromStr>::from_str: optional leading '+', then >= 1 ASCII digits,
   overflow is an error.  [max] is the largest representable value. *)
Fixpoint parse_digits (acc : N) (l : bytes) : option N :=
  match l with
  | [] => Some acc
  | b :: r => if is_digit b then parse_digits (acc * 10 + digit_val b) r else None
  end.

Definition strip_plus (l : bytes) : bytes :=
  match l with
  | c :: r => if c =? 43 then r else l
  | [] => l
  end.

Definition parse_unsigned (max : N) (l : bytes) : option N :=
  let body := strip_plus l in
  match body with
  | [] => None
  | _ => match parse_digits 0 body with
         | Some v => if v <=? max then Some v else None
         | None => None
         end
  end.

(* Rust <iN as FromStr>::from_str: optional '+' or '-', digits; range [-(max+1), max];
   a lone sign is an error. *)
Definition parse_signed (max : N) (l : bytes) : option Z :=
  match l with
  | c :: r =>
      if c =? 45 then
        match r with
        | [] => None
        | _ => match parse_digits 0 r with
               | Some v => if v <=? max + 1 then Some (- Z.of_N v)%Z else None
               | None => None
               end
        end
      else match parse_unsigned max l with
           | Some v => Some (Z.of_N v)
           | None => None
           end
  | [] => None
  end.

(* decimal rendering *)
Fixpoint dec_digits_fuel (fuel : nat) (v : N) (acc : bytes) : bytes :=
  match fuel with
  | O => acc
  | S f => let acc' := (48 + v mod 10) :: acc in
           if v / 10 =? 0 then acc' else dec_digits_fuel f (v / 10) acc'
  end.
Definition dec_digits (v : N) : bytes := dec_digits_fuel (S (N.to_nat (N.log2 v))) v [].

(* Rust format!("{:<w}", v): left-aligned, padded with blanks to at least w columns *)
Definition fmt_left_pad (w : nat) (v : N) : bytes :=
  let d := dec_digits v in d ++ repeat 32 (w - length d).

(* Rust std::str::from_utf8 on a byte slice: validity only *)
Fixpoint utf8_ok_fuel (fuel : nat) (l : bytes) : bool :=
  match fuel with
  | O => match l with [] => true | _ => false end
  | S f =>
    match l with
    | [] => true
    | b0 :: r0 =>
      if b0 <? 128 then utf8_ok_fuel f r0
      else if (194 <=? b0) && (b0 <=? 223) then
        match r0 with
        | b1 :: r1 => if (128 <=? b1) && (b1 <=? 191) then utf8_ok_fuel f r1 else false
        | _ => false
        end
      else if (224 <=? b0) && (b0 <=? 239) then
        match r0 with
        | b1 :: b2 :: r2 =>
          let lo := if b0 =? 224 then 160 else 128 in
          let hi := if b0 =? 237 then 159 else 191 in
          if (lo <=? b1) && (b1 <=? hi) && (128 <=? b2) && (b2 <=? 191) then utf8_ok_fuel f r2 else false
        | _ => false
        end
      else if (240 <=? b0) && (b0 <=? 244) then
        match r0 with
        | b1 :: b2 :: b3 :: r3 =>
          let lo := if b0 =? 240 then 144 else 128 in
          let hi := if b0 =? 244 then 143 else 191 in
          if (lo <=? b1) && (b1 <=? hi) && (128 <=? b2) && (b2 <=? 191) && (128 <=? b3) && (b3 <=? 191)
          then utf8_ok_fuel f r3 else false
        | _ => false
        end
      else false
    end
  end.
Definition utf8_ok (l : bytes) : bool := utf8_ok_fuel (length l) l.
