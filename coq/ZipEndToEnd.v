(* ZipEndToEnd.v — C03 end to end in the model: the archive written for an input holds, for the reader, the members
   of the input with clamped times. *)
From AD Require Import Bytes Outcome Gen Date Cp437 Zip ZipProofs ZipRoundTrip.
Local Arguments firstn : simpl never.
Local Arguments skipn : simpl never.
Local Arguments N.add : simpl never.
Local Arguments N.mul : simpl never.
Local Arguments N.div : simpl never.
Local Arguments N.modulo : simpl never.
Local Arguments N.pow : simpl never.

Lemma le_decode_bound_n (l : bytes) n : bytes_ok l -> (length l <= n)%nat -> le_decode l < 256 ^ N.of_nat n.
Proof.
  intros Hok Hl. pose proof (le_decode_bound l Hok) as H.
  eapply N.lt_le_trans; [exact H|]. apply N.pow_le_mono_r; lia.
Qed.

Lemma u16_bound l : bytes_ok l -> u16 l < 65536.
Proof.
  intros H. unfold u16. change 65536 with (256 ^ N.of_nat 2). apply le_decode_bound_n; [apply Forall_firstn', H | rewrite firstn_length; lia].
Qed.
Lemma u32_bound l : bytes_ok l -> u32 l < 4294967296.
Proof.
  intros H. unfold u32. change 4294967296 with (256 ^ N.of_nat 4). apply le_decode_bound_n; [apply Forall_firstn', H | rewrite firstn_length; lia].
Qed.

Lemma sub_bytes_ok off len x s : bytes_ok x -> sub_bytes off len x = Some s -> bytes_ok s.
Proof.
  intros H. unfold sub_bytes. destruct (_ <=? _); [|discriminate]. intros E; injection E as <-.
  apply Forall_firstn', Forall_skipn', H.
Qed.

Definition entry_bounded (e : zentry) : Prop :=
  ze_method e < 65536 /\ ze_time e < 65536 /\ ze_date e < 65536 /\ ze_crc e < 4294967296.

Lemma read_central_bounded x : bytes_ok x -> forall n pos off es,
  read_central x n pos off = Some es -> Forall (fun p => entry_bounded (fst p)) es.
Proof.
  intros Hx. induction n as [|n IH]; intros pos off es H; cbn [read_central] in H.
  - injection H as <-. constructor.
  - destruct (sub_bytes pos 46 x) as [h|] eqn:Eh; [|discriminate].
    pose proof (sub_bytes_ok _ _ _ _ Hx Eh) as Hh.
    destruct (negb (bytes_eqb (firstn 4 h) sig_central)); [discriminate|].
    destruct (sub_bytes (pos + 46) (u16 (skipn 28 h) + u16 (skipn 30 h) + u16 (skipn 32 h)) x) as [v|]; [|discriminate].
    destruct (read_central x n _ off) as [r|] eqn:Er; [|discriminate].
    injection H as <-. constructor; [|eapply IH, Er].
    cbn [fst]. unfold entry_bounded. cbn [ze_method ze_time ze_date ze_crc].
    repeat split; first [apply u16_bound | apply u32_bound]; apply Forall_skipn', Hh.
Qed.

Lemma zip_read_bounded x es : bytes_ok x -> zip_read x = Some es -> Forall (fun p => entry_bounded (fst p)) es.
Proof.
  intros Hx. unfold zip_read. cbv zeta.
  destruct (_ <? 22); [discriminate|].
  destruct (find_eocd x _ _ _) as [pos|]; [|discriminate].
  destruct (sub_bytes pos 22 x) as [h|]; [|discriminate].
  destruct (sub_bytes (pos + 22) _ x); [|discriminate].
  destruct (_ && _)%bool; [discriminate|].
  match goal with |- context [if ?c then None else _] => destruct c end; [discriminate|].
  destruct (pos <? _); [discriminate|].
  apply read_central_bounded, Hx.
Qed.

(* what is known of a copied member, but for the width of its (possibly transcoded) name *)
Record wf_but_name (o : zout) : Prop := {
  wn_method : zo_method o = 0 \/ zo_method o = 8;
  wn_time : zo_time o < 65536; wn_date : zo_date o < 65536;
  wn_crc : zo_crc o < 4294967296; wn_csize : zo_csize o < 4294967295; wn_usize : zo_usize o < 4294967295;
  wn_ext : zo_ext o < 4294967296;
  wn_data : N.of_nat (length (zo_data o)) = zo_csize o
}.

Lemma copy_entry_wf x e o : entry_bounded e -> ze_csize e < 4294967295 -> ze_usize e < 4294967295 ->
  copy_entry x e = Ok o -> wf_but_name o.
Proof.
  intros (B1 & B2 & B3 & B4) C1 C2 H.
  destruct (copy_entry_fields x e o H) as (F1 & F2 & F3 & F4 & F5 & F6 & F7 & F8 & F9 & (lh & _ & _ & F10)).
  constructor.
  - rewrite F1. exact F8.
  - rewrite F2. exact B2.
  - rewrite F3. exact B3.
  - rewrite F4. exact B4.
  - rewrite F5. exact C1.
  - rewrite F6. exact C2.
  - rewrite F9. destruct (unix_mode e); [apply N.mod_lt; lia | reflexivity].
  - rewrite F5. exact F10.
Qed.

Lemma copy_all_wf x : forall es outs,
  Forall (fun p => entry_bounded (fst p) /\ ze_csize (fst p) < 4294967295 /\ ze_usize (fst p) < 4294967295) es ->
  copy_all x es = Ok outs -> Forall wf_but_name outs.
Proof.
  induction es as [|[e p] es IH]; intros outs Hb H; cbn [copy_all] in H.
  - injection H as <-. constructor.
  - inversion Hb as [|? ? (B & C1 & C2) Hb']; subst. cbn [fst] in *.
    destruct (copy_entry x e) as [o| | |] eqn:Eo; try discriminate.
    destruct (copy_all x es) as [l| | |] eqn:El; try discriminate.
    injection H as <-. constructor; [eapply copy_entry_wf; eassumption | apply IH; [exact Hb' | reflexivity]].
Qed.

Lemma in_class_sizes es : zip_in_class es = true -> Forall (fun p => ze_csize (fst p) < 4294967295 /\ ze_usize (fst p) < 4294967295) es.
Proof.
  unfold zip_in_class. intros H. apply andb_prop in H. destruct H as [H _]. rewrite forallb_forall in H.
  apply Forall_forall. intros p Hp. specialize (H p Hp).
  repeat (apply andb_prop in H; destruct H as [H ?]).
  repeat match goal with Hx : (_ <? _) = true |- _ => apply N.ltb_lt in Hx end. split; assumption.
Qed.

Lemma clamp_wf epoch d t o : d < 65536 -> t < 65536 -> wf_but_name o -> wf_but_name (fst (clamp_member epoch (d, t) o)).
Proof.
  intros Hd Ht W. unfold clamp_member. destruct (dos_to_unix _ _); [|exact W].
  destruct (cmp_Z zip_clamp_cmp z epoch); [|exact W]. destruct W. constructor; cbn [fst snd zo_method zo_time zo_date zo_crc zo_csize zo_usize zo_ext zo_data]; assumption.
Qed.

Lemma wf_with_name o : wf_but_name o -> N.of_nat (length (zo_name o)) < 65536 -> wf_zout o.
Proof. intros W Hn. destruct W. constructor; assumption. Qed.

(* C03, end to end: for an input of bytes that the handler rewrites, the members copied out of the input, with
   times clamped, are exactly what the reader finds in the output - provided the (transcoded) names fit their
   16-bit length field, the result stays below 4 GiB and the zip64-locator position is not hit by accident *)
Theorem zip_output_holds_members epoch d t mt x y hm :
  bytes_ok x -> d < 65536 -> t < 65536 ->
  zip_process (epoch, (d, t)) mt x = Some (Ok (y, hm)) ->
  exists es outs,
    zip_read x = Some es /\ copy_all x es = Ok outs /\
    let outs' := map (fun o => fst (clamp_member epoch (d, t) o)) outs in
    y = zip_write outs' /\
    (Forall (fun o => N.of_nat (length (zo_name o)) < 65536) outs' ->
     N.of_nat (length (locals_of outs')) < 4294967295 -> N.of_nat (length (central_of outs')) < 4294967296 -> no_locator y ->
     exists es', zip_read y = Some es' /\ length es' = length es /\ copy_all y es' = Ok (map renorm outs')).
Proof.
  intros Hx Hd Ht H.
  assert (Hcls : exists es, zip_read x = Some es /\ zip_in_class es = true).
  { unfold zip_process in H. destruct (zip_read x) as [es|]; [|discriminate]. exists es. split; [reflexivity|].
    destruct (zip_in_class es); [reflexivity | discriminate]. }
  destruct Hcls as (es0 & Er0 & Hcl).
  destruct (zip_process_ok _ _ _ _ _ H) as (es & outs & Er & Ec & Ey & _). cbn [fst snd] in *.
  rewrite Er0 in Er. injection Er as <-.
  exists es0, outs. split; [exact Er0|]. split; [exact Ec|]. cbv zeta. split; [exact Ey|].
  intros Hnames Hl Hc Hnl.
  assert (Hn : N.of_nat (length (map (fun o => fst (clamp_member epoch (d, t) o)) outs)) < 65535).
  { rewrite map_length, (copy_all_length x es0 outs Ec). unfold zip_in_class in Hcl. apply andb_prop in Hcl. destruct Hcl as [_ Hcl]. apply N.ltb_lt, Hcl. }
  assert (Hwf : Forall wf_but_name outs).
  { apply (copy_all_wf x es0); [|exact Ec].
    pose proof (zip_read_bounded x es0 Hx Er0) as B. pose proof (in_class_sizes es0 Hcl) as S.
    rewrite Forall_forall in *. intros p Hp. split; [apply B, Hp | apply S, Hp]. }
  assert (Hwf' : Forall wf_zout (map (fun o => fst (clamp_member epoch (d, t) o)) outs)).
  { rewrite Forall_forall in *. intros o' Ho'. apply in_map_iff in Ho'. destruct Ho' as (o & <- & Ho).
    apply wf_with_name; [apply clamp_wf; [exact Hd | exact Ht | apply Hwf, Ho]|].
    apply Hnames. apply in_map_iff. exists o. auto. }
  rewrite Ey in Hnl |- *.
  destruct (zip_members_read_back _ Hwf' Hn Hl Hc Hnl) as (es' & R & L & C).
  exists es'. split; [exact R|]. split; [|exact C].
  rewrite L, map_length. apply (copy_all_length x es0 outs Ec).
Qed.

(* ---------- executable: is an input inside the domain of the theorem, and is its output read back? ---------- *)
Definition zout_eqb (a b : zout) : bool :=
  bytes_eqb (zo_name a) (zo_name b) && (zo_method a =? zo_method b) && (zo_time a =? zo_time b) && (zo_date a =? zo_date b) &&
  (zo_crc a =? zo_crc b) && (zo_csize a =? zo_csize b) && (zo_usize a =? zo_usize b) && (zo_ext a =? zo_ext b) &&
  bytes_eqb (zo_data a) (zo_data b).

Lemma zout_eqb_refl a : zout_eqb a a = true.
Proof. unfold zout_eqb. rewrite !bytes_eqb_refl, !N.eqb_refl. reflexivity. Qed.

Fixpoint zouts_eqb (a b : list zout) : bool :=
  match a, b with
  | [], [] => true
  | x :: a', y :: b' => zout_eqb x y && zouts_eqb a' b'
  | _, _ => false
  end.

Lemma zouts_eqb_refl a : zouts_eqb a a = true.
Proof. induction a as [|x a IH]; cbn [zouts_eqb]; [reflexivity | rewrite zout_eqb_refl, IH; reflexivity]. Qed.

Definition has_locator (y : bytes) : bool :=
  if 42 <=? N.of_nat (length y) then match sub_bytes (N.of_nat (length y) - 42) 4 y with Some s => bytes_eqb s sig_zip64_locator | None => false end else false.

(* None: not an archive the handler rewrites (unreadable, outside the modelled class, an error while copying).
   Some (dom, rr): dom = the side conditions of zip_output_holds_members hold for this input;
   rr = the archive written is read back as the clamped members. *)
Definition zip_domain (init : Z * (N * N)) (mt : Z) (x : bytes) : option (bool * bool) :=
  match zip_process init mt x with
  | Some (Ok (y, _)) =>
      match zip_read x with
      | Some es =>
          match copy_all x es with
          | Ok outs =>
              let outs' := map (fun o => fst (clamp_member (fst init) (snd init) o)) outs in
              let dom := forallb (fun o => N.of_nat (length (zo_name o)) <? 65536) outs' &&
                         (N.of_nat (length (locals_of outs')) <? 4294967295) && (N.of_nat (length (central_of outs')) <? 4294967296) &&
                         negb (has_locator y) in
              let rr := match zip_read y with
                        | Some es' => (length es' =? length es)%nat &&
                                      match copy_all y es' with Ok o2 => zouts_eqb o2 (map renorm outs') | _ => false end
                        | None => false
                        end in
              Some (dom, rr)
          | _ => None
          end
      | None => None
      end
  | _ => None
  end.

Theorem zip_domain_sound epoch d t mt x rr :
  bytes_ok x -> d < 65536 -> t < 65536 -> zip_domain (epoch, (d, t)) mt x = Some (true, rr) -> rr = true.
Proof.
  intros Hx Hd Ht. unfold zip_domain.
  destruct (zip_process (epoch, (d, t)) mt x) as [[[y hm]| | |]|] eqn:H; try discriminate.
  destruct (zip_output_holds_members epoch d t mt x y hm Hx Hd Ht H) as (es & outs & Er & Ec & Hrest).
  rewrite Er, Ec. cbn [fst snd]. cbv zeta in Hrest |- *. destruct Hrest as (Ey & Hrr).
  set (outs' := map (fun o => fst (clamp_member epoch (d, t) o)) outs) in *.
  set (rrx := match zip_read y with
              | Some es' => (length es' =? length es)%nat && match copy_all y es' with Ok o2 => zouts_eqb o2 (map renorm outs') | _ => false end
              | None => false end).
  intros E. injection E as Edom Err.
  apply andb_prop in Edom. destruct Edom as [Edom Hloc]. apply andb_prop in Edom. destruct Edom as [Edom Hc].
  apply andb_prop in Edom. destruct Edom as [Hnames Hl].
  apply N.ltb_lt in Hc, Hl. apply negb_true_iff in Hloc.
  assert (Hnames' : Forall (fun o => N.of_nat (length (zo_name o)) < 65536) outs').
  { apply Forall_forall. intros o Ho. rewrite forallb_forall in Hnames. apply N.ltb_lt, Hnames, Ho. }
  destruct (Hrr Hnames' Hl Hc Hloc) as (es' & R & L & C).
  unfold rrx in Err. rewrite R, L, C in Err. rewrite Nat.eqb_refl, zouts_eqb_refl in Err. symmetry. exact Err.
Qed.
