(* MultiProofs.v — C11: the five counters of the summary, merged over any number of workers and any schedule. *)
From AD Require Import Bytes Outcome Gen Config ConfigProofs Multi.
From Coq Require Import Permutation.

Definition d_processed (r : presult) : N := match r with Ignored => 0 | _ => 1 end.
Definition d_kind (k r : presult) : N := if presult_eqb k r then 1 else 0.

Lemma one_processed s r : st_processed (add_one s r) = st_processed s + d_processed r.
Proof. destruct (add_one_cases s) as (E0 & E1 & E2 & E3 & E4 & E5). destruct r; first [rewrite E0 | rewrite E1 | rewrite E2 | rewrite E3 | rewrite E4 | rewrite E5];
    cbn [st_processed st_replaced st_rewritten st_mis st_errors];
    repeat match goal with |- context [d_kind ?a ?b] => let v := eval vm_compute in (d_kind a b) in change (d_kind a b) with v end;
    cbn [d_processed]; lia. Qed.
Lemma one_replaced s r : st_replaced (add_one s r) = st_replaced s + d_kind Replaced r.
Proof. destruct (add_one_cases s) as (E0 & E1 & E2 & E3 & E4 & E5). destruct r; first [rewrite E0 | rewrite E1 | rewrite E2 | rewrite E3 | rewrite E4 | rewrite E5];
    cbn [st_processed st_replaced st_rewritten st_mis st_errors];
    repeat match goal with |- context [d_kind ?a ?b] => let v := eval vm_compute in (d_kind a b) in change (d_kind a b) with v end;
    cbn [d_processed]; lia. Qed.
Lemma one_rewritten s r : st_rewritten (add_one s r) = st_rewritten s + d_kind Rewritten r.
Proof. destruct (add_one_cases s) as (E0 & E1 & E2 & E3 & E4 & E5). destruct r; first [rewrite E0 | rewrite E1 | rewrite E2 | rewrite E3 | rewrite E4 | rewrite E5];
    cbn [st_processed st_replaced st_rewritten st_mis st_errors];
    repeat match goal with |- context [d_kind ?a ?b] => let v := eval vm_compute in (d_kind a b) in change (d_kind a b) with v end;
    cbn [d_processed]; lia. Qed.
Lemma one_mis s r : st_mis (add_one s r) = st_mis s + d_kind BadFormat r.
Proof. destruct (add_one_cases s) as (E0 & E1 & E2 & E3 & E4 & E5). destruct r; first [rewrite E0 | rewrite E1 | rewrite E2 | rewrite E3 | rewrite E4 | rewrite E5];
    cbn [st_processed st_replaced st_rewritten st_mis st_errors];
    repeat match goal with |- context [d_kind ?a ?b] => let v := eval vm_compute in (d_kind a b) in change (d_kind a b) with v end;
    cbn [d_processed]; lia. Qed.
Lemma one_errors s r : st_errors (add_one s r) = st_errors s + d_kind Error r.
Proof. destruct (add_one_cases s) as (E0 & E1 & E2 & E3 & E4 & E5). destruct r; first [rewrite E0 | rewrite E1 | rewrite E2 | rewrite E3 | rewrite E4 | rewrite E5];
    cbn [st_processed st_replaced st_rewritten st_mis st_errors];
    repeat match goal with |- context [d_kind ?a ?b] => let v := eval vm_compute in (d_kind a b) in change (d_kind a b) with v end;
    cbn [d_processed]; lia. Qed.

Section Totals.
  Variable state job : Type.
  Variable effect : job -> state -> state * presult.
  Notation run := (run state job effect).
  Notation init := (init state job).
  Notation terminal := (terminal state job).
  Notation totals := (totals state job).
  Notation finished := (finished state job).

  (* a parallel run that completes reports, for every schedule and worker count, exactly the sums over the
     processed jobs: each result is counted once, by whichever worker handled it *)
  Theorem parallel_totals n jobs t0 es s :
    run (init n jobs t0) es = Some s -> terminal s ->
    st_processed (totals s) = counted job d_processed (finished s) /\
    st_replaced (totals s) = counted job (d_kind Replaced) (finished s) /\
    st_rewritten (totals s) = counted job (d_kind Rewritten) (finished s) /\
    st_mis (totals s) = counted job (d_kind BadFormat) (finished s) /\
    st_errors (totals s) = counted job (d_kind Error) (finished s).
  Proof.
    intros Hr Ht.
    repeat split.
    - apply (totals_count state job effect st_processed d_processed eq_refl) with (n := n) (jobs := jobs) (t0 := t0) (es := es); try assumption.
      + intros a b. rewrite stats_add_all_fields. reflexivity.
      + apply one_processed.
    - apply (totals_count state job effect st_replaced (d_kind Replaced) eq_refl) with (n := n) (jobs := jobs) (t0 := t0) (es := es); try assumption.
      + intros a b. rewrite stats_add_all_fields. reflexivity.
      + apply one_replaced.
    - apply (totals_count state job effect st_rewritten (d_kind Rewritten) eq_refl) with (n := n) (jobs := jobs) (t0 := t0) (es := es); try assumption.
      + intros a b. rewrite stats_add_all_fields. reflexivity.
      + apply one_rewritten.
    - apply (totals_count state job effect st_mis (d_kind BadFormat) eq_refl) with (n := n) (jobs := jobs) (t0 := t0) (es := es); try assumption.
      + intros a b. rewrite stats_add_all_fields. reflexivity.
      + apply one_mis.
    - apply (totals_count state job effect st_errors (d_kind Error) eq_refl) with (n := n) (jobs := jobs) (t0 := t0) (es := es); try assumption.
      + intros a b. rewrite stats_add_all_fields. reflexivity.
      + apply one_errors.
  Qed.

  (* the sums do not depend on the order in which the jobs finished *)
  Lemma counted_perm delta l l' : Permutation l l' -> counted job delta l = counted job delta l'.
  Proof.
    induction 1 as [|x l l' _ IH|x y l|l l' l'' _ IH1 _ IH2]; cbn [counted fold_right]; try fold (counted job delta l) in *;
      try fold (counted job delta l') in *.
    - reflexivity.
    - unfold counted in *. cbn [fold_right]. rewrite IH. reflexivity.
    - unfold counted. cbn [fold_right]. lia.
    - congruence.
  Qed.

  (* ... hence, with jobs that do not interfere, they are the serial run's counters *)
  Theorem parallel_totals_serial n jobs t0 es s delta :
    NoDup jobs -> (forall a b, In a jobs -> In b jobs -> a <> b -> commute state job effect a b) ->
    run (init n jobs t0) es = Some s -> terminal s ->
    counted job delta (finished s) = counted job delta (snd (serial state job effect jobs t0)).
  Proof.
    intros Hnd Hc Hr Ht. apply counted_perm.
    destruct (parallel_equals_serial state job effect n jobs t0 es s Hnd Hc Hr Ht) as [_ P]. exact P.
  Qed.
End Totals.

(* ---------- an executable instance for validating observed schedules (correspondence check of C11) ---------- *)
(* jobs are numbered in the order the controller sent them; the "tree" is the list of finished jobs *)
Definition log_effect (j : nat) (t : list nat) : list nat * presult := (j :: t, Replaced).

Definition terminalb (s : sys (list nat) nat) : bool :=
  match queue _ _ s with [] => forallb (fun w => match w_busy _ w with None => true | Some _ => false end) (workers _ _ s) | _ => false end.

(* Some (terminal?, jobs in the order they finished, number of results handed in, total processed) when every
   event of the observed schedule is enabled in the model; None when the model cannot take some step *)
Definition multi_replay (n : nat) (njobs : nat) (es : list event) : option (bool * list nat * nat * N) :=
  match run (list nat) nat log_effect (init (list nat) nat n (seq 0 njobs) []) es with
  | Some s => Some (terminalb s, rev (tree _ _ s), length (results _ _ s), st_processed (totals _ _ s))
  | None => None
  end.
