(* C14 — the summary is truthful and untouched files really are untouched. *)
From AD Require Import Bytes Outcome Gen Fs Helper HelperProofs Config ConfigProofs Walk WalkProofs Rewrite.

(* Stats::add_one (arms regenerated from mod.rs): after any sequence of results, processed = #Noop + replaced +
   rewritten + unsupported + errors, and each counter is the number of results of its class *)
Theorem C14_partition : forall l,
  let s := fold_left add_one l stats0 in
  st_processed s = count Noop l + st_replaced s + st_rewritten s + st_mis s + st_errors s /\
  st_replaced s = count Replaced l /\ st_rewritten s = count Rewritten l /\
  st_mis s = count BadFormat l /\ st_errors s = count Error l.
Proof. exact stats_partition. Qed.

(* the controller adds the workers' statistics field by field: the partition carries over *)
Theorem C14_parallel_sum : forall a b na nb,
  st_processed a = na + st_replaced a + st_rewritten a + st_mis a + st_errors a ->
  st_processed b = nb + st_replaced b + st_rewritten b + st_mis b + st_errors b ->
  st_processed (stats_add a b) = (na + nb) + st_replaced (stats_add a b) + st_rewritten (stats_add a b) + st_mis (stats_add a b) + st_errors (stats_add a b).
Proof. exact stats_add_partition. Qed.

(* one result is counted per regular entry; temp-named entries are not counted; directories and
   non-regular files only bump the scan counters *)
Theorem C14_one_count_per_entry : forall e fault m prof hs w p w',
  process_entry e fault m prof hs w p = Some w' ->
  (w_stats w' = w_stats w) \/ (w_stats w' = bump_dirs (w_stats w)) \/ (w_stats w' = bump_files (w_stats w)) \/
  (w_stats w' = add_one (w_stats w) Error) \/ (exists c, w_stats w' = add_one (bump_files (w_stats w)) c).
Proof. exact entry_counts. Qed.

(* Replaced => the path names a NEW inode (number >= every number in use before) with the new content *)
Theorem C14_replaced_new_inode : forall e fault prof eager handler p f0 ip meta,
  names f0 p = Some ip -> inodes f0 ip = Some meta -> i_nlink meta = 1 ->
  ip < next_ino f0 -> names f0 (tmp_path p) <> Some ip ->
  snd (run_handler e fault Real prof eager handler p (init_sim f0)) = Some Replaced ->
  exists y, handler (i_data meta) = Ok (y, true) /\
            committed e meta f0 p (tmp_path p) y (s_fs (fst (run_handler e fault Real prof eager handler p (init_sim f0)))).
Proof. exact replaced_committed. Qed.

(* anything else (Noop, unsupported, error, panic) => the single-link file is not rewritten at all:
   same inode number, same inode (content, mode, owner, mtime) *)
Theorem C14_not_replaced_untouched : forall e fault prof eager handler p f0 ip meta,
  names f0 p = Some ip -> inodes f0 ip = Some meta -> i_nlink meta = 1 ->
  ip < next_ino f0 -> names f0 (tmp_path p) <> Some ip ->
  snd (run_handler e fault Real prof eager handler p (init_sim f0)) <> Some Replaced ->
  obs (s_fs (fst (run_handler e fault Real prof eager handler p (init_sim f0)))) p = obs f0 p.
Proof.
  intros e fault prof eager handler p f0 ip meta Hp Hi Hn Hlt Hnt Hr.
  destruct (not_replaced_untouched e fault prof eager handler p f0 ip meta Hp Hi Hn Hlt Hnt Hr) as [Hc _].
  apply (pre_commit_untouched f0 p _ ip Hp Hlt Hnt Hc).
Qed.

(* the totals of a parallel run: every counter of every worker is added (list of `self.f += other.f` lines
   regenerated from Stats::add) *)
Theorem C14_merge_all_counters : forall a b,
  stats_add a b = mk_stats (st_dirs a + st_dirs b) (st_files a + st_files b) (st_processed a + st_processed b) (st_replaced a + st_replaced b)
                           (st_rewritten a + st_rewritten b) (st_mis a + st_mis b) (st_errors a + st_errors b).
Proof. exact stats_add_all_fields. Qed.

(* a file with several hard links (fault-free run, handler output y): the result is Rewritten, the path still
   names the SAME inode, which now holds y with the original mode, owner and link count and the original mtime
   put back; every other name and every other pre-existing inode is as before, the temporary name is gone *)
Theorem C14_rewritten_same_inode : forall e prof eager handler p f0 ip meta y,
  names f0 p = Some ip -> inodes f0 ip = Some meta -> i_nlink meta <> 1 ->
  ip < next_ino f0 -> names f0 (tmp_path p) = None ->
  handler (i_data meta) = Ok (y, true) ->
  let r := run_handler e None Real prof eager handler p (init_sim f0) in
  let f' := s_fs (fst r) in
  snd r = Some Rewritten /\
  names f' p = Some ip /\ names f' (tmp_path p) = None /\
  (forall q, q <> tmp_path p -> names f' q = names f0 q) /\
  inodes f' ip = Some (with_mtime (i_mtime meta) (with_data y meta)) /\
  (forall j, j <> ip -> j < next_ino f0 -> inodes f' j = inodes f0 j).
Proof. exact rewritten_in_place. Qed.

(* obligation on the regenerated variant order of ProcessResult: Ignored < Noop < Replaced < Rewritten <
   BadFormat < Error, and merging two results keeps the greater - an error outranks everything *)
Theorem C14_result_order :
  presult_order = map presult_name [Ignored; Noop; Replaced; Rewritten; BadFormat; Error] /\
  forall a b, presult_rank (presult_max a b) = N.max (presult_rank a) (presult_rank b).
Proof. exact presult_order_as_modelled. Qed.

Print Assumptions C14_partition.
Print Assumptions C14_parallel_sum.
Print Assumptions C14_one_count_per_entry.
Print Assumptions C14_replaced_new_inode.
Print Assumptions C14_not_replaced_untouched.
Print Assumptions C14_merge_all_counters.
Print Assumptions C14_rewritten_same_inode.
Print Assumptions C14_result_order.
