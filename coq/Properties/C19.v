(* C19 — a failing file-system call never corrupts files (single-link files). *)
From AD Require Import Bytes Outcome Fs Helper HelperProofs.

(* [fault = Some (k, errno)] makes the k-th operation of the run fail with errno (the state is then
   unchanged by that operation).  For every k and errno, every handler result and shape: every state,
   the final one included, is either pre-commit (file entirely original, see C12_precommit_is_original)
   or the committed state produced by the rename. *)
Theorem C19_fault_atomic : forall e k er prof eager handler p f0 ip meta,
  names f0 p = Some ip -> inodes f0 ip = Some meta -> i_nlink meta = 1 ->
  ip < next_ino f0 -> names f0 (tmp_path p) <> Some ip ->
  atomic_hist e f0 p (tmp_path p) (s_hist (fst (run_handler e (Some (k, er)) Real prof eager handler p (init_sim f0)))).
Proof. intros e k er. exact (real_atomic e (Some (k, er))). Qed.

(* and if the run nevertheless reports Replaced, the committed state is complete (a refused chown is the
   tolerated case: owner stays the caller's) *)
Theorem C19_replaced_is_complete : forall e k er prof eager handler p f0 ip meta,
  names f0 p = Some ip -> inodes f0 ip = Some meta -> i_nlink meta = 1 ->
  ip < next_ino f0 -> names f0 (tmp_path p) <> Some ip ->
  snd (run_handler e (Some (k, er)) Real prof eager handler p (init_sim f0)) = Some Replaced ->
  exists y, handler (i_data meta) = Ok (y, true) /\
            committed e meta f0 p (tmp_path p) y (s_fs (fst (run_handler e (Some (k, er)) Real prof eager handler p (init_sim f0)))).
Proof. intros e k er. exact (replaced_committed e (Some (k, er))). Qed.

Print Assumptions C19_fault_atomic.
Print Assumptions C19_replaced_is_complete.
