(* C19 — a failing file-system call never corrupts files (single-link files). *)
From AD Require Import Bytes Outcome Gen Fs Helper HelperProofs Cleanup Config Walk NoPanic.

(* [fault = Some (k, errno)] makes the k-th operation of the run fail with errno (the state is then
   unchanged by that operation).  For every k and errno, every handler result and shape: every state,
   the final one included, is either pre-commit (file entirely original, see C12_precommit_is_original)
   or the committed state produced by the rename. *)
Theorem C19_fault_atomic : forall e k er prof eager handler p f0 ip meta,
  names f0 p = Some ip -> inodes f0 ip = Some meta -> i_nlink meta = 1 ->
  ip < next_ino f0 -> names f0 (tmp_path p) <> Some ip ->
  atomic_hist e f0 p (tmp_path p) (s_hist (fst (run_handler e (Some (k, er)) Real prof eager handler p (init_sim f0)))).
Proof. intros e k er. exact (real_atomic e (Some (k, er))). Qed.

(* and if the run nevertheless reports Replaced, the committed state is complete (a refused chown is the
   tolerated case: owner stays the caller's) *)
Theorem C19_replaced_is_complete : forall e k er prof eager handler p f0 ip meta,
  names f0 p = Some ip -> inodes f0 ip = Some meta -> i_nlink meta = 1 ->
  ip < next_ino f0 -> names f0 (tmp_path p) <> Some ip ->
  snd (run_handler e (Some (k, er)) Real prof eager handler p (init_sim f0)) = Some Replaced ->
  exists y, handler (i_data meta) = Ok (y, true) /\
            committed e meta f0 p (tmp_path p) y (s_fs (fst (run_handler e (Some (k, er)) Real prof eager handler p (init_sim f0)))).
Proof. intros e k er. exact (replaced_committed e (Some (k, er))). Qed.

(* the temporary file does not stay behind: whatever operation fails (k and errno arbitrary, natural failures
   included), at the end the temporary name is unbound - or the removal itself is among the failed calls *)
Theorem C19_temp_removed : forall e fault p prof eager handler f0,
  names f0 (tmp_path p) = None -> p <> tmp_path p ->
  snd (run_handler e fault Real prof eager handler p (init_sim f0)) <> None ->
  tidy p (fst (run_handler e fault Real prof eager handler p (init_sim f0))).
Proof. exact temp_removed. Qed.

(* the failure is reported: a run whose result is not Error met no failed operation other than the ones the tool
   only logs (removal of the temporary file, a chown refused with EPERM/EACCES, EEXIST on the first creation of
   the temporary file) - so any other failing call makes the result Error, which Stats::add_one counts *)
Theorem C19_failure_reported : forall e fault p prof eager handler f0 c,
  snd (run_handler e fault Real prof eager handler p (init_sim f0)) = Some c -> c <> Error ->
  quiet (fst (run_handler e fault Real prof eager handler p (init_sim f0))).
Proof. exact failure_reported. Qed.

(* and the remaining files are still processed: with handlers that do not panic the walk visits every entry,
   whatever fails *)
Theorem C19_walk_continues : forall e fault m prof hs, (forall h, In h hs -> forall x, hd_fun h x <> Panic) ->
  forall entries w, walk e fault m prof hs w entries <> None.
Proof. exact walk_total. Qed.

Print Assumptions C19_fault_atomic.
Print Assumptions C19_replaced_is_complete.
Print Assumptions C19_temp_removed.
Print Assumptions C19_failure_reported.
Print Assumptions C19_walk_continues.
