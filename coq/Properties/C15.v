(* C15 — output depends only on content, epoch and options, not on the environment.

   The byte-level models (gzip_process, ar_process, javadoc_process, pyc_process, zip_process) are Gallina
   functions of the file's content, the epoch and, for zip, the file's own mtime: the time zone, locale, umask,
   current directory, location, name, verbosity, wall clock, pid and hash seed are not among their arguments.
   That the implementation computes these functions in every environment is what the correspondence part of
   the check establishes.  The theorems below cover the places where the code touches something
   environment-dependent: per-process hash-map iteration order, date conversions, and the mode of the
   temporary file (umask).  Property theorems only: each is closed by `exact <lemma>`. *)
From Coq Require Import Permutation.
From AD Require Import Bytes Outcome Gen Date Zip ZipProofs Order Fs Helper HelperProofs Javadoc JavadocProofs JavadocVariants.

(* obligation on the regenerated tables: add_ref_flags sorts the keys of the hash map by offset before it
   numbers them; fix_refs writes bytes [offset+1, offset+5) *)
Theorem C15_sorted_by_offset : pyc_flags_sorted_by_field = Some 0%nat /\ pyc_ref_patch_lo = 1%nat /\ pyc_ref_patch_hi = 5%nat.
Proof. repeat split; reflexivity. Qed.

(* whatever order the hash map yields its entries in, the same objects are flagged and get the same numbers *)
Theorem C15_flags_order_independent : forall l l',
  Permutation l l' -> NoDup (map fst l) -> add_ref_flags l = add_ref_flags l'.
Proof. exact add_ref_flags_order_independent. Qed.

(* whatever order the pending references are patched in, the same buffer results *)
Theorem C15_refs_order_independent : forall l l', Permutation l l' ->
  forall buf, Forall (in_range buf) l -> pairwise_disjoint l -> fix_refs l buf = fix_refs l' buf.
Proof. exact fix_refs_order_independent. Qed.

(* the DOS words of the epoch are a function of the epoch alone and read back as the epoch rounded down to
   2 s in UTC, for every epoch the zip handler accepts *)
Theorem C15_dos_utc : forall epoch, (dos_min <= epoch <= dos_max)%Z ->
  exists d t, dos_of_unix epoch = Some (d, t) /\ dos_to_unix d t = Some (epoch - epoch mod 2)%Z /\ d < 65536 /\ t < 65536.
Proof. exact dos_of_unix_spec. Qed.

(* the date written into javadoc tags is the civil date of floor(epoch / 86400) days after 1970-01-01, i.e. UTC *)
Theorem C15_javadoc_date_utc : forall e d, date_of_unix e = Some d -> d = civil_from_days (e / 86400).
Proof. exact date_of_unix_utc. Qed.

(* the replaced file carries the original's 12-bit mode and mtime in every environment - the environment
   record e (umask, uid, gid, chown capability, clock) is universally quantified *)
Theorem C15_mode_not_umask : forall e fault prof eager handler p f0 ip meta,
  names f0 p = Some ip -> inodes f0 ip = Some meta -> i_nlink meta = 1 ->
  ip < next_ino f0 -> names f0 (tmp_path p) <> Some ip ->
  snd (run_handler e fault Real prof eager handler p (init_sim f0)) = Some Replaced ->
  exists y, handler (i_data meta) = Ok (y, true) /\
            committed e meta f0 p (tmp_path p) y (s_fs (fst (run_handler e fault Real prof eager handler p (init_sim f0)))).
Proof. exact replaced_committed. Qed.

(* non-vacuity: three entries in two different iteration orders *)
Example C15_example : add_ref_flags [(40, 2); (7, 0); (19, 1)]%nat = add_ref_flags [(19, 1); (40, 2); (7, 0)]%nat
                      /\ add_ref_flags [(40, 2); (7, 0); (19, 1)]%nat = [(19, 0); (40, 1)]%nat.
Proof. split; reflexivity. Qed.

Print Assumptions C15_sorted_by_offset.
Print Assumptions C15_flags_order_independent.
Print Assumptions C15_refs_order_independent.
Print Assumptions C15_dos_utc.
Print Assumptions C15_javadoc_date_utc.
Print Assumptions C15_mode_not_umask.
Print Assumptions C15_example.
