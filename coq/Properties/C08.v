(* C08 — arbitrary file content is harmless.
   In the models every place where the Rust code could panic is an explicit Panic outcome (never totalised);
   the theorems say that outcome is unreachable, for every byte string. *)
From AD Require Import Bytes Outcome Gen Gzip Ar ArProofs PycHeader Marshal Pyc PycProofs Date Javadoc
     Fs Helper HelperProofs Config Walk NoPanic.

Theorem C08_gzip_total : forall e x, gzip_process e x <> Panic.
Proof. exact gzip_never_panics. Qed.

Theorem C08_ar_total : forall epoch x, epoch_ok epoch -> ar_process epoch x <> Panic.
Proof. exact ar_never_panics. Qed.

Theorem C08_javadoc_total : forall e x, javadoc_process e x <> Panic.
Proof. exact javadoc_never_panics. Qed.

Theorem C08_pyc_total : forall x, pyc_process x <> Panic.
Proof. exact pyc_process_never_panics. Qed.

Theorem C08_pyc_zero_mtime_total : forall x, pyc_zero_mtime x <> Panic.
Proof. exact pyc_zero_mtime_never_panics. Qed.

(* the marshal reader itself: any version, any fuel, any depth, any reference table *)
Theorem C08_reader_total : forall ver fuel depth rest r, parse ver fuel depth rest r <> Panic.
Proof. exact parse_never_panics. Qed.

(* nesting is bounded by the regenerated limit (the reader refuses deeper input instead of recursing) *)
Theorem C08_depth_limit : forall ver fuel depth rest r, (pyc_max_depth <= depth)%nat -> parse ver (S fuel) depth rest r = Bad.
Proof. intros ver fuel depth rest r H. cbn [parse]. destruct (Nat.leb_spec pyc_max_depth depth); [reflexivity | lia]. Qed.

(* the run of a handler ends without a result (the process died) only if the handler's own code panicked *)
Theorem C08_only_handler_panics_kill : forall e fault m prof eager handler p s,
  snd (run_handler e fault m prof eager handler p s) = None -> exists x, handler x = Panic.
Proof. exact run_handler_none. Qed.

(* hence, with handlers that never panic, the walk processes and counts every entry: a bad file never stops it *)
Theorem C08_walk_continues : forall e fault m prof hs,
  (forall h, In h hs -> forall x, hd_fun h x <> Panic) ->
  forall entries w, walk e fault m prof hs w entries <> None.
Proof. exact walk_total. Qed.

(* a file that is not reported Replaced — rejected, failed, or simply clean — is byte-for-byte and
   metadata-identical afterwards (single-link files; any handler, any single fault) *)
Theorem C08_bad_files_intact : forall e fault prof eager handler p f0 ip meta,
  names f0 p = Some ip -> inodes f0 ip = Some meta -> i_nlink meta = 1 ->
  ip < next_ino f0 -> names f0 (tmp_path p) <> Some ip ->
  snd (run_handler e fault Real prof eager handler p (init_sim f0)) <> Some Replaced ->
  obs (s_fs (fst (run_handler e fault Real prof eager handler p (init_sim f0)))) p = obs f0 p.
Proof.
  intros e fault prof eager handler p f0 ip meta Hp Hi Hn Hlt Hnt Hr.
  destruct (not_replaced_untouched e fault prof eager handler p f0 ip meta Hp Hi Hn Hlt Hnt Hr) as [Hc _].
  apply (pre_commit_untouched f0 p _ ip Hp Hlt Hnt Hc).
Qed.

(* Hang: termination is free in Gallina, so time is read off the size of the dereferenced tree, which the
   writer's structural hashing and equality walk over.  The full statement "cost is polynomial in the file
   size" is FALSE of the faithful model: a reference DAG of 12k+22 bytes dereferences to a tree of about 2^(k+3)
   nodes (recorded finding F9; instances below, the implementation is timed by the check). *)
Definition expo_dag (k : nat) : bytes :=
  [203; 13; 13; 10; 0; 0; 0; 0; 0; 0; 0; 0; 0; 0; 0; 0] ++ [41; N.of_nat (S k)] ++ [169; 2; 78; 78] ++
  flat_map (fun i => [169; 2] ++ [114] ++ le_encode 4 (N.of_nat i) ++ [114] ++ le_encode 4 (N.of_nat i)) (seq 0 k).
Definition expo_tree_size (k : nat) : option N :=
  match parse (3, 12) (S (length (expo_dag k))) 0 (skipn 16 (expo_dag k)) [] with
  | Ok (v, _, _) => Some (tree_size v)
  | _ => None
  end.
Theorem C08_cost_refuted :
  map (fun k => (length (expo_dag k), expo_tree_size k)) [1; 2; 4; 8; 12]%nat =
    [(34%nat, Some 11); (46%nat, Some 26); (70%nat, Some 120); (118%nat, Some 2036); (166%nat, Some 32752)].
Proof. vm_compute. reflexivity. Qed.

Print Assumptions C08_gzip_total.
Print Assumptions C08_ar_total.
Print Assumptions C08_javadoc_total.
Print Assumptions C08_pyc_total.
Print Assumptions C08_pyc_zero_mtime_total.
Print Assumptions C08_reader_total.
Print Assumptions C08_depth_limit.
Print Assumptions C08_only_handler_panics_kill.
Print Assumptions C08_walk_continues.
Print Assumptions C08_bad_files_intact.
Print Assumptions C08_cost_refuted.
