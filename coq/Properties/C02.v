(* C02 — a rewritten .pyc unmarshals to the same object tree for its Python version.

   Model: Marshal.parse (the reader, with the reference table, depth limit and the per-version code-object
   layout regenerated from pyc.rs) and Pyc.to_buffer (the writer with structural de-duplication; flags and
   reference numbers assigned in stream order).

   Full statement aimed at (C02_roundtrip):
       forall ver v, in_domain v -> decode ver (to_buffer (code_layout ver) v) = Ok v
   where decode follows CPython's rules.  Proved so far are the parts below; until the round trip is closed in
   Coq it is decided by the differential run plus the independent CPython-rules decoder (lib/pymarshal.py),
   and the property is reported as partial in MANIFEST.json. *)
From AD Require Import Bytes Outcome Gen PycHeader PycHeaderProofs Marshal Pyc PycProofs PycRefs.

(* the header is copied verbatim *)
Theorem C02_header_unchanged_partial : forall x y hm ver hl,
  pyc_process x = Ok (y, hm) -> pyc_header x = Ok (ver, hl) -> firstn hl y = firstn hl x /\ (hl <= length x)%nat.
Proof. exact pyc_header_unchanged. Qed.

(* the output is a function of the header and of the object tree the reader builds — not of where the input
   carried reference flags or back-references *)
Theorem C02_output_depends_on_tree_only_partial : forall x x' ver hl v rest r rest' r',
  pyc_header x = Ok (ver, hl) -> pyc_header x' = Ok (ver, hl) -> firstn hl x = firstn hl x' ->
  ver_ltb ver pyc_skip_below = false ->
  parse ver (S (length (skipn hl x))) 0 (skipn hl x) [] = Ok (v, rest, r) ->
  parse ver (S (length (skipn hl x'))) 0 (skipn hl x') [] = Ok (v, rest', r') ->
  exists y hm hm', pyc_process x = Ok (y, hm) /\ pyc_process x' = Ok (y, hm').
Proof. exact pyc_same_tree_same_bytes. Qed.

(* no dangling, forward or "from within" reference: in the stream the writer produces for ANY object tree, every
   reference token is preceded by the start of the very object it refers to ... *)
Theorem C02_refs_point_back_partial : forall layout v pre k post,
  toks_of layout v = pre ++ TRef k :: post -> exists c, In (TStart k c) pre.
Proof. exact refs_point_back. Qed.

(* ... that object carries the reference flag, and the index written after 'r' is its position in the table of
   flagged objects written so far: the lookup the reader performs (nth_N, as in Marshal.parse) yields that object *)
Theorem C02_refs_resolve_partial : forall layout v pre k post,
  let toks := toks_of layout v in
  let refd := refd_of toks in
  toks = pre ++ TRef k :: post ->
  let T := flagged pre refd in
  index_in k T 0 < N.of_nat (length T) /\ nth_N T (index_in k T 0) = Some k /\
  to_buffer layout v = render pre refd [] ++ pyc_code_ref :: le_encode 4 (index_in k T 0) ++ render post refd T.
Proof. exact refs_resolve. Qed.

(* the de-duplication key of the writer is structural equality *)
Theorem C02_writer_equality : forall a b, veqb a b = true <-> a = b.
Proof. intros a b. split; [apply veqb_true | intros ->; apply veqb_refl]. Qed.

(* interpreters whose marshal format has no reference flag (Python < 3.4) never see a rewritten file *)
Theorem C02_old_versions_untouched : forall x ver hl,
  pyc_header x = Ok (ver, hl) -> ver_ltb ver pyc_skip_below = true -> pyc_process x = Ok (x, false).
Proof. exact pyc_old_untouched. Qed.

Theorem C02_skip_bound : pyc_skip_below = (3, 4).
Proof. reflexivity. Qed.

(* non-vacuity: a 3.12 payload (None, 'ab'-flagged-but-never-referenced, ('ab', 'ab') with a back-reference)
   comes out with the unused flag dropped and the equal strings shared *)
Example C02_example :
  let hdr := [203; 13; 13; 10; 0; 0; 0; 0; 0; 0; 0; 0; 0; 0; 0; 0] in
  pyc_process (hdr ++ [41; 3; 78; 218; 2; 97; 98; 41; 2; 218; 2; 97; 98; 114; 1; 0; 0; 0]) =
    Ok (hdr ++ [41; 3; 78; 218; 2; 97; 98; 41; 2; 114; 0; 0; 0; 0; 114; 0; 0; 0; 0], true).
Proof. vm_compute. reflexivity. Qed.

(* the regenerated magic-number table classifies the first and last magic of every release series as CPython's
   history does (version and header length): in particular 3230 is Python 3.3 and 3250 is 3.4, 3379 has a
   12-byte and 3390 a 16-byte header *)
Theorem C02_release_magics : forallb release_row_ok release_magics = true.
Proof. exact release_magics_classified. Qed.

Print Assumptions C02_header_unchanged_partial.
Print Assumptions C02_output_depends_on_tree_only_partial.
Print Assumptions C02_refs_point_back_partial.
Print Assumptions C02_refs_resolve_partial.
Print Assumptions C02_writer_equality.
Print Assumptions C02_old_versions_untouched.
Print Assumptions C02_skip_bound.
Print Assumptions C02_example.
Print Assumptions C02_release_magics.
