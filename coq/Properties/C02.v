(* C02 — a rewritten .pyc unmarshals to the same object tree for its Python version.

   Model: Marshal.parse (the reader, with the reference table, depth limit and the per-version code-object
   layout regenerated from pyc.rs) and Pyc.to_buffer (the writer with structural de-duplication; flags and
   reference numbers assigned in stream order).

   Full statement (C02_roundtrip, C02_rewritten_file_rereads): for every version and every object tree in the
   domain, reading what the writer produced gives the tree back, references included; the rewritten file has
   the input's header and its payload is read as the tree the input was read as.  The domain is stated as
   hypotheses: the tree has the shape the reader produces (wfb: known type codes, 4/8/16-byte scalars, short
   strings shorter than 256, dict keys that are not NULL, a code object with the fields of its version), its
   nesting stays within the reader's limit, and the output is shorter than 4 GiB (reference numbers and
   lengths are 32-bit).  The reader here is the tool's own, as modelled; that it follows CPython's rules is not
   a theorem: it is decided by the differential run against the independent CPython-rules decoder
   (lib/pymarshal.py) and the implementation. *)
From AD Require Import Bytes Outcome Gen PycHeader PycHeaderProofs Marshal Pyc PycProofs PycRefs PycLong PycRoundTrip.

(* the header is copied verbatim *)
Theorem C02_header_unchanged_partial : forall x y hm ver hl,
  pyc_process x = Ok (y, hm) -> pyc_header x = Ok (ver, hl) -> firstn hl y = firstn hl x /\ (hl <= length x)%nat.
Proof. exact pyc_header_unchanged. Qed.

(* the output is a function of the header and of the object tree the reader builds — not of where the input
   carried reference flags or back-references *)
Theorem C02_output_depends_on_tree_only_partial : forall x x' ver hl v rest r rest' r',
  pyc_header x = Ok (ver, hl) -> pyc_header x' = Ok (ver, hl) -> firstn hl x = firstn hl x' ->
  ver_ltb ver pyc_skip_below = false ->
  parse ver (S (length (skipn hl x))) 0 (skipn hl x) [] = Ok (v, rest, r) ->
  parse ver (S (length (skipn hl x'))) 0 (skipn hl x') [] = Ok (v, rest', r') ->
  exists y hm hm', pyc_process x = Ok (y, hm) /\ pyc_process x' = Ok (y, hm').
Proof. exact pyc_same_tree_same_bytes. Qed.

(* no dangling, forward or "from within" reference: in the stream the writer produces for ANY object tree, every
   reference token is preceded by the start of the very object it refers to ... *)
Theorem C02_refs_point_back_partial : forall layout v pre k post,
  toks_of layout v = pre ++ TRef k :: post -> exists c, In (TStart k c) pre.
Proof. exact refs_point_back. Qed.

(* ... that object carries the reference flag, and the index written after 'r' is its position in the table of
   flagged objects written so far: the lookup the reader performs (nth_N, as in Marshal.parse) yields that object *)
Theorem C02_refs_resolve_partial : forall layout v pre k post,
  let toks := toks_of layout v in
  let refd := refd_of toks in
  toks = pre ++ TRef k :: post ->
  let T := flagged pre refd in
  index_in k T 0 < N.of_nat (length T) /\ nth_N T (index_in k T 0) = Some k /\
  to_buffer layout v = render pre refd [] ++ pyc_code_ref :: le_encode 4 (index_in k T 0) ++ render post refd T.
Proof. exact refs_resolve. Qed.

(* the round trip: for every version, every tree in the domain and whatever follows it in the stream, the
   reader returns the tree the writer was given and stops exactly at its end *)
Theorem C02_roundtrip : forall ver v rest f,
  wfb (code_layout ver) v = true -> (vdepth v <= pyc_max_depth)%nat ->
  (length (to_buffer (code_layout ver) v) < f)%nat -> N.of_nat (length (to_buffer (code_layout ver) v)) < 4294967296 ->
  exists r, parse ver f 0 (to_buffer (code_layout ver) v ++ rest) [] = Ok (v, rest, r).
Proof. exact to_buffer_roundtrip. Qed.

(* end to end through the handler: same header, the payload reads back as the same tree with nothing left over,
   and the handler finds nothing to change in its own output *)
Theorem C02_rewritten_file_rereads : forall x y hm ver hl v rest0 r0,
  pyc_process x = Ok (y, hm) -> pyc_header x = Ok (ver, hl) -> ver_ltb ver pyc_skip_below = false ->
  parse ver (S (length (skipn hl x))) 0 (skipn hl x) [] = Ok (v, rest0, r0) ->
  wfb (code_layout ver) v = true -> (vdepth v <= pyc_max_depth)%nat -> N.of_nat (length y) < 4294967296 ->
  pyc_header y = Ok (ver, hl) /\
  (exists r, parse ver (S (length (skipn hl y))) 0 (skipn hl y) [] = Ok (v, [], r)) /\
  pyc_process y = Ok (y, false).
Proof. exact pyc_reread. Qed.

(* the executable domain predicate the correspondence check runs on every sampled file: when it reports an
   input inside the domain of C02_rewritten_file_rereads, the re-read it computes succeeds *)
Theorem C02_domain_predicate_sound : forall x rr, pyc_domain x = Some (true, rr) -> rr = true.
Proof. exact pyc_domain_sound. Qed.

(* integers of arbitrary size: digit count, sign and base-2^15 digits survive *)
Theorem C02_long_roundtrip : forall ver layout z rest f,
  long_ndigits z < 2147483648 -> (N.to_nat (long_ndigits z) <= f)%nat ->
  parse ver (S f) 0 (to_buffer layout (VLong z) ++ rest) [] = Ok (VLong z, rest, []).
Proof. exact long_value_roundtrip. Qed.

(* non-vacuity of the domain: a 3.12 tree with a code object, a dict, a slice, a big integer and strings that
   occur several times (so that the writer emits flags and back-references) meets the hypotheses of
   C02_roundtrip *)
Definition C02_sample : value :=
  let s := VStr 90 [97; 98] in
  let objs := [VStr 115 [100; 0; 83; 0]; VSeq 40 [VSingle 78; s; VLong (- 1234567890123456789012345)]; VSeq 40 [s]; VSeq 40 []; s; s; s;
               VStr 115 []; VStr 115 []; VStr 115 [1; 2]] in
  VSeq 40 [VCode [[0;0;0;0]; [0;0;0;0]; [0;0;0;0]; [1;0;0;0]; [3;0;0;0]; [1;0;0;0]] objs;
           VDict [s; VSlice (VInt [1;0;0;0]) (VSingle 78) s; VFloat [0;0;0;0;0;0;240;63]; VSeq 91 [s; VSingle 84]];
           VSeq 60 [VComplex [0;0;0;0;0;0;0;0;0;0;0;0;0;0;240;63]]].
Example C02_sample_in_domain :
  let lay := code_layout (3, 12) in
  wfb lay C02_sample = true /\ (vdepth C02_sample <= pyc_max_depth)%nat /\
  N.of_nat (length (to_buffer lay C02_sample)) < 4294967296 /\
  (2 <= length (refd_of (toks_of lay C02_sample)))%nat /\
  parse (3, 12) (S (length (to_buffer lay C02_sample))) 0 (to_buffer lay C02_sample) [] =
    Ok (C02_sample, [], map Some (flagged (toks_of lay C02_sample) (refd_of (toks_of lay C02_sample)))).
Proof.
  cbv zeta. split; [vm_compute; reflexivity|]. split; [apply Nat.leb_le; vm_compute; reflexivity|].
  split; [vm_compute; reflexivity|]. split; [apply Nat.leb_le; vm_compute; reflexivity|]. vm_compute. reflexivity.
Qed.

(* the de-duplication key of the writer is structural equality *)
Theorem C02_writer_equality : forall a b, veqb a b = true <-> a = b.
Proof. intros a b. split; [apply veqb_true | intros ->; apply veqb_refl]. Qed.

(* interpreters whose marshal format has no reference flag (Python < 3.4) never see a rewritten file *)
Theorem C02_old_versions_untouched : forall x ver hl,
  pyc_header x = Ok (ver, hl) -> ver_ltb ver pyc_skip_below = true -> pyc_process x = Ok (x, false).
Proof. exact pyc_old_untouched. Qed.

Theorem C02_skip_bound : pyc_skip_below = (3, 4).
Proof. reflexivity. Qed.

(* non-vacuity: a 3.12 payload (None, 'ab'-flagged-but-never-referenced, ('ab', 'ab') with a back-reference)
   comes out with the unused flag dropped and the equal strings shared *)
Example C02_example :
  let hdr := [203; 13; 13; 10; 0; 0; 0; 0; 0; 0; 0; 0; 0; 0; 0; 0] in
  pyc_process (hdr ++ [41; 3; 78; 218; 2; 97; 98; 41; 2; 218; 2; 97; 98; 114; 1; 0; 0; 0]) =
    Ok (hdr ++ [41; 3; 78; 218; 2; 97; 98; 41; 2; 114; 0; 0; 0; 0; 114; 0; 0; 0; 0], true).
Proof. vm_compute. reflexivity. Qed.

(* the regenerated magic-number table classifies the first and last magic of every release series as CPython's
   history does (version and header length): in particular 3230 is Python 3.3 and 3250 is 3.4, 3379 has a
   12-byte and 3390 a 16-byte header *)
Theorem C02_release_magics : forallb release_row_ok release_magics = true.
Proof. exact release_magics_classified. Qed.

Print Assumptions C02_header_unchanged_partial.
Print Assumptions C02_output_depends_on_tree_only_partial.
Print Assumptions C02_refs_point_back_partial.
Print Assumptions C02_refs_resolve_partial.
Print Assumptions C02_roundtrip.
Print Assumptions C02_rewritten_file_rereads.
Print Assumptions C02_domain_predicate_sound.
Print Assumptions C02_long_roundtrip.
Print Assumptions C02_sample_in_domain.
Print Assumptions C02_writer_equality.
Print Assumptions C02_old_versions_untouched.
Print Assumptions C02_skip_bound.
Print Assumptions C02_example.
Print Assumptions C02_release_magics.
