(* C13 — only matching regular files under the given paths can change. *)
From AD Require Import Bytes Outcome Gen Fs Helper HelperProofs Config Walk WalkProofs Brp.

(* For every walk (any list of entries in any order, any handler list, any mode, any single fault):
   a name q that is neither a matching, non-temp-named entry nor the hidden temp name of one is bound
   after the walk exactly as before — no directory entry is added, removed or re-pointed elsewhere. *)
Theorem C13_names_frame : forall e fault m prof hs entries w w' q,
  walk e fault m prof hs w entries = Some w' ->
  ~ may_touch hs entries q ->
  names (s_fs (w_sim w')) q = names (s_fs (w_sim w)) q.
Proof. exact walk_names_frame. Qed.

(* entries that are temp-named, not regular files (symlinks, directories, FIFOs, sockets, devices), or whose
   extension selects no enabled handler do not cause a single operation: the simulation state, including the
   trace of issued operations, is unchanged — special files are never opened, symlinks never followed *)
Theorem C13_skipped_entries_inert : forall e fault m prof hs w p w',
  process_entry e fault m prof hs w p = Some w' ->
  (is_tmp_name (basename p) = true \/
   (forall ino nd, obs (s_fs (w_sim w)) p = Some (ino, nd) -> i_kind nd <> KReg) \/
   forallb (fun h => negb (hfilter h p)) hs = true) ->
  w_sim w' = w_sim w.
Proof. exact skipped_entries_inert. Qed.

(* one handler on one matching file, real mode, any link count, any result, any single fault: beyond the names,
   every inode that existed before — other than the file's own and a stale temp file's — is unchanged *)
Theorem C13_run_frame : forall e fault prof eager handler p f0 ip meta,
  names f0 p = Some ip -> inodes f0 ip = Some meta -> ip < next_ino f0 -> names f0 (tmp_path p) <> Some ip ->
  frame_inv f0 p (tmp_path p) ip (s_fs (fst (run_handler e fault Real prof eager handler p (init_sim f0)))).
Proof. exact run_frame. Qed.

(* --brp: unset, empty or root $RPM_BUILD_ROOT aborts; a passing check means every argument lies under it *)
Theorem C13_brp_unset : forall args, brp_check true None args = false.
Proof. exact brp_unset. Qed.
Theorem C13_brp_empty : forall args, brp_check true (Some []) args = false.
Proof. exact brp_empty. Qed.
Theorem C13_brp_root : forall args,
  brp_check true (Some [47]) args = false /\
  brp_check true (Some [47; 47; 47; 46; 47; 47; 47]) args = false /\
  brp_check true (Some [47; 46]) args = false.
Proof. exact brp_root_spellings. Qed.
Theorem C13_brp_pass : forall args r,
  brp_check true r args = true ->
  exists root, r = Some root /\ root <> [] /\ comps_eqb (components root) [CRoot] = false /\
               forall a, In a args -> comps_prefix (components root) (components a) = true.
Proof. exact brp_pass_means. Qed.

(* obligation on the source order of process_entry (regenerated): the tool's own temporary names are skipped
   before the entry is stat'ed, as Walk.process_entry assumes - a temporary file of a worker may vanish at any time *)
Theorem C13_tmp_test_before_stat : walk_tmp_test_before_stat = true.
Proof. reflexivity. Qed.

Print Assumptions C13_names_frame.
Print Assumptions C13_skipped_entries_inert.
Print Assumptions C13_run_frame.
Print Assumptions C13_brp_unset.
Print Assumptions C13_brp_empty.
Print Assumptions C13_brp_root.
Print Assumptions C13_brp_pass.
Print Assumptions C13_tmp_test_before_stat.
