(* C05 — gzip payload and framing are preserved; only the header MTIME is clamped.
   Property theorems only: each is closed by `exact <lemma>`; statements are pinned by `Check`. *)
From AD Require Import Bytes Outcome Gen Gzip GzipSpec GzipProofs.

(* obligation on the regenerated tables: the code reads and writes the RFC 1952 MTIME field,
   little endian, after a 10-byte header with the RFC magic, and keeps files with MTIME <= epoch *)
Theorem C05_layout : gzip_layout_ok = true.
Proof. exact gzip_layout. Qed.

(* the output is the input with bytes 4..8 replaced by min(MTIME, epoch); same length;
   "modified" is reported iff MTIME was later than the epoch, and then only *)
Theorem C05_frame : forall epoch x y hm,
  bytes_ok x ->
  gzip_process epoch x = Ok (y, hm) ->
  y = firstn 4 x ++ le_encode 4 (N.min (gz_mtime x) epoch) ++ skipn 8 x /\
  (hm = true <-> epoch < gz_mtime x) /\
  (hm = false -> y = x) /\
  length y = length x /\
  (10 <= length x)%nat /\ firstn 2 x = [31; 139].
Proof. exact gzip_frame. Qed.

Theorem C05_no_other_byte : forall epoch x y hm i d,
  bytes_ok x -> gzip_process epoch x = Ok (y, hm) -> (i < 4 \/ 8 <= i)%nat -> nth i y d = nth i x d.
Proof. exact gzip_outside. Qed.

Theorem C05_mtime_is_min : forall epoch x y hm,
  bytes_ok x -> epoch < 2 ^ 32 -> gzip_process epoch x = Ok (y, hm) ->
  gz_mtime y = N.min (gz_mtime x) epoch.
Proof. exact gzip_mtime_out. Qed.

(* every RFC 1952 header field (CM, FLG, XFL, OS, FEXTRA, FNAME, FCOMMENT, stored CRC16) and
   everything after the header (deflate data, trailer, further members) reads back identically *)
Theorem C05_header_fields : forall epoch x y hm h,
  bytes_ok x -> epoch < 2 ^ 32 ->
  gzip_process epoch x = Ok (y, hm) ->
  gz_parse x = Some h ->
  gz_parse y = Some (set_mtime h (N.min (h_mtime h) epoch)) /\ h_mtime h = gz_mtime x.
Proof. exact gzip_header_preserved. Qed.

(* decoder acceptance, outside the recorded defect class (FHCRC set and MTIME later than the epoch) *)
Theorem C05_accept : forall epoch x y hm,
  bytes_ok x -> epoch < 2 ^ 32 ->
  gzip_process epoch x = Ok (y, hm) ->
  ~ Known_C05_hcrc epoch x ->
  gz_accepts x -> gz_accepts y.
Proof. exact gzip_accept_preserved. Qed.

(* the full statement (without the exclusion) is false of the faithful model: witness *)
Theorem C05_hcrc_refuted :
  exists epoch x y, bytes_ok x /\ gz_accepts x /\ gzip_process epoch x = Ok (y, true) /\ ~ hcrc_ok y /\
                    Known_C05_hcrc epoch x.
Proof. exact gzip_hcrc_refuted. Qed.

(* non-vacuity *)
Theorem C05_example :
  bytes_ok gz_example /\ gz_accepts gz_example /\ ~ Known_C05_hcrc 1000 gz_example /\
  exists y, gzip_process 1000 gz_example = Ok (y, true) /\ gz_mtime y = 1000.
Proof. exact gz_example_runs. Qed.

Print Assumptions C05_layout.
Print Assumptions C05_frame.
Print Assumptions C05_no_other_byte.
Print Assumptions C05_mtime_is_min.
Print Assumptions C05_header_fields.
Print Assumptions C05_accept.
Print Assumptions C05_hcrc_refuted.
Print Assumptions C05_example.
