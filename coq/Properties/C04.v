(* C04 — ar members are preserved; mtime is clamped and owner/group zeroed.
   Property theorems only (closed by `exact`), about the model Ar.ar_process whose tables are
   regenerated from ar.rs, against the independent specification ArSpec. *)
From AD Require Import Bytes Outcome Gen Ar ArSpec ArProofs.

(* obligation on the regenerated tables: slice ranges, integer types, operators, widths *)
Theorem C04_layout : ar_layout_ok = true.
Proof. exact ar_layout. Qed.

(* the specification's reader and renderer are inverse: a member list accounts for every byte *)
Theorem C04_members_account_for_all_bytes : forall x ms, ar_members x = Some ms -> ar_render ms = x.
Proof. exact ar_members_render. Qed.

(* Whenever the handler returns normally: the input was a well-formed archive ms; the output is the
   archive whose members are exactly the normalised ones (same global magic, same member order, same
   data and padding bytes, headers normalised); it reads back as such; same length; and
   "modified" is reported iff some byte differs. *)
Theorem C04_ar : forall epoch x y hm,
  epoch_ok epoch ->
  ar_process epoch x = Ok (y, hm) ->
  exists ms, ar_members x = Some ms /\ ar_members y = Some (map (norm_member epoch) ms) /\
             x = ar_render ms /\ y = ar_render (map (norm_member epoch) ms) /\
             length y = length x /\
             (hm = false <-> y = x).
Proof. exact ar_output_members. Qed.

(* what normalisation does to one 60-byte header: name, mode, size and header magic bytes are
   never touched, the long-name table header is untouched altogether, the mtime bytes change only
   when clamped, the id bytes only when one of them is non-zero *)
Theorem C04_header_fields : forall epoch h,
  length h = 60%nat -> fmt_ok epoch ->
  f_name (norm_hdr epoch h) = f_name h /\
  f_mode (norm_hdr epoch h) = f_mode h /\
  f_size (norm_hdr epoch h) = f_size h /\
  f_magic (norm_hdr epoch h) = f_magic h /\
  (is_longnames h = true -> norm_hdr epoch h = h) /\
  (is_longnames h = false ->
     f_mtime (norm_hdr epoch h) = (if clamp_needed epoch h then fmt_left_pad 12 (Z.to_N (match epoch with Some e => e | None => 0%Z end)) else f_mtime h) /\
     f_uid (norm_hdr epoch h) = (if owner_needed h then zero_field else f_uid h) /\
     f_gid (norm_hdr epoch h) = (if owner_needed h then zero_field else f_gid h)).
Proof. exact norm_hdr_fields. Qed.

(* numerically: a clamped timestamp reads back as the epoch (so mtime' = min(mtime, epoch)),
   zeroed ids read back as 0 *)
Theorem C04_mtime_is_epoch_when_later : forall e h,
  length h = 60%nat -> (0 <= e < 10 ^ 12)%Z -> is_longnames h = false ->
  clamp_needed (Some e) h = true ->
  num_mtime (norm_hdr (Some e) h) = Some e.
Proof. exact num_mtime_clamped. Qed.

Theorem C04_owner_zero : forall epoch h,
  length h = 60%nat -> epoch_ok epoch -> is_longnames h = false -> owner_needed h = true ->
  num_uid (norm_hdr epoch h) = Some 0 /\ num_gid (norm_hdr epoch h) = Some 0.
Proof. exact num_owner_zeroed. Qed.

(* for epochs of 13 or more digits no 12-column timestamp can be later, so the length-mismatch
   panic of copy_from_slice is unreachable is NOT needed as a hypothesis: epoch_ok is only used for
   the numeric statements; the refinement itself holds for every epoch *)
Theorem C04_refines_any_epoch : forall epoch x y hm,
  ar_process epoch x = Ok (y, hm) ->
  exists ms, ar_members x = Some ms /\
             y = ar_render (map (norm_member epoch) ms) /\
             hm = existsb (member_changes epoch) ms /\
             length y = length x.
Proof. exact ar_refines. Qed.

(* non-vacuity: a GNU-style archive with a symbol table, a long-name table carrying odd ids,
   an odd-sized member later than the epoch with uid 0 / gid 7, an old member owned by root *)
Definition sp (n : nat) : bytes := repeat 32 n.
Definition hdr_of (name mtime uid gid mode size : bytes) : bytes :=
  name ++ sp (16 - length name) ++ mtime ++ sp (12 - length mtime) ++ uid ++ sp (6 - length uid) ++
  gid ++ sp (6 - length gid) ++ mode ++ sp (8 - length mode) ++ size ++ sp (10 - length size) ++ [96; 10].
Definition C04_example_archive : bytes :=
  sp_magic ++
  hdr_of [47] [49; 48; 48] [48] [48] [48] [52] ++ [0; 0; 0; 0] ++
  hdr_of [47; 47] [53; 48; 48; 48] [51] [52] [] [50] ++ [97; 10] ++
  hdr_of [97; 46; 111; 47] [50; 48; 48; 48] [48] [55] [54; 52; 52] [51] ++ [1; 2; 3; 10] ++
  hdr_of [98; 46; 111; 47] [57; 57] [48] [48] [54; 52; 52] [48].

Theorem C04_example :
  exists y ms, ar_process (Some 1000%Z) C04_example_archive = Ok (y, true) /\
               ar_members C04_example_archive = Some ms /\ length ms = 4%nat /\
               map (fun m => num_mtime (m_hdr m)) (map (norm_member (Some 1000%Z)) ms)
                 = [Some 100%Z; Some 5000%Z; Some 1000%Z; Some 99%Z] /\
               map (fun m => num_gid (m_hdr m)) (map (norm_member (Some 1000%Z)) ms) = [Some 0; Some 4; Some 0; Some 0].
Proof. eexists. eexists. split; [vm_compute; reflexivity|]. split; [vm_compute; reflexivity|]. vm_compute. auto. Qed.

Print Assumptions C04_layout.
Print Assumptions C04_members_account_for_all_bytes.
Print Assumptions C04_ar.
Print Assumptions C04_header_fields.
Print Assumptions C04_mtime_is_epoch_when_later.
Print Assumptions C04_owner_zero.
Print Assumptions C04_refines_any_epoch.
Print Assumptions C04_example.
