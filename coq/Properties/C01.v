(* C01 — files differing only in build-time metadata normalise to identical bytes.
   Property theorems only: each is closed by `exact <lemma>`.

   For each format the "variant" relation says what the perturbation of the nondeterministic fields is;
   the theorem then gives byte-identical outputs.  gzip with FHCRC is the recorded finding F6 (a gzip writer
   stores a CRC16 of the header, MTIME included, and the handler does not recompute it): the relation below
   perturbs MTIME only. *)
From AD Require Import Bytes Outcome Gen Gzip GzipProofs Ar ArSpec ArProofs Date Zip ZipProofs Variants
     PycHeader PycHeaderProofs Marshal Pyc PycProofs Javadoc JavadocProofs JavadocVariants.

(* gzip: same length, same bytes outside the MTIME field, both MTIMEs later than the epoch *)
Theorem C01_gzip : forall epoch x x' y y' hm hm',
  bytes_ok x -> bytes_ok x' -> gz_variant x x' ->
  epoch < gz_mtime x -> epoch < gz_mtime x' ->
  gzip_process epoch x = Ok (y, hm) -> gzip_process epoch x' = Ok (y', hm') ->
  y = y' /\ hm = true /\ hm' = true.
Proof. exact gzip_variants_equal. Qed.

(* ar: member by member the same data and, outside the long-name table, headers that agree on name, mode,
   size and terminator, with timestamps later than the epoch and owner ids as an archiver writes them
   (hdr_variant); any number of members *)
Theorem C01_ar_header : forall e h h', (0 <= e < 10 ^ 12)%Z -> hdr_variant e h h' -> norm_hdr (Some e) h = norm_hdr (Some e) h'.
Proof. exact ar_hdr_variants. Qed.

Theorem C01_ar : forall e x x' y y' hm hm' ms ms',
  (0 <= e < 10 ^ 12)%Z ->
  ar_members x = Some ms -> ar_members x' = Some ms' -> Forall2 (member_variant e) ms ms' ->
  ar_process (Some e) x = Ok (y, hm) -> ar_process (Some e) x' = Ok (y', hm') -> y = y'.
Proof. exact ar_variants. Qed.

(* zip/jar: extra fields (extended timestamps, Unix ids) and the version of the creating tool never reach
   the output; members that agree on everything but a time later than the epoch are written identically,
   hence so are archives made of such members *)
Theorem C01_zip_extra_fields : forall x e lo ex, copy_entry x (with_extra e lo ex) = copy_entry x e.
Proof. exact zip_extra_ignored. Qed.

Theorem C01_zip_member : forall epoch de o o', zout_variant epoch o o' ->
  fst (clamp_member epoch de o) = fst (clamp_member epoch de o').
Proof. exact zip_member_variants. Qed.

Theorem C01_zip : forall init mt mt' x x' y y' hm hm' es es' outs outs',
  zip_read x = Some es -> zip_read x' = Some es' -> copy_all x es = Ok outs -> copy_all x' es' = Ok outs' ->
  Forall2 (zout_variant (fst init)) outs outs' ->
  zip_process init mt x = Some (Ok (y, hm)) -> zip_process init mt' x' = Some (Ok (y', hm')) -> y = y'.
Proof. exact zip_variants. Qed.

(* javadoc: what is written for a header line depends on the line only through its stamp-stripped form;
   the version/date text of the stamp (any text without '>') does not survive, whatever precedes it without
   a '<' and whatever follows; a date / dc.created tag at the start of a line gets the epoch's date whatever
   later date it carried *)
Theorem C01_javadoc_stamp : forall epoch pre v v' rest,
  ~ In 60 pre -> v <> [] -> v' <> [] -> ~ In 62 v -> ~ In 62 v' ->
  line_out epoch (pre ++ stamp_head ++ [32] ++ v ++ stamp_tail ++ rest) =
  line_out epoch (pre ++ stamp_head ++ [32] ++ v' ++ stamp_tail ++ rest).
Proof. exact javadoc_stamp_variants. Qed.

Theorem C01_javadoc_meta : forall d nm v v' dd dd' after,
  (nm = meta_date \/ nm = meta_dcc) ->
  v <> [] -> ~ In 34 v -> parse_ymd v = Some dd -> date_ltb d dd = true ->
  v' <> [] -> ~ In 34 v' -> parse_ymd v' = Some dd' -> date_ltb d dd' = true ->
  meta_rewrite d ((meta_a ++ nm ++ meta_b) ++ v ++ 34 :: 62 :: after) =
  meta_rewrite d ((meta_a ++ nm ++ meta_b) ++ v' ++ 34 :: 62 :: after).
Proof. exact javadoc_meta_variants. Qed.

(* whole documents: variants whose lines are indistinguishable for the loop inside the header window (doc_var:
   same validity, terminator, written text, "changed" and end-of-header verdicts) and identical after it are
   rewritten to the same bytes *)
Theorem C01_javadoc_document : forall epoch x x' y hm y' hm',
  doc_var epoch true 0 (split_lines x []) (split_lines x' []) ->
  javadoc_process epoch x = Ok (y, hm) -> javadoc_process epoch x' = Ok (y', hm') -> hm = true -> y = y' /\ hm' = true.
Proof. exact javadoc_variants. Qed.

(* pyc: same header, payloads that the reader turns into the same object tree - wherever reference flags
   and back-references were placed - give the same bytes *)
Theorem C01_pyc : forall x x' ver hl v rest r rest' r',
  pyc_header x = Ok (ver, hl) -> pyc_header x' = Ok (ver, hl) -> firstn hl x = firstn hl x' ->
  ver_ltb ver pyc_skip_below = false ->
  parse ver (S (length (skipn hl x))) 0 (skipn hl x) [] = Ok (v, rest, r) ->
  parse ver (S (length (skipn hl x'))) 0 (skipn hl x') [] = Ok (v, rest', r') ->
  exists y hm hm', pyc_process x = Ok (y, hm) /\ pyc_process x' = Ok (y, hm').
Proof. exact pyc_same_tree_same_bytes. Qed.

(* non-vacuity: two ar headers of one member built by different users at different times *)
Example C01_ar_example :
  let h  := [109;46;111;47;32;32;32;32;32;32;32;32;32;32;32;32] ++ [49;55;48;48;48;48;48;48;48;48;32;32] ++ [49;48;48;48;32;32] ++ [48;32;32;32;32;32] ++
            [49;48;48;54;52;52;32;32] ++ [52;32;32;32;32;32;32;32;32;32] ++ [96;10] in
  let h' := [109;46;111;47;32;32;32;32;32;32;32;32;32;32;32;32] ++ [49;54;57;57;57;57;57;57;57;57;32;32] ++ [48;32;32;32;32;32] ++ [52;50;53;32;32;32] ++
            [49;48;48;54;52;52;32;32] ++ [52;32;32;32;32;32;32;32;32;32] ++ [96;10] in
  norm_hdr (Some 1600000000%Z) h = norm_hdr (Some 1600000000%Z) h' /\ h <> h'.
Proof. split; [vm_compute; reflexivity | discriminate]. Qed.

Print Assumptions C01_gzip.
Print Assumptions C01_ar_header.
Print Assumptions C01_ar.
Print Assumptions C01_zip_extra_fields.
Print Assumptions C01_zip_member.
Print Assumptions C01_zip.
Print Assumptions C01_javadoc_stamp.
Print Assumptions C01_javadoc_meta.
Print Assumptions C01_javadoc_document.
Print Assumptions C01_pyc.
Print Assumptions C01_ar_example.
