(* C18 — pyc-zero-mtime zeroes only the header timestamp, only on request. *)
From Coq Require Import String.
From AD Require Import Bytes Outcome Gen PycHeader PycHeaderProofs Config ConfigProofs.

(* obligation on the regenerated magic table and offsets *)
Theorem C18_layout : pyc_layout_ok = true.
Proof. exact pyc_layout. Qed.

(* whenever the handler returns normally: the header was recognised (ver, hl), the timestamp field
   [mtime_off ver, +4) lies inside the header, the length is unchanged, NO byte outside that field changes,
   hash-based files (PEP 552) are never modified, "modified" is reported iff the file is timestamp-based
   with a non-zero field, and afterwards the field is 0 *)
Theorem C18_timestamp : forall x y hm,
  pyc_zero_mtime x = Ok (y, hm) ->
  exists ver hl, pyc_header x = Ok (ver, hl) /\ (mtime_off ver + 4 <= hl <= length x)%nat /\
    length y = length x /\
    (forall i d, (i < mtime_off ver \/ mtime_off ver + 4 <= i)%nat -> nth i y d = nth i x d) /\
    (hm = false -> y = x) /\
    (hash_based ver x = true -> hm = false) /\
    (hm = true <-> (hash_based ver x = false /\ read_long_at (mtime_off ver) x <> 0)) /\
    (hash_based ver x = false -> read_long_at (mtime_off ver) y = 0).
Proof. exact zero_mtime_spec. Qed.

Theorem C18_idempotent : forall x y hm, pyc_zero_mtime x = Ok (y, hm) -> pyc_zero_mtime y = Ok (y, false).
Proof. exact zero_mtime_idempotent. Qed.

(* never runs unless requested: not in the default selection (table regenerated from HANDLERS) *)
Open Scope string_scope.
Theorem C18_default_off : requested_handlers [] = Some (["ar"; "jar"; "javadoc"; "gzip"; "pyc"; "zip"], false).
Proof. exact default_selection. Qed.

(* the regenerated magic-number table classifies the first and last magic of every release series as CPython's
   history does (version and header length): in particular 3230 is Python 3.3 and 3250 is 3.4, 3379 has a
   12-byte and 3390 a 16-byte header *)
Theorem C18_release_magics : forallb release_row_ok release_magics = true.
Proof. exact release_magics_classified. Qed.

Print Assumptions C18_layout.
Print Assumptions C18_timestamp.
Print Assumptions C18_idempotent.
Print Assumptions C18_default_off.
Print Assumptions C18_release_magics.
