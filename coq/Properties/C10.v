(* C10 — --check changes nothing. *)
From AD Require Import Bytes Outcome Fs Helper HelperProofs Rewrite Cleanup CheckPredicts Config Walk CheckWalk.

(* In check mode, for every handler result (including errors and panics), every handler shape, both
   profiles and any single failing operation: the file system after the run IS the file system before,
   so is every intermediate state, and every operation issued is a non-mutating one (opens and fstat). *)
Theorem C10_readonly : forall e fault prof eager handler p s f0,
  ro_inv f0 s -> ro_inv f0 (fst (run_handler e fault Check prof eager handler p s)).
Proof. exact check_readonly. Qed.

Theorem C10_readonly_from_start : forall e fault prof eager handler p f0,
  let s := fst (run_handler e fault Check prof eager handler p (init_sim f0)) in
  s_fs s = f0 /\ Forall (eq f0) (s_hist s) /\ Forall (fun x => is_mutating (fst x) = false) (s_trace s).
Proof.
  intros e fault prof eager handler p f0 s.
  assert (H0 : ro_inv f0 (init_sim f0)) by (split; [reflexivity | split; [constructor; [reflexivity | constructor] | constructor]]).
  destruct (check_readonly e fault prof eager handler p _ f0 H0) as (A & B & C).
  split; [exact A|]. split; [exact B|].
  eapply Forall_impl; [|exact C]. intros x Hx. unfold readonly_op in Hx. destruct (is_mutating (fst x)); [discriminate | reflexivity].
Qed.

(* --check predicts the real run: for one file, absent failures and without a stale temporary file, the
   result reported in check mode (unchanged / replaced / rewritten / unsupported / error / panic) is the result
   a real run reports - for every handler result, link count, shape and profile *)
Theorem C10_predicts_real : forall e prof eager handler p f0 ip meta,
  names f0 p = Some ip -> inodes f0 ip = Some meta -> ip < next_ino f0 -> names f0 (tmp_path p) = None ->
  snd (run_handler e None Check prof eager handler p (init_sim f0)) = snd (run_handler e None Real prof eager handler p (init_sim f0)).
Proof. exact check_predicts_real. Qed.

(* a whole walk in check mode: whatever the entries, handlers, results and failures, the tree at the end and at
   every moment in between IS the tree at the start, and only non-mutating operations were issued *)
Theorem C10_walk_unchanged : forall e fault prof hs f0 entries w',
  walk e fault Check prof hs (init_wstate f0) entries = Some w' ->
  s_fs (w_sim w') = f0 /\ Forall (eq f0) (s_hist (w_sim w')) /\ Forall (fun x => readonly_op (fst x) = true) (s_trace (w_sim w')).
Proof. exact walk_check_unchanged. Qed.

Print Assumptions C10_readonly.
Print Assumptions C10_readonly_from_start.
Print Assumptions C10_predicts_real.
Print Assumptions C10_walk_unchanged.
