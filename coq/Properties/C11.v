(* C11 — -jN gives exactly the serial result for every tree, worker count and schedule.

   Model (Multi.v): the job socket is a FIFO queue holding one message per job followed by one quit message per
   worker; an arbitrary list of events (which worker receives next, which worker finishes its job next) is the
   schedule.  The theorems hold for every number of workers, every job list and EVERY schedule.
   Property theorems only: each is closed by `exact <lemma>`. *)
From Coq Require Import Permutation.
From AD Require Import Bytes Outcome Gen Config ConfigProofs Multi MultiProofs MultiFiles.

Section C11.
  Variable state job : Type.
  Variable effect : job -> state -> state * presult.       (* one job processed on its own *)

  (* a run that comes to an end has processed every job exactly once; the tree is what processing them one
     after the other - in the order they finished - gives; all n workers have exited and handed in a result *)
  Theorem C11_every_job_once : forall n jobs t0 es s,
    run state job effect (init state job n jobs t0) es = Some s -> terminal state job s ->
    Permutation jobs (map fst (finished state job s)) /\
    serial state job effect (map fst (finished state job s)) t0 = (tree state job s, finished state job s) /\
    length (results state job s) = n /\ Forall (fun w => w_done job w = true) (workers state job s).
  Proof. exact (completed_run state job effect). Qed.

  (* no schedule can get stuck before the end (at least one worker), and none is longer than
     2 * messages: the run terminates with every worker's result accounted for *)
  Theorem C11_no_deadlock : forall n jobs t0 es s, (0 < n)%nat ->
    run state job effect (init state job n jobs t0) es = Some s -> ~ terminal state job s ->
    exists e s', step state job effect s e = Some s'.
  Proof. exact (progress state job effect). Qed.

  Theorem C11_terminates : forall es s s',
    run state job effect s es = Some s' -> (length es + measure state job s' <= measure state job s)%nat.
  Proof. exact (run_bounded state job effect). Qed.

  (* with jobs that do not interfere (different inodes: C13), whatever the schedule and the worker count the
     final tree is the serial run's and the per-job results are the serial run's *)
  Theorem C11_parallel_equals_serial : forall n jobs t0 es s,
    NoDup jobs -> (forall a b, In a jobs -> In b jobs -> a <> b -> commute state job effect a b) ->
    run state job effect (init state job n jobs t0) es = Some s -> terminal state job s ->
    tree state job s = fst (serial state job effect jobs t0) /\
    Permutation (finished state job s) (snd (serial state job effect jobs t0)).
  Proof. exact (parallel_equals_serial state job effect). Qed.

  (* the totals the controller prints are the sums over all processed jobs, however they were spread over the
     workers (Stats::add and Stats::add_one regenerated from the source) *)
  Theorem C11_totals : forall n jobs t0 es s,
    run state job effect (init state job n jobs t0) es = Some s -> terminal state job s ->
    st_processed (totals state job s) = counted job d_processed (finished state job s) /\
    st_replaced (totals state job s) = counted job (d_kind Replaced) (finished state job s) /\
    st_rewritten (totals state job s) = counted job (d_kind Rewritten) (finished state job s) /\
    st_mis (totals state job s) = counted job (d_kind BadFormat) (finished state job s) /\
    st_errors (totals state job s) = counted job (d_kind Error) (finished state job s).
  Proof. exact (parallel_totals state job effect). Qed.

  Theorem C11_totals_as_serial : forall n jobs t0 es s delta,
    NoDup jobs -> (forall a b, In a jobs -> In b jobs -> a <> b -> commute state job effect a b) ->
    run state job effect (init state job n jobs t0) es = Some s -> terminal state job s ->
    counted job delta (finished state job s) = counted job delta (snd (serial state job effect jobs t0)).
  Proof. exact (parallel_totals_serial state job effect). Qed.
End C11.

(* the hypothesis of C11_parallel_equals_serial discharged for the jobs the tool has: the tree as the list of its files, job j =
   one byte-level handler (ANY function of the file's bytes) applied to file j, reading and writing that entry only.  Jobs on
   different files commute, hence for every handler, worker count, list of distinct jobs and schedule the files end up as after
   the serial run and every file gets the serial run's result *)
Theorem C11_files_parallel_equals_serial : forall h n jobs t0 es s,
  NoDup jobs -> run (list bytes) nat (file_effect h) (init (list bytes) nat n jobs t0) es = Some s -> terminal (list bytes) nat s ->
  tree (list bytes) nat s = fst (serial (list bytes) nat (file_effect h) jobs t0) /\
  Permutation (finished (list bytes) nat s) (snd (serial (list bytes) nat (file_effect h) jobs t0)).
Proof. exact files_parallel_equals_serial. Qed.

(* non-vacuity: three jobs, two workers, an interleaved schedule runs to completion *)
Example C11_example :
  multi_replay 2 3 [Recv 0; Recv 1; Finish 1; Recv 1; Finish 0; Finish 1; Recv 0; Recv 1]%nat = Some (true, [1; 0; 2]%nat, 2%nat, 3).
Proof. vm_compute. reflexivity. Qed.

(* obligation on the source order of process_entry (regenerated): the tool's own temporary names are skipped
   before the entry is stat'ed, as Walk.process_entry assumes - a temporary file of a worker may vanish at any time *)
Theorem C11_tmp_test_before_stat : walk_tmp_test_before_stat = true.
Proof. reflexivity. Qed.

Print Assumptions C11_every_job_once.
Print Assumptions C11_no_deadlock.
Print Assumptions C11_terminates.
Print Assumptions C11_parallel_equals_serial.
Print Assumptions C11_totals.
Print Assumptions C11_totals_as_serial.
Print Assumptions C11_example.
Print Assumptions C11_tmp_test_before_stat.
Print Assumptions C11_files_parallel_equals_serial.
