(* C12 — a kill at any instant leaves every single-link file old-or-new.
   The run of one handler on one file is a program over the abstract file system (Fs.v, Helper.v);
   [s_hist] is the list of ALL file-system states the run goes through (one per issued operation),
   so a statement about every element of s_hist is a statement about every kill point. *)
From AD Require Import Bytes Outcome Fs Helper HelperProofs Rewrite Cleanup CheckPredicts Rerun.

(* every intermediate state is a pre-commit state, except possibly one last state produced by
   rename(tmp, p) from a pre-commit state; holds for every handler result (also errors and panics),
   every handler shape, both profiles, and with any single operation failing *)
Theorem C12_atomic : forall e fault prof eager handler p f0 ip meta,
  names f0 p = Some ip -> inodes f0 ip = Some meta -> i_nlink meta = 1 ->
  ip < next_ino f0 -> names f0 (tmp_path p) <> Some ip ->
  atomic_hist e f0 p (tmp_path p) (s_hist (fst (run_handler e fault Real prof eager handler p (init_sim f0)))).
Proof. exact real_atomic. Qed.

(* pre-commit = entirely original: the path names the same inode with the same content and metadata,
   and every name other than the hidden temporary one is bound as before *)
Theorem C12_precommit_is_original : forall f0 p f ip,
  names f0 p = Some ip -> ip < next_ino f0 -> names f0 (tmp_path p) <> Some ip ->
  pre_commit f0 (tmp_path p) f ->
  obs f p = obs f0 p /\ (forall q, q <> tmp_path p -> names f q = names f0 q).
Proof. exact pre_commit_untouched. Qed.

(* post-commit = entirely final: content, mode, mtime (and owner as far as permitted) together *)
Theorem C12_commit_is_final : forall e meta f0 p fo y f,
  p <> tmp_path p -> pre_commit f0 (tmp_path p) f -> next_ino f0 <= fo ->
  tmpinfo e meta f (tmp_path p) fo (Some y) (Some (i_mode meta)) (Some (i_mtime meta)) ->
  snd (apply_op e f (ORename (tmp_path p) p)) = None /\
  committed e meta f0 p (tmp_path p) y (fst (apply_op e f (ORename (tmp_path p) p))).
Proof. intros e meta f0 p fo y f. exact (rename_commits e meta f0 p (tmp_path p) fo y f). Qed.

Theorem C12_tmp_name_is_not_the_file : forall p, tmp_path p <> p.
Proof. exact tmp_path_neq. Qed.

(* the rerun converges: from ANY pre-commit state - that is, from the tree a kill at any instant before the
   switch leaves behind, whatever temporary file is still there - a run that meets no failure reports Replaced
   and leaves the file in exactly its final state (content, mode, mtime, owner as far as permitted; temporary
   name gone; every other name as it was) *)
Theorem C12_rerun_converges : forall e p prof eager handler f0 ip meta y f,
  names f0 p = Some ip -> inodes f0 ip = Some meta -> i_nlink meta = 1 ->
  ip < next_ino f0 -> names f0 (tmp_path p) <> Some ip ->
  handler (i_data meta) = Ok (y, true) ->
  pre_commit f0 (tmp_path p) f ->
  snd (run_handler e None Real prof eager handler p (init_sim f)) = Some Replaced /\
  committed e meta f p (tmp_path p) y (s_fs (fst (run_handler e None Real prof eager handler p (init_sim f)))).
Proof. exact rerun_converges. Qed.

Print Assumptions C12_atomic.
Print Assumptions C12_precommit_is_original.
Print Assumptions C12_commit_is_final.
Print Assumptions C12_tmp_name_is_not_the_file.
Print Assumptions C12_rerun_converges.
