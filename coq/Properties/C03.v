(* C03 — zip/jar members survive the rewrite and timestamps are exactly clamped.
   Property theorems only: each is closed by `exact <lemma>`. *)
From AD Require Import Bytes Outcome Gen Date Cp437 Zip ZipProofs ZipRoundTrip ZipEndToEnd.

(* obligation on the regenerated tables: magics, patch offsets (local +10, central +12 and +38, shift 16),
   time word before date word, comparison operators and the size heuristic are those the model uses *)
Theorem C03_layout : zip_layout_ok = true.
Proof. exact zip_layout. Qed.

(* the seek-and-overwrite patches land exactly on the time/date words of the local header, of the central
   header, and on the external attributes: patching at the regenerated offsets = writing the record with
   the new value, for every member *)
Theorem C03_local_patch : forall o t d,
  splice zip_local_time_off (le_encode 2 t ++ le_encode 2 d) (local_record o) = local_record (with_time o t d).
Proof. exact local_patch. Qed.
Theorem C03_central_patch : forall o hs t d,
  splice zip_central_time_off (le_encode 2 t ++ le_encode 2 d) (central_record o hs) = central_record (with_time o t d) hs.
Proof. exact central_patch_time. Qed.
Theorem C03_ext_patch : forall o hs ext,
  splice zip_ext_off (le_encode 4 ext) (central_record o hs) = central_record (with_ext o ext) hs.
Proof. exact central_patch_ext. Qed.

(* for every epoch within the DOS range the conversion succeeds and the two words read back as the epoch
   rounded down to the 2-second grid, in UTC (no zone or locale enters the computation) *)
Theorem C03_epoch_rounding : forall epoch, (dos_min <= epoch <= dos_max)%Z ->
  exists d t, dos_of_unix epoch = Some (d, t) /\ dos_to_unix d t = Some (epoch - epoch mod 2)%Z /\ d < 65536 /\ t < 65536.
Proof. exact dos_of_unix_spec. Qed.

(* a member keeps name, method, CRC, sizes, attributes and data; its time is unchanged when not later than
   the epoch, and otherwise becomes the DOS epoch - the same pair of words goes into both header copies
   because both records are written from the one clamped member *)
Theorem C03_clamp : forall epoch de o o' b, clamp_member epoch de o = (o', b) ->
  zo_name o' = zo_name o /\ zo_method o' = zo_method o /\ zo_crc o' = zo_crc o /\ zo_csize o' = zo_csize o /\
  zo_usize o' = zo_usize o /\ zo_ext o' = zo_ext o /\ zo_data o' = zo_data o /\
  match dos_to_unix (zo_date o) (zo_time o) with
  | Some t => if (epoch <? t)%Z then b = true /\ zo_date o' = fst de /\ zo_time o' = snd de
              else b = false /\ o' = o
  | None => b = false /\ o' = o
  end.
Proof. exact clamp_member_spec. Qed.

(* the output is the freshly written archive of the clamped members, in index order, one per input entry *)
Theorem C03_process : forall init mt x y hm, zip_process init mt x = Some (Ok (y, hm)) ->
  exists es outs,
    zip_read x = Some es /\ copy_all x es = Ok outs /\
    y = zip_write (map (fun o => fst (clamp_member (fst init) (snd init) o)) outs) /\
    hm = (existsb (fun o => snd (clamp_member (fst init) (snd init) o)) outs ||
          ((fst init * 1000000000 <? mt)%Z && negb (N.of_nat (length y) =? N.of_nat (length x))))%bool.
Proof. exact zip_process_ok. Qed.

Theorem C03_member_count : forall x es outs, copy_all x es = Ok outs -> length outs = length es.
Proof. exact copy_all_length. Qed.

(* what each written member takes from the central entry of the input *)
Theorem C03_member_fields : forall x e o, copy_entry x e = Ok o ->
  zo_method o = ze_method e /\ zo_time o = ze_time e /\ zo_date o = ze_date e /\ zo_crc o = ze_crc e /\
  zo_csize o = ze_csize e /\ zo_usize o = ze_usize e /\
  zo_name o = (if N.testbit (ze_flags e) 11 then ze_name_raw e else cp437_to_utf8 (ze_name_raw e)) /\
  (ze_method e = 0 \/ ze_method e = 8) /\
  zo_ext o = match unix_mode e with Some m => (m * 65536) mod 4294967296 | None => 33188 * 65536 end /\
  exists lh, sub_bytes (ze_offset e) 30 x = Some lh /\
     zo_data o = sub_upto (ze_offset e + 30 + u16 (skipn 26 lh) + u16 (skipn 28 lh)) (ze_csize e) x /\
     N.of_nat (length (zo_data o)) = ze_csize e.
Proof. exact copy_entry_fields. Qed.

(* the archive the writer produces is a valid archive for the reader and holds exactly the members written:
   same number and order, and copying them out again gives the same names, methods, times, CRCs, sizes and
   data (attributes as raw_copy_file re-derives them: renorm).  Side conditions: every field fits its width
   (wf_zout), fewer than 65535 members, sizes below 4 GiB, and the 20 bytes before the end record do not
   happen to start with the zip64-locator signature (no_locator) *)
Theorem C03_output_reads_back : forall l,
  Forall wf_zout l -> N.of_nat (length l) < 65535 ->
  N.of_nat (length (locals_of l)) < 4294967295 -> N.of_nat (length (central_of l)) < 4294967296 ->
  no_locator (zip_write l) ->
  exists es, zip_read (zip_write l) = Some es /\ length es = length l /\ copy_all (zip_write l) es = Ok (map renorm l).
Proof. exact zip_members_read_back. Qed.

(* end to end, for every input of bytes the handler rewrites: the members copied out of the input, with times
   clamped, are exactly what the reader finds in the output, in the same number and order - provided the
   (possibly transcoded) names fit their 16-bit length field, the result stays below 4 GiB / 65535 members and
   the zip64-locator position is not hit by accident.  Field widths of the copied members are derived from
   bytes_ok x, not assumed *)
Theorem C03_output_holds_members : forall epoch d t mt x y hm,
  bytes_ok x -> d < 65536 -> t < 65536 ->
  zip_process (epoch, (d, t)) mt x = Some (Ok (y, hm)) ->
  exists es outs,
    zip_read x = Some es /\ copy_all x es = Ok outs /\
    let outs' := map (fun o => fst (clamp_member epoch (d, t) o)) outs in
    y = zip_write outs' /\
    (Forall (fun o => N.of_nat (length (zo_name o)) < 65536) outs' ->
     N.of_nat (length (locals_of outs')) < 4294967295 -> N.of_nat (length (central_of outs')) < 4294967296 -> no_locator y ->
     exists es', zip_read y = Some es' /\ length es' = length es /\ copy_all y es' = Ok (map renorm outs')).
Proof. exact zip_output_holds_members. Qed.

(* the executable domain predicate the correspondence check runs on every sampled archive: when it reports an
   input inside the domain of C03_output_holds_members, the read-back it computes succeeds *)
Theorem C03_domain_predicate_sound : forall epoch d t mt x rr,
  bytes_ok x -> d < 65536 -> t < 65536 -> zip_domain (epoch, (d, t)) mt x = Some (true, rr) -> rr = true.
Proof. exact zip_domain_sound. Qed.

Print Assumptions C03_layout.
Print Assumptions C03_local_patch.
Print Assumptions C03_central_patch.
Print Assumptions C03_ext_patch.
Print Assumptions C03_epoch_rounding.
Print Assumptions C03_clamp.
Print Assumptions C03_process.
Print Assumptions C03_member_count.
Print Assumptions C03_member_fields.
Print Assumptions C03_output_reads_back.
Print Assumptions C03_output_holds_members.
Print Assumptions C03_domain_predicate_sound.
