(* C07 — processing is idempotent: a second run changes and reports nothing.
   Property theorems only: each is closed by `exact <lemma>`. *)
From AD Require Import Bytes Outcome Gen Gzip GzipProofs Ar ArSpec ArProofs ArIdem PycHeader PycHeaderProofs Date Zip ZipProofs ZipRoundTrip Walk Javadoc JavadocProofs JavadocVariants StripIdem JavadocIdem JavadocDoc Fs Helper HelperProofs Idem Marshal Pyc PycRoundTrip.

(* byte level: the handler finds nothing to change in its own output *)
Theorem C07_gzip : forall epoch x y hm,
  bytes_ok x -> epoch < 2 ^ 32 -> gzip_process epoch x = Ok (y, hm) -> gzip_process epoch y = Ok (y, false).
Proof. exact gzip_idempotent. Qed.

Theorem C07_ar : forall e x y hm, (0 <= e < 10 ^ 12)%Z ->
  ar_process (Some e) x = Ok (y, hm) -> ar_process (Some e) y = Ok (y, false).
Proof. exact ar_idempotent. Qed.

Theorem C07_pyc_zero_mtime : forall x y hm, pyc_zero_mtime x = Ok (y, hm) -> pyc_zero_mtime y = Ok (y, false).
Proof. exact zero_mtime_idempotent. Qed.

(* pyc, the rewriting handler: run on its own output it re-reads the tree it wrote and writes the same bytes.
   Domain as in C02_roundtrip: the tree read from the input has the shape the reader produces, stays within
   the nesting limit, and the output is shorter than 4 GiB.  (Files for Python < 3.4 are returned as they are:
   C02_old_versions_untouched.) *)
Theorem C07_pyc : forall x y hm ver hl v rest0 r0,
  pyc_process x = Ok (y, hm) -> pyc_header x = Ok (ver, hl) -> ver_ltb ver pyc_skip_below = false ->
  parse ver (S (length (skipn hl x))) 0 (skipn hl x) [] = Ok (v, rest0, r0) ->
  wfb (code_layout ver) v = true -> (vdepth v <= pyc_max_depth)%nat -> N.of_nat (length y) < 4294967296 ->
  pyc_process y = Ok (y, false).
Proof. exact pyc_idempotent. Qed.

(* zip/jar: no member of the output is later than the epoch *)
Theorem C07_zip_members_settled : forall epoch d t o, (dos_min <= epoch <= dos_max)%Z -> dos_of_unix epoch = Some (d, t) ->
  snd (clamp_member epoch (d, t) (fst (clamp_member epoch (d, t) o))) = false.
Proof. exact clamp_member_settled. Qed.

(* javadoc: after one pass no stamp text is left to remove - a second pass over any stripped line strips
   nothing more (the defect repaired as F4 was a second pass that did) *)
Theorem C07_javadoc_stamps_partial : forall l,
  strip_stamps (length (strip_stamps (length l) l)) (strip_stamps (length l) l) = strip_stamps (length l) l.
Proof. exact strip_stamps_idempotent. Qed.

(* javadoc, a whole header line, both passes (stamp removal, then the date tag): a line the handler has rewritten
   is left alone when it is processed again - the date it wrote parses back as itself and is not later than
   the epoch (every day from 1970 to 2106 enumerated in the kernel), the tag it rewrote is still the leftmost
   one, and the new value creates no stamp.  Epochs in [0, 2^32). *)
Theorem C07_javadoc_line : forall epoch l l',
  (forall e, epoch = Some e -> (0 <= e < 4294967296)%Z) ->
  process_line epoch l = Some l' -> process_line epoch l' = None.
Proof. exact process_line_idempotent. Qed.

(* javadoc, the whole document: the handler run on its own output changes and reports nothing.  The output splits into
   the lines that were written (no pass introduces a line feed or moves a carriage return to the end of a line), every
   line inside the header window is left alone (C07_javadoc_line), and the window does not close later than it did the
   first time ('</head>' survives both passes; a value that parses as a date holds no '<'), so no line is looked at that
   was not looked at before.  Epochs in [0, 2^32), or none. *)
Theorem C07_javadoc : forall epoch x y hm,
  (forall e, epoch = Some e -> (0 <= e < 4294967296)%Z) ->
  javadoc_process epoch x = Ok (y, hm) -> javadoc_process epoch y = Ok (y, false).
Proof. exact javadoc_idempotent. Qed.

(* zip/jar: a second pass over an archive written by the handler whose members are settled (not later than
   the epoch - which C07_zip_members_settled gives for the output of a first pass) reports nothing, whatever
   the file's own mtime: nothing is newer and the re-created archive has the same length *)
Theorem C07_zip_second_pass : forall init mt l,
  Forall wf_zout l -> N.of_nat (length l) < 65535 ->
  N.of_nat (length (locals_of l)) < 4294967295 -> N.of_nat (length (central_of l)) < 4294967296 ->
  no_locator (zip_write l) ->
  Forall (fun o => is_ascii (zo_name o) = false -> utf8_ok (zo_name o) = true) l ->
  Forall (settled (fst init) (snd init)) l ->
  exists y', zip_process init mt (zip_write l) = Some (Ok (y', false)).
Proof. exact zip_second_pass. Qed.

(* file level, any handler whose byte-level function finds nothing to change in its own output:
   a fault-free run that replaced the file is followed by a run that reports Noop ... *)
Theorem C07_second_run_noop : forall e prof eager handler p f0 ip meta,
  names f0 p = Some ip -> inodes f0 ip = Some meta -> i_nlink meta = 1 ->
  ip < next_ino f0 -> names f0 (tmp_path p) <> Some ip ->
  (forall x y, handler x = Ok (y, true) -> exists y', handler y = Ok (y', false)) ->
  snd (run_handler e None Real prof eager handler p (init_sim f0)) = Some Replaced ->
  let f1 := s_fs (fst (run_handler e None Real prof eager handler p (init_sim f0))) in
  snd (run_handler e None Real prof eager handler p (init_sim f1)) = Some Noop.
Proof. exact second_run_noop. Qed.

(* ... and a run that does not report Replaced leaves the file's bytes, inode and mtime alone *)
Theorem C07_noop_untouched : forall e fault prof eager handler p f0 ip meta,
  names f0 p = Some ip -> inodes f0 ip = Some meta -> i_nlink meta = 1 ->
  ip < next_ino f0 -> names f0 (tmp_path p) <> Some ip ->
  snd (run_handler e fault Real prof eager handler p (init_sim f0)) <> Some Replaced ->
  clean f0 (tmp_path p) (fst (run_handler e fault Real prof eager handler p (init_sim f0))).
Proof. exact not_replaced_untouched. Qed.

Print Assumptions C07_gzip.
Print Assumptions C07_ar.
Print Assumptions C07_pyc_zero_mtime.
Print Assumptions C07_pyc.
Print Assumptions C07_javadoc_stamps_partial.
Print Assumptions C07_javadoc_line.
Print Assumptions C07_javadoc.
Print Assumptions C07_zip_members_settled.
Print Assumptions C07_zip_second_pass.
Print Assumptions C07_second_run_noop.
Print Assumptions C07_noop_untouched.
