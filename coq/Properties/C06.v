(* C06 — HTML text is preserved; only the Javadoc stamp and date meta values change.
   Model: Javadoc.v (process_line with the two patterns as explicit matchers, chrono's %Y-%m-%d grammar,
   read_line / write with the original terminator, the header window from the regenerated constant). *)
From AD Require Import Bytes Outcome Gen Date Walk Javadoc JavadocProofs.

(* obligation: the patterns, date formats and operators in javadoc.rs are the ones the model was written for *)
Theorem C06_patterns :
  javadoc_stamp_re_as_modelled && javadoc_meta_re_as_modelled && javadoc_head_re_as_modelled && javadoc_date_fmt_as_modelled = true /\
  javadoc_date_cmp = CLt /\ javadoc_window_cmp = CGe.
Proof. repeat split; reflexivity. Qed.

(* Structure.  Whenever the handler returns: the input is the concatenation of its lines (each with its own
   terminator); the output is the concatenation of as many lines; each output line has the terminator of
   its input line — none (last line), LF or CRLF — and its content is either unchanged or what process_line
   returns; once the header window has closed (after line [javadoc_header_lines], or after a line containing
   </head> in any case) lines are copied verbatim; and if nothing is reported modified the bytes are identical. *)
Theorem C06_structure : forall epoch x y hm,
  javadoc_process epoch x = Ok (y, hm) ->
  exists raws outs, concat raws = x /\ concat outs = y /\ raws = split_lines x [] /\
                    window_rel epoch true 0 raws outs /\ (hm = false -> y = x).
Proof. exact javadoc_structure. Qed.

Theorem C06_terminators : forall raw l e, line_eol raw = (l, e) -> raw = l ++ e /\ is_eol e.
Proof. exact line_eol_spec. Qed.

Theorem C06_after_window_verbatim : forall epoch raws outs num, window_rel epoch false num raws outs -> outs = raws.
Proof. exact window_closed_unchanged. Qed.

Theorem C06_same_line_count : forall epoch raws outs open num, window_rel epoch open num raws outs -> length outs = length raws.
Proof. exact window_rel_lengths. Qed.

(* What can happen inside a changed line: the version-and-date text of Javadoc stamps is removed (every other
   byte, text sharing the line and further comments included, is kept in order), and then at most one date
   value — of the leftmost date / dc.created meta tag, when chrono parses it to a date later than the
   epoch's UTC date — is replaced by that date; the tag text around the value keeps its spelling. *)
Theorem C06_changed_line : forall epoch l l',
  process_line epoch l = Some l' ->
  exists l1, stamps_removed l l1 /\
    (l' = l1 \/ exists e d, epoch = Some e /\ date_of_unix e = Some d /\ meta_lowered d l1 l').
Proof. exact process_line_spec. Qed.

Theorem C06_no_epoch_no_date_change : forall l l', process_line None l = Some l' -> stamps_removed l l'.
Proof. exact process_line_no_epoch. Qed.

(* non-vacuity: CRLF page, stamp followed by another comment, indented meta tag followed by a title *)
Definition C06_example : bytes :=
  [60; 104; 62; 13; 10] ++
  stamp_head ++ [32; 40; 50; 49; 41; 32; 111; 110; 32; 88] ++ stamp_tail ++ [32; 60; 33; 45; 45; 32; 107; 32; 45; 45; 62; 13; 10] ++
  [32; 32] ++ meta_a ++ meta_date ++ meta_b ++ [50; 48; 50; 52; 45; 48; 51; 45; 48; 50; 34; 62; 32; 60; 116; 62; 10] ++
  [108; 97; 115; 116].
Theorem C06_example_runs :
  javadoc_process (Some 1577836800%Z) C06_example =
    Ok ([60; 104; 62; 13; 10] ++
        stamp_head ++ stamp_tail ++ [32; 60; 33; 45; 45; 32; 107; 32; 45; 45; 62; 13; 10] ++
        [32; 32] ++ meta_a ++ meta_date ++ meta_b ++ [50; 48; 50; 48; 45; 48; 49; 45; 48; 49; 34; 62; 32; 60; 116; 62; 10] ++
        [108; 97; 115; 116], true).
Proof. vm_compute. reflexivity. Qed.

Print Assumptions C06_patterns.
Print Assumptions C06_structure.
Print Assumptions C06_terminators.
Print Assumptions C06_after_window_verbatim.
Print Assumptions C06_same_line_count.
Print Assumptions C06_changed_line.
Print Assumptions C06_no_epoch_no_date_change.
Print Assumptions C06_example_runs.
