(* C16 — --handler selects exactly the documented set of handlers.
   handlers_table (names, default flags, order) is regenerated from HANDLERS in handlers/mod.rs. *)
From Coq Require Import String.
From AD Require Import Bytes Outcome Gen Config ConfigProofs.
Open Scope string_scope.

(* for ALL lists of strings (not only the 2*2^7 subsets): the code's selection is the documented one:
   no list -> defaults; positive and negative forms mixed -> error; unknown name -> error;
   all positive -> exactly the listed handlers, in table order; all negative -> defaults minus the listed;
   empty result -> error; strict iff a list was given *)
Theorem C16_select : forall filter, requested_handlers filter = spec_select filter.
Proof. exact requested_handlers_spec. Qed.

Theorem C16_default : requested_handlers [] = Some (["ar"; "jar"; "javadoc"; "gzip"; "pyc"; "zip"], false).
Proof. exact default_selection. Qed.

(* initialisation: lenient -> the selected handlers that can initialise, in table order;
   strict -> fatal iff some selected handler cannot initialise *)
Theorem C16_init : forall table selected strict epoch,
  make_handlers_from table selected strict epoch =
    if strict && existsb (fun n => mem_str n selected && negb (init_ok n epoch)) table then None
    else Some (List.filter (fun n => mem_str n selected && init_ok n epoch) table).
Proof. exact make_handlers_from_spec. Qed.

Theorem C16_lenient_never_fatal : forall selected epoch, make_handlers selected false epoch <> None.
Proof. exact make_handlers_lenient. Qed.

(* a handler that is not selected is never among the handlers that are run *)
Theorem C16_unselected_inert : forall selected strict epoch l n,
  make_handlers selected strict epoch = Some l -> In n l -> mem_str n selected = true.
Proof. exact unselected_never_runs. Qed.

Print Assumptions C16_select.
Print Assumptions C16_default.
Print Assumptions C16_init.
Print Assumptions C16_lenient_never_fatal.
Print Assumptions C16_unselected_inert.
