(* C09 — file mode, owner, mtime and hard links survive replacement. *)
From AD Require Import Bytes Outcome Fs Helper HelperProofs Config Walk WalkProofs Rewrite.

(* Whenever a real run reports Replaced for a single-link file — whichever handler, whatever its shape,
   even with a single injected fault — the path names a NEW regular inode whose content is the
   handler's output and whose mode (all twelve bits, set-id and sticky included) and nanosecond mtime
   are the original's; owner/group are the original's, or the caller's when chown was refused;
   the temporary name is gone and every other name is bound as before. *)
Theorem C09_replace : forall e fault prof eager handler p f0 ip meta,
  names f0 p = Some ip -> inodes f0 ip = Some meta -> i_nlink meta = 1 ->
  ip < next_ino f0 -> names f0 (tmp_path p) <> Some ip ->
  snd (run_handler e fault Real prof eager handler p (init_sim f0)) = Some Replaced ->
  exists y, handler (i_data meta) = Ok (y, true) /\
            committed e meta f0 p (tmp_path p) y (s_fs (fst (run_handler e fault Real prof eager handler p (init_sim f0)))).
Proof. exact replaced_committed. Qed.

(* the kernel rule that makes the order of the two calls matter (chown clears set-id bits) *)
Theorem C09_order_matters :
  let e := mk_env 18 0 0 true 0 in
  let n := mk_inode KReg [] 420 0 0 0 1 in
  let f := mk_fs (fun q => if path_eqb q [116] then Some 5 else None) (fun j => if j =? 5 then Some n else None) 6 in
  option_map i_mode (inodes (apply_ops e f [OFchmod 5 3565; OLchown [116] 0 0]) 5) = Some 493 /\
  option_map i_mode (inodes (apply_ops e f [OLchown [116] 0 0; OFchmod 5 3565]) 5) = Some 3565.
Proof. exact chmod_then_chown_loses_setid. Qed.

(* each inode is transformed once however many paths reach it:
   (1) process_file never selects (runs) a handler whose bit is already set for the inode;
   (2) with all handler bits set, an entry causes no operation at all;
   (3) after an entry, the handlers just applied are recorded for its inode, and for the inode the path names
       afterwards when the file was replaced; no other inode's record changes *)
Theorem C09_once_skip : forall e fault m prof hs n already p s sel acc k,
  (forall j, N.testbit sel j = true -> N.testbit already j = false) ->
  N.testbit (snd (fst (process_file_from e fault m prof hs n already p s sel acc))) k = true ->
  N.testbit already k = false.
Proof. exact pff_selected_fresh. Qed.

Theorem C09_once_all_seen : forall e fault m prof hs n already p s sel acc,
  (forall k, (k < length hs)%nat -> N.testbit already (n + N.of_nat k) = true) ->
  process_file_from e fault m prof hs n already p s sel acc = (s, sel, Some acc).
Proof. exact pff_all_seen. Qed.

Theorem C09_once_record : forall e fault m prof hs w p w' ino nd,
  process_entry e fault m prof hs w p = Some w' ->
  is_tmp_name (basename p) = false -> obs (s_fs (w_sim w)) p = Some (ino, nd) -> i_kind nd = KReg ->
  exists sel c s',
    process_file_from e fault m prof hs 0 (w_seen w ino) p (w_sim w) 0 Ignored = (s', sel, Some c) /\
    (forall k, N.testbit sel k = true -> N.testbit (w_seen w ino) k = false) /\
    let mask := N.lor (w_seen w ino) sel in
    (forall ino2 nd2, obs (s_fs s') p = Some (ino2, nd2) -> c <> Noop -> w_seen w' ino2 = mask) /\
    ((forall ino2 nd2, obs (s_fs s') p = Some (ino2, nd2) -> ino2 = ino) \/ c = Noop \/ obs (s_fs s') p = None -> w_seen w' ino = mask) /\
    (forall j, j <> ino -> (forall nd2, obs (s_fs s') p <> Some (j, nd2)) -> w_seen w' j = w_seen w j).
Proof. exact entry_records_mask. Qed.

(* a file with several hard links (fault-free run, handler output y): the result is Rewritten, the path still
   names the SAME inode, which now holds y with the original mode, owner and link count and the original mtime
   put back; every other name and every other pre-existing inode is as before, the temporary name is gone *)
Theorem C09_rewritten_in_place : forall e prof eager handler p f0 ip meta y,
  names f0 p = Some ip -> inodes f0 ip = Some meta -> i_nlink meta <> 1 ->
  ip < next_ino f0 -> names f0 (tmp_path p) = None ->
  handler (i_data meta) = Ok (y, true) ->
  let r := run_handler e None Real prof eager handler p (init_sim f0) in
  let f' := s_fs (fst r) in
  snd r = Some Rewritten /\
  names f' p = Some ip /\ names f' (tmp_path p) = None /\
  (forall q, q <> tmp_path p -> names f' q = names f0 q) /\
  inodes f' ip = Some (with_mtime (i_mtime meta) (with_data y meta)) /\
  (forall j, j <> ip -> j < next_ino f0 -> inodes f' j = inodes f0 j).
Proof. exact rewritten_in_place. Qed.

Print Assumptions C09_replace.
Print Assumptions C09_once_skip.
Print Assumptions C09_once_all_seen.
Print Assumptions C09_once_record.
Print Assumptions C09_order_matters.
Print Assumptions C09_rewritten_in_place.
