(* C09 — file mode, owner, mtime and hard links survive replacement. *)
From AD Require Import Bytes Outcome Fs Helper HelperProofs.

(* Whenever a real run reports Replaced for a single-link file — whichever handler, whatever its shape,
   even with a single injected fault — the path names a NEW regular inode whose content is the
   handler's output and whose mode (all twelve bits, set-id and sticky included) and nanosecond mtime
   are the original's; owner/group are the original's, or the caller's when chown was refused;
   the temporary name is gone and every other name is bound as before. *)
Theorem C09_replace : forall e fault prof eager handler p f0 ip meta,
  names f0 p = Some ip -> inodes f0 ip = Some meta -> i_nlink meta = 1 ->
  ip < next_ino f0 -> names f0 (tmp_path p) <> Some ip ->
  snd (run_handler e fault Real prof eager handler p (init_sim f0)) = Some Replaced ->
  exists y, handler (i_data meta) = Ok (y, true) /\
            committed e meta f0 p (tmp_path p) y (s_fs (fst (run_handler e fault Real prof eager handler p (init_sim f0)))).
Proof. exact replaced_committed. Qed.

(* the kernel rule that makes the order of the two calls matter (chown clears set-id bits) *)
Theorem C09_order_matters :
  let e := mk_env 18 0 0 true 0 in
  let n := mk_inode KReg [] 420 0 0 0 1 in
  let f := mk_fs (fun q => if path_eqb q [116] then Some 5 else None) (fun j => if j =? 5 then Some n else None) 6 in
  option_map i_mode (inodes (apply_ops e f [OFchmod 5 3565; OLchown [116] 0 0]) 5) = Some 493 /\
  option_map i_mode (inodes (apply_ops e f [OLchown [116] 0 0; OFchmod 5 3565]) 5) = Some 3565.
Proof. exact chmod_then_chown_loses_setid. Qed.

Print Assumptions C09_replace.
Print Assumptions C09_order_matters.
