(* HelperProofs.v — theorems about InputOutputHelper's program: check mode is read-only, replacement is
   atomic at every intermediate state and under every single fault, metadata is carried over. *)
From AD Require Import Bytes Outcome Fs Helper.

Local Arguments Nat.eqb : simpl never.
Local Arguments N.succ : simpl never.
Local Arguments N.pred : simpl never.
Local Arguments N.land : simpl never.
Local Arguments N.lxor : simpl never.

(* ---------- paths ---------- *)
Lemma split_rev_app r acc :
  let '(d, n) := split_last_slash_rev r acc in d ++ n = rev r ++ acc.
Proof.
  revert acc; induction r as [|c r IH]; intros acc; cbn [split_last_slash_rev].
  - reflexivity.
  - destruct (c =? 47); [reflexivity|].
    specialize (IH (c :: acc)). destruct (split_last_slash_rev r (c :: acc)) as [d n].
    rewrite IH. cbn [rev]. rewrite <- app_assoc. reflexivity.
Qed.

Lemma split_path_app p : let '(d, n) := split_path p in d ++ n = p.
Proof.
  unfold split_path. pose proof (split_rev_app (rev p) []) as H.
  destruct (split_last_slash_rev (rev p) []) as [d n]. rewrite H, rev_involutive, app_nil_r. reflexivity.
Qed.

Lemma tmp_path_length p : length (tmp_path p) = (length p + 7)%nat.
Proof.
  unfold tmp_path. pose proof (split_path_app p) as H. destruct (split_path p) as [d n].
  rewrite <- H. rewrite !app_length. cbn [length tmp_prefix tmp_suffix]. lia.
Qed.

Lemma tmp_path_neq p : tmp_path p <> p.
Proof. intros E. apply (f_equal (@length N)) in E. rewrite tmp_path_length in E. lia. Qed.

Lemma path_eqb_refl p : path_eqb p p = true.
Proof. apply bytes_eqb_refl. Qed.
Lemma path_eqb_neq a b : a <> b -> path_eqb a b = false.
Proof. intros H. apply bytes_eqb_neq. exact H. Qed.
Lemma path_eqb_true a b : path_eqb a b = true -> a = b.
Proof. apply bytes_eqb_eq. Qed.

(* ---------- issue ---------- *)
Lemma issue_fs e fault o s :
  s_fs (fst (issue e fault o s)) = s_fs s \/
  (s_fs (fst (issue e fault o s)) = fst (apply_op e (s_fs s) o) /\ snd (issue e fault o s) = snd (apply_op e (s_fs s) o)).
Proof.
  unfold issue. destruct fault as [[k er]|]; [destruct (Nat.eqb k (s_n s))|]; cbn; auto.
Qed.

Lemma issue_hist e fault o s :
  s_hist (fst (issue e fault o s)) = s_hist s \/
  s_hist (fst (issue e fault o s)) = fst (apply_op e (s_fs s) o) :: s_hist s.
Proof.
  unfold issue. destruct fault as [[k er]|]; [destruct (Nat.eqb k (s_n s))|]; cbn; auto.
Qed.

(* a failing operation leaves the file system unchanged *)
Lemma apply_op_fail e f o er : snd (apply_op e f o) = Some er -> fst (apply_op e f o) = f.
Proof.
  destruct o; cbn [apply_op]; try discriminate;
    repeat match goal with
           | |- context [match ?x with _ => _ end] => destruct x; cbn [fst snd]; try discriminate; try reflexivity
           end.
Qed.

(* ---------- check mode is read-only (C10) ---------- *)
Definition readonly_op (o : op) : bool := negb (is_mutating o).

Lemma apply_readonly e f o : readonly_op o = true -> fst (apply_op e f o) = f.
Proof.
  destruct o; cbn; try discriminate; intros _; try reflexivity; destruct (names f p); reflexivity.
Qed.

Lemma issue_readonly_fs e fault o s : readonly_op o = true -> s_fs (fst (issue e fault o s)) = s_fs s.
Proof.
  intros H. destruct (issue_fs e fault o s) as [E|[E _]]; [exact E|]. rewrite E. apply apply_readonly, H.
Qed.

Lemma issue_readonly_hist e fault o s f0 :
  readonly_op o = true -> s_fs s = f0 -> Forall (eq f0) (s_hist s) ->
  Forall (eq f0) (s_hist (fst (issue e fault o s))).
Proof.
  intros H Hf Hh. destruct (issue_hist e fault o s) as [E|E]; rewrite E; [exact Hh|].
  constructor; [|exact Hh]. rewrite apply_readonly by exact H. symmetry. exact Hf.
Qed.

Lemma issue_readonly_trace e fault o s :
  readonly_op o = true -> Forall (fun x => readonly_op (fst x) = true) (s_trace s) ->
  Forall (fun x => readonly_op (fst x) = true) (s_trace (fst (issue e fault o s))).
Proof.
  intros H Hh. unfold issue. destruct fault as [[k er]|]; [destruct (Nat.eqb k (s_n s))|]; cbn; constructor; assumption.
Qed.

(* invariant of a check-mode run *)
Definition ro_inv (f0 : fs) (s : sim) : Prop :=
  s_fs s = f0 /\ Forall (eq f0) (s_hist s) /\ Forall (fun x => readonly_op (fst x) = true) (s_trace s).

Lemma issue_ro e fault o s f0 : readonly_op o = true -> ro_inv f0 s -> ro_inv f0 (fst (issue e fault o s)).
Proof.
  intros H (A & B & C). split; [|split].
  - rewrite issue_readonly_fs by exact H. exact A.
  - apply issue_readonly_hist; assumption.
  - apply issue_readonly_trace; assumption.
Qed.

Theorem check_readonly e fault prof eager handler p s f0 :
  ro_inv f0 s ->
  ro_inv f0 (fst (run_handler e fault Check prof eager handler p s)).
Proof.
  intros H0. unfold run_handler. cbv zeta.
  pose proof (issue_ro e fault (OOpenRead p) s f0 eq_refl H0) as H1.
  destruct (issue e fault (OOpenRead p) s) as [s1 r1]. cbn [fst] in H1.
  destruct r1; [exact H1|].
  destruct (names (s_fs s1) p) as [ip|]; [|exact H1].
  pose proof (issue_ro e fault (OFstat ip) s1 f0 eq_refl H1) as H2.
  destruct (issue e fault (OFstat ip) s1) as [s2 r2]. cbn [fst] in H2.
  destruct r2; [exact H2|].
  destruct (inodes (s_fs s2) ip) as [meta|]; [|exact H2].
  assert (Hopen : forall s', ro_inv f0 s' ->
            ro_inv f0 (fst (open_output e fault Check (tmp_path p) s')) /\
            (snd (open_output e fault Check (tmp_path p) s') = Some OutNull \/ snd (open_output e fault Check (tmp_path p) s') = None)).
  { intros s' H'. unfold open_output.
    pose proof (issue_ro e fault OOpenDevNull s' f0 eq_refl H') as H3.
    destruct (issue e fault OOpenDevNull s') as [s3 r3]. cbn [fst] in H3.
    destruct r3; cbn [fst snd]; auto. }
  assert (Hafter : forall o s3, (o = OutNull \/ o = OutNone) -> ro_inv f0 s3 ->
     forall res,
     ro_inv f0 (fst (match res with
        | Panic => match prof with Debug => (cleanup e fault (tmp_path p) o s3, None) | Release => (s3, None) end
        | Bad => (cleanup e fault (tmp_path p) o s3, Some BadFormat)
        | Err => (cleanup e fault (tmp_path p) o s3, Some Error)
        | Ok (_, false) => (cleanup e fault (tmp_path p) o s3, Some Noop)
        | Ok (y, true) =>
            match o with
            | OutTmp fo => step e fault (tmp_path p) o (OWrite fo 0 y) s3 (fun s4 => finalize_mod e fault Check p (tmp_path p) meta o y s4)
            | _ => finalize_mod e fault Check p (tmp_path p) meta o y s3
            end
        end))).
  { intros o s3 Ho H3 res.
    assert (Hc : cleanup e fault (tmp_path p) o s3 = s3) by (destruct Ho as [-> | ->]; reflexivity).
    destruct res as [[y [|]]| | |]; rewrite ?Hc; cbn [fst]; try exact H3.
    - destruct Ho as [-> | ->]; cbn [finalize_mod fst]; exact H3.
    - destruct prof; rewrite ?Hc; exact H3. }
  destruct (eager (i_data meta)).
  - destruct (Hopen s2 H2) as [H3 Ho].
    destruct (open_output e fault Check (tmp_path p) s2) as [s3 [o|]]; cbn [fst snd] in *; [|exact H3].
    apply Hafter; [|exact H3]. destruct Ho as [Ho|Ho]; [injection Ho as ->; auto | discriminate].
  - destruct (handler (i_data meta)) as [[y [|]]| | |] eqn:Eres.
    + destruct (Hopen s2 H2) as [H3 Ho].
      destruct (open_output e fault Check (tmp_path p) s2) as [s3 [o|]]; cbn [fst snd] in *; [|exact H3].
      assert (Ho' : o = OutNull \/ o = OutNone) by (destruct Ho as [Ho|Ho]; [injection Ho as ->; auto | discriminate]).
      apply (Hafter o s3 Ho' H3 (Ok (y, true))).
    + apply (Hafter OutNone s2 (or_intror eq_refl) H2 (Ok (y, false))).
    + apply (Hafter OutNone s2 (or_intror eq_refl) H2 Bad).
    + apply (Hafter OutNone s2 (or_intror eq_refl) H2 Err).
    + apply (Hafter OutNone s2 (or_intror eq_refl) H2 Panic).
Qed.

(* ---------- real mode: nothing but the temporary file is touched before the commit point ---------- *)
(* f is "pre-commit" w.r.t. the initial state f0: every name except t is bound as before, every inode
   that existed before (except a stale temp file's) is unchanged, new inodes were only appended *)
Definition pre_commit (f0 : fs) (t : path) (f : fs) : Prop :=
  (forall q, q <> t -> names f q = names f0 q) /\
  (forall j, j < next_ino f0 -> names f0 t <> Some j -> inodes f j = inodes f0 j) /\
  next_ino f0 <= next_ino f /\
  (names f t = names f0 t \/ names f t = None \/ exists fo, names f t = Some fo /\ next_ino f0 <= fo < next_ino f).

Definition tmp_only (f0 : fs) (t : path) (o : op) : Prop :=
  match o with
  | OOpenRead _ | OFstat _ | OOpenDevNull | OOpenWrite _ => True
  | OCreateExcl q | OUnlink q | OLchown q _ _ => q = t
  | OWrite i _ _ | OFchmod i _ | OFutimens i _ | OTruncate i _ => next_ino f0 <= i
  | ORename _ _ => False
  end.

Lemma pre_commit_refl f0 t : pre_commit f0 t f0.
Proof. unfold pre_commit. repeat split; auto; lia. Qed.

Lemma upd_inode_names f i g : names (upd_inode f i g) = names f.
Proof. unfold upd_inode. destruct (inodes f i); reflexivity. Qed.
Lemma upd_inode_next f i g : next_ino (upd_inode f i g) = next_ino f.
Proof. unfold upd_inode. destruct (inodes f i); reflexivity. Qed.
Lemma upd_inode_other f i g j : j <> i -> inodes (upd_inode f i g) j = inodes f j.
Proof.
  intros H. unfold upd_inode. destruct (inodes f i); [|reflexivity]. cbn.
  destruct (N.eqb_spec j i); [contradiction | reflexivity].
Qed.

(* which inode the temp name may denote in a pre-commit state *)
Lemma pre_commit_tmp_target f0 t f j :
  pre_commit f0 t f -> names f t = Some j -> names f0 t = Some j \/ next_ino f0 <= j.
Proof.
  intros (_ & _ & _ & [H|[H|(fo & H & Hr)]]) E; rewrite H in E.
  - left. exact E.
  - discriminate.
  - injection E as <-. right. lia.
Qed.

Lemma tmp_only_pre e f0 t f o :
  pre_commit f0 t f -> tmp_only f0 t o -> pre_commit f0 t (fst (apply_op e f o)).
Proof.
  intros Hpre Ht. pose proof Hpre as (Hn & Hi & Hx & Htmp).
  destruct o; cbn [tmp_only] in Ht; cbn [apply_op]; try contradiction.
  - destruct (names f p); exact Hpre.
  - exact Hpre.
  - (* create *) subst p. destruct (names f t) as [j|] eqn:Et; [exact Hpre|]. cbn [fst].
    unfold pre_commit. cbn [names inodes next_ino]. split; [|split; [|split]].
    + intros q Hq. rewrite path_eqb_neq by exact Hq. apply Hn, Hq.
    + intros j Hj Hs. destruct (N.eqb_spec j (next_ino f)); [lia | apply Hi; assumption].
    + lia.
    + right. right. exists (next_ino f). rewrite path_eqb_refl. split; [reflexivity | lia].
  - exact Hpre.
  - (* unlink *) subst p. destruct (names f t) as [j|] eqn:Et; [|exact Hpre]. cbn [fst].
    unfold pre_commit. rewrite upd_inode_names, upd_inode_next. cbn [names next_ino set_name].
    split; [|split; [|split]].
    + intros q Hq. rewrite path_eqb_neq by exact Hq. apply Hn, Hq.
    + intros k Hk Hs. rewrite upd_inode_other.
      * cbn [set_name inodes]. apply Hi; assumption.
      * intros ->. destruct (pre_commit_tmp_target _ _ _ _ Hpre Et) as [H|H]; [contradiction | lia].
    + exact Hx.
    + right. left. rewrite path_eqb_refl. reflexivity.
  - (* write *)
    unfold pre_commit. cbn [fst]. rewrite upd_inode_names, upd_inode_next. split; [exact Hn|]. split; [|split; [exact Hx | exact Htmp]].
    intros j Hj Hs. rewrite upd_inode_other by lia. apply Hi; assumption.
  - unfold pre_commit. cbn [fst]. rewrite upd_inode_names, upd_inode_next. split; [exact Hn|]. split; [|split; [exact Hx | exact Htmp]].
    intros j Hj Hs. rewrite upd_inode_other by lia. apply Hi; assumption.
  - unfold pre_commit. cbn [fst]. rewrite upd_inode_names, upd_inode_next. split; [exact Hn|]. split; [|split; [exact Hx | exact Htmp]].
    intros j Hj Hs. rewrite upd_inode_other by lia. apply Hi; assumption.
  - (* lchown *) subst p. destruct (names f t) as [j|] eqn:Et; [|exact Hpre].
    destruct (inodes f j) as [n|] eqn:En; [|exact Hpre].
    destruct (e_can_chown e || (u =? i_uid n) && (g =? i_gid n) && (i_uid n =? e_uid e)); [|exact Hpre].
    cbn [fst]. unfold pre_commit. cbn [set_inode names inodes next_ino].
    split; [exact Hn|]. split; [|split; [exact Hx | apply Hpre]].
    intros k Hk Hs. destruct (N.eqb_spec k j) as [->|]; [|apply Hi; assumption].
    destruct (pre_commit_tmp_target _ _ _ _ Hpre Et) as [H|H]; [contradiction | lia].
  - destruct (names f p); exact Hpre.
  - unfold pre_commit. cbn [fst]. rewrite upd_inode_names, upd_inode_next. split; [exact Hn|]. split; [|split; [exact Hx | exact Htmp]].
    intros j Hj Hs. rewrite upd_inode_other by lia. apply Hi; assumption.
Qed.

(* a run is "clean" when all of its states are pre-commit states *)
Definition clean (f0 : fs) (t : path) (s : sim) : Prop :=
  pre_commit f0 t (s_fs s) /\ Forall (pre_commit f0 t) (s_hist s).

Lemma issue_clean e fault f0 t o s :
  clean f0 t s -> tmp_only f0 t o -> clean f0 t (fst (issue e fault o s)).
Proof.
  intros [H1 H2] Ho. unfold clean.
  destruct (issue_fs e fault o s) as [E|[E _]]; rewrite E;
    (split; [try exact H1; try (apply tmp_only_pre; assumption)|]);
    (destruct (issue_hist e fault o s) as [Eh|Eh]; rewrite Eh; [exact H2|]; constructor; [apply tmp_only_pre; assumption | exact H2]).
Qed.

Lemma cleanup_clean e fault f0 t o s : clean f0 t s -> clean f0 t (cleanup e fault t o s).
Proof.
  intros H. destruct o; cbn [cleanup]; try exact H. apply issue_clean; [exact H | reflexivity].
Qed.

(* open_output_real: clean, and the handle it returns is a new inode bound at t *)
Lemma open_output_real_clean e fault f0 t s :
  clean f0 t s ->
  clean f0 t (fst (open_output_real e fault t s)) /\
  (forall i, snd (open_output_real e fault t s) = Some i -> next_ino f0 <= i).
Proof.
  intros H. unfold open_output_real.
  pose proof (issue_clean e fault f0 t (OCreateExcl t) s H eq_refl) as H1.
  destruct (issue e fault (OCreateExcl t) s) as [s1 r1]. cbn [fst] in H1.
  destruct H as [(_ & _ & Hx & _) _].
  destruct r1 as [er|]; cbn [fst snd].
  2:{ split; [exact H1|]. intros i E; injection E as <-. exact Hx. }
  destruct er; cbn [fst snd]; try (split; [exact H1 | discriminate]).
  pose proof (issue_clean e fault f0 t (OUnlink t) s1 H1 eq_refl) as H2.
  destruct (issue e fault (OUnlink t) s1) as [s2 r2]. cbn [fst] in H2.
  destruct r2; cbn [fst snd]; [split; [exact H2 | discriminate]|].
  pose proof (issue_clean e fault f0 t (OCreateExcl t) s2 H2 eq_refl) as H3.
  destruct (issue e fault (OCreateExcl t) s2) as [s3 r3]. cbn [fst] in H3.
  destruct H2 as [(_ & _ & Hx2 & _) _].
  destruct r3; cbn [fst snd]; (split; [exact H3|]); [discriminate|].
  intros i E; injection E as <-. exact Hx2.
Qed.

Lemma step_clean e fault f0 t o x s k :
  clean f0 t s -> tmp_only f0 t x ->
  (forall s1, clean f0 t s1 -> clean f0 t (fst (k s1))) ->
  clean f0 t (fst (step e fault t o x s k)).
Proof.
  intros H Hx Hk. unfold step.
  pose proof (issue_clean e fault f0 t x s H Hx) as H1.
  destruct (issue e fault x s) as [s1 r]. cbn [fst] in H1.
  destruct r; [cbn [fst]; apply cleanup_clean, H1 | apply Hk, H1].
Qed.

(* ---------- atomic replacement (single-link file): the only non-temporary operation is the final rename ---------- *)
Definition atomic_hist (e : env) (f0 : fs) (p t : path) (h : list fs) : Prop :=
  Forall (pre_commit f0 t) h \/
  exists f' h', h = fst (apply_op e f' (ORename t p)) :: f' :: h' /\ Forall (pre_commit f0 t) (f' :: h').

Lemma clean_atomic e f0 p t s : clean f0 t s -> atomic_hist e f0 p t (s_hist s).
Proof. intros [_ H]. left. exact H. Qed.

(* the history is never empty and starts with the current state *)
Definition hist_ok (s : sim) : Prop := exists h, s_hist s = s_fs s :: h.

Lemma issue_hist_ok e fault o s : hist_ok s -> hist_ok (fst (issue e fault o s)).
Proof.
  intros [h Hh]. unfold issue, hist_ok. destruct fault as [[k er]|]; [destruct (Nat.eqb k (s_n s))|]; cbn [fst s_hist s_fs]; eauto.
Qed.

Lemma cleanup_hist_ok e fault t o s : hist_ok s -> hist_ok (cleanup e fault t o s).
Proof. intros H. destruct o; cbn [cleanup]; try exact H. apply issue_hist_ok, H. Qed.

Lemma open_output_real_hist_ok e fault t s : hist_ok s -> hist_ok (fst (open_output_real e fault t s)).
Proof.
  intros H. unfold open_output_real.
  pose proof (issue_hist_ok e fault (OCreateExcl t) s H) as H1.
  destruct (issue e fault (OCreateExcl t) s) as [s1 r1]. cbn [fst] in H1.
  destruct r1 as [er|]; cbn [fst]; [|exact H1].
  destruct er; cbn [fst]; try exact H1.
  pose proof (issue_hist_ok e fault (OUnlink t) s1 H1) as H2.
  destruct (issue e fault (OUnlink t) s1) as [s2 r2]. cbn [fst] in H2.
  destruct r2; cbn [fst]; [exact H2|].
  pose proof (issue_hist_ok e fault (OCreateExcl t) s2 H2) as H3.
  destruct (issue e fault (OCreateExcl t) s2) as [s3 r3]. cbn [fst] in H3.
  destruct r3; exact H3.
Qed.

Definition good (e : env) (f0 : fs) (p t : path) (s : sim) : Prop := clean f0 t s /\ hist_ok s.

Lemma issue_cases e fault o s :
  (exists er, issue e fault o s =
     (mk_sim (s_fs s) ((o, Some er) :: s_trace s) (S (s_n s)) (s_hist s), Some er)) \/
  issue e fault o s =
     (mk_sim (fst (apply_op e (s_fs s) o)) ((o, snd (apply_op e (s_fs s) o)) :: s_trace s) (S (s_n s))
             (fst (apply_op e (s_fs s) o) :: s_hist s), snd (apply_op e (s_fs s) o)).
Proof.
  unfold issue. destruct fault as [[k er]|]; [destruct (Nat.eqb k (s_n s))|]; eauto.
Qed.

Lemma finalize_single_atomic e fault p t f0 meta fo y s :
  i_nlink meta = 1 -> next_ino f0 <= fo -> good e f0 p t s ->
  atomic_hist e f0 p t (s_hist (fst (finalize_mod e fault Real p t meta (OutTmp fo) y s))).
Proof.
  intros Hn Hfo [Hc Hh]. unfold finalize_mod. rewrite Hn. rewrite N.eqb_refl.
  pose proof (issue_clean e fault f0 t (OLchown t (i_uid meta) (i_gid meta)) s Hc eq_refl) as H1.
  pose proof (issue_hist_ok e fault (OLchown t (i_uid meta) (i_gid meta)) s Hh) as K1.
  destruct (issue e fault (OLchown t (i_uid meta) (i_gid meta)) s) as [s1 r1]. cbn [fst] in H1, K1.
  assert (Hgo :
    atomic_hist e f0 p t (s_hist (fst
      (step e fault t (OutTmp fo) (OFchmod fo (i_mode meta)) s1 (fun s2 =>
       step e fault t (OutTmp fo) (OFutimens fo (i_mtime meta)) s2 (fun s3 =>
       step e fault t (OutTmp fo) (ORename t p) s3 (fun s4 => (s4, Some Replaced)))))))).
  { unfold step at 1.
    pose proof (issue_clean e fault f0 t (OFchmod fo (i_mode meta)) s1 H1 Hfo) as H2.
    pose proof (issue_hist_ok e fault (OFchmod fo (i_mode meta)) s1 K1) as K2.
    destruct (issue e fault (OFchmod fo (i_mode meta)) s1) as [s2 r2]. cbn [fst] in H2, K2.
    destruct r2; [cbn [fst]; apply clean_atomic, cleanup_clean, H2|].
    unfold step at 1.
    pose proof (issue_clean e fault f0 t (OFutimens fo (i_mtime meta)) s2 H2 Hfo) as H3.
    pose proof (issue_hist_ok e fault (OFutimens fo (i_mtime meta)) s2 K2) as K3.
    destruct (issue e fault (OFutimens fo (i_mtime meta)) s2) as [s3 r3]. cbn [fst] in H3, K3.
    destruct r3; [cbn [fst]; apply clean_atomic, cleanup_clean, H3|].
    unfold step.
    destruct (issue_cases e fault (ORename t p) s3) as [(er & E)|E]; rewrite E.
    - (* injected failure of the rename: state unchanged, then cleanup *)
      cbn [fst]. apply clean_atomic, cleanup_clean. destruct H3 as [A B]. split; assumption.
    - destruct (snd (apply_op e (s_fs s3) (ORename t p))) as [er|] eqn:Er.
      + (* natural failure *)
        cbn [fst]. apply clean_atomic, cleanup_clean.
        rewrite (apply_op_fail _ _ _ _ Er). destruct H3 as [A B]. split; cbn [s_fs s_hist]; [exact A|].
        constructor; assumption.
      + (* commit *)
        cbn [fst s_hist]. right. destruct K3 as [h K3]. exists (s_fs s3), h. rewrite K3.
        split; [reflexivity|]. destruct H3 as [_ B]. rewrite K3 in B. exact B. }
  destruct r1 as [er|]; [|exact Hgo].
  destruct er; try exact Hgo; cbn [fst]; apply clean_atomic, cleanup_clean, H1.
Qed.

(* all handler outcomes, all faults: a single-link file goes through pre-commit states only, except
   possibly for one final state produced by rename(t, p) *)
Theorem real_atomic e fault prof eager handler p f0 ip meta :
  names f0 p = Some ip -> inodes f0 ip = Some meta -> i_nlink meta = 1 ->
  ip < next_ino f0 -> names f0 (tmp_path p) <> Some ip ->
  atomic_hist e f0 p (tmp_path p) (s_hist (fst (run_handler e fault Real prof eager handler p (init_sim f0)))).
Proof.
  intros Hp Hi Hn Hlt Hnt. set (t := tmp_path p).
  assert (G0 : good e f0 p t (init_sim f0)).
  { split; [split; [apply pre_commit_refl | constructor; [apply pre_commit_refl | constructor]] | exists []; reflexivity]. }
  unfold run_handler. cbv zeta. fold t.
  assert (Gi : forall o s, good e f0 p t s -> tmp_only f0 t o -> good e f0 p t (fst (issue e fault o s))).
  { intros o s [A B] Ho. split; [apply issue_clean; assumption | apply issue_hist_ok, B]. }
  pose proof (Gi (OOpenRead p) _ G0 I) as G1.
  destruct (issue e fault (OOpenRead p) (init_sim f0)) as [s1 r1]. cbn [fst] in G1.
  destruct r1; [apply clean_atomic, G1|].
  destruct (names (s_fs s1) p) as [ip'|] eqn:Ep1; [|apply clean_atomic, G1].
  pose proof (Gi (OFstat ip') _ G1 I) as G2.
  destruct (issue e fault (OFstat ip') s1) as [s2 r2]. cbn [fst] in G2.
  destruct r2; [apply clean_atomic, G2|].
  destruct (inodes (s_fs s2) ip') as [meta'|] eqn:Ei2; [|apply clean_atomic, G2].
  assert (Hmeta : meta' = meta).
  { destruct G1 as [[(Hn1 & _) _] _]. destruct G2 as [[(_ & Hi2 & _) _] _].
    rewrite Hn1 in Ep1 by (apply not_eq_sym, tmp_path_neq). rewrite Hp in Ep1. injection Ep1 as <-.
    rewrite Hi2 in Ei2 by assumption. rewrite Hi in Ei2. injection Ei2 as <-. reflexivity. }
  subst meta'.
  set (res := handler (i_data meta)).
  (* after the output has been opened *)
  assert (Hafter : forall o s3, good e f0 p t s3 ->
            (o = OutNone \/ exists fo, o = OutTmp fo /\ next_ino f0 <= fo) ->
            (o = OutNone -> forall y, res <> Ok (y, true)) ->
     atomic_hist e f0 p t (s_hist (fst (match res with
        | Panic => match prof with Debug => (cleanup e fault t o s3, None) | Release => (s3, None) end
        | Bad => (cleanup e fault t o s3, Some BadFormat)
        | Err => (cleanup e fault t o s3, Some Error)
        | Ok (_, false) => (cleanup e fault t o s3, Some Noop)
        | Ok (y, true) =>
            match o with
            | OutTmp fo => step e fault t o (OWrite fo 0 y) s3 (fun s4 => finalize_mod e fault Real p t meta o y s4)
            | _ => finalize_mod e fault Real p t meta o y s3
            end
        end)))).
  { intros o s3 G3 Ho Hnone.
    destruct res as [[y [|]]| | |]; cbn [fst].
    - destruct Ho as [->|(fo & -> & Hfo)]; [exfalso; exact (Hnone eq_refl y eq_refl)|].
      unfold step.
      pose proof (Gi (OWrite fo 0 y) _ G3 Hfo) as G4.
      destruct (issue e fault (OWrite fo 0 y) s3) as [s4 r4]. cbn [fst] in G4.
      destruct r4; [cbn [fst]; apply clean_atomic, cleanup_clean, G4|].
      apply finalize_single_atomic; assumption.
    - apply clean_atomic, cleanup_clean, G3.
    - apply clean_atomic, cleanup_clean, G3.
    - apply clean_atomic, cleanup_clean, G3.
    - destruct prof; cbn [fst]; [apply clean_atomic, cleanup_clean, G3 | apply clean_atomic, G3]. }
  assert (Hopen : forall s', good e f0 p t s' ->
            good e f0 p t (fst (open_output e fault Real t s')) /\
            (forall o, snd (open_output e fault Real t s') = Some o -> exists fo, o = OutTmp fo /\ next_ino f0 <= fo)).
  { intros s' [A B]. unfold open_output.
    destruct (open_output_real_clean e fault f0 t s' A) as [C D].
    pose proof (open_output_real_hist_ok e fault t s' B) as K.
    destruct (open_output_real e fault t s') as [s3 [i|]]; cbn [fst snd] in *.
    - split; [split; assumption|]. intros o E; injection E as <-. exists i. split; [reflexivity | apply D; reflexivity].
    - split; [split; assumption | discriminate]. }
  destruct (eager (i_data meta)).
  - destruct (Hopen s2 G2) as [G3 Ho].
    destruct (open_output e fault Real t s2) as [s3 [o|]]; cbn [fst snd] in *; [|apply clean_atomic, G3].
    apply Hafter; [exact G3 | right; apply Ho; reflexivity|].
    intros ->. destruct (Ho _ eq_refl) as (fo & E & _). discriminate.
  - fold res. destruct res as [[y [|]]| | |] eqn:Eres.
    + destruct (Hopen s2 G2) as [G3 Ho].
      destruct (open_output e fault Real t s2) as [s3 [o|]]; cbn [fst snd] in *; [|apply clean_atomic, G3].
      apply Hafter; [exact G3 | right; apply Ho; reflexivity|].
      intros ->. destruct (Ho _ eq_refl) as (fo & E & _). discriminate.
    + apply (Hafter OutNone s2 G2 (or_introl eq_refl)). intros _ y' E. discriminate.
    + apply (Hafter OutNone s2 G2 (or_introl eq_refl)). intros _ y' E. discriminate.
    + apply (Hafter OutNone s2 G2 (or_introl eq_refl)). intros _ y' E. discriminate.
    + apply (Hafter OutNone s2 G2 (or_introl eq_refl)). intros _ y' E. discriminate.
Qed.

(* ---------- what the committed state looks like (C09): the fault-free run on a single-link file ---------- *)
Definition new_owner (e : env) (meta : inode) : N * N :=
  if e_can_chown e || ((i_uid meta =? e_uid e) && (i_gid meta =? e_gid e) && (e_uid e =? e_uid e))
  then (i_uid meta, i_gid meta) else (e_uid e, e_gid e).

Lemma issue_nofault e o s :
  issue e None o s =
    (mk_sim (fst (apply_op e (s_fs s) o)) ((o, snd (apply_op e (s_fs s) o)) :: s_trace s) (S (s_n s))
            (fst (apply_op e (s_fs s) o) :: s_hist s), snd (apply_op e (s_fs s) o)).
Proof. reflexivity. Qed.

(* knowledge about the temporary file while it is being prepared *)
Definition tmpinfo (e : env) (meta : inode) (f : fs) (t : path) (fo : N)
           (d : option bytes) (m : option N) (mt : option Z) : Prop :=
  names f t = Some fo /\
  exists n, inodes f fo = Some n /\ i_kind n = KReg /\ i_nlink n = 1 /\
            (forall d', d = Some d' -> i_data n = d') /\
            (forall m', m = Some m' -> i_mode n = m') /\
            (forall mt', mt = Some mt' -> i_mtime n = mt') /\
            ((i_uid n, i_gid n) = (i_uid meta, i_gid meta) \/ (i_uid n, i_gid n) = (e_uid e, e_gid e)).

Lemma tmpinfo_write e meta f t fo y m mt :
  tmpinfo e meta f t fo (Some []) m mt ->
  tmpinfo e meta (fst (apply_op e f (OWrite fo 0 y))) t fo (Some y) m mt.
Proof.
  intros (Hn & n & Hi & Hk & Hl & Hd & Hm & Ht & Ho). cbn [apply_op fst]. unfold upd_inode. rewrite Hi.
  split; [exact Hn|]. eexists. split; [cbn [set_inode inodes]; rewrite N.eqb_refl; reflexivity|].
  cbn [with_data i_kind i_nlink i_data i_mode i_mtime i_uid i_gid]. repeat split; auto.
  intros d' E; injection E as <-. rewrite (Hd [] eq_refl). unfold write_at. cbn [firstn app length Nat.add].
  rewrite skipn_nil, app_nil_r. reflexivity.
Qed.

Lemma tmpinfo_lchown e meta f t fo d mt :
  tmpinfo e meta f t fo d None mt ->
  tmpinfo e meta (fst (apply_op e f (OLchown t (i_uid meta) (i_gid meta)))) t fo d None mt.
Proof.
  intros (Hn & n & Hi & Hk & Hl & Hd & Hm & Ht & Ho). cbn [apply_op]. rewrite Hn, Hi.
  destruct (e_can_chown e || (i_uid meta =? i_uid n) && (i_gid meta =? i_gid n) && (i_uid n =? e_uid e));
    cbn [fst]; [|exists; [exact Hn|]; exists n; repeat split; auto].
  split; [exact Hn|]. eexists. split; [cbn [set_inode inodes]; rewrite N.eqb_refl; reflexivity|].
  cbn [with_mode with_owner i_kind i_nlink i_data i_mode i_mtime i_uid i_gid]. repeat split; auto. discriminate.
Qed.

Lemma tmpinfo_fchmod e meta f t fo d m0 mt m :
  tmpinfo e meta f t fo d m0 mt ->
  tmpinfo e meta (fst (apply_op e f (OFchmod fo m))) t fo d (Some m) mt.
Proof.
  intros (Hn & n & Hi & Hk & Hl & Hd & Hm & Ht & Ho). cbn [apply_op fst]. unfold upd_inode. rewrite Hi.
  split; [exact Hn|]. eexists. split; [cbn [set_inode inodes]; rewrite N.eqb_refl; reflexivity|].
  cbn [with_mode i_kind i_nlink i_data i_mode i_mtime i_uid i_gid]. repeat split; auto. intros m' E; injection E as <-. reflexivity.
Qed.

Lemma tmpinfo_futimens e meta f t fo d m mt0 mt :
  tmpinfo e meta f t fo d m mt0 ->
  tmpinfo e meta (fst (apply_op e f (OFutimens fo mt))) t fo d m (Some mt).
Proof.
  intros (Hn & n & Hi & Hk & Hl & Hd & Hm & Ht & Ho). cbn [apply_op fst]. unfold upd_inode. rewrite Hi.
  split; [exact Hn|]. eexists. split; [cbn [set_inode inodes]; rewrite N.eqb_refl; reflexivity|].
  cbn [with_mtime i_kind i_nlink i_data i_mode i_mtime i_uid i_gid]. repeat split; auto. intros m' E; injection E as <-. reflexivity.
Qed.

(* the committed state *)
Definition committed (e : env) (meta : inode) (f0 : fs) (p t : path) (y : bytes) (f : fs) : Prop :=
  exists fo n, next_ino f0 <= fo /\ names f p = Some fo /\ names f t = None /\
    (forall q, q <> p -> q <> t -> names f q = names f0 q) /\
    inodes f fo = Some n /\ i_kind n = KReg /\ i_nlink n = 1 /\ i_data n = y /\
    i_mode n = i_mode meta /\ i_mtime n = i_mtime meta /\
    ((i_uid n, i_gid n) = (i_uid meta, i_gid meta) \/ (i_uid n, i_gid n) = (e_uid e, e_gid e)).

Lemma rename_commits e meta f0 p t fo y f :
  p <> t -> pre_commit f0 t f -> next_ino f0 <= fo ->
  tmpinfo e meta f t fo (Some y) (Some (i_mode meta)) (Some (i_mtime meta)) ->
  snd (apply_op e f (ORename t p)) = None /\
  committed e meta f0 p t y (fst (apply_op e f (ORename t p))).
Proof.
  intros Hpt (Hnm & _ & _ & _) Hfo (Hn & n & Hi & Hk & Hl & Hd & Hm & Ht & Ho).
  cbn [apply_op]. rewrite Hn. split; [reflexivity|]. cbn [fst].
  exists fo, n. split; [exact Hfo|].
  assert (Hpp : path_eqb p t = false) by (apply path_eqb_neq, Hpt).
  assert (Htp : path_eqb t p = false) by (apply path_eqb_neq, not_eq_sym, Hpt).
  split; [cbn [set_name names]; rewrite Hpp, path_eqb_refl; reflexivity|].
  split; [cbn [set_name names]; rewrite path_eqb_refl; reflexivity|].
  split.
  { intros q Hq1 Hq2. cbn [set_name names]. rewrite !path_eqb_neq by assumption.
    destruct (names f p) as [j|]; [destruct (j =? fo); [|rewrite upd_inode_names]|]; apply Hnm; assumption. }
  split.
  { cbn [set_name inodes]. destruct (names f p) as [j|]; [|exact Hi].
    destruct (N.eqb_spec j fo) as [->|Hj]; [exact Hi|]. rewrite upd_inode_other by (apply not_eq_sym, Hj). exact Hi. }
  repeat split; auto.
Qed.


Lemma issue_result e fault o s :
  (snd (issue e fault o s) = None ->
     s_fs (fst (issue e fault o s)) = fst (apply_op e (s_fs s) o) /\ snd (apply_op e (s_fs s) o) = None) /\
  (snd (issue e fault o s) <> None -> s_fs (fst (issue e fault o s)) = s_fs s).
Proof.
  destruct (issue_cases e fault o s) as [(er & E)|E]; rewrite E; cbn [fst snd s_fs].
  - split; [discriminate | reflexivity].
  - split; [auto|]. intros H. destruct (snd (apply_op e (s_fs s) o)) as [er|] eqn:Er; [|contradiction].
    apply (apply_op_fail _ _ _ _ Er).
Qed.

Lemma create_tmpinfo e meta f t :
  snd (apply_op e f (OCreateExcl t)) = None ->
  tmpinfo e meta (fst (apply_op e f (OCreateExcl t))) t (next_ino f) (Some []) None None.
Proof.
  cbn [apply_op]. destruct (names f t); [discriminate|]. intros _. cbn [fst].
  split; [cbn [names]; rewrite path_eqb_refl; reflexivity|].
  eexists. split; [cbn [inodes]; rewrite N.eqb_refl; reflexivity|].
  cbn [i_kind i_nlink i_data i_mode i_mtime i_uid i_gid]. repeat split; auto; try discriminate.
  intros d' E; injection E as <-. reflexivity.
Qed.

Lemma open_real_tmpinfo e fault meta t s i :
  snd (open_output_real e fault t s) = Some i ->
  tmpinfo e meta (s_fs (fst (open_output_real e fault t s))) t i (Some []) None None.
Proof.
  unfold open_output_real.
  destruct (issue_result e fault (OCreateExcl t) s) as [R1 _].
  destruct (issue e fault (OCreateExcl t) s) as [s1 r1]. cbn [fst snd] in *.
  destruct r1 as [er|]; cbn [fst snd].
  2:{ intros E; injection E as <-. destruct (R1 eq_refl) as [-> Hn]. apply create_tmpinfo, Hn. }
  destruct er; cbn [fst snd]; try discriminate.
  destruct (issue e fault (OUnlink t) s1) as [s2 r2]. cbn [fst snd].
  destruct r2; cbn [fst snd]; [discriminate|].
  destruct (issue_result e fault (OCreateExcl t) s2) as [R3 _].
  destruct (issue e fault (OCreateExcl t) s2) as [s3 r3]. cbn [fst snd] in *.
  destruct r3; cbn [fst snd]; [discriminate|].
  intros E; injection E as <-. destruct (R3 eq_refl) as [-> Hn]. apply create_tmpinfo, Hn.
Qed.

Lemma finalize_single_commit e fault p t f0 meta fo y s :
  p <> t -> i_nlink meta = 1 -> next_ino f0 <= fo -> clean f0 t s ->
  tmpinfo e meta (s_fs s) t fo (Some y) None None ->
  snd (finalize_mod e fault Real p t meta (OutTmp fo) y s) = Some Replaced ->
  committed e meta f0 p t y (s_fs (fst (finalize_mod e fault Real p t meta (OutTmp fo) y s))).
Proof.
  intros Hpt Hn Hfo Hc Hti. unfold finalize_mod. rewrite Hn, N.eqb_refl.
  pose proof (issue_clean e fault f0 t (OLchown t (i_uid meta) (i_gid meta)) s Hc eq_refl) as H1.
  destruct (issue_result e fault (OLchown t (i_uid meta) (i_gid meta)) s) as [Ra Rb].
  destruct (issue e fault (OLchown t (i_uid meta) (i_gid meta)) s) as [s1 r1]. cbn [fst snd] in *.
  assert (Hti1 : tmpinfo e meta (s_fs s1) t fo (Some y) None None).
  { destruct r1 as [er|]; [rewrite Rb by discriminate; exact Hti|].
    destruct (Ra eq_refl) as [-> _]. apply tmpinfo_lchown, Hti. }
  assert (Hgo :
    snd (step e fault t (OutTmp fo) (OFchmod fo (i_mode meta)) s1 (fun s2 =>
         step e fault t (OutTmp fo) (OFutimens fo (i_mtime meta)) s2 (fun s3 =>
         step e fault t (OutTmp fo) (ORename t p) s3 (fun s4 => (s4, Some Replaced))))) = Some Replaced ->
    committed e meta f0 p t y (s_fs (fst
        (step e fault t (OutTmp fo) (OFchmod fo (i_mode meta)) s1 (fun s2 =>
         step e fault t (OutTmp fo) (OFutimens fo (i_mtime meta)) s2 (fun s3 =>
         step e fault t (OutTmp fo) (ORename t p) s3 (fun s4 => (s4, Some Replaced)))))))).
  { unfold step.
    pose proof (issue_clean e fault f0 t (OFchmod fo (i_mode meta)) s1 H1 Hfo) as H2.
    destruct (issue_result e fault (OFchmod fo (i_mode meta)) s1) as [Ra2 _].
    destruct (issue e fault (OFchmod fo (i_mode meta)) s1) as [s2 r2]. cbn [fst snd] in *.
    destruct r2; [cbn [snd]; discriminate|].
    destruct (Ra2 eq_refl) as [E2 _].
    assert (Hti2 : tmpinfo e meta (s_fs s2) t fo (Some y) (Some (i_mode meta)) None)
      by (rewrite E2; apply (tmpinfo_fchmod e meta (s_fs s1) t fo (Some y) None None (i_mode meta)), Hti1).
    pose proof (issue_clean e fault f0 t (OFutimens fo (i_mtime meta)) s2 H2 Hfo) as H3.
    destruct (issue_result e fault (OFutimens fo (i_mtime meta)) s2) as [Ra3 _].
    destruct (issue e fault (OFutimens fo (i_mtime meta)) s2) as [s3 r3]. cbn [fst snd] in *.
    destruct r3; [cbn [snd]; discriminate|].
    destruct (Ra3 eq_refl) as [E3 _].
    assert (Hti3 : tmpinfo e meta (s_fs s3) t fo (Some y) (Some (i_mode meta)) (Some (i_mtime meta)))
      by (rewrite E3; apply (tmpinfo_futimens e meta (s_fs s2) t fo (Some y) (Some (i_mode meta)) None (i_mtime meta)), Hti2).
    destruct (issue_result e fault (ORename t p) s3) as [Ra4 _].
    destruct (issue e fault (ORename t p) s3) as [s4 r4]. cbn [fst snd] in *.
    destruct r4; [cbn [snd]; discriminate|]. cbn [fst snd]. intros _.
    destruct (Ra4 eq_refl) as [E4 _]. rewrite E4.
    destruct H3 as [Hpre _].
    apply (rename_commits e meta f0 p t fo y (s_fs s3) Hpt Hpre Hfo Hti3). }
  destruct r1 as [er|]; [|exact Hgo].
  destruct er; try exact Hgo; cbn [snd]; discriminate.
Qed.

(* whenever a real run on a single-link file reports Replaced, the path now names a new inode that
   holds the handler's output with the original mode and mtime (owner as far as chown was permitted),
   the temporary name is gone and all other names are as before — whatever single fault was injected *)
Theorem replaced_committed e fault prof eager handler p f0 ip meta :
  names f0 p = Some ip -> inodes f0 ip = Some meta -> i_nlink meta = 1 ->
  ip < next_ino f0 -> names f0 (tmp_path p) <> Some ip ->
  snd (run_handler e fault Real prof eager handler p (init_sim f0)) = Some Replaced ->
  exists y, handler (i_data meta) = Ok (y, true) /\
            committed e meta f0 p (tmp_path p) y (s_fs (fst (run_handler e fault Real prof eager handler p (init_sim f0)))).
Proof.
  intros Hp Hi Hn Hlt Hnt. set (t := tmp_path p).
  assert (Hpt : p <> t) by (apply not_eq_sym, tmp_path_neq).
  assert (C0 : clean f0 t (init_sim f0)).
  { split; [apply pre_commit_refl | constructor; [apply pre_commit_refl | constructor]]. }
  unfold run_handler. cbv zeta. fold t.
  pose proof (issue_clean e fault f0 t (OOpenRead p) _ C0 I) as C1.
  destruct (issue e fault (OOpenRead p) (init_sim f0)) as [s1 r1]. cbn [fst] in C1.
  destruct r1; [cbn [snd]; discriminate|].
  destruct (names (s_fs s1) p) as [ip'|] eqn:Ep1; [|cbn [snd]; discriminate].
  pose proof (issue_clean e fault f0 t (OFstat ip') _ C1 I) as C2.
  destruct (issue e fault (OFstat ip') s1) as [s2 r2]. cbn [fst] in C2.
  destruct r2; [cbn [snd]; discriminate|].
  destruct (inodes (s_fs s2) ip') as [meta'|] eqn:Ei2; [|cbn [snd]; discriminate].
  assert (Hmeta : meta' = meta).
  { destruct C1 as [(Hn1 & _) _]. destruct C2 as [(_ & Hi2 & _) _].
    rewrite Hn1 in Ep1 by exact Hpt. rewrite Hp in Ep1. injection Ep1 as <-.
    rewrite Hi2 in Ei2 by assumption. rewrite Hi in Ei2. injection Ei2 as <-. reflexivity. }
  subst meta'.
  set (res := handler (i_data meta)).
  assert (Hafter : forall o s3, clean f0 t s3 ->
            (o = OutNone \/ exists fo, o = OutTmp fo /\ next_ino f0 <= fo /\ tmpinfo e meta (s_fs s3) t fo (Some []) None None) ->
            (o = OutNone -> forall y, res <> Ok (y, true)) ->
     let r := match res with
        | Panic => match prof with Debug => (cleanup e fault t o s3, None) | Release => (s3, None) end
        | Bad => (cleanup e fault t o s3, Some BadFormat)
        | Err => (cleanup e fault t o s3, Some Error)
        | Ok (_, false) => (cleanup e fault t o s3, Some Noop)
        | Ok (y, true) =>
            match o with
            | OutTmp fo => step e fault t o (OWrite fo 0 y) s3 (fun s4 => finalize_mod e fault Real p t meta o y s4)
            | _ => finalize_mod e fault Real p t meta o y s3
            end
        end in
     snd r = Some Replaced -> exists y, res = Ok (y, true) /\ committed e meta f0 p t y (s_fs (fst r))).
  { intros o s3 C3 Ho Hnone. cbv zeta.
    destruct res as [[y [|]]| | |]; cbn [fst snd]; try discriminate.
    - destruct Ho as [->|(fo & -> & Hfo & Hti)]; [exfalso; exact (Hnone eq_refl y eq_refl)|].
      unfold step.
      pose proof (issue_clean e fault f0 t (OWrite fo 0 y) _ C3 Hfo) as C4.
      destruct (issue_result e fault (OWrite fo 0 y) s3) as [Ra _].
      destruct (issue e fault (OWrite fo 0 y) s3) as [s4 r4]. cbn [fst snd] in *.
      destruct r4; [cbn [snd]; discriminate|].
      destruct (Ra eq_refl) as [E4 _].
      intros Hr. exists y. split; [reflexivity|].
      apply finalize_single_commit; try assumption.
      rewrite E4. apply tmpinfo_write, Hti.
    - destruct prof; cbn [snd]; discriminate. }
  assert (Hopen : forall s', clean f0 t s' ->
            clean f0 t (fst (open_output e fault Real t s')) /\
            (forall o, snd (open_output e fault Real t s') = Some o ->
               exists fo, o = OutTmp fo /\ next_ino f0 <= fo /\
                          tmpinfo e meta (s_fs (fst (open_output e fault Real t s'))) t fo (Some []) None None)).
  { intros s' A. unfold open_output.
    destruct (open_output_real_clean e fault f0 t s' A) as [C D].
    pose proof (open_real_tmpinfo e fault meta t s') as T.
    destruct (open_output_real e fault t s') as [s3 [i|]]; cbn [fst snd] in *.
    - split; [assumption|]. intros o E; injection E as <-. exists i. split; [reflexivity|]. split; [apply D; reflexivity | apply T; reflexivity].
    - split; [assumption | discriminate]. }
  destruct (eager (i_data meta)).
  - destruct (Hopen s2 C2) as [C3 Ho].
    destruct (open_output e fault Real t s2) as [s3 [o|]]; cbn [fst snd] in *; [|discriminate].
    apply Hafter; [exact C3 | right; apply Ho; reflexivity|].
    intros ->. destruct (Ho _ eq_refl) as (fo & E & _). discriminate.
  - fold res. destruct res as [[y [|]]| | |] eqn:Eres.
    + destruct (Hopen s2 C2) as [C3 Ho].
      destruct (open_output e fault Real t s2) as [s3 [o|]]; cbn [fst snd] in *; [|discriminate].
      apply Hafter; [exact C3 | right; apply Ho; reflexivity|].
      intros ->. destruct (Ho _ eq_refl) as (fo & E & _). discriminate.
    + apply (Hafter OutNone s2 C2 (or_introl eq_refl)). intros _ y' E. discriminate.
    + apply (Hafter OutNone s2 C2 (or_introl eq_refl)). intros _ y' E. discriminate.
    + apply (Hafter OutNone s2 C2 (or_introl eq_refl)). intros _ y' E. discriminate.
    + apply (Hafter OutNone s2 C2 (or_introl eq_refl)). intros _ y' E. discriminate.
Qed.

(* in a pre-commit state the file is entirely original: same inode number, same inode *)
Lemma pre_commit_untouched f0 p f ip :
  names f0 p = Some ip -> ip < next_ino f0 -> names f0 (tmp_path p) <> Some ip ->
  pre_commit f0 (tmp_path p) f ->
  obs f p = obs f0 p /\ (forall q, q <> tmp_path p -> names f q = names f0 q).
Proof.
  intros Hp Hlt Hnt (Hn & Hi & _ & _). split; [|exact Hn].
  unfold obs. rewrite Hn by (apply not_eq_sym, tmp_path_neq). rewrite Hp. rewrite Hi by assumption. reflexivity.
Qed.

(* why the order lchown-then-fchmod matters: with the opposite order set-id bits are lost *)
Example chmod_then_chown_loses_setid :
  let e := mk_env 18 0 0 true 0 in
  let n := mk_inode KReg [] 420 0 0 0 1 in
  let f := mk_fs (fun q => if path_eqb q [116] then Some 5 else None) (fun j => if j =? 5 then Some n else None) 6 in
  option_map i_mode (inodes (apply_ops e f [OFchmod 5 3565; OLchown [116] 0 0]) 5) = Some 493 /\
  option_map i_mode (inodes (apply_ops e f [OLchown [116] 0 0; OFchmod 5 3565]) 5) = Some 3565.
Proof. vm_compute. split; reflexivity. Qed.

(* ---------- frame of one handler run, any link count (C13 / C14) ---------- *)
(* everything except the path p, its hidden temp name t, the inode ip of p, a stale temp file's inode and
   inodes created by the run is as before *)
Definition frame_inv (f0 : fs) (p t : path) (ip : N) (f : fs) : Prop :=
  (forall q, q <> p -> q <> t -> names f q = names f0 q) /\
  (forall j, j < next_ino f0 -> j <> ip -> names f0 t <> Some j -> inodes f j = inodes f0 j) /\
  next_ino f0 <= next_ino f.

Lemma pre_commit_frame f0 p t ip f : pre_commit f0 t f -> frame_inv f0 p t ip f.
Proof.
  intros (A & B & C & _). split; [|split].
  - intros q _ Hq. apply A, Hq.
  - intros j Hj _ Hs. apply B; assumption.
  - exact C.
Qed.

(* operations on the file's own inode, and the final rename *)
Definition own_op (p t : path) (ip : N) (o : op) : Prop :=
  match o with
  | OWrite i _ _ | OTruncate i _ | OFutimens i _ | OFchmod i _ => i = ip
  | ORename a b => a = t /\ b = p
  | OOpenWrite _ | OOpenRead _ | OFstat _ | OOpenDevNull => True
  | OUnlink q => q = t
  | _ => False
  end.

Lemma own_op_frame e f0 p t ip f o :
  p <> t -> ip < next_ino f0 ->
  (forall j, names f t = Some j -> names f0 t = Some j \/ next_ino f0 <= j) ->
  (forall j, names f p = Some j -> j = ip \/ names f0 t = Some j \/ next_ino f0 <= j) ->
  frame_inv f0 p t ip f -> own_op p t ip o -> frame_inv f0 p t ip (fst (apply_op e f o)).
Proof.
  intros Hpt Hip Ht Hp (A & B & C) Ho.
  destruct o; cbn [own_op] in Ho; try contradiction; cbn [apply_op].
  - destruct (names f p0); split; auto.
  - split; auto.
  - split; auto.
  - (* unlink t *) subst p0. destruct (names f t) as [j|] eqn:Et; [|split; auto]. cbn [fst].
    split; [|split].
    + intros q Hq1 Hq2. rewrite upd_inode_names. cbn [set_name names]. rewrite path_eqb_neq by exact Hq2. apply A; assumption.
    + intros k Hk Hk2 Hs. rewrite upd_inode_other.
      * cbn [set_name inodes]. apply B; assumption.
      * intros ->. destruct (Ht _ eq_refl) as [H|H]; [contradiction | lia].
    + rewrite upd_inode_next. exact C.
  - subst i. split; [|split]; cbn [fst]; rewrite ?upd_inode_names, ?upd_inode_next; auto.
    intros j Hj Hj2 Hs. rewrite upd_inode_other by exact Hj2. apply B; assumption.
  - subst i. split; [|split]; cbn [fst]; rewrite ?upd_inode_names, ?upd_inode_next; auto.
    intros j Hj Hj2 Hs. rewrite upd_inode_other by exact Hj2. apply B; assumption.
  - subst i. split; [|split]; cbn [fst]; rewrite ?upd_inode_names, ?upd_inode_next; auto.
    intros j Hj Hj2 Hs. rewrite upd_inode_other by exact Hj2. apply B; assumption.
  - (* rename t p *) destruct Ho as [-> ->]. destruct (names f t) as [i|] eqn:Et; [|split; auto]. cbn [fst].
    split; [|split].
    + intros q Hq1 Hq2. cbn [set_name names]. rewrite !path_eqb_neq by assumption.
      destruct (names f p) as [j|]; [destruct (j =? i); [|rewrite upd_inode_names]|]; apply A; assumption.
    + intros k Hk Hk2 Hs. cbn [set_name inodes].
      destruct (names f p) as [j|] eqn:Ep; [|apply B; assumption].
      destruct (j =? i); [apply B; assumption|].
      rewrite upd_inode_other; [apply B; assumption|].
      intros ->. destruct (Hp _ eq_refl) as [H|[H|H]]; [contradiction | contradiction | lia].
    + cbn [set_name next_ino]. destruct (names f p) as [j|]; [destruct (j =? i); [|rewrite upd_inode_next]|]; exact C.
  - destruct (names f p0); split; auto.
  - subst i. split; [|split]; cbn [fst]; rewrite ?upd_inode_names, ?upd_inode_next; auto.
    intros j Hj Hj2 Hs. rewrite upd_inode_other by exact Hj2. apply B; assumption.
Qed.

Definition fgood (f0 : fs) (p t : path) (ip : N) (f : fs) : Prop :=
  frame_inv f0 p t ip f /\
  (forall j, names f t = Some j -> names f0 t = Some j \/ next_ino f0 <= j) /\
  (forall j, names f p = Some j -> j = ip \/ names f0 t = Some j \/ next_ino f0 <= j).

Lemma clean_fgood f0 p t ip s :
  p <> t -> names f0 p = Some ip -> clean f0 t s -> fgood f0 p t ip (s_fs s).
Proof.
  intros Hpt Hp [Hc _]. split; [apply pre_commit_frame, Hc|]. split.
  - intros j Hj. apply (pre_commit_tmp_target _ _ _ _ Hc Hj).
  - intros j Hj. destruct Hc as (A & _). rewrite A in Hj by exact Hpt. rewrite Hp in Hj. injection Hj as <-. left. reflexivity.
Qed.

(* operations that leave all names alone, or only remove the temp name *)
Definition inode_or_unlink (t : path) (ip : N) (o : op) : Prop :=
  match o with
  | OWrite i _ _ | OTruncate i _ | OFutimens i _ => i = ip
  | OUnlink q => q = t
  | _ => False
  end.

Lemma inode_or_unlink_good e f0 p t ip f o :
  p <> t -> ip < next_ino f0 -> fgood f0 p t ip f -> inode_or_unlink t ip o -> fgood f0 p t ip (fst (apply_op e f o)).
Proof.
  intros Hpt Hip (Hf & HT & HP) Ho.
  assert (Hown : own_op p t ip o) by (destruct o; cbn in *; auto; contradiction).
  split; [apply own_op_frame; assumption|].
  destruct o; cbn [inode_or_unlink] in Ho; try contradiction; cbn [apply_op].
  - subst p0. destruct (names f t) as [j|] eqn:Et; cbn [fst].
    2:{ split; [intros j Hj; rewrite Et in Hj; discriminate | exact HP]. }
    rewrite upd_inode_names. cbn [set_name names]. split.
    + rewrite path_eqb_refl. discriminate.
    + rewrite path_eqb_neq by exact Hpt. exact HP.
  - cbn [fst]. rewrite upd_inode_names. split; assumption.
  - cbn [fst]. rewrite upd_inode_names. split; assumption.
  - cbn [fst]. rewrite upd_inode_names. split; assumption.
Qed.

Lemma issue_fgood e fault f0 p t ip o s :
  p <> t -> ip < next_ino f0 -> fgood f0 p t ip (s_fs s) -> inode_or_unlink t ip o ->
  fgood f0 p t ip (s_fs (fst (issue e fault o s))).
Proof.
  intros Hpt Hip H Ho. destruct (issue_fs e fault o s) as [E|[E _]]; rewrite E; [exact H|].
  apply inode_or_unlink_good; assumption.
Qed.

Lemma cleanup_fgood e fault f0 p t ip o s :
  p <> t -> ip < next_ino f0 -> fgood f0 p t ip (s_fs s) -> fgood f0 p t ip (s_fs (cleanup e fault t o s)).
Proof.
  intros Hpt Hip H. destruct o; cbn [cleanup]; try exact H. apply issue_fgood; try assumption. reflexivity.
Qed.

Lemma finalize_frame e fault p t f0 ip meta fo y s :
  p <> t -> names f0 p = Some ip -> ip < next_ino f0 -> next_ino f0 <= fo -> clean f0 t s ->
  frame_inv f0 p t ip (s_fs (fst (finalize_mod e fault Real p t meta (OutTmp fo) y s))).
Proof.
  intros Hpt Hp Hip Hfo Hc. unfold finalize_mod.
  assert (CF : forall s', clean f0 t s' -> frame_inv f0 p t ip (s_fs s')) by (intros s' [A _]; apply pre_commit_frame, A).
  destruct (i_nlink meta =? 1).
  - (* single link: lchown, fchmod, futimens, rename *)
    pose proof (issue_clean e fault f0 t (OLchown t (i_uid meta) (i_gid meta)) s Hc eq_refl) as H1.
    destruct (issue e fault (OLchown t (i_uid meta) (i_gid meta)) s) as [s1 r1]. cbn [fst] in H1.
    assert (Hgo : frame_inv f0 p t ip (s_fs (fst
      (step e fault t (OutTmp fo) (OFchmod fo (i_mode meta)) s1 (fun s2 =>
       step e fault t (OutTmp fo) (OFutimens fo (i_mtime meta)) s2 (fun s3 =>
       step e fault t (OutTmp fo) (ORename t p) s3 (fun s4 => (s4, Some Replaced)))))))).
    { unfold step.
      pose proof (issue_clean e fault f0 t (OFchmod fo (i_mode meta)) s1 H1 Hfo) as H2.
      destruct (issue e fault (OFchmod fo (i_mode meta)) s1) as [s2 r2]. cbn [fst] in H2.
      destruct r2; [cbn [fst]; apply CF, cleanup_clean, H2|].
      pose proof (issue_clean e fault f0 t (OFutimens fo (i_mtime meta)) s2 H2 Hfo) as H3.
      destruct (issue e fault (OFutimens fo (i_mtime meta)) s2) as [s3 r3]. cbn [fst] in H3.
      destruct r3; [cbn [fst]; apply CF, cleanup_clean, H3|].
      destruct (issue_cases e fault (ORename t p) s3) as [(er & E)|E]; rewrite E.
      - cbn [fst]. apply CF, cleanup_clean. destruct H3 as [A B]. split; assumption.
      - destruct (snd (apply_op e (s_fs s3) (ORename t p))) as [er|] eqn:Er.
        + cbn [fst]. apply CF, cleanup_clean. rewrite (apply_op_fail _ _ _ _ Er).
          destruct H3 as [A B]. split; cbn [s_fs s_hist]; [exact A | constructor; assumption].
        + cbn [fst s_fs]. destruct (clean_fgood f0 p t ip s3 Hpt Hp H3) as (F & T & P).
          apply own_op_frame; try assumption. split; reflexivity. }
    destruct r1 as [er|]; [|exact Hgo]. destruct er; try exact Hgo; cbn [fst]; apply CF, cleanup_clean, H1.
  - (* several links: rewrite in place *)
    unfold step.
    pose proof (issue_clean e fault f0 t (OOpenWrite p) s Hc I) as H1.
    destruct (issue e fault (OOpenWrite p) s) as [s1 r1]. cbn [fst] in H1.
    destruct r1; [cbn [fst]; apply CF, cleanup_clean, H1|].
    destruct (names (s_fs s1) p) as [ip'|] eqn:Ep; [|cbn [fst]; apply CF, cleanup_clean, H1].
    assert (ip' = ip).
    { destruct H1 as [(A & _) _]. rewrite A in Ep by exact Hpt. rewrite Hp in Ep. injection Ep as <-. reflexivity. }
    subst ip'.
    pose proof (clean_fgood f0 p t ip s1 Hpt Hp H1) as G1.
    pose proof (issue_fgood e fault f0 p t ip (OWrite ip 0 y) s1 Hpt Hip G1 eq_refl) as G2.
    destruct (issue e fault (OWrite ip 0 y) s1) as [s2 r2]. cbn [fst] in G2.
    destruct r2; [cbn [fst]; apply (cleanup_fgood e fault f0 p t ip _ s2 Hpt Hip G2)|].
    pose proof (issue_fgood e fault f0 p t ip (OTruncate ip (length y)) s2 Hpt Hip G2 eq_refl) as G3.
    destruct (issue e fault (OTruncate ip (length y)) s2) as [s3 r3]. cbn [fst] in G3.
    destruct r3; [cbn [fst]; apply (cleanup_fgood e fault f0 p t ip _ s3 Hpt Hip G3)|].
    pose proof (issue_fgood e fault f0 p t ip (OFutimens ip (i_mtime meta)) s3 Hpt Hip G3 eq_refl) as G4.
    destruct (issue e fault (OFutimens ip (i_mtime meta)) s3) as [s4 r4]. cbn [fst] in G4.
    destruct r4; cbn [fst]; apply (cleanup_fgood e fault f0 p t ip _ s4 Hpt Hip G4).
Qed.

(* One handler on one file, real mode, any link count, any handler result, any single fault:
   every name other than the file and its hidden temp name is bound as before, and every inode that existed
   before — other than the file's own, and a stale temp file's — is unchanged. *)
Theorem run_frame e fault prof eager handler p f0 ip meta :
  names f0 p = Some ip -> inodes f0 ip = Some meta -> ip < next_ino f0 -> names f0 (tmp_path p) <> Some ip ->
  frame_inv f0 p (tmp_path p) ip (s_fs (fst (run_handler e fault Real prof eager handler p (init_sim f0)))).
Proof.
  intros Hp Hi Hlt Hnt. set (t := tmp_path p).
  assert (Hpt : p <> t) by (apply not_eq_sym, tmp_path_neq).
  assert (CF : forall s', clean f0 t s' -> frame_inv f0 p t ip (s_fs s')) by (intros s' [A _]; apply pre_commit_frame, A).
  assert (C0 : clean f0 t (init_sim f0)).
  { split; [apply pre_commit_refl | constructor; [apply pre_commit_refl | constructor]]. }
  unfold run_handler. cbv zeta. fold t.
  pose proof (issue_clean e fault f0 t (OOpenRead p) _ C0 I) as C1.
  destruct (issue e fault (OOpenRead p) (init_sim f0)) as [s1 r1]. cbn [fst] in C1.
  destruct r1; [apply CF, C1|].
  destruct (names (s_fs s1) p) as [ip'|] eqn:Ep1; [|apply CF, C1].
  pose proof (issue_clean e fault f0 t (OFstat ip') _ C1 I) as C2.
  destruct (issue e fault (OFstat ip') s1) as [s2 r2]. cbn [fst] in C2.
  destruct r2; [apply CF, C2|].
  destruct (inodes (s_fs s2) ip') as [meta'|] eqn:Ei2; [|apply CF, C2].
  set (res := handler (i_data meta')).
  assert (Hafter : forall o s3, clean f0 t s3 ->
            (o = OutNone \/ exists fo, o = OutTmp fo /\ next_ino f0 <= fo) ->
            (o = OutNone -> forall y, res <> Ok (y, true)) ->
     frame_inv f0 p t ip (s_fs (fst (match res with
        | Panic => match prof with Debug => (cleanup e fault t o s3, None) | Release => (s3, None) end
        | Bad => (cleanup e fault t o s3, Some BadFormat)
        | Err => (cleanup e fault t o s3, Some Error)
        | Ok (_, false) => (cleanup e fault t o s3, Some Noop)
        | Ok (y, true) =>
            match o with
            | OutTmp fo => step e fault t o (OWrite fo 0 y) s3 (fun s4 => finalize_mod e fault Real p t meta' o y s4)
            | _ => finalize_mod e fault Real p t meta' o y s3
            end
        end)))).
  { intros o s3 C3 Ho Hnone.
    destruct res as [[y [|]]| | |]; cbn [fst].
    - destruct Ho as [->|(fo & -> & Hfo)]; [exfalso; exact (Hnone eq_refl y eq_refl)|].
      unfold step.
      pose proof (issue_clean e fault f0 t (OWrite fo 0 y) _ C3 Hfo) as C4.
      destruct (issue e fault (OWrite fo 0 y) s3) as [s4 r4]. cbn [fst] in C4.
      destruct r4; [cbn [fst]; apply CF, cleanup_clean, C4|].
      apply finalize_frame; assumption.
    - apply CF, cleanup_clean, C3.
    - apply CF, cleanup_clean, C3.
    - apply CF, cleanup_clean, C3.
    - destruct prof; cbn [fst]; [apply CF, cleanup_clean, C3 | apply CF, C3]. }
  assert (Hopen : forall s', clean f0 t s' ->
            clean f0 t (fst (open_output e fault Real t s')) /\
            (forall o, snd (open_output e fault Real t s') = Some o -> exists fo, o = OutTmp fo /\ next_ino f0 <= fo)).
  { intros s' A. unfold open_output.
    destruct (open_output_real_clean e fault f0 t s' A) as [C D].
    destruct (open_output_real e fault t s') as [s3 [i|]]; cbn [fst snd] in *.
    - split; [assumption|]. intros o E; injection E as <-. exists i. split; [reflexivity | apply D; reflexivity].
    - split; [assumption | discriminate]. }
  destruct (eager (i_data meta')).
  - destruct (Hopen s2 C2) as [C3 Ho].
    destruct (open_output e fault Real t s2) as [s3 [o|]]; cbn [fst snd] in *; [|apply CF, C3].
    apply Hafter; [exact C3 | right; apply Ho; reflexivity|].
    intros ->. destruct (Ho _ eq_refl) as (fo & E & _). discriminate.
  - fold res. destruct res as [[y [|]]| | |] eqn:Eres.
    + destruct (Hopen s2 C2) as [C3 Ho].
      destruct (open_output e fault Real t s2) as [s3 [o|]]; cbn [fst snd] in *; [|apply CF, C3].
      apply Hafter; [exact C3 | right; apply Ho; reflexivity|].
      intros ->. destruct (Ho _ eq_refl) as (fo & E & _). discriminate.
    + apply (Hafter OutNone s2 C2 (or_introl eq_refl)). intros _ y' E. discriminate.
    + apply (Hafter OutNone s2 C2 (or_introl eq_refl)). intros _ y' E. discriminate.
    + apply (Hafter OutNone s2 C2 (or_introl eq_refl)). intros _ y' E. discriminate.
    + apply (Hafter OutNone s2 C2 (or_introl eq_refl)). intros _ y' E. discriminate.
Qed.

(* ---------- anything but Replaced leaves a single-link file in a pre-commit state (C14: Noop, errors) ---------- *)
Lemma finalize_single_not_replaced e fault p t f0 meta fo y s :
  i_nlink meta = 1 -> next_ino f0 <= fo -> clean f0 t s ->
  snd (finalize_mod e fault Real p t meta (OutTmp fo) y s) <> Some Replaced ->
  clean f0 t (fst (finalize_mod e fault Real p t meta (OutTmp fo) y s)).
Proof.
  intros Hn Hfo Hc. unfold finalize_mod. rewrite Hn, N.eqb_refl.
  pose proof (issue_clean e fault f0 t (OLchown t (i_uid meta) (i_gid meta)) s Hc eq_refl) as H1.
  destruct (issue e fault (OLchown t (i_uid meta) (i_gid meta)) s) as [s1 r1]. cbn [fst] in H1.
  assert (Hgo :
    snd (step e fault t (OutTmp fo) (OFchmod fo (i_mode meta)) s1 (fun s2 =>
         step e fault t (OutTmp fo) (OFutimens fo (i_mtime meta)) s2 (fun s3 =>
         step e fault t (OutTmp fo) (ORename t p) s3 (fun s4 => (s4, Some Replaced))))) <> Some Replaced ->
    clean f0 t (fst
        (step e fault t (OutTmp fo) (OFchmod fo (i_mode meta)) s1 (fun s2 =>
         step e fault t (OutTmp fo) (OFutimens fo (i_mtime meta)) s2 (fun s3 =>
         step e fault t (OutTmp fo) (ORename t p) s3 (fun s4 => (s4, Some Replaced))))))).
  { unfold step.
    pose proof (issue_clean e fault f0 t (OFchmod fo (i_mode meta)) s1 H1 Hfo) as H2.
    destruct (issue e fault (OFchmod fo (i_mode meta)) s1) as [s2 r2]. cbn [fst] in H2.
    destruct r2; [cbn [fst snd]; intros _; apply cleanup_clean, H2|].
    pose proof (issue_clean e fault f0 t (OFutimens fo (i_mtime meta)) s2 H2 Hfo) as H3.
    destruct (issue e fault (OFutimens fo (i_mtime meta)) s2) as [s3 r3]. cbn [fst] in H3.
    destruct r3; [cbn [fst snd]; intros _; apply cleanup_clean, H3|].
    destruct (issue_cases e fault (ORename t p) s3) as [(er & E)|E]; rewrite E.
    - cbn [fst snd]. intros _. apply cleanup_clean. destruct H3 as [A B]. split; assumption.
    - destruct (snd (apply_op e (s_fs s3) (ORename t p))) as [er|] eqn:Er; cbn [fst snd].
      + intros _. apply cleanup_clean. rewrite (apply_op_fail _ _ _ _ Er).
        destruct H3 as [A B]. split; cbn [s_fs s_hist]; [exact A | constructor; assumption].
      + intros H. exfalso. apply H. reflexivity. }
  destruct r1 as [er|]; [|exact Hgo]. destruct er; try exact Hgo; cbn [fst snd]; intros _; apply cleanup_clean, H1.
Qed.

Theorem not_replaced_untouched e fault prof eager handler p f0 ip meta :
  names f0 p = Some ip -> inodes f0 ip = Some meta -> i_nlink meta = 1 ->
  ip < next_ino f0 -> names f0 (tmp_path p) <> Some ip ->
  snd (run_handler e fault Real prof eager handler p (init_sim f0)) <> Some Replaced ->
  clean f0 (tmp_path p) (fst (run_handler e fault Real prof eager handler p (init_sim f0))).
Proof.
  intros Hp Hi Hn Hlt Hnt. set (t := tmp_path p).
  assert (Hpt : p <> t) by (apply not_eq_sym, tmp_path_neq).
  assert (C0 : clean f0 t (init_sim f0)).
  { split; [apply pre_commit_refl | constructor; [apply pre_commit_refl | constructor]]. }
  unfold run_handler. cbv zeta. fold t.
  pose proof (issue_clean e fault f0 t (OOpenRead p) _ C0 I) as C1.
  destruct (issue e fault (OOpenRead p) (init_sim f0)) as [s1 r1]. cbn [fst] in C1.
  destruct r1; [intros _; exact C1|].
  destruct (names (s_fs s1) p) as [ip'|] eqn:Ep1; [|intros _; exact C1].
  pose proof (issue_clean e fault f0 t (OFstat ip') _ C1 I) as C2.
  destruct (issue e fault (OFstat ip') s1) as [s2 r2]. cbn [fst] in C2.
  destruct r2; [intros _; exact C2|].
  destruct (inodes (s_fs s2) ip') as [meta'|] eqn:Ei2; [|intros _; exact C2].
  assert (Hmeta : meta' = meta).
  { destruct C1 as [(Hn1 & _) _]. destruct C2 as [(_ & Hi2 & _) _].
    rewrite Hn1 in Ep1 by exact Hpt. rewrite Hp in Ep1. injection Ep1 as <-.
    rewrite Hi2 in Ei2 by assumption. rewrite Hi in Ei2. injection Ei2 as <-. reflexivity. }
  subst meta'.
  set (res := handler (i_data meta)).
  assert (Hafter : forall o s3, clean f0 t s3 ->
            (o = OutNone \/ exists fo, o = OutTmp fo /\ next_ino f0 <= fo) ->
            (o = OutNone -> forall y, res <> Ok (y, true)) ->
     let r := match res with
        | Panic => match prof with Debug => (cleanup e fault t o s3, None) | Release => (s3, None) end
        | Bad => (cleanup e fault t o s3, Some BadFormat)
        | Err => (cleanup e fault t o s3, Some Error)
        | Ok (_, false) => (cleanup e fault t o s3, Some Noop)
        | Ok (y, true) =>
            match o with
            | OutTmp fo => step e fault t o (OWrite fo 0 y) s3 (fun s4 => finalize_mod e fault Real p t meta o y s4)
            | _ => finalize_mod e fault Real p t meta o y s3
            end
        end in
     snd r <> Some Replaced -> clean f0 t (fst r)).
  { intros o s3 C3 Ho Hnone. cbv zeta.
    destruct res as [[y [|]]| | |]; cbn [fst snd].
    - destruct Ho as [->|(fo & -> & Hfo)]; [exfalso; exact (Hnone eq_refl y eq_refl)|].
      unfold step.
      pose proof (issue_clean e fault f0 t (OWrite fo 0 y) _ C3 Hfo) as C4.
      destruct (issue e fault (OWrite fo 0 y) s3) as [s4 r4]. cbn [fst snd] in *.
      destruct r4; [cbn [fst snd]; intros _; apply cleanup_clean, C4|].
      apply finalize_single_not_replaced; assumption.
    - intros _. apply cleanup_clean, C3.
    - intros _. apply cleanup_clean, C3.
    - intros _. apply cleanup_clean, C3.
    - destruct prof; cbn [fst snd]; intros _; [apply cleanup_clean, C3 | exact C3]. }
  assert (Hopen : forall s', clean f0 t s' ->
            clean f0 t (fst (open_output e fault Real t s')) /\
            (forall o, snd (open_output e fault Real t s') = Some o -> exists fo, o = OutTmp fo /\ next_ino f0 <= fo)).
  { intros s' A. unfold open_output.
    destruct (open_output_real_clean e fault f0 t s' A) as [C D].
    destruct (open_output_real e fault t s') as [s3 [i|]]; cbn [fst snd] in *.
    - split; [assumption|]. intros o E; injection E as <-. exists i. split; [reflexivity | apply D; reflexivity].
    - split; [assumption | discriminate]. }
  destruct (eager (i_data meta)).
  - destruct (Hopen s2 C2) as [C3 Ho].
    destruct (open_output e fault Real t s2) as [s3 [o|]]; cbn [fst snd] in *; [|intros _; exact C3].
    apply Hafter; [exact C3 | right; apply Ho; reflexivity|].
    intros ->. destruct (Ho _ eq_refl) as (fo & E & _). discriminate.
  - fold res. destruct res as [[y [|]]| | |] eqn:Eres.
    + destruct (Hopen s2 C2) as [C3 Ho].
      destruct (open_output e fault Real t s2) as [s3 [o|]]; cbn [fst snd] in *; [|intros _; exact C3].
      apply Hafter; [exact C3 | right; apply Ho; reflexivity|].
      intros ->. destruct (Ho _ eq_refl) as (fo & E & _). discriminate.
    + apply (Hafter OutNone s2 C2 (or_introl eq_refl)). intros _ y' E. discriminate.
    + apply (Hafter OutNone s2 C2 (or_introl eq_refl)). intros _ y' E. discriminate.
    + apply (Hafter OutNone s2 C2 (or_introl eq_refl)). intros _ y' E. discriminate.
    + apply (Hafter OutNone s2 C2 (or_introl eq_refl)). intros _ y' E. discriminate.
Qed.

(* ---------- the names a run can touch, with no hypothesis on the state (C13) ---------- *)
Definition names_local (p t : path) (o : op) : Prop :=
  match o with
  | OCreateExcl q | OUnlink q | OLchown q _ _ => q = t
  | ORename a b => a = t /\ b = p
  | _ => True
  end.

Definition names_frame (f0 : fs) (p t : path) (f : fs) : Prop := forall q, q <> p -> q <> t -> names f q = names f0 q.

Lemma names_local_frame e f0 p t f o : names_frame f0 p t f -> names_local p t o -> names_frame f0 p t (fst (apply_op e f o)).
Proof.
  intros H Ho q Hq1 Hq2. destruct o; cbn [names_local] in Ho; cbn [apply_op].
  - destruct (names f p0); apply H; assumption.
  - apply H; assumption.
  - subst p0. destruct (names f t); cbn [fst names]; [apply H; assumption|]. rewrite path_eqb_neq by exact Hq2. apply H; assumption.
  - apply H; assumption.
  - subst p0. destruct (names f t); cbn [fst]; [|apply H; assumption]. rewrite upd_inode_names. cbn [set_name names].
    rewrite path_eqb_neq by exact Hq2. apply H; assumption.
  - cbn [fst]. rewrite upd_inode_names. apply H; assumption.
  - cbn [fst]. rewrite upd_inode_names. apply H; assumption.
  - cbn [fst]. rewrite upd_inode_names. apply H; assumption.
  - subst p0. destruct (names f t) as [j|]; [|apply H; assumption]. destruct (inodes f j) as [n|]; [|apply H; assumption].
    destruct (e_can_chown e || _); cbn [fst set_inode names]; apply H; assumption.
  - destruct Ho as [-> ->]. destruct (names f t) as [i|]; cbn [fst]; [|apply H; assumption].
    cbn [set_name names]. rewrite !path_eqb_neq by assumption.
    destruct (names f p) as [j|]; [destruct (j =? i); [|rewrite upd_inode_names]|]; apply H; assumption.
  - destruct (names f p0); apply H; assumption.
  - cbn [fst]. rewrite upd_inode_names. apply H; assumption.
Qed.

Lemma issue_names e fault f0 p t o s :
  names_frame f0 p t (s_fs s) -> names_local p t o -> names_frame f0 p t (s_fs (fst (issue e fault o s))).
Proof.
  intros H Ho. destruct (issue_fs e fault o s) as [E|[E _]]; rewrite E; [exact H | apply names_local_frame; assumption].
Qed.

Theorem run_names_frame e fault m prof eager handler p s f0 :
  names_frame f0 p (tmp_path p) (s_fs s) ->
  names_frame f0 p (tmp_path p) (s_fs (fst (run_handler e fault m prof eager handler p s))).
Proof.
  intros H0. set (t := tmp_path p) in *.
  assert (Hi : forall o s', names_frame f0 p t (s_fs s') -> names_local p t o -> names_frame f0 p t (s_fs (fst (issue e fault o s'))))
    by (intros; apply issue_names; assumption).
  assert (Hcl : forall o s', names_frame f0 p t (s_fs s') -> names_frame f0 p t (s_fs (cleanup e fault t o s'))).
  { intros o s' H. destruct o; cbn [cleanup]; try exact H. apply Hi; [exact H | reflexivity]. }
  assert (Hstep : forall o x s' k, names_frame f0 p t (s_fs s') -> names_local p t x ->
            (forall s1, names_frame f0 p t (s_fs s1) -> names_frame f0 p t (s_fs (fst (k s1)))) ->
            names_frame f0 p t (s_fs (fst (step e fault t o x s' k)))).
  { intros o x s' k H Hx Hk. unfold step. pose proof (Hi x s' H Hx) as H1.
    destruct (issue e fault x s') as [s1 r]. cbn [fst] in H1. destruct r; [cbn [fst]; apply Hcl, H1 | apply Hk, H1]. }
  assert (Hopen : forall s', names_frame f0 p t (s_fs s') -> names_frame f0 p t (s_fs (fst (open_output e fault m t s')))).
  { intros s' H. unfold open_output. destruct m.
    - unfold open_output_real.
      pose proof (Hi (OCreateExcl t) s' H eq_refl) as H1.
      destruct (issue e fault (OCreateExcl t) s') as [s1 r1]. cbn [fst] in H1.
      destruct r1 as [er|]; cbn [fst]; [|exact H1].
      destruct er; cbn [fst]; try exact H1.
      pose proof (Hi (OUnlink t) s1 H1 eq_refl) as H2.
      destruct (issue e fault (OUnlink t) s1) as [s2 r2]. cbn [fst] in H2.
      destruct r2; cbn [fst]; [exact H2|].
      pose proof (Hi (OCreateExcl t) s2 H2 eq_refl) as H3.
      destruct (issue e fault (OCreateExcl t) s2) as [s3 r3]. cbn [fst] in H3. destruct r3; exact H3.
    - pose proof (Hi OOpenDevNull s' H I) as H1.
      destruct (issue e fault OOpenDevNull s') as [s1 r1]. cbn [fst] in H1. destruct r1; exact H1. }
  assert (Hfin : forall meta o y s', names_frame f0 p t (s_fs s') ->
            names_frame f0 p t (s_fs (fst (finalize_mod e fault m p t meta o y s')))).
  { intros meta o y s' H. unfold finalize_mod. destruct o; try exact H.
    destruct (i_nlink meta =? 1).
    - pose proof (Hi (OLchown t (i_uid meta) (i_gid meta)) s' H eq_refl) as H1.
      destruct (issue e fault (OLchown t (i_uid meta) (i_gid meta)) s') as [s1 r1]. cbn [fst] in H1.
      assert (G : names_frame f0 p t (s_fs (fst
          (step e fault t (OutTmp i) (OFchmod i (i_mode meta)) s1 (fun s2 =>
           step e fault t (OutTmp i) (OFutimens i (i_mtime meta)) s2 (fun s3 =>
           step e fault t (OutTmp i) (ORename t p) s3 (fun s4 => (s4, Some Replaced)))))))).
      { apply Hstep; [exact H1 | exact I|]. intros s2 H2. apply Hstep; [exact H2 | exact I|]. intros s3 H3.
        apply Hstep; [exact H3 | split; reflexivity|]. intros s4 H4. exact H4. }
      destruct r1 as [er|]; [|exact G]. destruct er; try exact G; cbn [fst]; apply Hcl, H1.
    - apply Hstep; [exact H | exact I|]. intros s1 H1.
      destruct (names (s_fs s1) p); [|cbn [fst]; apply Hcl, H1].
      apply Hstep; [exact H1 | exact I|]. intros s2 H2. apply Hstep; [exact H2 | exact I|]. intros s3 H3.
      apply Hstep; [exact H3 | exact I|]. intros s4 H4. cbn [fst]. apply Hcl, H4. }
  unfold run_handler. cbv zeta. fold t.
  pose proof (Hi (OOpenRead p) s H0 I) as H1.
  destruct (issue e fault (OOpenRead p) s) as [s1 r1]. cbn [fst] in H1.
  destruct r1; [exact H1|]. destruct (names (s_fs s1) p) as [ip|]; [|exact H1].
  pose proof (Hi (OFstat ip) s1 H1 I) as H2.
  destruct (issue e fault (OFstat ip) s1) as [s2 r2]. cbn [fst] in H2.
  destruct r2; [exact H2|]. destruct (inodes (s_fs s2) ip) as [meta|]; [|exact H2].
  assert (Hafter : forall o s3 res, names_frame f0 p t (s_fs s3) ->
     names_frame f0 p t (s_fs (fst (match res with
        | Panic => match prof with Debug => (cleanup e fault t o s3, None) | Release => (s3, None) end
        | Bad => (cleanup e fault t o s3, Some BadFormat)
        | Err => (cleanup e fault t o s3, Some Error)
        | Ok (_, false) => (cleanup e fault t o s3, Some Noop)
        | Ok (y, true) =>
            match o with
            | OutTmp fo => step e fault t o (OWrite fo 0 y) s3 (fun s4 => finalize_mod e fault m p t meta o y s4)
            | _ => finalize_mod e fault m p t meta o y s3
            end
        end : sim * option presult)))).
  { intros o s3 res H3. destruct res as [[y [|]]| | |]; cbn [fst]; try (apply Hcl, H3).
    - destruct o; try (apply Hfin, H3). apply Hstep; [exact H3 | exact I|]. intros s4 H4. apply Hfin, H4.
    - destruct prof; cbn [fst]; [apply Hcl, H3 | exact H3]. }
  destruct (eager (i_data meta)).
  - pose proof (Hopen s2 H2) as H3. destruct (open_output e fault m t s2) as [s3 [o|]]; cbn [fst] in H3; [|exact H3].
    apply Hafter, H3.
  - destruct (handler (i_data meta)) as [[y [|]]| | |] eqn:Eres.
    + pose proof (Hopen s2 H2) as H3. destruct (open_output e fault m t s2) as [s3 [o|]]; cbn [fst] in H3; [|exact H3].
      apply (Hafter o s3 (Ok (y, true)) H3).
    + apply (Hafter OutNone s2 (Ok (y, false)) H2).
    + apply (Hafter OutNone s2 Bad H2).
    + apply (Hafter OutNone s2 Err H2).
    + apply (Hafter OutNone s2 Panic H2).
Qed.
