(* Rewrite.v — C09/C14: a file with several hard links is rewritten in place: the same inode, seen through
   every link, holds the handler's output; mode, owner and link count are untouched and the mtime is put back. *)
From AD Require Import Bytes Outcome Fs Helper HelperProofs.
Local Arguments firstn : simpl never.
Local Arguments skipn : simpl never.

Lemma write_then_truncate (old y : bytes) : firstn (length y) (write_at old 0 y) = y.
Proof.
  unfold write_at. change (firstn 0 old) with (@nil N). cbn [app].
  rewrite firstn_app, Nat.sub_diag. change (firstn 0 ?l) with (@nil N). rewrite app_nil_r. apply firstn_all.
Qed.

Definition rewrite_ops (f0 : fs) (p : path) (ip : N) (meta : inode) (y : bytes) : list op :=
  [OCreateExcl (tmp_path p); OWrite (next_ino f0) 0 y; OOpenWrite p; OWrite ip 0 y; OTruncate ip (length y); OFutimens ip (i_mtime meta); OUnlink (tmp_path p)].

Lemma issue_ok e o s : snd (apply_op e (s_fs s) o) = None ->
  issue e None o s = (mk_sim (fst (apply_op e (s_fs s) o)) ((o, None) :: s_trace s) (S (s_n s)) (fst (apply_op e (s_fs s) o) :: s_hist s), None).
Proof. intros H. rewrite issue_nofault, H. reflexivity. Qed.

(* the run issues exactly these operations, all succeed, and the result is Rewritten *)
Lemma rewritten_ops e prof eager handler p f0 ip meta y :
  names f0 p = Some ip -> inodes f0 ip = Some meta -> i_nlink meta <> 1 ->
  ip < next_ino f0 -> names f0 (tmp_path p) = None ->
  handler (i_data meta) = Ok (y, true) ->
  snd (run_handler e None Real prof eager handler p (init_sim f0)) = Some Rewritten /\
  s_fs (fst (run_handler e None Real prof eager handler p (init_sim f0))) = apply_ops e f0 (rewrite_ops f0 p ip meta y).
Proof.
  intros Hp Hi Hn Hlt Ht Hh.
  set (t := tmp_path p) in *.
  assert (Hpt : path_eqb p t = false) by (apply path_eqb_neq, not_eq_sym, tmp_path_neq).
  assert (Hnl : (i_nlink meta =? 1) = false) by (apply N.eqb_neq; exact Hn).
  unfold run_handler. cbv zeta. fold t.
  rewrite issue_nofault. cbn [apply_op init_sim s_fs fst snd]. rewrite Hp. cbn [fst snd s_fs]. rewrite Hp.
  rewrite issue_nofault. cbn [apply_op s_fs fst snd]. rewrite Hi, Hh.
  unfold rewrite_ops. fold t. cbn [apply_ops].
  set (F1 := fst (apply_op e f0 (OCreateExcl t))).
  set (F2 := fst (apply_op e F1 (OWrite (next_ino f0) 0 y))).
  set (F3 := fst (apply_op e F2 (OOpenWrite p))).
  set (F4 := fst (apply_op e F3 (OWrite ip 0 y))).
  set (F5 := fst (apply_op e F4 (OTruncate ip (length y)))).
  set (F6 := fst (apply_op e F5 (OFutimens ip (i_mtime meta)))).
  set (F7 := fst (apply_op e F6 (OUnlink t))).
  assert (N1 : forall q, names F1 q = if path_eqb q t then Some (next_ino f0) else names f0 q).
  { intros q. unfold F1. cbn [apply_op]. rewrite Ht. reflexivity. }
  assert (O1 : snd (apply_op e f0 (OCreateExcl t)) = None) by (cbn [apply_op]; rewrite Ht; reflexivity).
  assert (N2 : forall q, names F2 q = names F1 q).
  { intros q. unfold F2. cbn [apply_op fst]. apply (f_equal (fun g => g q)). apply upd_inode_names. }
  assert (E3 : F3 = F2) by (unfold F3; cbn [apply_op]; rewrite N2, N1, Hpt, Hp; reflexivity).
  assert (O3 : snd (apply_op e F2 (OOpenWrite p)) = None) by (cbn [apply_op]; rewrite N2, N1, Hpt, Hp; reflexivity).
  assert (N4 : forall q, names F4 q = names F1 q).
  { intros q. unfold F4. cbn [apply_op fst]. rewrite upd_inode_names, E3. apply N2. }
  assert (N6 : forall q, names F6 q = names F1 q).
  { intros q. unfold F6, F5. cbn [apply_op fst]. rewrite !upd_inode_names. apply N4. }
  assert (O7 : snd (apply_op e F6 (OUnlink t)) = None).
  { cbn [apply_op]. rewrite N6, N1, path_eqb_refl. reflexivity. }
  assert (G : forall s2, s_fs s2 = f0 ->
    exists s3 s', open_output e None Real t s2 = (s3, Some (OutTmp (next_ino f0))) /\
      step e None t (OutTmp (next_ino f0)) (OWrite (next_ino f0) 0 y) s3 (fun s4 => finalize_mod e None Real p t meta (OutTmp (next_ino f0)) y s4) = (s', Some Rewritten) /\
      s_fs s' = F7).
  { intros s2 Hs2.
    unfold open_output, open_output_real.
    rewrite issue_ok by (rewrite Hs2; exact O1). rewrite Hs2. fold F1. cbn [fst snd s_fs s_trace s_n s_hist].
    eexists. eexists. split; [reflexivity|].
    unfold step at 1. rewrite issue_ok by reflexivity. cbn [s_fs s_trace s_n s_hist]. fold F2.
    unfold finalize_mod. rewrite Hnl. unfold step.
    rewrite issue_ok by (cbn [s_fs]; exact O3). cbn [s_fs s_trace s_n s_hist]. fold F3.
    replace (names F3 p) with (Some ip) by (rewrite E3, N2, N1, Hpt, Hp; reflexivity).
    rewrite issue_ok by reflexivity. cbn [s_fs s_trace s_n s_hist]. fold F4.
    rewrite issue_ok by reflexivity. cbn [s_fs s_trace s_n s_hist]. fold F5.
    rewrite issue_ok by reflexivity. cbn [s_fs s_trace s_n s_hist]. fold F6.
    unfold cleanup. rewrite issue_ok by (cbn [s_fs]; exact O7). cbn [fst snd s_fs s_trace s_n s_hist]. fold F7.
    split; reflexivity. }
  destruct (eager (i_data meta));
    match goal with |- context [open_output e None Real t ?s] => destruct (G s eq_refl) as (s3 & s' & Eo & Est & Es) end;
    rewrite Eo; cbv beta iota; rewrite Est; cbn [fst snd]; split; [reflexivity | exact Es | reflexivity | exact Es].
Qed.


Lemma upd_inode_same f i g n : inodes f i = Some n -> inodes (upd_inode f i g) i = Some (g n).
Proof. intros H. unfold upd_inode. rewrite H. cbn [set_inode inodes]. rewrite N.eqb_refl. reflexivity. Qed.

Theorem rewritten_in_place e prof eager handler p f0 ip meta y :
  names f0 p = Some ip -> inodes f0 ip = Some meta -> i_nlink meta <> 1 ->
  ip < next_ino f0 -> names f0 (tmp_path p) = None ->
  handler (i_data meta) = Ok (y, true) ->
  let r := run_handler e None Real prof eager handler p (init_sim f0) in
  let f' := s_fs (fst r) in
  snd r = Some Rewritten /\
  names f' p = Some ip /\ names f' (tmp_path p) = None /\
  (forall q, q <> tmp_path p -> names f' q = names f0 q) /\
  inodes f' ip = Some (with_mtime (i_mtime meta) (with_data y meta)) /\
  (forall j, j <> ip -> j < next_ino f0 -> inodes f' j = inodes f0 j).
Proof.
  intros Hp Hi Hn Hlt Ht Hh r f'. subst r f'.
  destruct (rewritten_ops e prof eager handler p f0 ip meta y Hp Hi Hn Hlt Ht Hh) as [Hr Hf]. rewrite Hf. clear Hf Hr.
  split; [apply (rewritten_ops e prof eager handler p f0 ip meta y Hp Hi Hn Hlt Ht Hh)|].
  set (t := tmp_path p) in *.
  assert (Hpt : path_eqb p t = false) by (apply path_eqb_neq, not_eq_sym, tmp_path_neq).
  assert (Hne : ip <> next_ino f0) by lia.
  unfold rewrite_ops. fold t. cbn [apply_ops].
  set (F1 := fst (apply_op e f0 (OCreateExcl t))).
  set (F2 := fst (apply_op e F1 (OWrite (next_ino f0) 0 y))).
  set (F3 := fst (apply_op e F2 (OOpenWrite p))).
  set (F4 := fst (apply_op e F3 (OWrite ip 0 y))).
  set (F5 := fst (apply_op e F4 (OTruncate ip (length y)))).
  set (F6 := fst (apply_op e F5 (OFutimens ip (i_mtime meta)))).
  set (F7 := fst (apply_op e F6 (OUnlink t))).
  assert (N1 : forall q, names F1 q = if path_eqb q t then Some (next_ino f0) else names f0 q).
  { intros q. unfold F1. cbn [apply_op]. rewrite Ht. reflexivity. }
  assert (I1 : forall j, j <> next_ino f0 -> inodes F1 j = inodes f0 j).
  { intros j Hj. unfold F1. cbn [apply_op]. rewrite Ht. cbn [fst inodes]. apply N.eqb_neq in Hj. rewrite Hj. reflexivity. }
  assert (N2 : forall q, names F2 q = names F1 q).
  { intros q. unfold F2. cbn [apply_op fst]. rewrite upd_inode_names. reflexivity. }
  assert (I2 : forall j, j <> next_ino f0 -> inodes F2 j = inodes f0 j).
  { intros j Hj. unfold F2. cbn [apply_op fst]. rewrite upd_inode_other by exact Hj. apply I1, Hj. }
  assert (E3 : F3 = F2) by (unfold F3; cbn [apply_op]; rewrite N2, N1, Hpt, Hp; reflexivity).
  assert (N4 : forall q, names F4 q = names F1 q).
  { intros q. unfold F4. cbn [apply_op fst]. rewrite upd_inode_names, E3. apply N2. }
  assert (I4 : inodes F4 ip = Some (with_data (write_at (i_data meta) 0 y) meta)).
  { unfold F4. cbn [apply_op fst]. rewrite (upd_inode_same F3 ip _ meta); [reflexivity|]. rewrite E3. rewrite I2 by exact Hne. exact Hi. }
  assert (I4' : forall j, j <> ip -> j <> next_ino f0 -> inodes F4 j = inodes f0 j).
  { intros j Hj Hj'. unfold F4. cbn [apply_op fst]. rewrite upd_inode_other by exact Hj. rewrite E3. apply I2, Hj'. }
  assert (I5 : inodes F5 ip = Some (with_data y meta)).
  { unfold F5. cbn [apply_op fst]. rewrite (upd_inode_same _ _ _ _ I4). f_equal.
    unfold with_data. cbn [i_kind i_data i_mode i_uid i_gid i_mtime i_nlink]. rewrite write_then_truncate. reflexivity. }
  assert (I6 : inodes F6 ip = Some (with_mtime (i_mtime meta) (with_data y meta))).
  { unfold F6. cbn [apply_op fst]. apply upd_inode_same, I5. }
  assert (I6' : forall j, j <> ip -> j <> next_ino f0 -> inodes F6 j = inodes f0 j).
  { intros j Hj Hj'. unfold F6, F5. cbn [apply_op fst]. rewrite !upd_inode_other by exact Hj. apply I4'; assumption. }
  assert (N6 : forall q, names F6 q = names F1 q).
  { intros q. unfold F6, F5. cbn [apply_op fst]. rewrite !upd_inode_names. apply N4. }
  assert (N7 : forall q, names F7 q = if path_eqb q t then None else names F6 q).
  { intros q. unfold F7. cbn [apply_op]. rewrite N6, N1, path_eqb_refl. cbn [fst]. rewrite upd_inode_names. reflexivity. }
  assert (I7 : forall j, j <> next_ino f0 -> inodes F7 j = inodes F6 j).
  { intros j Hj. unfold F7. cbn [apply_op]. rewrite N6, N1, path_eqb_refl. cbn [fst]. rewrite upd_inode_other by exact Hj. reflexivity. }
  split; [rewrite N7, Hpt, N6, N1, Hpt; exact Hp|].
  split; [rewrite N7, path_eqb_refl; reflexivity|].
  split; [intros q Hq; rewrite N7, (path_eqb_neq q t Hq), N6, N1, (path_eqb_neq q t Hq); reflexivity|].
  split; [rewrite I7 by exact Hne; exact I6|].
  intros j Hj Hjlt. assert (Hj' : j <> next_ino f0) by lia. rewrite I7 by exact Hj'. apply I6'; assumption.
Qed.
