(* StripIdem.v — C07 (javadoc part): after one pass no stamp text is left to remove: strip_stamps is idempotent.
   (The defect repaired as F4 was exactly a second pass finding more to strip.) *)
From AD Require Import Bytes Outcome Gen Date Walk Javadoc JavadocProofs JavadocVariants.
Local Arguments firstn : simpl never.
Local Arguments skipn : simpl never.

(* no stamp can be matched at any position of l *)
Definition inert (l : bytes) : Prop := forall a b, l = a ++ b -> stamp_match b = None.

Lemma inert_nil : inert [].
Proof. intros a b E. symmetry in E. apply app_eq_nil in E. destruct E as [_ ->]. reflexivity. Qed.

Lemma inert_cons c l : stamp_match (c :: l) = None -> inert l -> inert (c :: l).
Proof.
  intros H Hi a b E. destruct a as [|x a]; cbn [app] in E.
  - subst b. exact H.
  - injection E as _ E. apply (Hi a b E).
Qed.

Lemma inert_tail c l : inert (c :: l) -> inert l.
Proof. intros H a b E. apply (H (c :: a) b). cbn [app]. rewrite E. reflexivity. Qed.

Lemma inert_head c l : inert (c :: l) -> stamp_match (c :: l) = None.
Proof. intros H. apply (H [] (c :: l)). reflexivity. Qed.

(* on an inert line the pass changes nothing *)
Lemma strip_inert f : forall l, inert l -> strip_stamps f l = l.
Proof.
  induction f as [|f IH]; intros l H; [reflexivity|]. cbn [strip_stamps]. destruct l as [|c r]; [reflexivity|].
  rewrite (inert_head _ _ H). f_equal. apply IH. eapply inert_tail, H.
Qed.

Lemma stamp_match_lt c r x : stamp_match (c :: r) = Some x -> c = 60.
Proof. intros H. destruct (N.eq_dec c 60) as [E|E]; [exact E|]. rewrite (stamp_match_needs_lt c r E) in H. discriminate. Qed.

(* a stamp match needs a '>' *)
Lemma stamp_match_has_gt b v rest : stamp_match b = Some (v, rest) -> In 62 b.
Proof.
  intros H. destruct (stamp_match_spec _ _ _ H) as (E & _ & _). rewrite E.
  apply in_or_app. right. apply in_or_app. right. apply in_or_app. right. apply in_or_app. left. cbn. auto.
Qed.

Lemma no_gt_inert l : ~ In 62 l -> inert l.
Proof.
  intros H a b E. destruct (stamp_match b) as [[v rest]|] eqn:Em; [|reflexivity].
  exfalso. apply H. rewrite E. apply in_or_app. right. eapply stamp_match_has_gt, Em.
Qed.

(* what lies before the first position at which a stamp matches is copied *)
Lemma strip_keep_prefix : forall k l f, (length l <= f)%nat ->
  (forall i, (i < k)%nat -> stamp_match (skipn i l) = None) ->
  strip_stamps f l = firstn k l ++ strip_stamps (length (skipn k l)) (skipn k l).
Proof.
  induction k as [|k IH]; intros l f Hf Hn.
  - change (firstn 0 l) with (@nil N). change (skipn 0 l) with l. cbn [app]. apply strip_stamps_fuel; lia.
  - destruct l as [|c r].
    + destruct f; reflexivity.
    + destruct f as [|f]; [cbn in Hf; lia|]. cbn [strip_stamps].
      pose proof (Hn 0%nat ltac:(lia)) as H0. change (skipn 0 (c :: r)) with (c :: r) in H0. rewrite H0.
      change (firstn (S k) (c :: r)) with (c :: firstn k r). change (skipn (S k) (c :: r)) with (skipn k r). cbn [app]. f_equal.
      apply IH; [cbn in Hf; lia|]. intros i Hi. apply (Hn (S i)). lia.
Qed.

Lemma app_gt_inj (x y p q : bytes) : ~ In 62 x -> ~ In 62 y -> x ++ 62 :: p = y ++ 62 :: q -> x = y /\ p = q.
Proof.
  revert y. induction x as [|a x IH]; intros y Hx Hy E.
  - destruct y as [|b y]; cbn [app] in E.
    + injection E as E. auto.
    + injection E as E1 _. exfalso. apply Hy. left. symmetry. exact E1.
  - destruct y as [|b y]; cbn [app] in E.
    + injection E as E1 _. exfalso. apply Hx. left. exact E1.
    + injection E as E1 E2. subst b. destruct (IH y (fun H => Hx (or_intror H)) (fun H => Hy (or_intror H)) E2) as [-> ->]. auto.
Qed.

(* a stamp that starts before the first '>' ends at that '>' *)
Lemma stamp_inside (a b : bytes) i v rest : ~ In 62 a -> (i <= length a)%nat ->
  stamp_match (skipn i (a ++ 62 :: b)) = Some (v, rest) ->
  (4 <=? length a)%nat = true /\ bytes_eqb (skipn (length a - 3) a) [32; 45; 45] = true.
Proof.
  intros Ha Hi Hm. destruct (stamp_match_spec _ _ _ Hm) as (E & Hv & Hnv).
  rewrite skipn_app in E. replace (i - length a)%nat with 0%nat in E by lia. change (skipn 0 (62 :: b)) with (62 :: b) in E.
  assert (Ha' : ~ In 62 (skipn i a)).
  { intros H. apply Ha. rewrite <- (firstn_skipn i a). apply in_or_app. right. exact H. }
  assert (Hy : ~ In 62 (stamp_head ++ [32] ++ v ++ [32; 45; 45])).
  { intros H. apply in_app_or in H. destruct H as [H|H]; [cbn in H; intuition discriminate|].
    apply in_app_or in H. destruct H as [H|H]; [cbn in H; intuition discriminate|].
    apply in_app_or in H. destruct H as [H|H]; [exact (Hnv H) | cbn in H; intuition discriminate]. }
  assert (E' : skipn i a ++ 62 :: b = (stamp_head ++ [32] ++ v ++ [32; 45; 45]) ++ 62 :: rest).
  { rewrite E. unfold stamp_tail. rewrite <- !app_assoc. reflexivity. }
  destruct (app_gt_inj _ _ _ _ Ha' Hy E') as [Es _].
  assert (Ea : a = (firstn i a ++ stamp_head ++ [32] ++ v) ++ [32; 45; 45]).
  { rewrite <- (firstn_skipn i a) at 1. rewrite Es. rewrite <- !app_assoc. reflexivity. }
  set (pre := firstn i a ++ stamp_head ++ [32] ++ v) in *.
  assert (Ll : length a = (length pre + 3)%nat) by (rewrite Ea at 1; rewrite app_length; reflexivity).
  split.
  - apply Nat.leb_le. unfold pre in Ll. rewrite !app_length in Ll. cbn [length stamp_head] in Ll. lia.
  - rewrite Ll. replace (length pre + 3 - 3)%nat with (length pre) by lia. rewrite Ea.
    rewrite skipn_app, skipn_all, Nat.sub_diag. reflexivity.
Qed.

(* a prefix without '<' of the stripped line is a prefix of the line, and conversely *)
Lemma starts_with_strip (Q : bytes) : ~ In 60 Q -> forall r f, (length r <= f)%nat ->
  starts_with Q (strip_stamps f r) = starts_with Q r.
Proof.
  induction Q as [|q Q IH]; intros HQ r f Hf; [reflexivity|].
  destruct r as [|x r]; [destruct f; reflexivity|].
  destruct f as [|f]; [cbn in Hf; lia|]. cbn [strip_stamps].
  destruct (stamp_match (x :: r)) as [[v rest]|] eqn:Em.
  - pose proof (stamp_match_lt _ _ _ Em) as ->. change (stamp_head ++ stamp_tail ++ strip_stamps f rest) with (60 :: tl stamp_head ++ stamp_tail ++ strip_stamps f rest).
    cbn [starts_with]. destruct (N.eqb_spec q 60) as [->|_]; [exfalso; apply HQ; left; reflexivity | reflexivity].
  - cbn [starts_with]. rewrite IH; [reflexivity | intros H; apply HQ; right; exact H | cbn in Hf; lia].
Qed.

Definition Pfx : bytes := stamp_head ++ [32].          (* the 26 bytes every stamp starts with *)

Lemma index_of_none_notin c l : index_of c l = None -> ~ In c l.
Proof.
  induction l as [|b r IH]; cbn [index_of]; [intros _ H; exact H|].
  destruct (N.eqb_spec b c) as [->|Hne]; [discriminate|]. destruct (index_of c r); [discriminate|].
  intros _ [E|H]; [exact (Hne E) | exact (IH eq_refl H)].
Qed.

(* removing stamp text further to the right never makes a stamp appear at this position *)
Lemma stamp_none_after_strip c r f : (length r <= f)%nat ->
  stamp_match (c :: r) = None -> stamp_match (c :: strip_stamps f r) = None.
Proof.
  intros Hf Hn.
  destruct (N.eq_dec c 60) as [->|Hc]; [|apply stamp_match_needs_lt, Hc].
  assert (HP' : ~ In 60 (tl Pfx)) by (cbn; intuition discriminate).
  unfold stamp_match in *. fold Pfx in *. change Pfx with (60 :: tl Pfx) in *. cbn [starts_with] in *. rewrite N.eqb_refl in *. cbn [andb] in *.
  rewrite (starts_with_strip (tl Pfx) HP' r f Hf).
  destruct (starts_with (tl Pfx) r) eqn:Es; [|reflexivity].
  (* the line starts with the stamp prefix: r = P' ++ r' *)
  assert (Er : exists r', r = tl Pfx ++ r').
  { clear - Es. revert Es. generalize (tl Pfx). intros Q. revert r. induction Q as [|q Q IH]; intros r H; [exists r; reflexivity|].
    destruct r as [|x r]; [discriminate|]. cbn [starts_with] in H. apply andb_prop in H. destruct H as [H1 H2]. apply N.eqb_eq in H1. subst x.
    destruct (IH r H2) as (r' & ->). exists r'. reflexivity. }
  destruct Er as (r' & ->).
  assert (L25 : length (tl Pfx) = 25%nat) by reflexivity.
  change (length stamp_head + 1)%nat with 26%nat in *.
  assert (Sk : forall z, skipn 26 (60 :: tl Pfx ++ z) = z).
  { intros z. change (skipn 26 (60 :: tl Pfx ++ z)) with (skipn 25 (tl Pfx ++ z)). rewrite <- L25. rewrite skipn_app, skipn_all, Nat.sub_diag. reflexivity. }
  rewrite Sk in Hn.
  rewrite (strip_stamps_prefix (tl Pfx) HP' r' f Hf). rewrite Sk.
  destruct (index_of 62 r') as [j|] eqn:Ei.
  - destruct (index_of_spec _ _ _ Ei) as (Er' & Hnot & Hj).
    set (a := firstn j r') in *. set (b := skipn (S j) r') in *.
    assert (La : length a = j) by (unfold a; rewrite firstn_length; lia).
    (* no stamp starts at or before that '>' *)
    assert (Hpos : forall i, (i < S j)%nat -> stamp_match (skipn i r') = None).
    { intros i Hi. destruct (stamp_match (skipn i r')) as [[v rest]|] eqn:Em; [|reflexivity]. exfalso.
      rewrite Er' in Em. destruct (stamp_inside a b i v rest Hnot ltac:(lia) Em) as [C1 C2].
      rewrite La in C1, C2. rewrite C1, C2 in Hn. discriminate. }
    rewrite (strip_keep_prefix (S j) r' (length r') (le_n _) Hpos).
    assert (Ef : firstn (S j) r' = a ++ [62]).
    { rewrite Er' at 1. rewrite <- La. replace (S (length a)) with (length (a ++ [62])) by (rewrite app_length; cbn; lia).
      replace (a ++ 62 :: b) with ((a ++ [62]) ++ b) by (rewrite <- app_assoc; reflexivity). apply firstn_app_len. }
    rewrite Ef. rewrite <- app_assoc. cbn [app].
    rewrite index_of_app_notin by exact Hnot. rewrite firstn_app_len. rewrite La.
    destruct ((4 <=? j)%nat && bytes_eqb (skipn (j - 3) a) [32; 45; 45])%bool; [discriminate Hn | reflexivity].
  - (* no '>' at all: nothing can be stripped *)
    rewrite (strip_inert _ r' (no_gt_inert _ (index_of_none_notin _ _ Ei))). rewrite Ei. reflexivity.
Qed.

(* after the pass the line is inert *)
Lemma strip_makes_inert f : forall l, (length l <= f)%nat -> inert (strip_stamps f l).
Proof.
  induction f as [|f IH]; intros l Hf.
  - destruct l; [apply inert_nil | cbn in Hf; lia].
  - cbn [strip_stamps]. destruct l as [|c r]; [apply inert_nil|].
    destruct (stamp_match (c :: r)) as [[v rest]|] eqn:Em.
    + destruct (stamp_match_spec _ _ _ Em) as (El & _ & _).
      assert (Hr : (length rest <= f)%nat).
      { apply (f_equal (@length N)) in El. rewrite !app_length in El. cbn [length] in *. lia. }
      specialize (IH rest Hr).
      (* the 29 bytes "<!-- Generated by javadoc -->" followed by an inert rest *)
      assert (G : forall (pre : bytes) X, inert X -> (forall c' p', pre = c' :: p' -> stamp_match (pre ++ X) = None) ->
                  (forall k, (0 < k < length pre)%nat -> nth k pre 0 <> 60) -> inert (pre ++ X)).
      { intros pre. induction pre as [|c0 pre IHp]; intros X HX H0 Hk; [exact HX|].
        cbn [app]. apply inert_cons; [exact (H0 c0 pre eq_refl)|].
        apply IHp; [exact HX | |].
        - intros c' p' E. subst pre. cbn [app]. apply stamp_match_needs_lt. apply (Hk 1%nat). cbn [length]. lia.
        - intros k Hk'. apply (Hk (S k)). cbn [length]. lia. }
      replace (stamp_head ++ stamp_tail ++ strip_stamps f rest) with ((stamp_head ++ stamp_tail) ++ strip_stamps f rest) by (rewrite <- app_assoc; reflexivity).
      apply G; [exact IH | |].
      * intros c' p' _. (* position 0: the prefix matches, but the first '>' comes after only "--" *)
        unfold stamp_match. change (stamp_head ++ [32]) with Pfx.
        change ((stamp_head ++ stamp_tail) ++ strip_stamps f rest) with (Pfx ++ 45 :: 45 :: 62 :: strip_stamps f rest).
        rewrite starts_with_app_refl. change (length stamp_head + 1)%nat with (length Pfx). rewrite skipn_app, skipn_all, Nat.sub_diag. reflexivity.
      * intros k Hk. change (stamp_head ++ stamp_tail) with
          [60; 33; 45; 45; 32; 71; 101; 110; 101; 114; 97; 116; 101; 100; 32; 98; 121; 32; 106; 97; 118; 97; 100; 111; 99; 32; 45; 45; 62] in *.
        cbn [length] in Hk. do 29 (destruct k as [|k]; [cbn; try lia; discriminate|]). lia.
    + apply inert_cons; [apply stamp_none_after_strip; [cbn in Hf; lia | exact Em] | apply IH; cbn in Hf; lia].
Qed.

(* C07: a second pass over a stripped line strips nothing more *)
Theorem strip_stamps_idempotent l :
  strip_stamps (length (strip_stamps (length l) l)) (strip_stamps (length l) l) = strip_stamps (length l) l.
Proof. apply strip_inert. apply strip_makes_inert. apply le_n. Qed.
