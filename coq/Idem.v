(* Idem.v — C07 at the level of one file: after a run that replaced the file, a second run of the same
   handler with the same settings reports Noop (and, by not_replaced_untouched, touches nothing),
   provided the byte-level handler finds nothing to change in its own output. *)
From AD Require Import Bytes Outcome Fs Helper HelperProofs.

Lemma run_noop_result e prof eager handler p f ip meta y' :
  names f p = Some ip -> inodes f ip = Some meta -> names f (tmp_path p) = None ->
  handler (i_data meta) = Ok (y', false) ->
  snd (run_handler e None Real prof eager handler p (init_sim f)) = Some Noop.
Proof.
  intros Hp Hi Ht Hh. unfold run_handler. cbv zeta.
  rewrite issue_nofault. cbn [apply_op init_sim s_fs]. rewrite Hp. cbn [fst snd s_fs]. rewrite Hp.
  rewrite issue_nofault. cbn [apply_op s_fs fst snd]. rewrite Hi, Hh.
  destruct (eager (i_data meta)); [|reflexivity].
  unfold open_output, open_output_real. rewrite issue_nofault. cbn [apply_op s_fs]. rewrite Ht. cbn [fst snd]. reflexivity.
Qed.

Theorem second_run_noop e prof eager handler p f0 ip meta :
  names f0 p = Some ip -> inodes f0 ip = Some meta -> i_nlink meta = 1 ->
  ip < next_ino f0 -> names f0 (tmp_path p) <> Some ip ->
  (forall x y, handler x = Ok (y, true) -> exists y', handler y = Ok (y', false)) ->
  snd (run_handler e None Real prof eager handler p (init_sim f0)) = Some Replaced ->
  let f1 := s_fs (fst (run_handler e None Real prof eager handler p (init_sim f0))) in
  snd (run_handler e None Real prof eager handler p (init_sim f1)) = Some Noop.
Proof.
  intros Hp Hi Hn Hlt Hnt Hidem Hr f1.
  destruct (replaced_committed e None prof eager handler p f0 ip meta Hp Hi Hn Hlt Hnt Hr) as (y & Hy & Hc).
  destruct Hc as (fo & n & _ & Hnp & Hntmp & _ & Hin & _ & _ & Hd & _).
  destruct (Hidem _ _ Hy) as (y' & Hy').
  apply (run_noop_result e prof eager handler p f1 fo n y'); try assumption. rewrite Hd. exact Hy'.
Qed.
