(* Config.v — handler selection (src/config.rs: filter_by_name, requested_handlers), handler
   initialisation (make_handlers + each initialize()), the exit verdict and the Stats bookkeeping. *)
From Coq Require Import String Ascii.
From AD Require Import Bytes Outcome Gen.
Open Scope string_scope.

Definition starts_dash (s : string) : bool :=
  match s with String c _ => Ascii.eqb c "-"%char | EmptyString => false end.
Definition strip_dash (s : string) : string :=
  match s with String c r => if Ascii.eqb c "-"%char then r else s | EmptyString => s end.

(* filter_by_name: walks the filter from its last element *)
Fixpoint filter_by_name_rev (name : string) (negative_filter : bool) (enabled_by_default : bool) (rfilter : list string) : bool :=
  match rfilter with
  | [] => enabled_by_default && negative_filter
  | f :: r =>
      if starts_dash f then
        if String.eqb name (strip_dash f) then false else filter_by_name_rev name negative_filter enabled_by_default r
      else
        if String.eqb name f then true else filter_by_name_rev name false enabled_by_default r
  end.
Definition filter_by_name (name : string) (enabled_by_default : bool) (filter : list string) : bool :=
  filter_by_name_rev name true enabled_by_default (rev filter).

Definition handler_names : list string := map fst handlers_table.
Definition mem_str (s : string) (l : list string) : bool := existsb (String.eqb s) l.

(* requested_handlers: None = error *)
Definition requested_handlers (filter : list string) : option (list string * bool) :=
  if existsb starts_dash filter && existsb (fun x => negb (starts_dash x)) filter then None
  else if existsb (fun x => negb (mem_str (strip_dash x) handler_names)) filter then None
  else
    let l := map fst (List.filter (fun h => filter_by_name (fst h) (snd h) filter) handlers_table) in
    match l with
    | [] => None
    | _ => Some (l, if strict_when_filter_nonempty then negb (match filter with [] => true | _ => false end)
                    else match filter with [] => true | _ => false end)
    end.

(* ---- initialisation ---- *)
(* can the handler be initialised with this (already sanitised) epoch?  gzip: u32; zip/jar: the epoch
   must be representable by the `time` crate and fall into the DOS range 1980-01-01 .. 2107-12-31 23:59:59 *)
Definition dos_lo : Z := 315532800.
Definition dos_hi : Z := 4354819199.
Definition init_ok (name : string) (epoch : option Z) : bool :=
  if String.eqb name "gzip" then
    match epoch with Some e => (0 <=? e)%Z && (e <? 2 ^ 32)%Z | None => false end
  else if String.eqb name "zip" || String.eqb name "jar" then
    match epoch with Some e => (dos_lo <=? e)%Z && (e <=? dos_hi)%Z | None => false end
  else true.

(* make_handlers: Some (initialised handler names in table order), None = fatal error *)
Fixpoint make_handlers_from (table : list string) (selected : list string) (strict : bool) (epoch : option Z) : option (list string) :=
  match table with
  | [] => Some []
  | n :: r =>
      if mem_str n selected then
        if init_ok n epoch then
          match make_handlers_from r selected strict epoch with Some l => Some (n :: l) | None => None end
        else if strict then None else make_handlers_from r selected strict epoch
      else make_handlers_from r selected strict epoch
  end.
Definition make_handlers (selected : list string) (strict : bool) (epoch : option Z) : option (list string) :=
  make_handlers_from handler_names selected strict epoch.

(* Config::make: a negative SOURCE_DATE_EPOCH is ignored *)
Definition sanitize_epoch (e : option Z) : option Z :=
  match e with Some v => if (v <? 0)%Z && negative_epoch_ignored then None else Some v | None => None end.

(* ---- Stats ---- *)
Record stats := mk_stats { st_dirs : N; st_files : N; st_processed : N; st_replaced : N; st_rewritten : N; st_mis : N; st_errors : N }.
Definition stats0 := mk_stats 0 0 0 0 0 0 0.

Definition presult_name (r : presult) : string :=
  match r with Ignored => "Ignored" | Noop => "Noop" | Replaced => "Replaced" | Rewritten => "Rewritten"
             | BadFormat => "BadFormat" | Error => "Error" end.

Fixpoint assoc_str (k : string) (l : list (string * string)) : string :=
  match l with [] => "" | (a, b) :: r => if String.eqb a k then b else assoc_str k r end.

(* Stats::add_one driven by the regenerated arm table *)
Definition add_one (s : stats) (r : presult) : stats :=
  let f := assoc_str (presult_name r) add_one_arms in
  if String.eqb f "return" then s
  else
    let s' := mk_stats (st_dirs s) (st_files s) (st_processed s + 1)
                (st_replaced s + (if String.eqb f "inodes_replaced" then 1 else 0))
                (st_rewritten s + (if String.eqb f "inodes_rewritten" then 1 else 0))
                (st_mis s + (if String.eqb f "misunderstood" then 1 else 0))
                (st_errors s + (if String.eqb f "errors" then 1 else 0)) in
    s'.

(* Stats::add (the merge of a worker's statistics), driven by the regenerated list of `self.f += other.f` lines *)
Definition merged (f : string) : bool := existsb (fun p => String.eqb (fst p) f && String.eqb (snd p) f) stats_add_pairs.
Definition stats_add (a b : stats) : stats :=
  let m (f : string) (v : N) : N := if merged f then v else 0 in
  mk_stats (st_dirs a + m "directories" (st_dirs b)) (st_files a + m "files" (st_files b))
           (st_processed a + m "inodes_processed" (st_processed b)) (st_replaced a + m "inodes_replaced" (st_replaced b))
           (st_rewritten a + m "inodes_rewritten" (st_rewritten b)) (st_mis a + m "misunderstood" (st_mis b)) (st_errors a + m "errors" (st_errors b)).

(* main(): does the run fail? *)
Definition run_fails (check brp : bool) (s : stats) : bool :=
  main_verdict check brp (st_errors s) (st_mis s) (st_replaced s) (st_rewritten s).
