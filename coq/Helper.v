(* Helper.v — InputOutputHelper (open / open_output / finalize / Drop) of src/handlers/mod.rs as a
   program over the abstract file system, with crash points and single-operation faults. *)
From AD Require Import Bytes Outcome Fs.

Inductive hmode := Real | Check.

(* ---- path helpers: Path::with_file_name(format!(".#.{}.tmp", file_name)) ---- *)
Fixpoint split_last_slash_rev (r : bytes) (acc : bytes) : bytes * bytes :=   (* on the reversed path *)
  match r with
  | [] => ([], acc)
  | c :: r' => if c =? 47 then (rev r, acc) else split_last_slash_rev r' (c :: acc)
  end.
(* (directory part including the trailing '/', last component) *)
Definition split_path (p : path) : bytes * bytes := split_last_slash_rev (rev p) [].
Definition tmp_prefix : bytes := [46; 35; 46].       (* ".#." *)
Definition tmp_suffix : bytes := [46; 116; 109; 112]. (* ".tmp" *)
Definition tmp_path (p : path) : path :=
  let (d, n) := split_path p in d ++ tmp_prefix ++ n ++ tmp_suffix.

(* ---- simulation state: file system, trace of issued operations (latest first), issue counter ---- *)
Record sim := mk_sim {
  s_fs : fs;
  s_trace : list (op * option errno);
  s_n : nat;
  s_hist : list fs          (* every file-system state the run went through, latest first *)
}.

Definition init_sim (f : fs) : sim := mk_sim f [] 0 [f].

(* issue one operation; [fault = Some (k, er)] makes the k-th issued operation (0-based) fail with er *)
Definition issue (e : env) (fault : option (nat * errno)) (o : op) (s : sim) : sim * option errno :=
  let failing := match fault with
                 | Some (k, er) => if Nat.eqb k (s_n s) then Some er else None
                 | None => None
                 end in
  match failing with
  | Some er => (mk_sim (s_fs s) ((o, Some er) :: s_trace s) (S (s_n s)) (s_hist s), Some er)
  | None => let fr := apply_op e (s_fs s) o in
            (mk_sim (fst fr) ((o, snd fr) :: s_trace s) (S (s_n s)) (fst fr :: s_hist s), snd fr)
  end.

(* InputOutputHelper::open_output in a real run: Some (inode of the new temp file) or None on error *)
Definition open_output_real (e : env) (fault : option (nat * errno)) (t : path) (s : sim) : sim * option N :=
  let i0 := next_ino (s_fs s) in
  let '(s1, r1) := issue e fault (OCreateExcl t) s in
  match r1 with
  | None => (s1, Some i0)
  | Some EEXIST =>
      (* stale temporary file: remove it and retry once *)
      let '(s2, r2) := issue e fault (OUnlink t) s1 in
      match r2 with
      | Some _ => (s2, None)
      | None =>
          let i1 := next_ino (s_fs s2) in
          let '(s3, r3) := issue e fault (OCreateExcl t) s2 in
          match r3 with None => (s3, Some i1) | Some _ => (s3, None) end
      end
  | Some _ => (s1, None)
  end.

(* output handle: OutNone (not opened), OutNull (/dev/null, check mode), OutTmp ino (real temp file) *)
Inductive out := OutNone | OutNull | OutTmp (i : N).

Definition open_output (e : env) (fault : option (nat * errno)) (m : hmode) (t : path) (s : sim) : sim * option out :=
  match m with
  | Check => let '(s1, r) := issue e fault OOpenDevNull s in
             match r with None => (s1, Some OutNull) | Some _ => (s1, None) end
  | Real => let '(s1, r) := open_output_real e fault t s in
            match r with Some i => (s1, Some (OutTmp i)) | None => (s1, None) end
  end.

(* Drop for InputOutputHelper: unlink the temp file when output_path is still set; errors are only logged *)
Definition cleanup (e : env) (fault : option (nat * errno)) (t : path) (o : out) (s : sim) : sim :=
  match o with
  | OutTmp _ => fst (issue e fault (OUnlink t) s)
  | _ => s
  end.

(* sequencing helper: run an operation, on failure clean up and report Error *)
Definition step (e : env) (fault : option (nat * errno)) (t : path) (o : out) (x : op) (s : sim)
           (k : sim -> sim * option presult) : sim * option presult :=
  let '(s1, r) := issue e fault x s in
  match r with
  | None => k s1
  | Some _ => (cleanup e fault t o s1, Some Error)
  end.

(* finalize(true) *)
Definition finalize_mod (e : env) (fault : option (nat * errno)) (m : hmode) (p t : path) (meta : inode)
           (o : out) (y : bytes) (s : sim) : sim * option presult :=
  match o with
  | OutNone => (s, Some Error)                       (* not reachable: output is open when have_mod *)
  | OutNull => (s, Some (if i_nlink meta =? 1 then Replaced else Rewritten))
  | OutTmp fo =>
      if i_nlink meta =? 1 then
        (* lchown, fchmod, futimens, rename — in the order of the source *)
        let '(s1, r1) := issue e fault (OLchown t (i_uid meta) (i_gid meta)) s in
        match r1 with
        | Some EPERM | Some EACCES | None =>     (* io::ErrorKind::PermissionDenied is tolerated *)
            step e fault t o (OFchmod fo (i_mode meta)) s1 (fun s2 =>
            step e fault t o (OFutimens fo (i_mtime meta)) s2 (fun s3 =>
            step e fault t o (ORename t p) s3 (fun s4 => (s4, Some Replaced))))
        | Some _ => (cleanup e fault t o s1, Some Error)
        end
      else
        step e fault t o (OOpenWrite p) s (fun s1 =>
          match names (s_fs s1) p with
          | None => (cleanup e fault t o s1, Some Error)
          | Some ip =>
            step e fault t o (OWrite ip 0 y) s1 (fun s2 =>
            step e fault t o (OTruncate ip (length y)) s2 (fun s3 =>
            step e fault t o (OFutimens ip (i_mtime meta)) s3 (fun s4 =>
              (cleanup e fault t o s4, Some Rewritten))))
          end)
  end.

(* One handler applied to path p.
   [eager x]: on content x the handler opens its output before it knows whether anything changes
   (ar after the global magic, zip after the central directory was read, javadoc always; gzip and pyc never);
   [res]: what the byte-level model of the handler computes from the file's content.
   Result: final simulation state and the ProcessResult (None = the process panicked). *)
Definition run_handler (e : env) (fault : option (nat * errno)) (m : hmode) (prof : profile) (eager : bytes -> bool)
           (handler : bytes -> outcome (bytes * bool)) (p : path) (s : sim) : sim * option presult :=
  let t := tmp_path p in
  let '(s1, r1) := issue e fault (OOpenRead p) s in
  match r1, names (s_fs s1) p with
  | None, Some ip =>
    let '(s2, r2) := issue e fault (OFstat ip) s1 in
    match r2, inodes (s_fs s2) ip with
    | None, Some meta =>
      let res := handler (i_data meta) in
      let after_open (o : out) (s3 : sim) : sim * option presult :=
        match res with
        | Panic => match prof with
                   | Debug => (cleanup e fault t o s3, None)      (* unwinding runs Drop *)
                   | Release => (s3, None)                        (* panic = abort *)
                   end
        | Bad => (cleanup e fault t o s3, Some BadFormat)
        | Err => (cleanup e fault t o s3, Some Error)
        | Ok (_, false) => (cleanup e fault t o s3, Some Noop)
        | Ok (y, true) =>
            match o with
            | OutTmp fo => step e fault t o (OWrite fo 0 y) s3 (fun s4 => finalize_mod e fault m p t meta o y s4)
            | _ => finalize_mod e fault m p t meta o y s3
            end
        end in
      if eager (i_data meta) then
        match open_output e fault m t s2 with
        | (s3, Some o) => after_open o s3
        | (s3, None) => (s3, Some Error)
        end
      else
        match res with
        | Ok (_, true) =>
            match open_output e fault m t s2 with
            | (s3, Some o) => after_open o s3
            | (s3, None) => (s3, Some Error)
            end
        | _ => after_open OutNone s2
        end
    | _, _ => (s2, Some Error)
    end
  | _, _ => (s1, Some Error)
  end.

(* the operations that were attempted, in order, with their results *)
Definition trace_of (s : sim) : list (op * option errno) := rev (s_trace s).
(* the operations that succeeded, in order *)
Definition ok_ops (s : sim) : list op :=
  map fst (filter (fun x => match snd x with None => true | Some _ => false end) (trace_of s)).
