(* ArSpec.v — independent specification of the ar(5) container and of the normalisation C04 asks for.
   Written from the format description, not from the handler's control flow. *)
From AD Require Import Bytes.

(* a member: its 60-byte header and its data including the pad byte *)
Definition member := (bytes * bytes)%type.
Definition m_hdr (m : member) : bytes := fst m.
Definition m_data (m : member) : bytes := snd m.

Definition sp_magic : bytes := [33; 60; 97; 114; 99; 104; 62; 10].      (* "!<arch>\n" *)
Definition sp_hmagic : bytes := [96; 10].                                 (* "`\n" *)

Definition f_name (h : bytes) := slice 0 16 h.
Definition f_mtime (h : bytes) := slice 16 28 h.
Definition f_uid (h : bytes) := slice 28 34 h.
Definition f_gid (h : bytes) := slice 34 40 h.
Definition f_mode (h : bytes) := slice 40 48 h.
Definition f_size (h : bytes) := slice 48 58 h.
Definition f_magic (h : bytes) := slice 58 60 h.

(* decimal value of a blank-padded field; any value that fits the 10 columns is accepted *)
Definition sp_size (h : bytes) : option N := parse_unsigned (10 ^ 10) (trim_end_sp (f_size h)).

Fixpoint members_fuel (fuel : nat) (rest : bytes) : option (list member) :=
  match fuel with
  | O => None
  | S f =>
    match rest with
    | [] => Some []
    | _ =>
      if (length rest <? 60)%nat then None
      else
        let h := firstn 60 rest in
        if negb (bytes_eqb (f_magic h) sp_hmagic) then None
        else
          match sp_size h with
          | None => None
          | Some sz =>
            let psz := sz + sz mod 2 in
            let body := skipn 60 rest in
            if N.of_nat (length body) <? psz then None
            else
              match members_fuel f (skipn (N.to_nat psz) body) with
              | None => None
              | Some ms => Some ((h, firstn (N.to_nat psz) body) :: ms)
              end
          end
    end
  end.

Definition ar_members (x : bytes) : option (list member) :=
  if bytes_eqb (firstn 8 x) sp_magic then members_fuel (S (length x)) (skipn 8 x) else None.

Definition render_member (m : member) : bytes := m_hdr m ++ m_data m.
Definition ar_render (ms : list member) : bytes := sp_magic ++ flat_map render_member ms.

(* ---- the normalisation the property describes ---- *)
Definition i64_max : N := 9223372036854775807.
Definition u64_max : N := 18446744073709551615.

Definition num_mtime (h : bytes) : option Z := parse_signed i64_max (trim_end_sp (f_mtime h)).
Definition num_uid (h : bytes) : option N := parse_unsigned u64_max (trim_end_sp (f_uid h)).
Definition num_gid (h : bytes) : option N := parse_unsigned u64_max (trim_end_sp (f_gid h)).

Definition is_longnames (h : bytes) : bool := bytes_eqb (trim_end_sp (f_name h)) [47; 47].   (* "//" *)

Definition zero_field : bytes := [48; 32; 32; 32; 32; 32].    (* "0     " *)

Definition clamp_needed (epoch : option Z) (h : bytes) : bool :=
  match epoch, num_mtime h with
  | Some e, Some mt => (e <? mt)%Z
  | _, _ => false
  end.

Definition owner_needed (h : bytes) : bool :=
  match num_uid h, num_gid h with
  | Some u, Some g => negb ((u =? 0) && (g =? 0))
  | _, _ => false
  end.

Definition norm_hdr (epoch : option Z) (h : bytes) : bytes :=
  if is_longnames h then h
  else
    let h1 := match epoch with
              | Some e => if clamp_needed epoch h then splice 16 (fmt_left_pad 12 (Z.to_N e)) h else h
              | None => h
              end in
    if owner_needed h then splice 34 zero_field (splice 28 zero_field h1) else h1.

Definition norm_member (epoch : option Z) (m : member) : member := (norm_hdr epoch (m_hdr m), m_data m).

Definition member_changes (epoch : option Z) (m : member) : bool :=
  negb (is_longnames (m_hdr m)) && (clamp_needed epoch (m_hdr m) || owner_needed (m_hdr m)).
