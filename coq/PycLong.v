(* PycLong.v — C02: an arbitrary-precision integer survives the writer and the reader: the digits the writer emits
   for z (base 2^15, sign in the digit count) are read back as z, for every z whose digit count fits the signed
   32-bit length field. *)
From AD Require Import Bytes Outcome Gen PycHeader Marshal Pyc.
Local Arguments Z.mul : simpl never.
Local Arguments Z.add : simpl never.
Local Arguments Z.pow : simpl never.
Local Arguments Z.shiftl : simpl never.
Local Arguments N.mul : simpl never.
Local Arguments N.add : simpl never.
Open Scope Z_scope.

Lemma digit_bytes r : 0 <= r < 32768 ->
  Z.of_N (Z.to_N r mod 256 + 256 * (Z.to_N r / 256)) = r.
Proof.
  intros H. replace (Z.to_N r mod 256 + 256 * (Z.to_N r / 256))%N with (Z.to_N r) by (pose proof (N.div_mod' (Z.to_N r) 256); lia).
  apply Z2N.id. lia.
Qed.

Lemma read_written_digits : forall (n : nat) fuel i v acc rest,
  (n <= fuel)%nat -> 0 <= v < 2 ^ (15 * Z.of_nat n) ->
  read_digits fuel (N.of_nat n) i (long_digits n v ++ rest) acc = Some (acc + v * 2 ^ (15 * Z.of_N i), rest).
Proof.
  induction n as [|n IH]; intros fuel i v acc rest Hf Hv.
  - cbn [long_digits app]. change (N.of_nat 0) with 0%N. destruct fuel; cbn [read_digits]; rewrite N.eqb_refl;
      (replace v with 0 by (change (15 * Z.of_nat 0) with 0 in Hv; lia)); f_equal; f_equal; lia.
  - destruct fuel as [|f]; [lia|]. cbn [long_digits app read_digits].
    destruct (N.eqb_spec (N.of_nat (S n)) 0) as [E|_]; [lia|].
    set (r := v mod 32768).
    assert (Hr : 0 <= r < 32768) by (apply Z.mod_pos_bound; lia).
    rewrite (digit_bytes r Hr).
    destruct (Z.leb_spec 32768 r) as [H|_]; [lia|].
    replace (N.of_nat (S n) - 1)%N with (N.of_nat n) by lia.
    assert (Hq : 0 <= v / 32768 < 2 ^ (15 * Z.of_nat n)).
    { split; [apply Z.div_pos; lia|]. apply Z.div_lt_upper_bound; [lia|].
      replace (32768 * 2 ^ (15 * Z.of_nat n)) with (2 ^ (15 * Z.of_nat (S n))); [lia|].
      replace (15 * Z.of_nat (S n)) with (15 + 15 * Z.of_nat n) by lia. rewrite Z.pow_add_r by lia. reflexivity. }
    rewrite (IH f (i + 1)%N (v / 32768) _ rest ltac:(lia) Hq). f_equal. f_equal.
    change pyc_long_shift with 15%N. rewrite Z.shiftl_mul_pow2 by lia.
    replace (Z.of_N (i * 15)) with (15 * Z.of_N i) by lia.
    replace (15 * Z.of_N (i + 1)) with (15 + 15 * Z.of_N i) by lia. rewrite Z.pow_add_r by lia.
    pose proof (Z.div_mod v 32768 ltac:(lia)) as Ev. fold r in Ev. change (2 ^ 15) with 32768.
    set (q := v / 32768) in *. set (P := 2 ^ (15 * Z.of_N i)).
    assert (Ev2 : v * P = (32768 * q + r) * P) by (rewrite <- Ev; reflexivity).
    rewrite Ev2. ring.
Qed.

(* the digit count the writer computes is enough *)
Lemma ndigits_enough v : 0 <= v -> v < 2 ^ (15 * Z.of_N (long_ndigits v)).
Proof.
  intros Hv. unfold long_ndigits. rewrite Z.abs_eq by lia.
  destruct (Z.eqb_spec v 0) as [->|Hne]; [apply Z.pow_pos_nonneg; [lia | apply Z.mul_nonneg_nonneg; [lia | apply N2Z.is_nonneg]]|].
  assert (Hpos : 0 < v) by lia.
  pose proof (Z.log2_spec v Hpos) as [_ Hl]. pose proof (Z.log2_nonneg v) as Hl0.
  eapply Z.lt_le_trans; [exact Hl|]. apply Z.pow_le_mono_r; [lia|].
  set (L := Z.log2 v) in *.
  replace (Z.of_N ((Z.to_N L + 1 + 14) / 15)) with ((L + 15) / 15).
  - pose proof (Z.div_mod (L + 15) 15 ltac:(lia)). pose proof (Z.mod_pos_bound (L + 15) 15 ltac:(lia)). lia.
  - rewrite N2Z.inj_div. f_equal. lia.
Qed.

(* what the writer emits after the type code for VLong z, and what the reader makes of it *)
Definition long_body (z : Z) : bytes :=
  let n := long_ndigits z in
  let sz := (if (z <? 0)%Z then (4294967296 - n) mod 4294967296 else n)%N in
  le_encode 4 sz ++ long_digits (N.to_nat n) (Z.abs z).

Definition read_long_body (fuel : nat) (rest0 : bytes) : option (Z * bytes) :=
  match take 4 rest0 with
  | Some (x, rest1) =>
      let u := le_decode x in
      let neg := (2147483648 <=? u)%N in
      let n := (if neg then 4294967296 - u else u)%N in
      match read_digits fuel n 0 rest1 0 with
      | Some (v, rest') => Some (if neg then - v else v, rest')
      | None => None
      end
  | None => None
  end.

Lemma take_app (a rest : bytes) : take (N.of_nat (length a)) (a ++ rest) = Some (a, rest).
Proof.
  unfold take. assert (G : forall a acc, take_acc (a ++ rest) (N.of_nat (length a)) acc = Some (frev acc ++ a, rest)).
  { clear a. induction a as [|b a IH]; intros acc; cbn [app length].
    - change (N.of_nat 0) with 0%N. rewrite app_nil_r. destruct rest; reflexivity.
    - cbn [take_acc]. destruct (N.eqb_spec (N.of_nat (S (length a))) 0) as [E|_]; [lia|].
      replace (N.of_nat (S (length a)) - 1)%N with (N.of_nat (length a)) by lia. rewrite IH.
      rewrite !frev_rev. cbn [rev]. rewrite <- app_assoc. reflexivity. }
  rewrite G. reflexivity.
Qed.

Theorem long_roundtrip z rest fuel :
  (long_ndigits z < 2147483648)%N -> (N.to_nat (long_ndigits z) <= fuel)%nat ->
  read_long_body fuel (long_body z ++ rest) = Some (z, rest).
Proof.
  intros Hn Hf. unfold read_long_body, long_body. cbv zeta. rewrite <- app_assoc.
  set (n := long_ndigits z) in *.
  set (sz := (if (z <? 0)%Z then (4294967296 - n) mod 4294967296 else n)%N).
  change 4%N with (N.of_nat (length (le_encode 4 sz))) at 1. rewrite take_app.
  rewrite le_encode_small by (unfold sz; destruct (z <? 0); [apply N.mod_lt; lia | lia]).
  pose proof (ndigits_enough (Z.abs z) (Z.abs_nonneg z)) as Hen.
  replace (long_ndigits (Z.abs z)) with n in Hen by (unfold n, long_ndigits; rewrite Z.abs_involutive; reflexivity).
  assert (Hrd : read_digits fuel n 0 (long_digits (N.to_nat n) (Z.abs z) ++ rest) 0 = Some (Z.abs z, rest)).
  { rewrite <- (N2Nat.id n) at 1. rewrite read_written_digits; [f_equal; f_equal; change (15 * Z.of_N 0) with 0; change (2 ^ 0) with 1; lia | exact Hf|].
    split; [apply Z.abs_nonneg|]. rewrite N_nat_Z. exact Hen. }
  destruct (Z.ltb_spec z 0) as [Hneg|Hpos]; unfold sz.
  - (* negative: at least one digit, the count is stored negated *)
    assert (Hn1 : (1 <= n)%N).
    { destruct (N.eq_dec n 0) as [E|E]; [|lia]. exfalso. rewrite E in Hen. change (2 ^ (15 * Z.of_N 0)) with 1 in Hen. lia. }
    rewrite N.mod_small by lia.
    destruct (N.leb_spec 2147483648 (4294967296 - n)) as [_|H]; [|lia].
    replace (4294967296 - (4294967296 - n))%N with n by lia. rewrite Hrd. f_equal. f_equal. lia.
  - destruct (N.leb_spec 2147483648 n) as [H|_]; [lia|]. rewrite Hrd. f_equal. f_equal. lia.
Qed.

(* the same through the model's reader and writer *)
Lemma parse_long ver f depth z rest r :
  (depth < pyc_max_depth)%nat -> (long_ndigits z < 2147483648)%N -> (N.to_nat (long_ndigits z) <= f)%nat ->
  parse ver (S f) depth (pyc_code_long :: long_body z ++ rest) r = Ok (VLong z, rest, r).
Proof.
  intros Hd Hn Hf. cbn [parse]. destruct (Nat.leb_spec pyc_max_depth depth) as [H|_]; [lia|].
  pose proof (long_roundtrip z rest f Hn Hf) as R. unfold read_long_body in R.
  change (N.land pyc_code_long pyc_flag_ref =? 0)%N with true. cbn [negb].
  change (N.land pyc_code_long (pyc_flag_ref - 1)) with pyc_code_long.
  change (mem_N pyc_code_long pyc_singleton_codes) with false.
  change (pyc_code_long =? pyc_code_code)%N with false.
  change (pyc_code_long =? pyc_code_float)%N with false.
  change (pyc_code_long =? pyc_code_int)%N with false.
  change (pyc_code_long =? pyc_code_long)%N with true. cbv iota.
  destruct (take 4 (long_body z ++ rest)) as [[x rest1]|]; [|discriminate R].
  cbv zeta in R |- *.
  destruct (read_digits f _ 0 rest1 0) as [[v rest']|]; [|discriminate R].
  injection R as <- <-. reflexivity.
Qed.

Lemma to_buffer_long layout z : to_buffer layout (VLong z) = pyc_code_long :: long_body z.
Proof. unfold long_body. cbv zeta. rewrite <- (app_nil_r (long_digits _ _)) at 1. reflexivity. Qed.

(* C02 for integers of arbitrary size: what the writer produces for VLong z is read back as VLong z *)
Theorem long_value_roundtrip ver layout z rest f :
  (long_ndigits z < 2147483648)%N -> (N.to_nat (long_ndigits z) <= f)%nat ->
  parse ver (S f) 0 (to_buffer layout (VLong z) ++ rest) [] = Ok (VLong z, rest, []).
Proof.
  intros Hn Hf. rewrite to_buffer_long. cbn [app]. apply parse_long; [|exact Hn | exact Hf]. unfold pyc_max_depth. lia.
Qed.

(* ---------- the other leaves ---------- *)
Close Scope Z_scope.

Definition leaf_ok (v : value) : Prop :=
  match v with
  | VSingle c => In c pyc_singleton_codes
  | VInt b => length b = 4%nat
  | VFloat b => length b = 8%nat
  | VComplex b => length b = 16%nat
  | VStr c b => In c pyc_string_codes /\ (if mem_N c pyc_short_string_codes then N.of_nat (length b) < 256 else N.of_nat (length b) < 4294967296)
  | VLong z => long_ndigits z < 2147483648
  | _ => False
  end.

Lemma take_len (a rest : bytes) n : N.of_nat (length a) = n -> take n (a ++ rest) = Some (a, rest).
Proof. intros <-. apply take_app. Qed.

Ltac closed_conds c :=
  change (pyc_max_depth <=? 0)%nat with false; cbv iota;
  change (N.land c pyc_flag_ref =? 0) with true; cbn [negb];
  change (N.land c (pyc_flag_ref - 1)) with c;
  repeat match goal with
         | |- context [mem_N c ?l] => let v := eval vm_compute in (mem_N c l) in change (mem_N c l) with v
         | |- context [c =? ?d] => let v := eval vm_compute in (c =? d) in change (c =? d) with v
         end; cbv iota.

Lemma single_roundtrip ver layout c rest f : In c pyc_singleton_codes ->
  parse ver (S f) 0 (to_buffer layout (VSingle c) ++ rest) [] = Ok (VSingle c, rest, []).
Proof.
  intros Hc. change (to_buffer layout (VSingle c)) with [c]. cbn [app parse].
  cbn [pyc_singleton_codes In] in Hc.
  destruct Hc as [<-|[<-|[<-|[<-|[<-|[<-|[]]]]]]]; reflexivity.
Qed.

Lemma int_roundtrip ver layout b rest f : length b = 4%nat ->
  parse ver (S f) 0 (to_buffer layout (VInt b) ++ rest) [] = Ok (VInt b, rest, []).
Proof.
  intros Hb. assert (E : to_buffer layout (VInt b) = pyc_code_int :: b) by (rewrite <- (app_nil_r b) at 2; reflexivity).
  rewrite E. cbn [app parse]. closed_conds pyc_code_int.
  rewrite (take_len b rest 4) by (rewrite Hb; reflexivity). reflexivity.
Qed.

Lemma float_roundtrip ver layout b rest f : length b = 8%nat ->
  parse ver (S f) 0 (to_buffer layout (VFloat b) ++ rest) [] = Ok (VFloat b, rest, []).
Proof.
  intros Hb. assert (E : to_buffer layout (VFloat b) = pyc_code_float :: b) by (rewrite <- (app_nil_r b) at 2; reflexivity).
  rewrite E. cbn [app parse]. closed_conds pyc_code_float.
  rewrite (take_len b rest 8) by (rewrite Hb; reflexivity). reflexivity.
Qed.

Lemma complex_roundtrip ver layout b rest f : length b = 16%nat ->
  parse ver (S f) 0 (to_buffer layout (VComplex b) ++ rest) [] = Ok (VComplex b, rest, []).
Proof.
  intros Hb. assert (E : to_buffer layout (VComplex b) = pyc_code_complex :: b) by (rewrite <- (app_nil_r b) at 2; reflexivity).
  rewrite E. cbn [app parse]. closed_conds pyc_code_complex.
  rewrite (take_len b rest 16) by (rewrite Hb; reflexivity). reflexivity.
Qed.

Lemma short_str_roundtrip ver layout c b rest f : In c pyc_short_string_codes -> N.of_nat (length b) < 256 ->
  parse ver (S f) 0 (to_buffer layout (VStr c b) ++ rest) [] = Ok (VStr c b, rest, []).
Proof.
  intros Hc Hl. cbn [pyc_short_string_codes In] in Hc.
  destruct Hc as [<-|[<-|[]]].
  - assert (E : to_buffer layout (VStr 90 b) = 90 :: [N.of_nat (length b) mod 256] ++ b) by (rewrite <- (app_nil_r b) at 3; reflexivity).
    rewrite E. rewrite N.mod_small by exact Hl. cbn [app parse]. closed_conds 90.
    change (N.of_nat (length b) :: b ++ rest) with ([N.of_nat (length b)] ++ (b ++ rest)). rewrite (take_len [N.of_nat (length b)] (b ++ rest) 1 eq_refl). cbv beta iota zeta.
    change (le_decode [N.of_nat (length b)]) with (N.of_nat (length b) + 256 * 0). rewrite N.mul_0_r, N.add_0_r.
    rewrite (take_len b rest _ eq_refl). reflexivity.
  - assert (E : to_buffer layout (VStr 122 b) = 122 :: [N.of_nat (length b) mod 256] ++ b) by (rewrite <- (app_nil_r b) at 3; reflexivity).
    rewrite E. rewrite N.mod_small by exact Hl. cbn [app parse]. closed_conds 122.
    change (N.of_nat (length b) :: b ++ rest) with ([N.of_nat (length b)] ++ (b ++ rest)). rewrite (take_len [N.of_nat (length b)] (b ++ rest) 1 eq_refl). cbv beta iota zeta.
    change (le_decode [N.of_nat (length b)]) with (N.of_nat (length b) + 256 * 0). rewrite N.mul_0_r, N.add_0_r.
    rewrite (take_len b rest _ eq_refl). reflexivity.
Qed.

Lemma long_str_roundtrip ver layout c b rest f : In c [65; 97; 115; 116; 117] -> N.of_nat (length b) < 4294967296 ->
  parse ver (S f) 0 (to_buffer layout (VStr c b) ++ rest) [] = Ok (VStr c b, rest, []).
Proof.
  intros Hc Hl. cbn [In] in Hc.
  destruct Hc as [<-|[<-|[<-|[<-|[<-|[]]]]]];
    match goal with |- context [VStr ?c0 b] =>
      assert (E : to_buffer layout (VStr c0 b) = c0 :: le_encode 4 (N.of_nat (length b)) ++ b) by (rewrite <- (app_nil_r b) at 3; reflexivity);
      rewrite E; cbn [app parse]; closed_conds c0
    end;
    rewrite <- app_assoc;
    (change 4 with (N.of_nat (length (le_encode 4 (N.of_nat (length b))))) at 1); rewrite take_app; cbv beta iota zeta;
    rewrite le_encode_small by exact Hl; rewrite (take_len b rest _ eq_refl); reflexivity.
Qed.

(* C02 for every object without children: what the writer produces is read back as the same object, with
   nothing left over and no reference slot used *)
Theorem leaf_roundtrip ver layout v rest f :
  leaf_ok v -> (match v with VLong z => N.to_nat (long_ndigits z) <= f | _ => True end)%nat ->
  parse ver (S f) 0 (to_buffer layout v ++ rest) [] = Ok (v, rest, []).
Proof.
  intros Hv Hf. destruct v as [c|b|z|b|b|c b|c l|l|a b c|i l]; cbn [leaf_ok] in Hv; try contradiction.
  - apply single_roundtrip, Hv.
  - apply int_roundtrip, Hv.
  - apply long_value_roundtrip; assumption.
  - apply float_roundtrip, Hv.
  - apply complex_roundtrip, Hv.
  - destruct Hv as [Hc Hl]. cbn [pyc_string_codes In] in Hc.
    destruct Hc as [<-|[<-|[<-|[<-|[<-|[<-|[<-|[]]]]]]]]; cbn in Hl;
      first [apply short_str_roundtrip; [cbn; tauto | exact Hl] | apply long_str_roundtrip; [cbn; tauto | exact Hl]].
Qed.
