(* Variants.v — C01: artefacts that differ only in nondeterministic build metadata come out identical. *)
From AD Require Import Bytes Outcome Gen Decimal Ar ArSpec ArProofs Date Cp437 Zip ZipProofs.
Local Arguments firstn : simpl never.
Local Arguments skipn : simpl never.

(* ================= ar ================= *)
Lemma firstn_add {A} (a b : nat) (l : list A) : firstn (a + b) l = firstn a l ++ firstn b (skipn a l).
Proof.
  revert l. induction a as [|a IH]; intros l; [reflexivity|].
  destruct l as [|x l]; [destruct b; reflexivity|].
  change (S a + b)%nat with (S (a + b)). change (firstn (S (a + b)) (x :: l)) with (x :: firstn (a + b) l).
  change (firstn (S a) (x :: l)) with (x :: firstn a l). change (skipn (S a) (x :: l)) with (skipn a l).
  rewrite IH. reflexivity.
Qed.

Lemma slice_cat lo mid hi (x : bytes) : (lo <= mid <= hi)%nat -> slice lo hi x = slice lo mid x ++ slice mid hi x.
Proof.
  intros H. unfold slice. replace (hi - lo)%nat with ((mid - lo) + (hi - mid))%nat by lia.
  rewrite firstn_add. f_equal. rewrite skipn_skipn. f_equal. f_equal. lia.
Qed.

Lemma hdr_split h : length h = 60%nat ->
  h = f_name h ++ f_mtime h ++ f_uid h ++ f_gid h ++ f_mode h ++ f_size h ++ f_magic h.
Proof.
  intros Hh. unfold f_name, f_mtime, f_uid, f_gid, f_mode, f_size, f_magic.
  rewrite <- (slice_cat 48 58 60) by lia. rewrite <- (slice_cat 40 48 60) by lia. rewrite <- (slice_cat 34 40 60) by lia.
  rewrite <- (slice_cat 28 34 60) by lia. rewrite <- (slice_cat 16 28 60) by lia. rewrite <- (slice_cat 0 16 60) by lia.
  symmetry. apply slice_full. exact Hh.
Qed.

(* owner fields as an archiver writes them: some id is non-zero, or both fields are the canonical "0" *)
Definition ids_canon (h : bytes) : Prop := owner_needed h = true \/ (f_uid h = zero_field /\ f_gid h = zero_field).

(* two member headers of the same member, built at different times by different users *)
Definition hdr_variant (e : Z) (h h' : bytes) : Prop :=
  length h = 60%nat /\ length h' = 60%nat /\
  f_name h = f_name h' /\ f_mode h = f_mode h' /\ f_size h = f_size h' /\ f_magic h = f_magic h' /\
  is_longnames h = false /\
  clamp_needed (Some e) h = true /\ clamp_needed (Some e) h' = true /\     (* both timestamps later than the epoch *)
  ids_canon h /\ ids_canon h'.

Theorem ar_hdr_variants e h h' : (0 <= e < 10 ^ 12)%Z -> hdr_variant e h h' -> norm_hdr (Some e) h = norm_hdr (Some e) h'.
Proof.
  intros He (Hl & Hl' & Hn & Hmo & Hsz & Hmg & Hln & Hc & Hc' & Hi & Hi').
  assert (Hln' : is_longnames h' = false) by (unfold is_longnames in *; rewrite <- Hn; exact Hln).
  pose proof (epoch_ok_fmt (Some e) He) as Hf.
  destruct (norm_hdr_fields (Some e) h Hl Hf) as (A1 & A2 & A3 & A4 & _ & A6).
  destruct (norm_hdr_fields (Some e) h' Hl' Hf) as (B1 & B2 & B3 & B4 & _ & B6).
  destruct (A6 Hln) as (A7 & A8 & A9). destruct (B6 Hln') as (B7 & B8 & B9).
  rewrite Hc in A7. rewrite Hc' in B7.
  assert (Hu : f_uid (norm_hdr (Some e) h) = zero_field /\ f_gid (norm_hdr (Some e) h) = zero_field).
  { destruct Hi as [Ho|[U G]]; [rewrite Ho in A8, A9; auto|]. destruct (owner_needed h); rewrite ?U, ?G in *; auto. }
  assert (Hu' : f_uid (norm_hdr (Some e) h') = zero_field /\ f_gid (norm_hdr (Some e) h') = zero_field).
  { destruct Hi' as [Ho|[U G]]; [rewrite Ho in B8, B9; auto|]. destruct (owner_needed h'); rewrite ?U, ?G in *; auto. }
  rewrite (hdr_split (norm_hdr (Some e) h)) by (apply norm_hdr_len; assumption).
  rewrite (hdr_split (norm_hdr (Some e) h')) by (apply norm_hdr_len; assumption).
  rewrite A1, A2, A3, A4, A7, B1, B2, B3, B4, B7. destruct Hu as [-> ->]. destruct Hu' as [-> ->].
  rewrite Hn, Hmo, Hsz, Hmg. reflexivity.
Qed.

(* a member and its variant: same data; header identical or a variant in the above sense *)
Definition member_variant (e : Z) (m m' : member) : Prop :=
  m_data m = m_data m' /\ (m_hdr m = m_hdr m' \/ hdr_variant e (m_hdr m) (m_hdr m')).

Theorem ar_variants e x x' y y' hm hm' ms ms' :
  (0 <= e < 10 ^ 12)%Z ->
  ar_members x = Some ms -> ar_members x' = Some ms' -> Forall2 (member_variant e) ms ms' ->
  ar_process (Some e) x = Ok (y, hm) -> ar_process (Some e) x' = Ok (y', hm') -> y = y'.
Proof.
  intros He Hm Hm' Hv H H'.
  destruct (ar_refines _ _ _ _ H) as (ms0 & E0 & -> & _). destruct (ar_refines _ _ _ _ H') as (ms1 & E1 & -> & _).
  rewrite Hm in E0. rewrite Hm' in E1. injection E0 as <-. injection E1 as <-.
  unfold ar_render. f_equal. clear H H' Hm Hm'.
  induction Hv as [|m m' r r' [Hd Hh] _ IH]; [reflexivity|].
  cbn [map flat_map]. rewrite IH. f_equal.
  unfold render_member, norm_member. cbn [m_hdr m_data fst snd]. rewrite Hd. f_equal.
  destruct Hh as [->|Hh]; [reflexivity | apply ar_hdr_variants; assumption].
Qed.

(* ================= zip / jar ================= *)
(* extra fields (timestamps, ids) and the "made by" tool version never reach the output *)
Definition with_extra (e : zentry) (made_by_lo : N) (ex : bytes) : zentry :=
  mk_zentry ((ze_made_by e / 256) * 256 + made_by_lo mod 256) (ze_flags e) (ze_method e) (ze_time e) (ze_date e) (ze_crc e) (ze_csize e) (ze_usize e)
            (ze_ext e) (ze_offset e) (ze_name_raw e) ex.

Lemma unix_mode_with_extra e lo ex : unix_mode (with_extra e lo ex) = unix_mode e.
Proof.
  unfold unix_mode, with_extra. cbn [ze_ext ze_made_by].
  replace (((ze_made_by e / 256 * 256 + lo mod 256) / 256) mod 256) with ((ze_made_by e / 256) mod 256); [reflexivity|].
  f_equal. rewrite N.div_add_l by lia. rewrite (N.div_small (lo mod 256)) by (apply N.mod_lt; lia). lia.
Qed.

Theorem zip_extra_ignored x e lo ex : copy_entry x (with_extra e lo ex) = copy_entry x e.
Proof.
  unfold copy_entry. rewrite unix_mode_with_extra. reflexivity.
Qed.

Definition zout_variant (epoch : Z) (o o' : zout) : Prop :=
  zo_name o = zo_name o' /\ zo_method o = zo_method o' /\ zo_crc o = zo_crc o' /\ zo_csize o = zo_csize o' /\
  zo_usize o = zo_usize o' /\ zo_ext o = zo_ext o' /\ zo_data o = zo_data o' /\
  ((zo_time o = zo_time o' /\ zo_date o = zo_date o') \/
   (exists t t', dos_to_unix (zo_date o) (zo_time o) = Some t /\ dos_to_unix (zo_date o') (zo_time o') = Some t' /\ (epoch < t)%Z /\ (epoch < t')%Z)).

Theorem zip_member_variants epoch de o o' : zout_variant epoch o o' ->
  fst (clamp_member epoch de o) = fst (clamp_member epoch de o').
Proof.
  intros (H1 & H2 & H3 & H4 & H5 & H6 & H7 & H8).
  destruct o as [n m t d c cs us ex dt], o' as [n' m' t' d' c' cs' us' ex' dt']. cbn [zo_name zo_method zo_time zo_date zo_crc zo_csize zo_usize zo_ext zo_data] in *.
  subst n' m' c' cs' us' ex' dt'.
  destruct H8 as [[-> ->]|(u & u' & E & E' & L & L')]; [reflexivity|].
  unfold clamp_member. cbn [zo_name zo_method zo_time zo_date zo_crc zo_csize zo_usize zo_ext zo_data]. rewrite E, E'.
  pose proof zip_layout as Lo. unfold zip_layout_ok in Lo.
  destruct zip_clamp_cmp; try (rewrite !andb_false_r in Lo; discriminate Lo). cbn [cmp_Z].
  apply Z.ltb_lt in L, L'. rewrite L, L'. reflexivity.
Qed.

Theorem zip_variants init mt mt' x x' y y' hm hm' es es' outs outs' :
  zip_read x = Some es -> zip_read x' = Some es' -> copy_all x es = Ok outs -> copy_all x' es' = Ok outs' ->
  Forall2 (zout_variant (fst init)) outs outs' ->
  zip_process init mt x = Some (Ok (y, hm)) -> zip_process init mt' x' = Some (Ok (y', hm')) -> y = y'.
Proof.
  intros R R' C C' Hv H H'.
  destruct (zip_process_ok _ _ _ _ _ H) as (es0 & o0 & A1 & A2 & -> & _).
  destruct (zip_process_ok _ _ _ _ _ H') as (es1 & o1 & B1 & B2 & -> & _).
  rewrite R in A1. injection A1 as <-. rewrite R' in B1. injection B1 as <-.
  rewrite C in A2. injection A2 as <-. rewrite C' in B2. injection B2 as <-.
  f_equal. clear H H' C C' R R'. induction Hv as [|o o' r r' Ho _ IH]; [reflexivity|]. cbn [map]. rewrite IH. f_equal.
  apply zip_member_variants. exact Ho.
Qed.
