#!/bin/sh
# Builds the framework offline from files on disk: Gen.v from /repo, the Coq project, the extracted
# model runner, the Rust harness and the CLI (debug profile).
set -e
cd "$(dirname "$0")"
export CARGO_NET_OFFLINE=true
mkdir -p .build
python3 tools/gen_tables.py /repo coq/Gen.v .build/gen_status.json
(cd coq && coq_makefile -f _CoqProject -o Makefile >/dev/null && timeout 3000 make -j16 >/dev/null)
python3 - <<'PY'
import sys
sys.path.insert(0, "lib")
import framework
for name, f in (("model", framework.build_model), ("harness", framework.build_harness), ("cli", framework.build_cli)):
    ok, out = f()
    print(name, "ok" if ok else "FAILED")
    if not ok:
        print(out[-2000:])
        sys.exit(1)
PY
