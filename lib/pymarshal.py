"""Independent reference for CPython's marshal format (versions 3.4 .. 3.14): a decoder that follows the
rules of Python/marshal.c (slot reservation, what may be referenced, digit range), an encoder that produces
what CPython could emit (FLAG_REF placement random, back-references to shared objects), and a random value
generator.  Values are plain Python tuples ("kind", ...) so that they can be compared structurally."""
import struct

SINGLETONS = {b"0": "NULL", b"N": "None", b"F": "False", b"T": "True", b".": "Ellipsis", b"S": "StopIteration"}
STR_CODES = b"zZstuaA"
FLAG_REF = 0x80

# magic number (lowest of the release) -> (major, minor), header length
VERSIONS = {(3, 4): (3310, 12), (3, 5): (3351, 12), (3, 6): (3379, 12), (3, 7): (3394, 16), (3, 8): (3413, 16), (3, 9): (3425, 16),
            (3, 10): (3439, 16), (3, 11): (3495, 16), (3, 12): (3531, 16), (3, 13): (3571, 16), (3, 14): (3627, 16)}


def code_layout(ver):
    """Fields of a marshalled code object in stream order, from CPython's marshal.c of that version: 'i' = 4-byte int, 'o' = object."""
    if ver >= (3, 11):
        return "iiiii" + "ooo" + "oo" + "ooo" + "i" + "oo"      # argcount posonly kwonly stacksize flags | code consts names | localsplusnames kinds | filename name qualname | firstlineno | linetable exceptiontable
    if ver >= (3, 8):
        return "iiiiii" + "oooooo" + "oo" + "i" + "o"           # argcount posonly kwonly nlocals stacksize flags | code consts names varnames freevars cellvars | filename name | firstlineno | lnotab
    return "iiiii" + "oooooo" + "oo" + "i" + "o"                # argcount kwonly nlocals stacksize flags | ...


class MarshalError(Exception):
    pass


class Decoder:
    """r_object of marshal.c.  strict=True also rejects what CPython's writer never produces (flag on singletons / on TYPE_REF)."""

    def __init__(self, data, ver, strict=False):
        self.d, self.p, self.ver, self.refs, self.depth, self.strict = data, 0, ver, [], 0, strict

    def take(self, n):
        if self.p + n > len(self.d):
            raise MarshalError("EOF")
        b = self.d[self.p:self.p + n]
        self.p += n
        return b

    def u32(self):
        return struct.unpack("<I", self.take(4))[0]

    def obj(self):
        self.depth += 1
        if self.depth > 2000:
            raise MarshalError("depth")
        try:
            return self._obj()
        finally:
            self.depth -= 1

    def _obj(self):
        b = self.take(1)[0]
        flag = b & FLAG_REF
        c = bytes([b & 0x7F])
        if c in SINGLETONS:
            if flag and self.strict:
                raise MarshalError("flag on singleton")
            return ("single", c)
        if c == b"r":
            if flag and self.strict:
                raise MarshalError("flag on ref")
            n = self.u32()
            if n >= len(self.refs) or self.refs[n] is None:
                raise MarshalError("invalid reference")
            return self.refs[n]
        idx = None
        if flag:
            idx = len(self.refs)
            self.refs.append(None)          # containers reserve their slot before the children are read
        v = self._body(c)
        if idx is not None:
            self.refs[idx] = v
        return v

    def _body(self, c):
        if c == b"i":
            return ("int", self.take(4))
        if c == b"l":
            n = struct.unpack("<i", self.take(4))[0]
            size = abs(n)
            val = 0
            for i in range(size):
                d = struct.unpack("<H", self.take(2))[0]
                if d >= 1 << 15:
                    raise MarshalError("digit out of range")
                if i == size - 1 and d == 0:
                    raise MarshalError("unnormalized long")
                val += d << (15 * i)
            return ("long", -val if n < 0 else val)
        if c == b"g":
            return ("float", self.take(8))
        if c == b"y":
            return ("complex", self.take(16))
        if c in (b"z", b"Z"):
            return ("str", c, self.take(self.take(1)[0]))
        if c in (b"s", b"t", b"u", b"a", b"A"):
            return ("str", c, self.take(self.u32()))
        if c == b")":
            n = self.take(1)[0]
            return ("seq", b"(", tuple(self.obj() for _ in range(n)))
        if c in (b"(", b"[", b"<", b">"):
            n = self.u32()
            if n > len(self.d):
                raise MarshalError("EOF")
            return ("seq", c, tuple(self.obj() for _ in range(n)))
        if c == b"{":
            items = []
            while True:
                k = self.obj() if self.d[self.p:self.p + 1] and (self.d[self.p] & 0x7F) != 0x30 else None
                if k is None:
                    self.obj()
                    break
                items.append(k)
                items.append(self.obj())
            return ("dict", tuple(items))
        if c == b":":
            if self.ver < (3, 14):
                raise MarshalError("slice before 3.14")
            return ("slice", self.obj(), self.obj(), self.obj())
        if c == b"c":
            ints, objs = [], []
            for f in code_layout(self.ver):
                if f == "i":
                    ints.append(self.take(4))
                else:
                    objs.append(self.obj())
            return ("code", tuple(ints), tuple(objs))
        raise MarshalError("bad type code %r" % c)


def loads(data, ver, strict=False):
    d = Decoder(data, ver, strict)
    v = d.obj()
    return v, d.p


# ----------------------------------------------------------------------------- encoder: what CPython could emit
class Encoder:
    def __init__(self, ver, rng, flag_prob=0.5):
        self.ver, self.rng, self.flag_prob = ver, rng, flag_prob
        self.out = bytearray()
        self.refs = {}          # id(value) -> ref index, for completed flagged objects
        self.nrefs = 0

    def obj(self, v):
        kind = v[0]
        if kind == "single":
            self.out += v[1]
            return
        if id(v) in self.refs:                      # shared object already written with a flag: back-reference
            self.out += b"r" + struct.pack("<I", self.refs[id(v)])
            return
        flag = self.rng.random() < self.flag_prob or id(v) in self.must_flag
        idx = None
        if flag:
            idx = self.nrefs
            self.nrefs += 1
        start = len(self.out)
        self._body(v)
        if flag:
            self.out[start] |= FLAG_REF
            self.refs[id(v)] = idx

    def _body(self, v):
        kind = v[0]
        if kind == "int":
            self.out += b"i" + v[1]
        elif kind == "long":
            n = abs(v[1])
            digits = []
            while n:
                digits.append(n & 0x7FFF)
                n >>= 15
            self.out += b"l" + struct.pack("<i", -len(digits) if v[1] < 0 else len(digits)) + b"".join(struct.pack("<H", d) for d in digits)
        elif kind == "float":
            self.out += b"g" + v[1]
        elif kind == "complex":
            self.out += b"y" + v[1]
        elif kind == "str":
            c, b = v[1], v[2]
            self.out += c + (bytes([len(b)]) if c in (b"z", b"Z") else struct.pack("<I", len(b))) + b
        elif kind == "seq":
            c, items = v[1], v[2]
            if c == b"(" and len(items) < 256:
                self.out += b")" + bytes([len(items)])
            else:
                self.out += c + struct.pack("<I", len(items))
            for x in items:
                self.obj(x)
        elif kind == "dict":
            self.out += b"{"
            for x in v[1]:
                self.obj(x)
            self.out += b"0"
        elif kind == "slice":
            self.out += b":"
            for x in v[1:]:
                self.obj(x)
        elif kind == "code":
            self.out += b"c"
            ints, objs = list(v[1]), list(v[2])
            for f in code_layout(self.ver):
                if f == "i":
                    self.out += ints.pop(0)
                else:
                    self.obj(objs.pop(0))
        else:
            raise ValueError(kind)


def count_uses(v, seen):
    if v[0] == "single":
        return
    seen[id(v)] = seen.get(id(v), 0) + 1
    if seen[id(v)] > 1:
        return
    if v[0] == "seq":
        for x in v[2]:
            count_uses(x, seen)
    elif v[0] == "dict":
        for x in v[1]:
            count_uses(x, seen)
    elif v[0] == "slice":
        for x in v[1:]:
            count_uses(x, seen)
    elif v[0] == "code":
        for x in v[2]:
            count_uses(x, seen)


def dumps(v, ver, rng, flag_prob=0.5):
    """Encode like CPython: an object used more than once is flagged at its first occurrence and referenced afterwards;
    other objects carry the flag at random (CPython flags by refcount at dump time, which is incidental)."""
    e = Encoder(ver, rng, flag_prob)
    uses = {}
    count_uses(v, uses)
    e.must_flag = {i for i, n in uses.items() if n > 1}
    e.obj(v)
    return bytes(e.out)


# ----------------------------------------------------------------------------- random values (DAGs)
def gen_value(rng, ver, depth=0, pool=None, allow_mutable=False):
    pool = pool if pool is not None else []
    if pool and rng.random() < 0.25:
        return rng.choice(pool)                       # share an existing object
    r = rng.random()
    if depth > 4 or r < 0.45:
        k = rng.random()
        if k < 0.15:
            v = ("single", rng.choice([b"N", b"F", b"T", b".", b"S"]))
        elif k < 0.3:
            v = ("int", struct.pack("<i", rng.choice([0, 1, -1, 255, 256, 2 ** 31 - 1, -2 ** 31, rng.randrange(-10 ** 6, 10 ** 6)])))
        elif k < 0.4:
            n = rng.choice([2 ** 15 - 1, 2 ** 15, 2 ** 30 - 1, 2 ** 30, 2 ** 31, 2 ** 63, 2 ** 64 + 1, rng.getrandbits(rng.choice([16, 45, 200]))])
            v = ("long", rng.choice([n, -n]) or 2 ** 31)
        elif k < 0.48:
            v = ("float", struct.pack("<d", rng.choice([0.0, -0.0, 1.5, float("inf"), float("nan"), 1e300, rng.random()])))
        elif k < 0.52:
            v = ("complex", struct.pack("<dd", rng.random(), -0.0))
        else:
            c = rng.choice([b"z", b"Z", b"s", b"t", b"u", b"a", b"A"])
            ln = rng.choice([0, 1, 2, 7, 40, 255]) if c in (b"z", b"Z") else rng.choice([0, 1, 5, 255, 256, 300] + ([65535, 65536, 70000] if rng.random() < 0.03 else []))
            body = bytes(rng.randrange(32, 127) for _ in range(ln)) if c != b"s" else rng.randbytes(ln)
            if c == b"u" and ln:
                body = ("é" * (ln // 2 + 1)).encode()[:ln] if ln % 2 == 0 else body
            v = ("str", c, body)
    elif r < 0.75:
        n = rng.choice([0, 1, 2, 3, 5] + ([255, 256, 257] if depth < 2 and rng.random() < 0.1 else []))
        v = ("seq", rng.choice([b"(", b"(", b"(", b">"] + ([b"[", b"<"] if allow_mutable else [])), tuple(gen_value(rng, ver, depth + 1, pool, allow_mutable) for _ in range(n)))
    elif r < 0.8 and ver >= (3, 14):
        v = ("slice", gen_value(rng, ver, depth + 1, pool), gen_value(rng, ver, depth + 1, pool), gen_value(rng, ver, depth + 1, pool))
    elif r < 0.83 and allow_mutable:
        n = rng.choice([0, 1, 3])
        v = ("dict", tuple(gen_value(rng, ver, depth + 1, pool, True) for _ in range(2 * n)))
    else:
        lay = code_layout(ver)
        ints = tuple(struct.pack("<I", rng.choice([0, 1, 3, 64, 2 ** 32 - 1, rng.randrange(1000)])) for f in lay if f == "i")
        objs = tuple(gen_value(rng, ver, depth + 1, pool, allow_mutable) for f in lay if f == "o")
        v = ("code", ints, objs)
    if v[0] != "single":
        pool.append(v)
    return v


def header(ver, flags=0, mtime=0x63570CD6, size=100):
    magic, hl = VERSIONS[ver]
    h = struct.pack("<H", magic) + b"\r\n"
    if hl == 12:
        return h + struct.pack("<II", mtime, size)
    return h + struct.pack("<III", flags, mtime, size)
