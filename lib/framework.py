"""Shared machinery for /verif/check: builds, Coq obligations, model/impl runners, evidence, violations."""
import fcntl
import hashlib
import json
import os
import re
import shutil
import subprocess
import sys
import tempfile
import time

VERIF = os.path.dirname(os.path.dirname(os.path.abspath(__file__)))
REPO = os.environ.get("VERIF_REPO", "/repo")
BUILD = os.path.join(VERIF, ".build")
COQ = os.path.join(VERIF, "coq")
ENV = dict(os.environ, CARGO_NET_OFFLINE="true", LC_ALL="C.UTF-8")
ENV.pop("SOURCE_DATE_EPOCH", None)
ENV.pop("RPM_BUILD_ROOT", None)

TRUSTED_BASE = [
    "Coq 8.16.1 kernel (coqc; vm_compute used, native_compute not used; no -type-in-type, no disabled checks)",
    "no axioms: every property theorem must print 'Closed under the global context' (checked on every run)",
    "translator tools/gen_tables.py (regex extraction of constants/operators/tables from the Rust text into coq/Gen.v)",
    "extraction: ExtrOcamlBasic only (bool, option, unit, list, prod, sumbool, sumor; andb/orb inlined); N/Z/positive/nat stay Coq datatypes; OCaml driver model_driver/main.ml; ocamlfind ocamlopt 4.13.1",
    "correspondence harness: /verif/harness (Rust, links /repo's library crate), the CLI built from /repo, python3 generators and oracles, strace for operation traces and fault injection",
    "modelled, not verified: Linux file-system semantics as abstracted in Fs.v, third-party crates (zip, regex, chrono, walkdir, serde_cbor) as described in DESIGN.md section 3",
]


def sh(cmd, timeout=600, cwd=None, env=None, input=None):
    """Run a command; returns (rc, stdout+stderr)."""
    try:
        p = subprocess.run(cmd, cwd=cwd, env=env or ENV, input=input, timeout=timeout,
                           stdout=subprocess.PIPE, stderr=subprocess.STDOUT, shell=isinstance(cmd, str))
        out = p.stdout.decode("utf-8", "replace")
        out = "\n".join(l for l in out.split("\n") if not l.startswith("WARNING conda"))
        return p.returncode, out
    except subprocess.TimeoutExpired as e:
        out = (e.stdout or b"").decode("utf-8", "replace")
        return 124, out + "\n[timeout after %ss]" % timeout


class Lock:
    def __init__(self, name="build"):
        os.makedirs(BUILD, exist_ok=True)
        self.path = os.path.join(BUILD, name + ".lock")

    def __enter__(self):
        self.f = open(self.path, "w")
        fcntl.flock(self.f, fcntl.LOCK_EX)
        return self

    def __exit__(self, *a):
        fcntl.flock(self.f, fcntl.LOCK_UN)
        self.f.close()


class Ctx:
    def __init__(self, pid, tier, seed):
        self.pid = pid
        self.tier = tier
        self.seed = seed
        self.t0 = time.time()
        self.obligations = []      # (name, ok, detail)
        self.violations = []       # dicts
        self.known = []            # strings
        self.coverage = {}
        self.assumptions = []
        self.notes = []
        self.tmp = tempfile.mkdtemp(prefix="verif-%s-" % pid)
        self.broken = []           # names of broken obligations / correspondences
        self.replay_dir = os.path.join(VERIF, "replays", pid)

    def oblige(self, name, ok, detail=""):
        self.obligations.append((name, bool(ok), detail))
        if not ok:
            self.broken.append(name)
            print("obligation FAILED: %s %s" % (name, detail[:400]))

    def cleanup(self):
        shutil.rmtree(self.tmp, ignore_errors=True)


# ----------------------------------------------------------------------------- builds
def gen_tables(ctx=None):
    os.makedirs(BUILD, exist_ok=True)
    status = os.path.join(BUILD, "gen_status.json")
    rc, out = sh([sys.executable, os.path.join(VERIF, "tools", "gen_tables.py"), REPO, os.path.join(COQ, "Gen.v"), status], timeout=60)
    st = {"failed": [{"name": "gen_tables crashed", "pattern": out[-300:]}]}
    if rc == 0 and os.path.exists(status):
        st = json.load(open(status))
    if ctx is not None:
        # a pattern that no longer matches leaves the pinned value in Gen.v; that breaks the tie between model and source for the
        # properties whose model uses that table - for them it is a failed obligation - and says nothing about the others
        rel = [x for x in st["failed"] if pattern_relevant(ctx.pid, x["name"])]
        other = [x for x in st["failed"] if not pattern_relevant(ctx.pid, x["name"])]
        # decided at the end of the run (finish): where a correspondence run of this check still ties the model - which then uses the
        # pinned values, i.e. is hand-written for these tables - to the implementation and passes, the tie holds; otherwise it is broken
        ctx.translator_lost = [x["name"] for x in rel]
        if not rel:
            ctx.oblige("translator: every pattern of tools/gen_tables.py that feeds this property's model matches the current sources", True, "")
        if other:
            ctx.notes.append("translator patterns that no longer match but do not feed this property's model (pinned values kept): " + ", ".join(x["name"] for x in other))
        ctx.gen = st
    return st


# which regenerated tables feed which property's model (by pattern-name prefix)
_PATTERN_USERS = {
    "gzip_": {"C01", "C05", "C07", "C08", "C15"},
    "ar_": {"C01", "C04", "C07", "C08", "C15"},
    "zip_": {"C01", "C03", "C07", "C10", "C15"},
    "javadoc_": {"C01", "C06", "C07", "C08", "C15"},
    "pyc_": {"C01", "C02", "C07", "C08", "C15", "C18"},
    "ext": {"C11", "C13", "C14", "C16"},
    "handlers_": {"C11", "C13", "C14", "C16"},
    "presult_order": {"C11", "C14", "C17"},
    "add_one_": {"C11", "C14", "C17"},
    "stats_": {"C11", "C14", "C17"},
    "main_verdict": {"C10", "C17"},
    "strict_rule": {"C16"},
    "neg_epoch_ignored": {"C16", "C11", "C07"},
    "walk_tmp_test_before_stat": {"C11", "C13"},
    "process_entry_order": {"C11", "C13"},
}


def pattern_relevant(pid, name):
    for pre, users in _PATTERN_USERS.items():
        if name.startswith(pre):
            return pid in users
    return True          # unknown table: every property is taken to depend on it


def coq_make(targets, timeout=1500):
    """make the given .vo targets (list of paths relative to coq/). Returns (ok, output)."""
    mk = os.path.join(COQ, "Makefile")
    proj = os.path.join(COQ, "_CoqProject")
    if not os.path.exists(mk) or os.path.getmtime(mk) < os.path.getmtime(proj):
        sh(["coq_makefile", "-f", "_CoqProject", "-o", "Makefile"], cwd=COQ, timeout=60)
    rc, out = sh(["timeout", str(timeout), "make", "-j16", "-k"] + targets, cwd=COQ, timeout=timeout + 30)
    return rc == 0, out


def enclosing_lemma(vfile, line):
    try:
        ls = open(vfile, encoding="utf-8").read().split("\n")
    except OSError:
        return "?"
    for i in range(min(line, len(ls)) - 1, -1, -1):
        m = re.match(r"\s*(Lemma|Theorem|Example|Corollary|Definition|Fixpoint|Fact|Remark)\s+([\w']+)", ls[i])
        if m:
            return m.group(2)
    return "?"


def parse_coq_errors(out):
    errs = []
    for m in re.finditer(r'File "([^"]+)", line (\d+), characters [\d-]+:\s*\n(Error:.*?)(?=\n\n|\nmake|\Z)', out, re.S):
        f, line, msg = m.group(1), int(m.group(2)), m.group(3)
        fp = f if os.path.isabs(f) else os.path.join(COQ, f)
        errs.append({"file": os.path.relpath(fp, COQ), "line": line, "lemma": enclosing_lemma(fp, line), "msg": " ".join(msg.split())[:300]})
    return errs


LINT_RE = re.compile(r"\b(Admitted|admit|Axiom|Axioms|Parameter|Parameters|Conjecture|Hypothesis|Variable)\b|Unset\s+Guard|bypass_check|type-in-type|impredicative-set|Admit Obligations|native_compute")


def lint_sources():
    bad = []
    for root, _, files in os.walk(COQ):
        for fn in files:
            if not fn.endswith(".v"):
                continue
            p = os.path.join(root, fn)
            txt = open(p, encoding="utf-8").read()
            # strip comments (non-nested is enough for our style, nested handled by loop)
            prev = None
            while prev != txt:
                prev = txt
                txt = re.sub(r"\(\*(?:(?!\(\*|\*\)).)*\*\)", " ", txt, flags=re.S)
            in_section = 0
            for i, l in enumerate(txt.split("\n")):
                if re.match(r"\s*Section\b", l):
                    in_section += 1
                if re.match(r"\s*End\b", l) and in_section:
                    in_section -= 1
                m = LINT_RE.search(l)
                if m:
                    if m.group(1) in ("Variable", "Hypothesis") and in_section:
                        continue
                    bad.append("%s:%d: %s" % (os.path.relpath(p, COQ), i + 1, l.strip()[:80]))
    return bad


def coq_property(ctx, prop_file=None, extra_targets=()):
    """Build the dependency cone of Properties/<id>.v, re-run it capturing Print Assumptions, lint."""
    pid = ctx.pid
    pf = prop_file or ("Properties/%s.v" % pid)
    with Lock("coq"):
        gen_tables(ctx)
        # dependencies of the property file
        rc, dep = sh(["coqdep", "-Q", ".", "AD", pf], cwd=COQ, timeout=60)
        deps = re.findall(r"(\S+\.vo)\b", dep.split(":", 1)[1] if ":" in dep else "")
        deps = [d for d in deps if not d.endswith(pf + "o")]
        ok, out = coq_make(sorted(set(deps)) + list(extra_targets))
        errs = parse_coq_errors(out) if not ok else []
        if not ok and not errs:
            errs = [{"file": "?", "line": 0, "lemma": "?", "msg": out[-400:]}]
        ctx.oblige("coq: dependency cone of %s builds (%d files)" % (pf, len(set(deps))), ok,
                   "; ".join("%s:%s %s: %s" % (e["file"], e["line"], e["lemma"], e["msg"]) for e in errs))
        ctx.coq_errors = errs
        thms = re.findall(r"^\s*(?:Theorem|Lemma)\s+([\w']+)", open(os.path.join(COQ, pf), encoding="utf-8").read(), re.M)
        ctx.theorems = thms
        if ok:
            os.makedirs(os.path.join(BUILD, "props"), exist_ok=True)
            cmd = ["timeout", "600", "coqc", "-Q", ".", "AD", "-o", os.path.join(BUILD, "props", pid + ".vo"), pf]
            rc, pout = sh(cmd, cwd=COQ, timeout=630)
            perrs = parse_coq_errors(pout)
            ctx.oblige("coq: %s compiles (%d theorems: %s)" % (pf, len(thms), ", ".join(thms)), rc == 0,
                       "; ".join("%s:%s %s: %s" % (e["file"], e["line"], e["lemma"], e["msg"]) for e in perrs) or pout[-300:])
            if rc != 0:
                ctx.coq_errors = perrs
            closed = pout.count("Closed under the global context")
            axioms = re.findall(r"Axioms:\s*\n((?:.+\n?)+?)(?=\n\S|\Z)", pout)
            n_pa = len(re.findall(r"^\s*Print Assumptions", open(os.path.join(COQ, pf)).read(), re.M))
            if rc == 0:
                ctx.oblige("coq: Print Assumptions closed for all %d printed theorems of %s" % (n_pa, pf),
                           closed == n_pa and not axioms and n_pa >= len(thms), "closed=%d printed=%d theorems=%d axioms=%s" % (closed, n_pa, len(thms), axioms))
                for t in thms:
                    ctx.obligations.append(("theorem %s" % t, True, ""))
            else:
                for t in thms:
                    ctx.obligations.append(("theorem %s" % t, False, "property file does not compile"))
                    ctx.broken.append("theorem " + t)
        else:
            for t in thms:
                ctx.obligations.append(("theorem %s" % t, False, "dependency cone does not build"))
                ctx.broken.append("theorem " + t)
        bad = lint_sources()
        ctx.oblige("lint: no Admitted/admit/Axiom/Parameter/Conjecture/unguarded Variable/disabled checks in coq/", not bad, "; ".join(bad[:5]))
        ctx.statement_hash = hashlib.sha256(open(os.path.join(COQ, pf), "rb").read()).hexdigest()[:16]
    ctx.checker_cmd = "cd /verif/coq && make <cone of %s> && coqc -Q . AD %s  (Print Assumptions parsed)" % (pf, pf)
    if ctx.tier == "thorough" and ok:
        with Lock("coq"):
            rc, cout = sh(["timeout", "1500", "coqchk", "-o", "-silent", "-Q", ".", "AD"] + ["AD." + os.path.splitext(os.path.normpath(d))[0].replace("/", ".") for d in sorted(set(deps))], cwd=COQ, timeout=1600)
            ax = re.search(r"Axioms:\s*(.*?)(?:\n\*|\Z)", cout, re.S)
            ctx.oblige("coqchk -o on the cone: no axioms", rc == 0 and ax is not None and "<none>" in ax.group(1), cout[-300:])
            ctx.checker_cmd += " ; coqchk -o -silent"
    return ok


def build_model():
    """Extract the models and build the OCaml runner. Returns (ok, output)."""
    ex = os.path.join(BUILD, "extract")
    os.makedirs(ex, exist_ok=True)
    with Lock("coq"):
        rc, dep = sh(["coqdep", "-Q", ".", "AD", "Extract.v"], cwd=COQ, timeout=60)
        deps = re.findall(r"(\S+\.vo)\b", dep.split(":", 1)[1] if ":" in dep else "")
        deps = sorted(set(d for d in deps if not d.startswith("Extract.")))
        ok, out = coq_make(deps)
        if not ok:
            return False, out
        stamp = os.path.join(ex, "stamp")
        h = hashlib.sha256()
        for d in deps + ["Extract.v"]:
            src = os.path.join(COQ, d[:-1] if d.endswith(".vo") else d)
            h.update(open(src, "rb").read())
        h.update(open(os.path.join(VERIF, "model_driver", "main.ml"), "rb").read())
        hv = h.hexdigest()
        if os.path.exists(stamp) and open(stamp).read() == hv and os.path.exists(os.path.join(ex, "model_run")):
            return True, "cached"
        rc, out = sh(["timeout", "600", "coqc", "-Q", COQ, "AD", "-o", os.path.join(ex, "Extract.vo"), os.path.join(COQ, "Extract.v")], cwd=ex, timeout=630)
        if rc != 0:
            return False, out
        shutil.copy(os.path.join(VERIF, "model_driver", "main.ml"), os.path.join(ex, "main.ml"))
        rc, out2 = sh(["ocamlfind", "ocamlopt", "-w", "-a", "-package", "str,unix", "-linkpkg", "model.mli", "model.ml", "main.ml", "-o", "model_run"], cwd=ex, timeout=600)
        if rc != 0:
            return False, out2
        open(stamp, "w").write(hv)
        return True, out + out2


def build_harness(release=False):
    with Lock("cargo"):
        hdir = os.path.join(VERIF, "harness")
        lock = os.path.join(hdir, "Cargo.lock")
        cmd = ["cargo", "build", "--offline", "--manifest-path", os.path.join(hdir, "Cargo.toml"), "--target-dir", os.path.join(BUILD, "harness-target")]
        if release:
            cmd.append("--release")
        env = dict(ENV, RUSTFLAGS="--cfg add_determinism_verif")
        rc, out = sh(cmd, timeout=1500, env=env)
        if rc != 0 and "Cargo.lock" in out:
            shutil.copy(os.path.join(REPO, "Cargo.lock"), lock)
            rc, out = sh(cmd, timeout=1500, env=env)
        return rc == 0, out


def build_cli(release=False):
    with Lock("cargo"):
        cmd = ["cargo", "build", "--offline", "--manifest-path", os.path.join(REPO, "Cargo.toml"), "--bin", "add-determinism",
               "--target-dir", os.path.join(BUILD, "repo-target")]
        if release:
            cmd.append("--release")
        env = dict(ENV, RUSTFLAGS="--cfg add_determinism_verif")
        rc, out = sh(cmd, timeout=1500, env=env)
        return rc == 0, out


def harness_bin(release=False):
    return os.path.join(BUILD, "harness-target", "release" if release else "debug", "adh")


def cli_bin(release=False):
    return os.path.join(BUILD, "repo-target", "release" if release else "debug", "add-determinism")


def model_bin():
    return os.path.join(BUILD, "extract", "model_run")


# ----------------------------------------------------------------------------- running cases
class Case:
    __slots__ = ("cid", "handler", "epoch", "check", "nlink", "data", "mtime", "tags")

    def __init__(self, cid, handler, epoch, data, check=False, nlink=1, mtime=None, tags=()):
        self.cid, self.handler, self.epoch, self.check, self.nlink, self.data, self.mtime, self.tags = cid, handler, epoch, check, nlink, data, mtime, tuple(tags)

    def line(self):
        return "%s %s %s %d %d %s %s" % (self.cid, self.handler, "-" if self.epoch is None else self.epoch, 1 if self.check else 0, self.nlink,
                                         self.data.hex() if self.data else "-", "-" if self.mtime is None else self.mtime)


def write_cases(path, cases):
    with open(path, "w") as f:
        for c in cases:
            f.write(c.line() + "\n")


def parse_results(out):
    res = {}
    begun = []
    for l in out.split("\n"):
        t = l.split()
        if len(t) == 2 and t[0] == "BEGIN":
            begun.append(t[1])
        elif len(t) == 3:
            res[t[0]] = (t[1], b"" if t[2] == "-" else bytes.fromhex(t[2]))
    return res, begun


def run_impl(ctx, cases, release=False, shards=8):
    """Run cases through the Rust harness (in shards; a crashed shard is resumed after the crashing case)."""
    results = {}
    pending = list(cases)
    shards_l = [pending[i::shards] for i in range(shards)] if len(pending) > 64 else [pending]
    procs = []
    for si, sh_cases in enumerate(shards_l):
        procs.append(_impl_shard(ctx, sh_cases, si, release))
    for r in procs:
        results.update(r)
    return results


def _impl_shard(ctx, cases, si, release):
    results = {}
    todo = list(cases)
    rounds = 0
    while todo and rounds < 50:
        rounds += 1
        cf = os.path.join(ctx.tmp, "impl-cases-%d-%d.txt" % (si, rounds))
        write_cases(cf, todo)
        scratch = os.path.join(ctx.tmp, "impl-scratch-%d" % si)
        rc, out = sh([harness_bin(release), cf, scratch], timeout=900)
        res, begun = parse_results(out)
        results.update(res)
        if rc == 0:
            break
        # crashed: the last BEGIN without result is the culprit
        culprit = None
        for b in begun:
            if b not in res:
                culprit = b
        if culprit is None:
            break
        data = next(c.data for c in todo if c.cid == culprit)
        results[culprit] = ("Abort", data)
        idx = [c.cid for c in todo].index(culprit)
        todo = todo[idx + 1:]
    shutil.rmtree(os.path.join(ctx.tmp, "impl-scratch-%d" % si), ignore_errors=True)
    return results


def run_model(ctx, cases, release=False, shards=16):
    """Run cases through the extracted model, sharded over several processes (balanced by input size)."""
    cases = list(cases)
    if len(cases) < 32:
        shards = 1
    order = sorted(range(len(cases)), key=lambda i: -len(cases[i].data))
    buckets = [[] for _ in range(shards)]
    loads = [0] * shards
    for i in order:
        k = loads.index(min(loads))
        buckets[k].append(cases[i])
        loads[k] += len(cases[i].data) ** 2 // 1000 + 100
    procs = []
    for si, b in enumerate(buckets):
        if not b:
            continue
        cf = os.path.join(ctx.tmp, "model-cases-%d.txt" % si)
        write_cases(cf, b)
        of = open(os.path.join(ctx.tmp, "model-out-%d.txt" % si), "w")
        p = subprocess.Popen("ulimit -s unlimited 2>/dev/null; ulimit -v 6000000 2>/dev/null; exec %s %s %s" % (model_bin(), cf, "release" if release else "debug"),
                             shell=True, stdout=of, stderr=subprocess.STDOUT, env=ENV)
        procs.append((p, of, si))
    res = {}
    for p, of, si in procs:
        try:
            rc = p.wait(timeout=900)
        except subprocess.TimeoutExpired:
            p.kill()
            rc = 124
        of.close()
        out = open(os.path.join(ctx.tmp, "model-out-%d.txt" % si)).read()
        r, _ = parse_results(out)
        res.update(r)
        if rc != 0:
            ctx.notes.append("model_run shard %d exited %d: %s" % (si, rc, out[-200:]))
    return res


# ----------------------------------------------------------------------------- vm_compute cross-check
def run_vm(ctx, cases, expr_of_case, imports, timeout=600):
    """Evaluate cases inside Coq with vm_compute; expr_of_case gives a Coq term of type (N * list N)
    (class code, bytes). Returns dict id -> (classcode, bytes)."""
    vf = os.path.join(ctx.tmp, "cases.v")
    with open(vf, "w") as f:
        f.write("From AD Require Import %s.\nOpen Scope N_scope.\n" % " ".join(imports))
        for c in cases:
            f.write("Eval vm_compute in (%s).\n" % expr_of_case(c))
    rc, out = sh(["timeout", str(timeout), "coqc", "-noglob", "-Q", COQ, "AD", "-o", os.path.join(ctx.tmp, "cases.vo"), vf], timeout=timeout + 30)
    res = {}
    chunks = re.split(r"\n\s*=\s", "\n" + out)[1:]
    for c, ch in zip(cases, chunks):
        ch = ch.split("\n     :")[0]
        nums = re.findall(r"\d+", ch)
        txt = " ".join(ch.split())
        res[c.cid] = txt
    return res, rc, out


# ----------------------------------------------------------------------------- violations / evidence
def load_known():
    p = os.path.join(VERIF, "known_findings.json")
    if os.path.exists(p):
        return json.load(open(p))
    return {"findings": [], "fixed": []}


def write_replay(ctx, name, files, info):
    h = hashlib.sha256((name + json.dumps(info, sort_keys=True, default=str)).encode()).hexdigest()[:12]
    d = os.path.join(ctx.replay_dir, h)
    os.makedirs(d, exist_ok=True)
    for fn, data in files.items():
        with open(os.path.join(d, fn), "wb") as f:
            f.write(data if isinstance(data, bytes) else data.encode())
    with open(os.path.join(d, "replay.json"), "w") as f:
        json.dump(dict(info, property=ctx.pid, name=name), f, indent=1, default=str)
    return d


def finish(ctx, level="proof"):
    """Decide the verdict, print VIOLATION / KNOWN-FINDING lines, write evidence, return exit code."""
    lost = getattr(ctx, "translator_lost", [])
    if lost:
        corr = [(n, ok) for n, ok, _ in ctx.obligations if n.startswith("correspondence") or n.startswith("cli[")]
        tied = bool(corr) and all(ok for _, ok in corr) and not ctx.violations
        name = "translator: every pattern of tools/gen_tables.py that feeds this property's model matches the current sources"
        if tied:
            ctx.obligations.append((name + " - or, for a table it no longer finds, the model with the pinned value still agrees with the implementation in every correspondence run of this check",
                                    True, "not regenerated (pinned values kept): " + ", ".join(lost)))
            ctx.notes.append("translator patterns that no longer match: %s; the model uses the pinned values for them and the correspondence runs of this check pass" % ", ".join(lost))
        else:
            ctx.oblige(name, False, "no longer matched: " + ", ".join(lost) + ("; and no correspondence run of this check ties the model to the implementation" if not corr else ""))
    lines = []
    for k in ctx.known:
        lines.append("KNOWN-FINDING: property=%s %s" % (ctx.pid, k))
    nviol = 0
    for v in ctx.violations:
        lines.append("VIOLATION property=%s replay=%s" % (ctx.pid, v["replay"]))
        nviol += 1
    if ctx.broken and not ctx.violations:
        d = write_replay(ctx, "broken-obligations", {}, {"broken": ctx.broken,
                                                          "details": [(n, det) for n, ok, det in ctx.obligations if not ok],
                                                          "note": "no failing input was found on the implementation; the listed theorems / correspondences no longer check"})
        lines.append("VIOLATION property=%s replay=%s no-failing-input-found" % (ctx.pid, os.path.join(d, "replay.json")))
        nviol += 1
    n_ob = len(ctx.obligations)
    n_ok = sum(1 for _, ok, _ in ctx.obligations if ok)
    cov = dict(ctx.coverage)
    cov.setdefault("obligations", n_ob)
    cov.setdefault("discharged", n_ok)
    cov.setdefault("checker_cmd", getattr(ctx, "checker_cmd", "coqc"))
    cov.setdefault("trusted_base", TRUSTED_BASE)
    cov["obligation_list"] = [{"name": n, "ok": ok, "detail": d[:300]} for n, ok, d in ctx.obligations]
    cov["statement_sha256_16"] = getattr(ctx, "statement_hash", None)
    cov["known_findings_reproduced"] = ctx.known
    cov["notes"] = ctx.notes
    ev = {
        "property_id": ctx.pid, "tier": ctx.tier, "seed": ctx.seed, "level": level,
        "coverage": cov, "assumptions": ctx.assumptions, "wall_s": round(time.time() - ctx.t0, 2), "violations": nviol,
    }
    os.makedirs(os.path.join(VERIF, "evidence"), exist_ok=True)
    with open(os.path.join(VERIF, "evidence", ctx.pid + ".json"), "w") as f:
        json.dump(ev, f, indent=1, default=str)
    for l in lines:
        print(l)
    print("%s: %d/%d obligations discharged, %d violation(s), %d known finding(s) reproduced, %.1fs" %
          (ctx.pid, n_ok, n_ob, nviol, len(ctx.known), time.time() - ctx.t0))
    ctx.cleanup()
    return 1 if nviol else 0
