"""Byte-level correspondence of a handler model with the implementation + property oracle."""
import collections
import hashlib
import os

from framework import (Case, build_harness, build_model, load_known, run_impl, run_model, write_replay)


def prepare(ctx, release=False):
    ok, out = build_model()
    ctx.oblige("build: models extract and the OCaml runner builds", ok, out[-400:])
    ok2, out2 = build_harness(release=False)
    ctx.oblige("build: harness builds against /repo's current tree (debug profile)", ok2, out2[-600:])
    ok3 = True
    if release:
        ok3, out3 = build_harness(release=True)
        ctx.oblige("build: harness builds against /repo's current tree (release profile)", ok3, out3[-600:])
    return ok and ok2 and ok3


def differential(ctx, cases, label, compare_bytes=True, release=False, model_filter=None):
    """Run cases through model and implementation; returns (impl_results, model_results, mismatches)."""
    impl = run_impl(ctx, cases, release=release)
    mcases = [c for c in cases if model_filter is None or model_filter(c)]
    model = run_model(ctx, mcases, release=release)
    mism = []
    timeouts = []
    for c in mcases:
        i = impl.get(c.cid)
        m = model.get(c.cid)
        if i is None or m is None:
            mism.append((c, i, m, "missing result"))
            continue
        if m[0] == "ModelTimeout":
            timeouts.append(c)          # the model's cost on this input exceeds the per-case limit: not compared
            continue
        icls = i[0]
        if icls == "Abort":
            icls = "Panic"
        if icls != m[0]:
            mism.append((c, i, m, "class"))
        elif compare_bytes and i[1] != m[1]:
            mism.append((c, i, m, "bytes"))
    ctx.oblige("correspondence[%s]: model = implementation on %d cases (%s profile)" % (label, len(mcases), "release" if release else "debug"),
               not mism,
               "; ".join("%s tags=%s impl=%s model=%s (%s)" % (c.cid, ",".join(c.tags), i and i[0], m and m[0], why) for c, i, m, why in mism[:5]))
    if timeouts:
        ctx.notes.append("model evaluation exceeded the per-case time limit on %d case(s) (not compared): %s" % (len(timeouts), ", ".join("%s[%s]" % (c.cid, ",".join(c.tags)) for c in timeouts[:5])))
    return impl, model, mism


def apply_oracle(ctx, cases, impl, oracle, known_kinds):
    """oracle(case, class, after_bytes) -> list of (kind, message).  Failures whose kind is a listed known
    finding are reported as KNOWN-FINDING (once per kind); the others become violations with a replay."""
    fails = []
    known_seen = collections.OrderedDict()
    for c in cases:
        r = impl.get(c.cid)
        if r is None:
            continue
        for kind, msg in oracle(c, r[0], r[1]):
            if kind in known_kinds:
                known_seen.setdefault(kind, (c, msg))
            else:
                fails.append((c, r, kind, msg))
    for kind, (c, msg) in known_seen.items():
        ctx.known.append("%s: %s [e.g. case %s: %s]" % (known_kinds[kind]["id"], known_kinds[kind]["what"], c.cid, msg))
    # report at most 3 distinct kinds
    seen = set()
    for c, r, kind, msg in fails:
        if kind in seen:
            continue
        seen.add(kind)
        if len(seen) > 3:
            break
        d = write_replay(ctx, kind, {"input." + c.handler: c.data, "observed_output." + c.handler: r[1]},
                         {"handler": c.handler, "epoch": c.epoch, "check": c.check, "nlink": c.nlink, "file_mtime": c.mtime,
                          "observed_class": r[0], "failure": msg, "kind": kind, "tags": c.tags,
                          "how_to_replay": "write input.<ext> to a scratch dir; SOURCE_DATE_EPOCH=<epoch> add-determinism --handler <handler> <file>; compare with the statement in 'failure'"})
        ctx.violations.append({"replay": d, "kind": kind, "msg": msg})
    return fails


def known_kinds_for(pid):
    kf = load_known()
    out = {}
    for f in kf.get("findings", []):
        if pid in f.get("properties", []):
            for k in f.get("kinds", []):
                out[k] = f
    return out


def distribution(cases, impl):
    d = collections.Counter()
    for c in cases:
        r = impl.get(c.cid)
        d[(c.handler, r[0] if r else "?")] += 1
    tags = collections.Counter(t for c in cases for t in c.tags)
    sizes = collections.Counter()
    for c in cases:
        n = len(c.data)
        sizes["0" if n == 0 else "<16" if n < 16 else "<256" if n < 256 else "<4096" if n < 4096 else ">=4096"] += 1
    return {"class_by_handler": {"%s/%s" % k: v for k, v in sorted(d.items())}, "tags": dict(tags.most_common(40)), "sizes": dict(sizes)}


def distinct_nontrivial(cases, impl, nontrivial=lambda c, r: r is not None and r[0] in ("Replaced", "Rewritten")):
    s = set()
    for c in cases:
        r = impl.get(c.cid)
        if nontrivial(c, r):
            s.add(hashlib.sha256(c.data + repr((c.handler, c.epoch, c.check, c.nlink, c.mtime)).encode()).digest())
    return len(s)


def sample_cases(cases, impl, n=4):
    out = []
    for c in cases[:: max(1, len(cases) // n)][:n]:
        r = impl.get(c.cid)
        out.append({"id": c.cid, "handler": c.handler, "epoch": c.epoch, "tags": list(c.tags), "input_hex": c.data[:48].hex() + ("..." if len(c.data) > 48 else ""),
                    "len": len(c.data), "class": r[0] if r else None})
    return out


def domain_pass(ctx, cases, impl, handlers, theorem, accepted=("Replaced", "Rewritten", "Noop")):
    """How much of what is sampled does `theorem` speak about?  An extracted predicate decides, per input, whether
    the hypotheses of the theorem hold for it (dom) and whether its conclusion holds on the model's output (rr).
    dom without rr would contradict the soundness lemma of the predicate; inputs outside the domain are judged
    by the oracles on the implementation's output only."""
    from framework import Case, run_model
    dcases = [Case(c.cid, c.handler + "-domain", c.epoch, c.data, mtime=c.mtime, tags=c.tags) for c in cases if c.handler in handlers]
    res = run_model(ctx, dcases, release=(ctx.tier == "thorough"))
    counts = {}
    bad, outside_fail = [], []
    acc_in, acc, judged = 0, 0, 0
    for c in dcases:
        r = res.get(c.cid)
        cls = r[0] if r else "missing"
        counts[cls] = counts.get(cls, 0) + 1
        i = impl.get(c.cid)
        if cls.startswith("Dom") and cls != "DomNone":
            judged += 1
            if i is not None and i[0] in accepted:
                acc += 1
                if cls == "Dom11":
                    acc_in += 1
        if cls in ("Dom10", "missing"):
            bad.append(c)
        if cls == "Dom00":
            outside_fail.append(c)
    dist = ", ".join("%s=%d" % kv for kv in sorted(counts.items()))
    ctx.oblige("domain: no sampled input meets the hypotheses of %s while the conclusion fails on the model's output (extracted predicate on %d inputs: %s)"
               % (theorem, len(dcases), dist), not bad, "; ".join("%s tags=%s" % (c.cid, ",".join(c.tags)) for c in bad[:5]))
    ctx.oblige("domain: %s covers the inputs the handler rewrites (%d of %d such inputs are inside its domain)" % (theorem, acc_in, acc),
               acc == 0 or acc_in * 10 >= acc * 9, "only %d of %d inputs are inside the domain of the theorem" % (acc_in, acc))
    if outside_fail:
        ctx.notes.append("%d input(s) outside the domain of %s on which the model's output does not read back (left to the oracle on the implementation's output): %s"
                         % (len(outside_fail), theorem, ", ".join("%s[%s]" % (c.cid, ",".join(c.tags)) for c in outside_fail[:5])))
    ctx.coverage["theorem_domain"] = counts
    return counts


DEFAULT_HANDLERS = ["ar", "jar", "javadoc", "gzip", "pyc", "zip"]
FUTURE_EPOCH = 4000000000          # later than the clock of any run of these checks: accepted with a warning, and an epoch like any other


def cli_pass(ctx, cases, impl, handler, ext, max_good=8, max_bad=4, max_noop=3):
    """The same inputs through the command line: serial, -j1 and -j3, files the handler refuses listed first, a
    leftover temporary file (longer than the output) next to some inputs.  Every file must end up with the bytes
    the in-process run gave it, and no temporary file may remain.  This is where a worker that stops at the first
    refused file, an output written over stale contents, or a worker configured differently from a serial run shows."""
    import collections as _c
    import fsharness as fh
    from framework import build_cli
    okc, outc = build_cli(release=False)
    ctx.oblige("build: the command-line tool builds from /repo's current tree", okc, outc[-400:])
    if not okc:
        return
    sel = [c for c in cases if c.handler == handler and not c.check and c.nlink == 1 and c.data and impl.get(c.cid) is not None]
    good_all = [c for c in sel if impl[c.cid][0] == "Replaced"]
    if not good_all:
        ctx.notes.append("cli pass[%s]: no modifying case to run" % handler)
        return
    # one epoch (and, for archives, one file mtime) per command line: take the most common among modifying cases
    key = lambda c: (c.epoch, c.mtime)
    cnt = _c.Counter(key(c) for c in good_all)
    best = cnt.most_common(1)[0][0]
    # also the smallest and the largest epoch with a modifying case (0 and dates in the future are epochs like any other)
    with_epoch = [k for k in cnt if k[0] is not None]
    groups = [best]
    if with_epoch:
        for k in (min(with_epoch, key=lambda k: k[0]), max(with_epoch, key=lambda k: k[0])):
            if k not in groups:
                groups.append(k)
        # and an epoch later than today's date, if the check has written cases for it (the tool warns and uses it)
        for k in sorted(with_epoch, key=lambda k: (k[0], k[1] or 0)):
            if k[0] == FUTURE_EPOCH and k not in groups:
                groups.append(k)
                break
    problems = []
    nfiles = 0
    chosen_all = {}
    for gkey in groups:
      grp = [c for c in sel if key(c) == gkey]
      good = [c for c in grp if impl[c.cid][0] == "Replaced"][:max_good if gkey == best else 3]
      bad = [c for c in grp if impl[c.cid][0] in ("BadFormat", "Error")][:max_bad if gkey == best else 1]
      noop = [c for c in grp if impl[c.cid][0] == "Noop"][:max_noop if gkey == best else 1]
      epoch, fmtime = gkey
      nfiles += 1 + len(bad) + len(good) + len(noop)
      chosen_all[gkey] = bad + good + noop
      configs = [("serial", []), ("-j1", ["-j1"]), ("-j3", ["-j3"]), ("LIMIT", [])] if gkey == best else [("serial", []), ("-j2", ["-j2"])]
      if gkey == best:
          # the same selection spelled as "every default handler but this one switched off"; the handler together with one that comes
          # before it in the table, extensions ignored (the other one refuses every file, this one still has to act); another time zone
          if handler in DEFAULT_HANDLERS:
              configs.append(("NEGATIVE -j2", ["-j2"]))
          if handler != "ar":
              configs.append(("IGNORE-EXTENSION", ["--ignore-extension"]))
          configs.append(("TZ=Asia/Tokyo -j1", ["-j1"]))
      for label, opts in configs:
        hsel = ["--handler", handler]
        env_extra = None
        if label.startswith("NEGATIVE"):
            hsel = ["--handler=" + ",".join("-" + h for h in DEFAULT_HANDLERS if h != handler)]
        elif label.startswith("IGNORE-EXTENSION"):
            hsel = ["--handler", "ar," + handler]
        elif label.startswith("TZ="):
            env_extra = {"TZ": "Asia/Tokyo"}
        label = "%s SOURCE_DATE_EPOCH=%s" % (label, epoch)
        t = fh.Tree()
        try:
            order, expect, inputs = [], {}, {}
            garbage = b"\x00\xffnot a file of this format\n" * 3          # refused (or ignored) by every handler, listed first
            t.add_file("00-garbage." + ext, garbage)
            order.append("00-garbage." + ext)
            expect["00-garbage." + ext] = garbage
            inputs["00-garbage." + ext] = garbage
            for i, c in enumerate(bad + good + noop, 1):
                # every third file below a directory given as argument; every sixth below a directory whose name is not UTF-8 (Latin-1 e-acute)
                rel = ("sub/d-\udce9/" if i % 6 == 5 else "sub/" if i % 3 == 2 else "") + "%02d-%s.%s" % (i, c.cid.replace("/", "_")[:40], ext)
                t.add_file(rel, c.data, mtime_ns=(fmtime * 10**9 if fmtime is not None else 1700000000 * 10**9))
                order.append(rel)
                expect[rel] = impl[c.cid][1] if impl[c.cid][0] == "Replaced" else c.data
                inputs[rel] = c.data
            # a second name, which no handler claims, for the last modified input: listed before it, so the inode is seen first under
            # the other name (not in the run with a size limit: a file with two names is rewritten in place)
            changed = [r for r in order if expect[r] != inputs[r]]
            if changed and not label.startswith("LIMIT") and not label.startswith("IGNORE-EXTENSION"):    # (with extensions ignored no name is unclaimed)
                alias = "00-other-name-of-%s.bin" % os.path.basename(changed[-1])[:2]
                t.link(changed[-1], alias)
                order.insert(1, alias)
                expect[alias] = expect[changed[-1]]
                inputs[alias] = inputs[changed[-1]]
            stale = []
            for rel in [r for r in order if expect[r] != open(t.path(r), "rb").read() and not r.startswith("00-other-name")][:2]:
                d, b = os.path.split(rel)
                srel = os.path.join(d, ".#." + b + ".tmp")
                t.add_file(srel, b"STALE-TEMPORARY-DATA " * ((len(expect[rel]) + 4096) // 21 + 1))
                stale.append(srel)
            args = opts + hsel + [t.path(r) for r in order if not r.startswith("sub/")] + [t.path("sub")] * (1 if any(r.startswith("sub/") for r in order) else 0)
            limit = None
            if label.startswith("LIMIT"):
                # writes cut short: no file may grow beyond half the size of the largest output; what cannot be written completely stays as it was
                limit = max(1, max([len(v) for r, v in expect.items() if v != inputs[r]] or [2]) // 2)      # of the outputs that are written
                label = label.replace("LIMIT", "serial, files limited to %d bytes," % limit)
            rc, out = fh.run_cli(args, epoch=epoch, timeout=180, fsize_limit=limit, env_extra=env_extra)
            if rc == 124:
                problems.append((label, "the run did not come back", order, None, gkey))
                continue
            for rel in order:
                try:
                    got = open(t.path(rel), "rb").read()
                except OSError as e:
                    got = None
                if limit is not None and got is not None and got == inputs[rel] and len(expect[rel]) > limit:
                    continue          # refused for lack of room: left as it was
                if got != expect[rel]:
                    problems.append((label, "%s: %s bytes on disk, the in-process run gave %d (input %d)" % (rel, "no" if got is None else len(got), len(expect[rel]), len(open(t.path(rel), "rb").read()) if got is not None else 0), order, out[-600:], gkey))
                    break
            left = [os.path.join(dp, f) for dp, _, fs in os.walk(t.root) for f in fs if f.startswith(".#.") and f.endswith(".tmp")]
            if left:
                problems.append((label, "temporary file left behind: %s" % ", ".join(os.path.relpath(x, t.root) for x in left[:3]), order, out[-600:], gkey))
        finally:
            t.remove()
    ok = not problems
    name = "cli[%s]: serial and -jN runs over %d files in %d epoch group(s) %s (a refused file first, stale temporary files beside two inputs) leave every file with the bytes of the in-process run" % (handler, nfiles, len(groups), [g[0] for g in groups])
    if ok:
        ctx.oblige(name, True, "")
    else:
        label, why, order, out, gkey = problems[0]
        why = why.encode("utf-8", "backslashreplace").decode()          # a name that is not UTF-8 is printed with escapes
        chosen = chosen_all[gkey]
        epoch, fmtime = gkey
        files = {}
        for i, c in enumerate(chosen):
            files["%02d-input.%s" % (i, ext)] = c.data
            files["%02d-expected.%s" % (i, ext)] = impl[c.cid][1] if impl[c.cid][0] == "Replaced" else c.data
        d = write_replay(ctx, "cli-pass-" + handler, files,
                         {"kind": "cli-pass", "handler": handler, "config": label, "epoch": epoch, "file_mtime": fmtime, "failure": why, "files_in_order": order,
                          "output_tail": out,
                          "how_to_replay": "put NN-input.<ext> into a scratch directory under the names in files_in_order (a .#.<name>.tmp file of junk, longer than the "
                                           "expected output, beside the first two modified ones); SOURCE_DATE_EPOCH=<epoch> add-determinism <config> --handler <handler> "
                                           "<files not under sub/ in that order> <dir>/sub; compare every file with NN-expected.<ext>"})
        ctx.violations.append({"replay": d, "kind": "cli-pass", "msg": why})
        ctx.oblige(name, False, "%s: %s" % (label, why))
