"""C11 — -jN gives exactly the serial result for every tree, worker count and schedule."""
import itertools
import os
import random
import re
import subprocess

import fsharness as fh
import fscommon as fc
import handler_diff as hd
import samples
from framework import coq_property, build_model, build_cli, write_replay, model_bin, sh, ENV


MT = 1_650_000_000_000_000_000


def populate(t, rng, nbulk):
    """The tree: dirty / clean / malformed files of every handler, hard links inside and across directories, many entries."""
    add0 = t.add_file
    t.add_file = lambda rel, data, **kw: add0(rel, data, **dict({"mtime_ns": MT + len(rel)}, **kw))
    for n, (data, hs) in samples.per_handler().items():
        t.add_file("t/one/" + n, data, mtime_ns=1_650_000_000_000_000_000)
    t.add_file("t/one/clean.gz", fc.gz(5))
    t.add_file("t/one64/lib64.gz", fc.gz(1700000064))
    t.add_file("t/one64/lib64.a", fc.ar([("w.o/", 1700000064, 6, 4, 100644, b"sixty-four")]))
    t.add_file("t/one/bad.gz", b"not gzip")
    t.add_file("t/one/short.gz", b"\x1f\x8b")
    t.add_file("t/one/trunc.a", fc.ar([("x.o/", 1700000000, 7, 8, 100644, b"abcdef")])[:-3])
    t.add_file("t/one/broken.zip", b"PK\x03\x04 this is not a zip")
    t.add_file("t/one/broken.pyc", samples.dirty_pyc()[:40])
    t.add_file("t/one/old33.pyc", samples.old_pyc(3230))
    t.add_file("t/one/old27.pyc", samples.old_pyc(62211))
    t.add_file("t/one/hl1.gz", fc.gz(1700000002))
    t.link("t/one/hl1.gz", "t/two/hl2.gz")
    t.link("t/one/hl1.gz", "t/two/deeper/hl3.gz")
    t.add_file("t/two/hlclean.a", fc.ar([("y.o/", 5, 0, 0, 100644, b"ab")]))
    t.link("t/two/hlclean.a", "t/one/hlclean2.a")
    t.add_file("t/two/mix.a", fc.ar([("z.o/", 1700000000, 1, 1, 100644, b"abcd")]))
    t.link("t/two/mix.a", "t/two/mix.gz")                                  # one inode, two extensions
    t.add_file("t/two/dir-\udcff\udcfe/inner.gz", fc.gz(1700000009))             # a UTF-8 name below a directory whose name is not UTF-8
    t.add_file("t/two/name-\udcfe\udcff.gz", fc.gz(1700000010))                    # a file whose own name is not UTF-8 (the walk reports an error)
    # a job whose path is longer than a kilobyte (the job messages carry the whole path)
    t.add_file("t/two/long/" + "/".join("d%d-" % i + "x" * 180 for i in range(6)) + "/deep.gz", fc.gz(1700000011))
    # files of one directory that share their stem and differ only in the extension, each taking a worker a noticeable time
    # (thousands of members): whatever is derived from a file's name for the duration of a job must be derived from all of it
    big = big_zip()
    t.add_file("t/two/same/app.jar", big)
    t.add_file("t/two/same/app.zip", big)
    t.add_file("t/two/same/app.a", fc.ar([("m%d.o/" % i, 1700000000 + i, 1, 1, 100644, b"x" * 64) for i in range(3000)]))
    t.symlink("one/g.gz", "t/link-to-file.gz")
    t.symlink("one", "t/link-to-dir")
    for i in range(nbulk):
        k = i % 4
        name = "t/bulk/d%02d/f%04d" % (i % 17, i)
        if k == 0:
            t.add_file(name + ".gz", fc.gz(1700000000 + i, b"payload %d" % i))
        elif k == 1:
            t.add_file(name + ".a", fc.ar([("m%d.o/" % i, 1700000000 + i, i % 3, i % 5, 100644, b"x" * (i % 7))]))
        elif k == 2:
            t.add_file(name + ".gz", fc.gz(7, b"clean %d" % i))
        else:
            t.add_file(name + ".txt", b"not handled %d" % i)
    os.utime(t.path("t"), ns=(1_650_000_000_000_000_000, 1_650_000_000_000_000_000))


_BIG = {}


def big_zip():
    if "z" not in _BIG:
        import io
        import zipfile
        bio = io.BytesIO()
        with zipfile.ZipFile(bio, "w", zipfile.ZIP_STORED) as z:
            for i in range(8000):
                zi = zipfile.ZipInfo("pkg/m%05d.txt" % i, date_time=(2030, 1, 1 + i % 28, 12, 0, 2 * (i % 30)))
                zi.external_attr = 0o100644 << 16
                z.writestr(zi, b"member %d\n" % i)
        _BIG["z"] = bio.getvalue()
    return _BIG["z"]


def canon(snap):
    """The state a user can observe, without inode numbers: per path (kind, bytes, mode, owner, mtime) + the hard-link partition."""
    per = {}
    groups = {}
    for rel, e in snap.items():
        per[rel] = (e["kind"], e.get("data"), e.get("target"), e["mode"], e["uid"], e["gid"], e["mtime_ns"] if e["kind"] == "R" else None)
        if e["kind"] == "R":
            groups.setdefault(e["ino"], []).append(rel)
    return per, sorted(tuple(sorted(v)) for v in groups.values())


def diff_canon(a, b):
    d = []
    for rel in sorted(set(a[0]) | set(b[0])):
        if a[0].get(rel) != b[0].get(rel):
            x, y = a[0].get(rel), b[0].get(rel)
            what = "appeared/disappeared" if x is None or y is None else ("content" if x[1] != y[1] else "metadata %r vs %r" % (x[3:], y[3:]))
            d.append("%s: %s" % (rel, what))
    if a[1] != b[1]:
        d.append("hard-link partition differs")
    return d


def one_run(rng_seed, nbulk, args, rel_args=("t",), timeout=300, strace_out=None, epoch=samples.EPOCH, build_root=False):
    t = fh.Tree()
    try:
        populate(t, random.Random(rng_seed), nbulk)
        argv = list(args) + [t.path(r) for r in rel_args]
        if strace_out:
            env = dict(ENV, SOURCE_DATE_EPOCH=str(samples.EPOCH))
            cmd = ["strace", "-f", "-y", "-qq", "-s", "8192", "-o", strace_out, "-e", "trace=read,write,recvfrom,execve", fh.cli_bin(False)] + argv
            p = subprocess.run(cmd, env=env, timeout=timeout, stdout=subprocess.PIPE, stderr=subprocess.STDOUT)
            rc, out = p.returncode, p.stdout.decode("utf-8", "replace")
        else:
            rc, out = fh.run_cli(argv, epoch=epoch, timeout=timeout, env_extra=({"RPM_BUILD_ROOT": t.root} if build_root else None))
        return rc, fh.parse_summary(out), canon(fh.snapshot(t.root)), out
    finally:
        t.remove()


LINE = re.compile(r"^(\d+)\s+(.*)$")


def parse_protocol(path):
    """From a strace -f log: the controller's job datagrams in order, each worker's receptions, the results."""
    workers, sends, quits, recvs, results_sent, results_read = [], [], 0, [], [], 0
    pending = {}
    cpending = None
    controller = None
    job_sock = None
    for raw in open(path, errors="replace"):
        m = LINE.match(raw.rstrip("\n"))
        if not m:
            continue
        pid, rest = int(m.group(1)), m.group(2)
        if controller is None:
            controller = pid
        if rest.startswith("execve(") and '"--job-socket"' in rest:
            if pid not in workers:
                workers.append(pid)
            continue
        if pid == controller and rest.startswith("write(") and "<socket:" in rest and "<unfinished" in rest:
            mm = re.match(r'write\((\d+<socket:\[\d+\]>), "(.*)", (\d+) <unfinished', rest)
            if mm:
                cpending = mm.groups()
            continue
        if pid == controller and rest.startswith("<... write resumed>") and cpending:
            mm = re.match(r'<\.\.\. write resumed>\)\s+= (-?\d+)', rest)
            rest = 'write(%s, "%s", %s) = %s' % (cpending + (mm.group(1) if mm else "-1",))
            cpending = None
        if pid == controller and rest.startswith("write(") and "<socket:" in rest:
            mm = re.match(r'write\((\d+<socket:\[\d+\]>), "(.*)", (\d+)\)\s+= (-?\d+)', rest)
            if mm:
                if job_sock is None:
                    job_sock = mm.group(1)
                if mm.group(1) == job_sock and int(mm.group(4)) >= 0:
                    if int(mm.group(3)) == 0:
                        quits += 1
                    else:
                        sends.append(mm.group(2))
            continue
        if pid in workers:
            if rest.startswith("recvfrom(") and "unfinished" in rest:
                pending[pid] = True
                continue
            mm = re.match(r'recvfrom\(\d+<socket:\[\d+\]>, "(.*)", \d+, 0, NULL, NULL\)\s+= (\d+)', rest) or \
                (re.match(r'<\.\.\. recvfrom resumed>\s*"(.*)", \d+, 0, NULL, NULL\)\s+= (\d+)', rest) if pending.get(pid) else None)
            if mm:
                pending[pid] = False
                recvs.append((pid, mm.group(1), int(mm.group(2))))
                continue
            if rest.startswith("write(") and "<socket:" in rest:
                results_sent.append(pid)
            continue
        if pid == controller and rest.startswith("read(") and "<socket:" in rest:
            mm = re.match(r'read\(\d+<socket:\[\d+\]>, "(.*)", \d+\)\s+= (\d+)', rest)
            if mm and int(mm.group(2)) > 0:
                results_read += 1
    return {"workers": workers, "sends": sends, "quits": quits, "recvs": recvs, "results_sent": results_sent, "results_read": results_read}


def schedule_of(proto):
    """The observed schedule as events of the model: jobs are numbered in sending order; the queue is FIFO, so receptions are ordered by job number;
    a worker finishes its job before it receives again."""
    idx = {}
    for k, payload in enumerate(proto["sends"]):
        idx.setdefault(payload, []).append(k)
    widx = {pid: i for i, pid in enumerate(proto["workers"])}
    jobs, quitters, problems = [], [], []
    for pid, payload, n in proto["recvs"]:
        if n == 0:
            quitters.append(widx[pid])
        elif payload in idx and idx[payload]:
            jobs.append((idx[payload].pop(0), widx[pid]))
        else:
            problems.append("worker %d received a datagram the controller never sent" % pid)
    left = sum(len(v) for v in idx.values())
    if left:
        problems.append("%d job datagram(s) were sent but never received" % left)
    jobs.sort()
    events, busy = [], set()
    for k, w in jobs:
        if w in busy:
            events.append("F%d" % w)
        events.append("R%d" % w)
        busy.add(w)
    for w in quitters:
        if w in busy:
            events.append("F%d" % w)
            busy.discard(w)
        events.append("R%d" % w)
    return events, problems


def run(ctx):
    rng = random.Random(ctx.seed)
    coq_property(ctx)
    ok, out = build_model()
    ctx.oblige("build: models extract and the OCaml runner builds", ok, out[-300:])
    ok2, out2 = build_cli()
    ctx.oblige("build: CLI builds from /repo's current tree", ok2, out2[-500:])
    if not (ok and ok2):
        return
    known = hd.known_kinds_for("C11")
    nbulk = 400 if ctx.tier == "quick" else 5000
    seed = ctx.seed
    fails, table, mism = [], [], []
    runs = 0

    def fail(kind, msg, case):
        fails.append((kind, msg, case))

    # ---- serial reference
    src, ssum, sstate, sout = one_run(seed, nbulk, [])
    runs += 1
    if ssum is None:
        ctx.oblige("serial reference run produced a summary", False, sout[-300:])
        return
    csrc, csum, cstate, _ = one_run(seed, nbulk, ["--check"])
    runs += 1
    # ---- worker counts from 1 to well above the CPU and job counts; every schedule the kernel happens to produce
    counts = [1, 2, 3, 7, 16, 64] if ctx.tier == "quick" else [1, 2, 3, 4, 5, 7, 8, 13, 16, 32, 64, 200, 256, 300]
    reps = 1 if ctx.tier == "quick" else 3
    for n in counts:
        for rep in range(reps):
            for extra, ref, rsum, rrc in (([], sstate, ssum, src), (["--check"], cstate, csum, csrc)):
                if extra and n not in (2, 16):
                    continue
                case = "-j%d %s(run %d)" % (n, " ".join(extra) + " " if extra else "", rep)
                rc, summ, state, out = one_run(seed, nbulk, ["-j%d" % n] + extra)
                runs += 1
                d = diff_canon(ref, state)
                if d:
                    fail("parallel-state-differs", "%s: the tree differs from the serial result: %s" % (case, "; ".join(d[:4])), case)
                if rc != rrc:
                    fail("parallel-exit-differs", "%s: exit status %d, serial %d" % (case, rc, rrc), case)
                if summ is None or any(summ[k] != rsum[k] for k in ("directories", "files", "processed", "modified", "replaced", "rewritten", "unsupported", "errors")):
                    fail("parallel-totals-differ", "%s: summary %s, serial %s" % (case, summ, rsum), case)
                table.append({"case": case, "exit": rc, "summary": summ})
    # ---- files matched by more than one selected handler (pyc + the opt-in pyc-zero-mtime; jar + zip regardless of extension)
    for sel in (["--handler", "ar,jar,javadoc,gzip,pyc,pyc-zero-mtime,zip"], ["--ignore-extension", "--handler", "jar,zip"]):
        rrc, rsum, rstate, _ = one_run(seed, 60, sel)
        runs += 1
        for n in (2, 7):
            case = "-j%d %s" % (n, " ".join(sel))
            rc, summ, state, out = one_run(seed, 60, ["-j%d" % n] + sel)
            runs += 1
            d = diff_canon(rstate, state)
            if d:
                fail("parallel-state-differs", "%s: the tree differs from the serial result: %s" % (case, "; ".join(d[:4])), case)
            if rc != rrc or summ is None or rsum is None or any(summ[k] != rsum[k] for k in ("processed", "modified", "replaced", "rewritten", "unsupported", "errors")):
                fail("parallel-totals-differ", "%s: exit %d summary %s; serial: exit %d summary %s" % (case, rc, summ, rrc, rsum), case)
            table.append({"case": case, "exit": rc, "summary": summ})
    # ---- mode options in combination: what the controller was told, every worker is told
    for opts in [[o for o, on in zip(("--brp", "--check", "-v"), bits) if on] for bits in itertools.product([False, True], repeat=3) if any(bits)]:
        rrc, rsum, rstate, _ = one_run(seed, 60, opts, build_root=True)
        runs += 1
        for n in (1, 3):
            case = "-j%d %s" % (n, " ".join(opts))
            rc, summ, state, out = one_run(seed, 60, ["-j%d" % n] + opts, build_root=True)
            runs += 1
            d = diff_canon(rstate, state)
            if d:
                fail("parallel-state-differs", "%s: the tree differs from the serial result: %s" % (case, "; ".join(d[:4])), case)
            if rc != rrc or summ is None or rsum is None or any(summ[k] != rsum[k] for k in ("processed", "modified", "replaced", "rewritten", "unsupported", "errors")):
                fail("parallel-totals-differ", "%s: exit %d summary %s; serial: exit %d summary %s" % (case, rc, summ, rrc, rsum), case)
            table.append({"case": case, "exit": rc, "summary": summ})
    # ---- an epoch the tool discards (negative) and no epoch at all: discarded alike by a serial run, the controller and every worker
    for ep in (-86400, None):
        rrc, rsum, rstate, _ = one_run(seed, 60, [], epoch=ep)
        runs += 1
        for n in (2, 5):
            case = "-j%d SOURCE_DATE_EPOCH=%s" % (n, ep)
            rc, summ, state, out = one_run(seed, 60, ["-j%d" % n], epoch=ep)
            runs += 1
            d = diff_canon(rstate, state)
            if d:
                fail("parallel-state-differs", "%s: the tree differs from the serial result: %s" % (case, "; ".join(d[:4])), case)
            if rc != rrc or summ is None or rsum is None or any(summ[k] != rsum[k] for k in ("processed", "modified", "replaced", "rewritten", "unsupported", "errors")):
                fail("parallel-totals-differ", "%s: exit %d summary %s; serial: exit %d summary %s" % (case, rc, summ, rrc, rsum), case)
            table.append({"case": case, "exit": rc, "summary": summ})
    # ---- order, repetition and overlap of the path arguments: same final state; same totals when the arguments do not overlap
    # (t/one64 is a sibling of t/one whose name merely begins with the same characters)
    arg_sets = [(("t/one", "t/one64", "t/two", "t/bulk"), True), (("t/one", "t/two", "t/does-not-exist", "t/bulk", "t/one64"), True), (("t/bulk", "t/two", "t/one", "t/one64"), True),
                (("t/two", "t/one64", "t/one", "t/bulk", "t/link-to-file.gz"), True),
                (("t", "t"), False), (("t", "t/one"), False), (("t/one", "t", "t/two/deeper"), False), (("t/one/g.gz", "t/one", "t"), False)]
    base_parts = None
    for rels, disjoint in arg_sets:
        same_args_serial = None
        for mode in ([], ["-j3"], ["-j16"]):
            case = "%s args=%s" % (" ".join(mode) or "serial", ",".join(rels))
            rc, summ, state, out = one_run(seed, nbulk, mode, rel_args=rels)
            runs += 1
            ref = sstate
            d = diff_canon(ref, state)
            if d:
                fail("arguments-change-state", "%s: the final tree differs from that of a serial run on the whole tree: %s" % (case, "; ".join(d[:4])), case)
            if rc != src:
                fail("arguments-change-exit", "%s: exit status %d, serial run on the whole tree %d" % (case, rc, src), case)
            if disjoint and summ is not None:
                key = ("processed", "modified", "replaced", "rewritten", "unsupported", "errors")
                if not mode:
                    same_args_serial = summ
                    if not any("does-not-exist" in r for r in rels) and any(summ[k] != ssum[k] for k in key):
                        fail("disjoint-arguments-totals", "%s: summary %s, serial run on the whole tree %s" % (case, summ, ssum), case)
                elif same_args_serial is not None and any(summ[k] != same_args_serial[k] for k in key):
                    fail("disjoint-arguments-totals", "%s: summary %s, serial run with the same arguments %s" % (case, summ, same_args_serial), case)
            table.append({"case": case, "exit": rc, "summary": summ})
    # ---- one dense directory: the controller lists it while the workers create and rename their temporary files in it
    def dense_run(args):
        t = fh.Tree()
        try:
            for i in range(1500 if ctx.tier == "quick" else 8000):
                t.add_file("dense/lib%05d.a" % i, fc.ar([("m.o/", 1700000000 + i, 1000, 1000, 100644, b"x")]), mtime_ns=MT)
            rc, out = fh.run_cli(args + [t.path("dense")], epoch=samples.EPOCH, timeout=600)
            return rc, fh.parse_summary(out), out
        finally:
            t.remove()
    drc, dsum, _ = dense_run([])
    runs += 1
    for n in ([8, 8, 3] if ctx.tier == "quick" else [8, 8, 8, 3, 16, 16, 40]):
        rc, summ, out = dense_run(["-j%d" % n])
        runs += 1
        case = "-j%d on one directory with %s files" % (n, dsum and dsum["files"])
        if rc != drc or summ is None or any(summ[k] != dsum[k] for k in ("processed", "modified", "replaced", "rewritten", "unsupported", "errors")):
            fail("dense-directory", "%s: exit %d summary %s; serial: exit %d summary %s; %s" % (case, rc, summ, drc, dsum, " | ".join(l for l in out.split("\n") if "failed" in l)[:300]), case)
        table.append({"case": case, "exit": rc, "summary": summ})
    # ---- the protocol itself: observed schedules are runs of the model (Multi.v), every job once, one quit and one result per worker
    mlines, protos = [], []
    for i, n in enumerate([2, 5] if ctx.tier == "quick" else [1, 2, 3, 5, 9, 17]):
        tr = os.path.join(ctx.tmp, "proto-%d.txt" % n)
        rc, summ, state, out = one_run(seed, 120 if ctx.tier == "quick" else 600, ["-j%d" % n], strace_out=tr, timeout=600)
        runs += 1
        pr = parse_protocol(tr)
        ev, problems = schedule_of(pr)
        case = "-j%d under strace" % n
        if len(pr["workers"]) != n:
            problems.append("%d workers started for -j%d" % (len(pr["workers"]), n))
        if pr["quits"] != len(pr["workers"]):
            problems.append("%d quit datagrams for %d workers" % (pr["quits"], len(pr["workers"])))
        per_worker_quit = {w: sum(1 for p, _, k in pr["recvs"] if p == w and k == 0) for w in pr["workers"]}
        if any(v != 1 for v in per_worker_quit.values()):
            problems.append("quit datagrams per worker: %s" % sorted(per_worker_quit.values()))
        if sorted(pr["results_sent"]) != sorted(pr["workers"]) or pr["results_read"] != len(pr["workers"]):
            problems.append("results: %d sent, %d read, %d workers" % (len(pr["results_sent"]), pr["results_read"], len(pr["workers"])))
        own = out.count("Invalid file name")           # entries the controller itself counts as errors (the non-UTF-8 directory)
        if summ is not None and len(pr["sends"]) + own != summ["processed"]:
            problems.append("%d job datagrams + %d entries refused by the controller, but %d inodes processed" % (len(pr["sends"]), own, summ["processed"]))
        for pb in problems:
            fail("protocol", "%s: %s" % (case, pb), case)
        mlines.append("M p%d %d %d %s" % (i, len(pr["workers"]), len(pr["sends"]), " ".join(ev)))
        protos.append((i, case, len(pr["workers"]), len(pr["sends"]), summ))
    cf = os.path.join(ctx.tmp, "multi.txt")
    open(cf, "w").write("\n".join(mlines) + "\n")
    rcm, mout = sh([model_bin(), cf, "debug", "multi"], timeout=300)
    got = {l.split()[0]: l for l in mout.split("\n") if l.strip()}
    for i, case, nw, nj, summ in protos:
        l = got.get("p%d" % i, "")
        okl = (" OK " in l + " ") and "terminal=true" in l and ("results=%d " % nw) in l and ("processed=%d " % nj) in l
        if okl:
            fin = l.split("finished=")[1].strip()
            okl = sorted(int(x) for x in fin.split(",") if x) == list(range(nj))
        if not okl:
            mism.append("%s: the observed schedule is not a complete run of the model: %s" % (case, l[:200] or mout[-200:]))
    ctx.oblige("correspondence[protocol]: %d strace'd parallel runs: the observed schedule (receptions per worker in queue order) is a run of Multi.run that ends in a terminal state "
               "with every job finished once and one result per worker" % len(protos), not mism, "; ".join(mism[:3]))
    seen = set()
    for kind, msg, case in fails:
        if kind in known:
            if kind not in seen:
                ctx.known.append("%s: %s [%s]" % (known[kind]["id"], known[kind]["what"], msg))
            seen.add(kind)
            continue
        if kind in seen:
            continue
        seen.add(kind)
        d = write_replay(ctx, kind, {}, {"failure": msg, "kind": kind, "case": case, "epoch": samples.EPOCH, "seed": seed, "bulk_files": nbulk,
                                         "how_to_replay": "build the tree with lib/props/C11.py:populate(Tree(), random.Random(seed), bulk_files); run serially on one copy and as stated in 'case' on another; compare"})
        ctx.violations.append({"replay": d, "kind": kind, "msg": msg})
    ctx.coverage.update({
        "evaluations": runs, "distinct_nontrivial": len(table),
        "rule": "one tree (dirty/clean/malformed files of all handlers, hard links within and across directories, one inode under two extensions, symlinks, %d bulk files in 17 directories) "
                "processed serially and with -jN for N from 1 to beyond the job count, real and --check; argument orders, duplicates and overlaps; final state compared without inode "
                "numbers (bytes, mode, owner, ns mtime, link partition), exit status and totals (totals only for non-overlapping arguments); plus strace'd runs whose observed schedule is "
                "replayed through the extracted model; non-trivial = parallel or multi-argument runs compared with the serial reference" % nbulk,
        "samples": table[:: max(1, len(table) // 5)][:5], "traces_validated_against_impl": len(protos),
        "correspondence_mismatches": len(mism), "oracle_failures_not_known": len(fails),
    })
    ctx.assumptions += ["the schedules explored are those the kernel produces on this machine; the theorems quantify over all of them",
                        "job processing is atomic in the model; jobs on different inodes are assumed not to interfere (C13 frame theorems)"]
