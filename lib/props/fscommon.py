"""Scenarios and runners shared by the file-system level properties (C09, C10, C12, C14, C19)."""
import os
import struct
import zlib

import fsharness as fh
from framework import write_replay

NOW_NS = 1_600_000_000_123_456_789


def gz(mtime, payload=b"hello world", flg=0):
    co = zlib.compressobj(6, zlib.DEFLATED, -15)
    body = co.compress(payload) + co.flush()
    return bytes([31, 139, 8, flg]) + struct.pack("<I", mtime) + bytes([0, 3]) + body + struct.pack("<II", zlib.crc32(payload), len(payload))


def ar(members):
    out = b"!<arch>\n"
    for name, mt, uid, gid, mode, data in members:
        h = (name.ljust(16) + str(mt).ljust(12) + str(uid).ljust(6) + str(gid).ljust(6) + str(mode).ljust(8) + str(len(data)).ljust(10)).encode() + b"`\n"
        out += h + data + (b"\n" if len(data) % 2 else b"")
    return out


EAGER = {"ar": True, "gzip": False, "javadoc": True, "zip": True, "jar": True, "pyc": False, "pyc-zero-mtime": False}
EXT = {"ar": "a", "gzip": "gz", "javadoc": "html", "zip": "zip", "jar": "jar", "pyc": "pyc", "pyc-zero-mtime": "pyc"}


def contents(rng):
    """(handler, tag, bytes, epoch)"""
    big = rng.randbytes(70000)
    return [
        ("gzip", "dirty", gz(5000), 1000),
        ("gzip", "dirty-big", gz(2 ** 31, big), 1704106800),
        ("gzip", "clean", gz(500), 1000),
        ("gzip", "badmagic", b"\x1f\x8c" + gz(5000)[2:], 1000),
        ("gzip", "short", b"\x1f\x8b\x08", 1000),
        ("ar", "dirty", ar([("a.o/", 5000, 7, 8, 100644, b"abc"), ("b.o/", 10, 0, 0, 100644, b"defg")]), 1000),
        ("ar", "dirty-big", ar([("a.o/", 5000, 7, 8, 100644, big)]), 1000),
        ("ar", "clean", ar([("a.o/", 10, 0, 0, 100644, b"abc")]), 1000),
        ("ar", "truncated", ar([("a.o/", 5000, 7, 8, 100644, b"abcdef")])[:-3], 1000),
        ("ar", "badfield", ar([("a.o/", "x", 7, 8, 100644, b"abc")]), 1000),
        ("ar", "notar", b"hello, this is not an archive", 1000),
    ]


class Scenario:
    def __init__(self, handler, tag, data, epoch, mode=0o644, mtime_ns=NOW_NS, uid=0, gid=0, nlink=1, check=False, stale=False, name=None, dir_mode=None):
        self.dir_mode = dir_mode          # mode of the directory holding the file (None: as created); the runs are made by root, who may write anyway
        self.handler, self.tag, self.data, self.epoch = handler, tag, data, epoch
        self.mode, self.mtime_ns, self.uid, self.gid, self.nlink, self.check, self.stale = mode, mtime_ns, uid, gid, nlink, check, stale
        self.name = name or ("file." + EXT[handler])

    def label(self):
        return "%s/%s mode=%o nlink=%d check=%d stale=%d owner=%d:%d%s" % (self.handler, self.tag, self.mode, self.nlink, self.check, self.stale, self.uid, self.gid,
                                                                             "" if self.dir_mode is None else " directory mode=%o" % self.dir_mode)

    def build(self):
        t = fh.Tree()
        t.mkdir("d")
        t.add_file("d/" + self.name, self.data, mode=0o600)
        for i in range(1, self.nlink):
            t.link("d/" + self.name, "d/other%d.lnk" % i if i % 2 else "outside%d.lnk" % i)
        if self.stale:
            # longer than anything the handler will write: a leftover that is reused instead of replaced shows in the output
            t.add_file("d/.#." + self.name + ".tmp", b"stale leftover " * ((len(self.data) + 8192) // 15 + 1), mode=0o600)
        t.add_file("d/bystander.txt", b"do not touch", mode=0o640, mtime_ns=NOW_NS - 5)
        p = t.path("d/" + self.name)
        os.chown(p, self.uid, self.gid)
        os.chmod(p, self.mode)
        os.utime(p, ns=(self.mtime_ns, self.mtime_ns))
        if self.dir_mode is not None:
            os.chmod(t.path("d"), self.dir_mode)
        os.utime(t.path("d"), ns=(NOW_NS - 7, NOW_NS - 7))
        return t

    def args(self, t):
        a = ["--handler", self.handler]
        if self.check:
            a.append("--check")
        return a + [t.path("d/" + self.name)]


def model_case(cid, sc, t, snap, fault=None, prof="debug"):
    nodes, inos = fh.nodes_from_snapshot(t.root, snap)
    return {"id": cid, "nodes": nodes, "handler": sc.handler, "epoch": sc.epoch, "check": sc.check, "prof": prof,
            "target": t.path("d/" + sc.name).encode(), "fault": fault, "umask": 0o22, "uid": os.getuid(), "gid": os.getgid(),
            "can_chown": os.getuid() == 0, "now": 0}, inos


def class_of_summary(s):
    if s is None:
        return None
    if s["errors"]:
        return "Error"
    if s["unsupported"]:
        return "BadFormat"
    if s["replaced"]:
        return "Replaced"
    if s["rewritten"]:
        return "Rewritten"
    if s["processed"]:
        return "Noop"
    return "Ignored"


def compare_final(sc, t, before, after, mres, inos):
    """Compare the real final snapshot with the model's final observations. Returns list of differences."""
    diffs = []
    root = t.root
    seen = set()
    for pb, o in mres["obs"].items():
        rel = os.path.relpath(pb.decode(), root)
        seen.add(rel)
        r = after.get(rel)
        if o is None:
            if r is not None:
                diffs.append("%s: present but model says absent" % rel)
            continue
        if r is None:
            diffs.append("%s: absent but model says present" % rel)
            continue
        if r["kind"] != o["kind"]:
            diffs.append("%s: kind %s vs model %s" % (rel, r["kind"], o["kind"]))
            continue
        if r["kind"] != "R":
            continue
        is_tmp = os.path.basename(rel).startswith(".#.") and rel.endswith(".tmp")
        for k in ("mode", "uid", "gid", "nlink", "data"):
            if is_tmp and k in ("data", "mode"):
                continue          # content of a leftover temporary file is unspecified
            if r[k] != o[k]:
                diffs.append("%s: %s real %r vs model %r" % (rel, k, r[k] if k != "data" else len(r[k]), o[k] if k != "data" else len(o[k])))
        # mtime: a newly created file that never got futimens has "now" (model: 0)
        if o["mtime_ns"] != 0 and r["mtime_ns"] != o["mtime_ns"]:
            diffs.append("%s: mtime real %d vs model %d" % (rel, r["mtime_ns"], o["mtime_ns"]))
        # inode identity: same as before iff the model keeps the original inode number
        b = before.get(rel)
        if b is not None:
            model_same = (o["ino"] == inos.get(b["ino"]))
            real_same = (r["ino"] == b["ino"])
            if model_same != real_same:
                diffs.append("%s: inode %s in reality but %s in the model" % (rel, "kept" if real_same else "replaced", "kept" if model_same else "replaced"))
    for rel in after:
        if rel not in seen and after[rel]["kind"] != "D" and rel not in before:
            diffs.append("%s: unexpected new entry" % rel)
    return diffs


def traced_run(ctx, sc, cid):
    """One strace'd run of the CLI on a fresh tree + the model on the same initial state."""
    t = sc.build()
    try:
        before = fh.snapshot(t.root, with_dir_mtime=True)
        tr = os.path.join(ctx.tmp, "trace-%s.txt" % cid)
        rc, out = fh.run_cli(sc.args(t), epoch=sc.epoch, strace_out=tr)
        after = fh.snapshot(t.root, with_dir_mtime=True)
        ops, counts = fh.parse_strace(tr, t.root)
        mc, inos = model_case(cid, sc, t, before)
        return {"t": t, "before": before, "after": after, "rc": rc, "out": out, "ops": ops, "counts": counts, "mcase": mc, "inos": inos,
                "summary": fh.parse_summary(out)}
    except Exception:
        t.remove()
        raise


def replay_files(sc, extra=None):
    d = {"input." + EXT[sc.handler]: sc.data}
    if extra:
        d.update(extra)
    return d


def replay_info(sc, **kw):
    info = {"scenario": sc.label(), "handler": sc.handler, "epoch": sc.epoch, "mode": oct(sc.mode), "nlink": sc.nlink, "check": sc.check,
            "stale_tmp": sc.stale, "owner": "%d:%d" % (sc.uid, sc.gid), "mtime_ns": sc.mtime_ns,
            "how_to_replay": "create dir d/, write input as d/%s with the given mode/owner/mtime (and hard links / stale .#.NAME.tmp if stated); "
                             "SOURCE_DATE_EPOCH=<epoch> add-determinism --handler <handler> [--check] <abs path> (under strace -e inject=... if an injection is stated)" % sc.name}
    info.update(kw)
    return info
