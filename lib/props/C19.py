"""C19 — a failing file-system call or dying worker never corrupts files or hangs the run."""
import os
import random
import signal
import subprocess
import time

import fsharness as fh
import fscommon as fc
import handler_diff as hd
from framework import coq_property, build_model, build_cli, write_replay, cli_bin, ENV
from C12 import entry_core

ERRNOS = ["ENOSPC", "EIO", "EACCES", "EPERM"]
# abstract kind -> model fault kind
MODEL_KIND = {"creat": "creat", "write": "write", "lchown": "lchown", "fchmod": "fchmod", "futimens": "futimens", "rename": "rename",
              "unlink": "unlink", "openr": "openr"}


def tolerated_chown(kind, er):
    return kind == "lchown" and er in ("EPERM", "EACCES")


def scenarios(rng, tier):
    cs = {(c[0], c[1]): c for c in fc.contents(rng)}
    pick = [("gzip", "dirty"), ("ar", "dirty"), ("ar", "clean"), ("ar", "truncated")]
    out = []
    for k in pick:
        h, tag, data, e = cs[k]
        out.append(fc.Scenario(h, tag, data, e, mode=rng.choice([0o644, 0o4755]), mtime_ns=fc.NOW_NS - rng.randrange(10 ** 6), uid=rng.choice([0, 1234]), gid=5678))
    h, tag, data, e = cs[("gzip", "dirty")]
    out.append(fc.Scenario(h, tag, data, e, mode=0o6755, stale=True, uid=1234))
    return out


def fault_sweep(ctx, scs, known):
    mism, fails = [], []
    n = 0
    distinct = set()
    samples = []
    for si, sc in enumerate(scs):
        r = fc.traced_run(ctx, sc, "f%d" % si)
        try:
            final = r["after"]
            rel = "d/" + sc.name
            tmp = "d/.#." + sc.name + ".tmp"
            pid0 = r["ops"][0]["pid"]
            # first occurrence of each abstract kind on this run (second for creat/unlink when a stale temp is handled)
            occ = {}
            pts = []
            for o in r["ops"]:
                if o["pid"] != pid0 or o["kind"] not in MODEL_KIND:
                    continue
                occ[o["kind"]] = occ.get(o["kind"], 0) + 1
                if o["kind"] == "write" and (occ["write"] > 1 or fc.class_of_summary(r["summary"]) not in ("Replaced", "Rewritten")):
                    continue      # writes of a run that ends without modification happen in BufWriter's drop, where errors are ignored
                if o["kind"] == "openr" and os.path.realpath(o["path"]) != os.path.realpath(r["t"].path(rel)):
                    continue
                pts.append((o["syscall"], o["nth"], o["kind"], occ[o["kind"]]))
            mcases, reals = [], []
            for (scname, nth, kind, k_occ) in pts:
                if ctx.tier == "thorough" or kind in ("lchown", "rename"):
                    ers = ERRNOS
                elif kind in ("creat", "write"):
                    ers = ERRNOS[:2]
                else:
                    ers = [ERRNOS[(nth + si) % 4]]
                for er in ers:
                    t = sc.build()
                    try:
                        before_t = fh.snapshot(t.root)
                        rc, out = fh.run_cli(sc.args(t), epoch=sc.epoch, inject="%s:error=%s:when=%d" % (scname, er, nth), timeout=60)
                        after = fh.snapshot(t.root)
                        n += 1
                        cid = "f%d_%s%d_%s" % (si, kind, k_occ, er)
                        mc, inos = fc.model_case(cid, sc, t, before_t, fault=(MODEL_KIND[kind], k_occ, er))
                        mcases.append(mc)
                        reals.append((cid, kind, k_occ, er, scname, nth, before_t, after, rc, out, inos, t.root))
                    finally:
                        t.remove()
            mres = fh.model_fs_run(ctx, mcases)
            for (cid, kind, k_occ, er, scname, nth, before_t, after, rc, out, inos, root) in reals:
                inj = "%s:error=%s:when=%d" % (scname, er, nth)
                m = mres.get(cid, {})
                summ = fh.parse_summary(out)
                cls = fc.class_of_summary(summ)
                distinct.add((sc.handler, sc.tag, kind, er, cls))
                if len(samples) < 4:
                    samples.append({"scenario": sc.label(), "inject": inj, "class": cls, "exit": rc})
                if m.get("faulthit") != "1":
                    mism.append((sc, "%s: the model's run has no %s #%d operation to fail" % (inj, kind, k_occ)))
                    continue
                if cls != m.get("class"):
                    mism.append((sc, "%s: class real %s vs model %s" % (inj, cls, m.get("class"))))
                # final state vs model
                class T:
                    pass
                tt = T()
                tt.root = root
                d = fc.compare_final(sc, tt, before_t, after, m, inos)
                if d:
                    mism.append((sc, "%s: final state: %s" % (inj, "; ".join(d[:3]))))
                # ---- the property, on the real data
                a = after.get(rel)
                core_b = entry_core(before_t[rel])
                core_a = entry_core(a)
                core_f = entry_core(final.get(rel))
                if tolerated_chown(kind, er):
                    # a refused chown is tolerated: the final file keeps the caller's ids
                    for c in (core_a, core_f):
                        if c:
                            c.pop("uid", None), c.pop("gid", None)
                if core_a != core_b and core_a != core_f:
                    fails.append((sc, "fault-torn-file", "with %s the file is neither as it was nor in its final state" % inj, inj))
                if core_a == core_b and a is not None and a["ino"] != before_t[rel]["ino"] and core_b != core_f:
                    fails.append((sc, "fault-inode", "with %s the file has its old content but a new inode" % inj, inj))
                stale_untouched = tmp in before_t and tmp in after and after[tmp]["ino"] == before_t[tmp]["ino"] and after[tmp]["data"] == before_t[tmp]["data"]
                if tmp in after and not (kind == "unlink") and not stale_untouched:
                    fails.append((sc, "fault-temp-left", "with %s the temporary file is left behind although unlink did not fail" % inj, inj))
                tolerated = kind == "lchown" and er in ("EPERM", "EACCES")
                harmless_unlink = kind == "unlink"
                if summ is None:
                    fails.append((sc, "fault-no-summary", "with %s the run did not complete normally (exit %d): %s" % (inj, rc, out[-200:]), inj))
                elif not tolerated and not harmless_unlink and summ["errors"] < 1:
                    fails.append((sc, "fault-not-counted", "with %s the failure was not counted as an error: %s" % (inj, summ), inj))
                elif not tolerated and not harmless_unlink and rc == 0:
                    fails.append((sc, "fault-exit-status", "with %s the run exits 0" % inj, inj))
                elif tolerated and (summ["errors"] != 0 or core_a != core_f):
                    fails.append((sc, "chown-not-tolerated", "a refused ownership change (%s) was not tolerated: %s" % (inj, summ), inj))
                if after.get("d/bystander.txt") != before_t.get("d/bystander.txt"):
                    fails.append((sc, "fault-collateral", "with %s an unrelated file changed" % inj, inj))
        finally:
            r["t"].remove()
    return mism, fails, n, distinct, samples


def size_limit_runs(ctx):
    """Writes that are cut short: every handler's dirty sample under a file-size limit below the size of its output (one
    file after the other, so that the limit hits the temporary file).  The file is left as it was, the failure is
    reported and counted, no temporary file stays behind; with a limit above the output size the run succeeds."""
    import samples as smp
    fails, n = [], 0
    for name, (data, hs) in smp.per_handler().items():
        # the fault-free output, for its size
        t = fh.Tree()
        try:
            t.add_file("d/" + name, data, mtime_ns=1_650_000_000_000_000_000)
            rc, out = fh.run_cli(["--handler", hs[0], t.path("d")], epoch=smp.EPOCH, timeout=60)
            final = open(t.path("d/" + name), "rb").read()
        finally:
            t.remove()
        if final == data or len(final) < 8:
            continue
        for limit in sorted(set([1, len(final) // 2, len(final) - 1])):
            t = fh.Tree()
            try:
                t.add_file("d/" + name, data, mode=0o640, mtime_ns=1_650_000_000_000_000_000)
                before = fh.snapshot(t.root)
                rc, out = fh.run_cli(["--handler", hs[0], t.path("d")], epoch=smp.EPOCH, timeout=60, fsize_limit=limit)
                after = fh.snapshot(t.root)
                n += 1
                label = "%s handler, output %d bytes, files limited to %d bytes" % (hs[0], len(final), limit)
                s = fh.parse_summary(out)
                a = after.get("d/" + name)
                if a is None or a["data"] not in (data, final):
                    fails.append(("short-write-corrupts", "%s: the file is neither as it was nor the complete output (%s bytes)" % (label, "no" if a is None else len(a["data"])), label))
                elif a["data"] == data and (rc == 0 or s is None or s["errors"] == 0):
                    fails.append(("short-write-unreported", "%s: the file was left as it was but no error is reported (exit %d, %s)" % (label, rc, s), label))
                elif a["data"] == final and len(final) > limit:
                    fails.append(("short-write-corrupts", "%s: a file larger than the limit was produced" % label, label))
                left = [r for r in after if os.path.basename(r).startswith(".#.")]
                if left:
                    fails.append(("short-write-temp-left", "%s: %s left behind" % (label, left), label))
            finally:
                t.remove()
    return fails, n


def walk_error_runs(ctx):
    """A directory the walk itself cannot enter (its path is longer than PATH_MAX, so opening it fails with ENAMETOOLONG):
    counted as an error, and every other file of the tree - before and after it in directory order - is still processed."""
    import samples as smp
    import struct
    fails, n = [], 0
    for jobs in ([], ["-j2"]):
        t = fh.Tree()
        cwd = os.getcwd()
        try:
            t.mkdir("d")
            names = ["f%02d.gz" % i for i in range(24)]
            for nm in names[:12]:
                t.add_file("d/" + nm, fc.gz(1700000000))
            os.chdir(t.path("d"))
            os.mkdir("m-long")
            os.chdir("m-long")
            for i in range(20):                     # 20 x 251 bytes: more than PATH_MAX
                os.mkdir("x" * 250)
                os.chdir("x" * 250)
            os.chdir(cwd)
            for nm in names[12:]:
                t.add_file("d/" + nm, fc.gz(1700000000))
            t.add_file("e/other.gz", fc.gz(1700000000))
            rc, out = fh.run_cli(jobs + [t.path("d"), t.path("e")], epoch=smp.EPOCH, timeout=120)
            n += 1
            label = "%s tree of 24 .gz files around a directory chain longer than PATH_MAX" % (" ".join(jobs) or "serial")
            s = fh.parse_summary(out)
            left = [nm for nm in names if struct.unpack("<I", open(t.path("d/" + nm), "rb").read()[4:8])[0] != smp.EPOCH]
            if rc == 124 or s is None:
                fails.append(("walk-error-no-summary", "%s: no summary (exit %s)" % (label, rc), label))
            elif left or struct.unpack("<I", open(t.path("e/other.gz"), "rb").read()[4:8])[0] != smp.EPOCH:
                fails.append(("walk-error-stops-walk", "%s: %d of 24 files (%s ...) were not processed after the walk hit the directory it cannot open (summary %s)" % (label, len(left), ", ".join(left[:3]), s), label))
            elif rc == 0 or s["errors"] == 0:
                fails.append(("walk-error-unreported", "%s: the directory that could not be read is not reported (exit %d, %s)" % (label, rc, s), label))
        finally:
            os.chdir(cwd)
            t.remove()
    return fails, n


def read_fault_runs(ctx):
    """The first read of the input itself fails (EIO), for every handler: the failure is reported and counted, the exit status says so,
    the file is as it was and no temporary file stays.  And for the opt-in handler with a source file beside the byte-compiled one:
    when the switch-over fails (rename, fchmod), nothing at all has changed - the source file's mtime included."""
    import re
    import samples as smp
    fails, n = [], 0
    for name, (data, hs) in smp.per_handler().items():
        t = fh.Tree()
        try:
            t.add_file("d/" + name, data, mode=0o640, mtime_ns=1_650_000_000_000_000_000)
            target = t.path("d/" + name)
            tr = os.path.join(ctx.tmp, "read-trace.txt")
            env = dict(ENV, SOURCE_DATE_EPOCH=str(smp.EPOCH))
            base = ["strace", "-f", "-y", "-qq", "-s", "0", "-o", tr, "-e", "trace=read"]
            subprocess.run(base + [cli_bin(False), "--check", "--handler", hs[0], target], env=env, capture_output=True, timeout=60)
            k = 0
            which = None
            for line in open(tr, errors="replace"):
                if re.match(r"^\d+\s+read\(", line):
                    k += 1
                    if "<" + target + ">" in line:
                        which = k
                        break
            if which is None:
                continue
            before = fh.snapshot(t.root)
            p = subprocess.run(base + ["-e", "inject=read:error=EIO:when=%d" % which, cli_bin(False), "--handler", hs[0], target], env=env, capture_output=True, timeout=60)
            out = (p.stdout + p.stderr).decode("utf-8", "replace")
            after = fh.snapshot(t.root)
            n += 1
            label = "%s handler, the first read of the input fails with EIO" % hs[0]
            s = fh.parse_summary(out)
            if fh.snap_equal(before, after):
                fails.append(("read-fault-touches", "%s: the tree changed: %s" % (label, "; ".join(fh.snap_equal(before, after)[:3])), label))
            elif p.returncode == 0 or s is None or s["errors"] == 0:
                fails.append(("read-fault-unreported", "%s: exit %d, summary %s - the failure is neither counted as an error nor reflected in the exit status" % (label, p.returncode, s), label))
        finally:
            t.remove()
    for fault in ("rename:error=EIO:when=1", "fchmod:error=EIO:when=1"):
        t = fh.Tree()
        try:
            t.add_file("d/mod.pyc", smp.dirty_pyc(), mode=0o644, mtime_ns=1_650_000_000_000_000_000)
            t.add_file("d/mod.py", b"print(1)\n", mtime_ns=1_650_000_000_000_000_000)
            before = fh.snapshot(t.root)
            rc, out = fh.run_cli(["--handler", "pyc-zero-mtime", t.path("d")], epoch=None, timeout=60, inject=fault)
            after = fh.snapshot(t.root)
            n += 1
            label = "pyc-zero-mtime with a source file beside the pyc, %s" % fault
            d = fh.snap_equal(before, after)
            if d:
                fails.append(("failed-switch-touches", "%s: the switch-over failed, yet something changed: %s" % (label, "; ".join(d[:3])), label))
            elif rc == 0:
                fails.append(("read-fault-unreported", "%s: exit 0" % label, label))
        finally:
            t.remove()
    return fails, n


def worker_death(ctx, known):
    """A worker dies: the controller must terminate and report failure."""
    fails = []
    results = []
    for nfiles, jobs in ((30, 2), (1200, 1), (1200, 3)) if ctx.tier == "quick" else ((30, 2), (1200, 1), (1200, 3), (3000, 2), (600, 8)):
        t = fh.Tree()
        try:
            t.mkdir("d")
            data = fc.gz(5000)
            for i in range(nfiles):
                t.add_file("d/f%05d.gz" % i, data)
            # every worker is killed at its first rename
            env = dict(ENV, SOURCE_DATE_EPOCH="1000")
            cmd = ["strace", "-f", "-qq", "-o", os.devnull, "-e", "trace=rename", "-e", "inject=rename:signal=KILL:when=1",
                   cli_bin(), "-j%d" % jobs, t.path("d")]
            t0 = time.time()
            p = subprocess.Popen(cmd, env=env, stdout=subprocess.PIPE, stderr=subprocess.STDOUT, start_new_session=True)
            try:
                out, _ = p.communicate(timeout=60)
                rc = p.returncode
                hung = False
            except subprocess.TimeoutExpired:
                hung = True
                os.killpg(p.pid, signal.SIGKILL)
                out, _ = p.communicate()
                rc = None
            dt = time.time() - t0
            results.append({"files": nfiles, "jobs": jobs, "hung": hung, "exit": rc, "seconds": round(dt, 1)})
            label = "%d files, -j%d, every worker killed at its first rename" % (nfiles, jobs)
            if hung:
                fails.append(("worker-death-hang", "controller did not terminate within 60 s (%s)" % label, label))
            elif rc == 0:
                fails.append(("worker-death-success", "controller exits 0 although its workers died (%s)" % label, label))
        finally:
            t.remove()
    return fails, results


def run(ctx):
    rng = random.Random(ctx.seed)
    coq_property(ctx)
    ok, out = build_model()
    ctx.oblige("build: models extract and the OCaml runner builds", ok, out[-300:])
    ok2, out2 = build_cli()
    ctx.oblige("build: CLI builds from /repo's current tree", ok2, out2[-500:])
    if not (ok and ok2):
        return
    known = hd.known_kinds_for("C19")
    scs = scenarios(rng, ctx.tier)
    mism, fails, n, distinct, samples = fault_sweep(ctx, scs, known)
    ctx.oblige("correspondence[fs/fault]: class and final state of %d fault-injected runs = model (Helper.run_handler with fault)" % n,
               not mism, "; ".join("%s: %s" % (sc.label(), why) for sc, why in mism[:4]))
    wfails, wres = worker_death(ctx, known)
    sfails, sn = size_limit_runs(ctx)
    efails, en = walk_error_runs(ctx)
    rfails, rn = read_fault_runs(ctx)
    ctx.coverage["read_and_switch_fault_runs"] = rn
    wfails = list(wfails) + sfails + efails + rfails
    ctx.coverage["size_limited_runs"] = sn
    ctx.coverage["walk_error_runs"] = en
    seen = set()
    for sc, kind, msg, inj in fails:
        if kind in seen:
            continue
        seen.add(kind)
        d = write_replay(ctx, kind, fc.replay_files(sc), fc.replay_info(sc, failure=msg, kind=kind, strace_inject=inj))
        ctx.violations.append({"replay": d, "kind": kind, "msg": msg})
    for kind, msg, label in wfails:
        if kind in known:
            if kind not in seen:
                ctx.known.append("%s: %s [%s]" % (known[kind]["id"], known[kind]["what"], label))
            seen.add(kind)
            continue
        if kind in seen:
            continue
        seen.add(kind)
        d = write_replay(ctx, kind, {}, {"failure": msg, "kind": kind, "how_to_replay":
                                         "directory of N dirty .gz files; SOURCE_DATE_EPOCH=1000 strace -f -e trace=rename -e inject=rename:signal=KILL:when=1 add-determinism -jJ dir", "case": label})
        ctx.violations.append({"replay": d, "kind": kind, "msg": msg})
    ctx.coverage.update({
        "evaluations": n + len(wres), "distinct_nontrivial": len(distinct),
        "rule": "per scenario (dirty/clean/malformed gzip and ar, set-id mode, foreign owner, stale temp) a traced run, then for the first occurrence of each "
                "file-system operation kind (open, exclusive create, write, lchown, fchmod, futimens, rename, unlink) a fresh run with that syscall failing "
                "(strace inject; all of ENOSPC/EIO/EACCES/EPERM for lchown and rename and in the thorough tier, a rotating subset otherwise); class and final state compared with the "
                "model run with the same fault; oracle: file old-or-final, temp removed unless unlink failed, failure counted and exit non-zero, refused chown tolerated; "
                "plus parallel runs whose workers are all killed at their first rename (must terminate within 60 s and fail); plus a tree whose walk meets a directory it cannot open "
                "(path longer than PATH_MAX), serial and -j2: reported, all other files processed; distinct = (scenario, kind, errno, class)",
        "samples": samples, "worker_death": wres, "traces_validated_against_impl": n, "correspondence_mismatches": len(mism), "oracle_failures": len(fails) + len(wfails),
    })
    ctx.assumptions += ["a fault = one system call returning an error without side effect (strace error injection)",
                        "worker death is SIGKILL at a system-call boundary"]
