"""C14 — the summary is truthful and untouched files really are untouched."""
import os
import random

import fsharness as fh
import fscommon as fc
import handler_diff as hd
import samples
from framework import coq_property, build_model, build_cli, write_replay

MODELLED = ["ar", "gzip"]


def build_tree(rng, with_all):
    t = fh.Tree()
    files = {}

    def add(rel, data, links=()):
        t.add_file(rel, data, mode=rng.choice([0o644, 0o600]), mtime_ns=1_650_000_000_000_000_000 + rng.randrange(10 ** 9))
        for l in links:
            t.link(rel, l)
        files[rel] = data

    add("t/dirty1.gz", fc.gz(1700000000))
    add("t/dirty2.gz", fc.gz(1700000001, b"x" * 70000))
    add("t/clean.gz", fc.gz(5))
    add("t/bad.gz", b"not gzip")
    add("t/short.gz", b"\x1f\x8b")
    add("t/sub/dirty.a", fc.ar([("x.o/", 1700000000, 7, 8, 100644, b"abc")]))
    add("t/sub/clean.a", fc.ar([("x.o/", 5, 0, 0, 100644, b"ab")]))
    # a path longer than a kilobyte (far below PATH_MAX), with modifiable files before and after it in any order of the walk
    add("t/sub/long/" + "/".join("d%d-" % k + "z" * 180 for k in range(6)) + "/deep-dirty.gz", fc.gz(1700000003))
    add("t/sub/trunc.a", fc.ar([("x.o/", 1700000000, 7, 8, 100644, b"abcdef")])[:-3])
    add("t/hl1.gz", fc.gz(1700000002), links=["t/sub/hl2.gz", "t/hl3.bin"])
    add("t/hlclean.a", fc.ar([("y.o/", 5, 0, 0, 100644, b"ab")]), links=["t/hlclean2.a"])
    add("t/hlmix.a", fc.ar([("z.o/", 1700000000, 1, 1, 100644, b"abcd")]), links=["t/sub/hlmix.gz"])   # one inode, two extensions
    if with_all:
        for n, (data, hs) in samples.per_handler().items():
            add("t/all/" + n, data)
        add("t/all/clean.html", b"<html>\n<head>\n<title>x</title>\n</head>\n</html>\n")
        # pages that end before a header end is seen and hold nothing to replace: a fragment, a one-line stub, an empty file, one with two names
        add("t/all/fragment.html", b"<p>a note</p>\n<p>second line</p>\n")
        add("t/all/stub.html", b"<meta http-equiv=\"refresh\" content=\"0; url=index.html\">")
        add("t/all/empty.html", b"")
        add("t/all/fragment-linked.html", b"<div>\nshared\n</div>\n", links=["t/sub/fragment-other-name.html"])
        add("t/all/broken.zip", b"PK\x03\x04 this is not a zip")
        add("t/all/broken.pyc", samples.dirty_pyc()[:40])
        # two handlers, one file: only the first finds something to change / only the second does
        d = samples.dirty_pyc()
        add("t/all/mtime0-dirty-payload.pyc", d[:8] + b"\0\0\0\0" + d[12:])
        add("t/all/mtime-set-clean-payload.pyc", d[:16] + b"N")
        # the usual layout: the byte-compiled file below __pycache__, no source beside it
        add("t/all/pkg/__pycache__/mod.cpython-312.pyc", d)
        # files of interpreters the pyc handler leaves alone (inspected, unchanged: they count), and one whose mtime field is zero already
        add("t/all/old33.pyc", samples.old_pyc(3230))
        add("t/all/old27.pyc", samples.old_pyc(62211))
        add("t/all/zeroed36.pyc", samples.pyc36_zero_mtime())
        # an archive older than the epoch as a file, whose first member is later than the epoch and whose last member is not
        add("t/all/mixed.zip", samples.mixed_zip())
        os.utime(t.path("t/all/mixed.zip"), ns=((samples.EPOCH - 1000) * 10 ** 9, (samples.EPOCH - 1000) * 10 ** 9))
    return t, files


def judge(before, after, summ, label, out="", two_handlers=False):
    fails = []
    hidden = 0
    # group by inode (before)
    by_ino = {}
    for rel, e in before.items():
        if e["kind"] == "R":
            by_ino.setdefault(e["ino"], []).append(rel)
    changed = replaced = rewritten = 0
    for ino, rels in by_ino.items():
        b = before[rels[0]]
        a = after.get(rels[0])
        if a is None:
            fails.append(("file-vanished", "%s: %s vanished" % (label, rels[0])))
            continue
        if a["data"] != b["data"]:
            # known defect class F15: two handlers on one file, the first modified it, a later one failed:
            # the maximum of the results (unsupported/error) hides the modification
            if two_handlers and any(("%s: failed to process" % os.path.basename(r)) in out or (r in out and "failed to process" in out and
                                    any(("/" + r + ": failed to process") in l or l.rstrip().endswith(r) for l in out.split("\n") if "failed to process" in l)) for r in rels):
                hidden += 1
                continue
            changed += 1
            if a["ino"] != b["ino"]:
                replaced += 1
            else:
                rewritten += 1
        else:
            # a file whose content needs no change is not rewritten at all
            for rel in rels:
                aa = after.get(rel)
                if aa is None or aa["ino"] != before[rel]["ino"] or aa["mtime_ns"] != before[rel]["mtime_ns"]:
                    fails.append(("unchanged-but-rewritten", "%s: %s has unchanged bytes but inode/mtime changed" % (label, rel)))
    if summ is None:
        fails.append(("no-summary", "%s: no summary" % label))
        return fails
    if hidden:
        fails.append(("lattice-hides-modification", "%s: %d inode(s) were modified by one handler and then failed in another; they are reported only as unsupported/error" % (label, hidden)))
    if summ["modified"] != changed:
        fails.append(("modified-count", "%s: %d inodes reported modified, %d inodes have different bytes" % (label, summ["modified"], changed)))
    if two_handlers:
        # two replacements in a row can hand the original inode number back (the kernel reuses freed numbers):
        # only the total is judged when two handlers act on one file
        if summ["replaced"] + summ["rewritten"] != replaced + rewritten:
            fails.append(("replaced-rewritten-split", "%s: reported %d replaced + %d rewritten, observed %d changed" % (label, summ["replaced"], summ["rewritten"], replaced + rewritten)))
    elif summ["replaced"] != replaced or summ["rewritten"] != rewritten:
        fails.append(("replaced-rewritten-split", "%s: reported %d replaced + %d rewritten, observed %d with a new inode + %d in place" %
                      (label, summ["replaced"], summ["rewritten"], replaced, rewritten)))
    if summ["modified"] != summ["replaced"] + summ["rewritten"]:
        fails.append(("modified-sum", "%s: modified != replaced + rewritten: %s" % (label, summ)))
    unchanged = summ["processed"] - summ["replaced"] - summ["rewritten"] - summ["unsupported"] - summ["errors"]
    if unchanged < 0:
        fails.append(("partition", "%s: processed < replaced + rewritten + unsupported + errors: %s" % (label, summ)))
    return fails


def run(ctx):
    rng = random.Random(ctx.seed)
    coq_property(ctx)
    ok, out = build_model()
    ctx.oblige("build: models extract and the OCaml runner builds", ok, out[-300:])
    ok2, out2 = build_cli()
    ctx.oblige("build: CLI builds from /repo's current tree", ok2, out2[-500:])
    if not (ok and ok2):
        return
    known = hd.known_kinds_for("C14")
    fails, mism = [], []
    n = 0
    samples_out = []
    configs = [(MODELLED, False, []), (MODELLED, False, ["-j2"]), (None, True, []), (None, True, ["-j4"]), (["gzip"], False, []), (["-gzip"], True, []),
               (["pyc", "pyc-zero-mtime"], True, []), (["pyc", "pyc-zero-mtime"], True, ["-j2"]), (["pyc", "pyc-zero-mtime"], True, ["-j5"]), (MODELLED, False, ["--check"]), (None, True, ["--check"]), (None, True, ["--check", "-j2"]),
               (["pyc-zero-mtime"], True, []), (["pyc-zero-mtime"], True, ["-j2"]),
               # the same files named by several arguments (every entry of the top directory by itself): hard links now span arguments
               (MODELLED, False, ["SPLIT"]), (None, True, ["SPLIT"]), (MODELLED, False, ["SPLIT", "-j2"])]
    reference = {}
    for hsel, with_all, mode in configs:
        t, files = build_tree(rng, with_all)
        try:
            before = fh.snapshot(t.root)
            split = "SPLIT" in mode
            mode = [m for m in mode if m != "SPLIT"]
            paths = [t.path("t/" + e) for e in sorted(os.listdir(t.path("t")))] if split else [t.path("t")]
            args = ["-v"] + (["--handler=" + ",".join(hsel)] if hsel else []) + mode + paths
            rc, out = fh.run_cli(args, epoch=samples.EPOCH, timeout=120)
            after = fh.snapshot(t.root)
            n += 1
            summ = fh.parse_summary(out)
            label = "handlers=%s %s%s" % (",".join(hsel) if hsel else "default", " ".join(mode), " (one argument per top-level entry)" if split else "")
            if len(samples_out) < 4:
                samples_out.append({"case": label, "summary": summ})
            if "--check" in mode:
                if fh.snap_equal(before, after):
                    fails.append(("check-modified", "%s: --check changed the tree" % label, label))
                # what --check counts is what the real run over the same tree counts
                ref = reference.get((tuple(hsel) if hsel else None, with_all))
                if ref is not None and summ is not None:
                    for k in ("processed", "replaced", "rewritten", "unsupported", "errors"):
                        if summ[k] != ref[k]:
                            fails.append(("check-counts-differ", "%s: %s=%d but the real run reports %d" % (label, k, summ[k], ref[k]), label))
            else:
                for kind, msg in judge(before, after, summ, label, out=out, two_handlers=(hsel is not None and "pyc" in hsel and "pyc-zero-mtime" in hsel)):
                    fails.append((kind, msg, label))
            key = (tuple(hsel) if hsel else None, with_all)
            if not any(m.startswith("-j") for m in mode) and "--check" not in mode and not split:
                reference[key] = summ
            elif key in reference and summ is not None and reference[key] is not None:
                for k in ("processed", "replaced", "rewritten", "unsupported", "errors"):
                    if summ[k] != reference[key][k]:
                        fails.append(("parallel-counts-differ", "%s: %s=%d but the serial run reports %d" % (label, k, summ[k], reference[key][k]), label))
            if hsel == MODELLED and not mode and not split:
                nodes, inos = fh.nodes_with_dirs(t.root, before)
                entries = [p.encode() for p in fh.visiting_order(out)]
                mres = fh.model_walk_run(ctx, [{"id": "w", "nodes": nodes, "handlers": MODELLED, "epoch": samples.EPOCH, "check": False, "entries": entries,
                                                 "uid": os.getuid(), "gid": os.getgid(), "can_chown": os.getuid() == 0}]).get("w", {})
                ms = mres.get("stats")
                if ms is None or summ is None:
                    mism.append((label, "no model/implementation summary"))
                else:
                    for k in ("directories", "files", "processed", "replaced", "rewritten", "unsupported", "errors"):
                        if ms[k] != summ[k]:
                            mism.append((label, "counter %s: model %d vs implementation %d" % (k, ms[k], summ[k])))
                    for pb, o in mres["obs"].items():
                        rel = os.path.relpath(pb.decode(), t.root)
                        r = after.get(rel)
                        if o is not None and r is not None and r["kind"] == "R":
                            same_model = o["ino"] == inos.get(before[rel]["ino"]) if rel in before else None
                            same_real = r["ino"] == before[rel]["ino"] if rel in before else None
                            if o["data"] != r["data"] or same_model != same_real:
                                mism.append((label, "%s: content or inode identity differs from the model" % rel))
        finally:
            t.remove()
    ctx.oblige("correspondence[walk/stats]: counters, contents and inode identities of the serial ar+gzip run = model (Walk.walk)", not mism,
               "; ".join("%s: %s" % x for x in mism[:4]))
    seen = set()
    for kind, msg, label in fails:
        if kind in known:
            if kind not in seen:
                ctx.known.append("%s: %s [%s]" % (known[kind]["id"], known[kind]["what"], msg[:200]))
            seen.add(kind)
            continue
        if kind in seen:
            continue
        seen.add(kind)
        d = write_replay(ctx, kind, {}, {"failure": msg, "kind": kind, "case": label,
                                         "how_to_replay": "tree of lib/props/C14.py:build_tree; run add-determinism with the stated handler selection and mode; compare the summary with a snapshot diff grouped by inode"})
        ctx.violations.append({"replay": d, "kind": kind, "msg": msg})
    ctx.coverage.update({
        "evaluations": n, "distinct_nontrivial": n,
        "rule": "a tree mixing dirty / clean / malformed (bad magic, short, truncated) files, hard-linked dirty, clean and two-extension inodes (and, for the full handler set, one dirty "
                "file per handler plus broken zip/pyc) x handler selections {ar+gzip, default, gzip only, all but gzip, pyc+pyc-zero-mtime} x {serial, -j2/-j4, --check}; the summary is "
                "compared with a snapshot diff grouped by inode (bytes changed, new inode vs in place, unchanged files keep inode and mtime), parallel counts with the serial ones, "
                "and the serial ar+gzip run with the model walk",
        "samples": samples_out, "correspondence_mismatches": len(mism), "oracle_failures": len(fails),
    })
