"""C03 — zip/jar members survive the rewrite and timestamps are exactly clamped."""
import calendar
import datetime
import glob
import io
import os
import random
import struct
import subprocess
import zipfile
import zlib

from framework import Case, coq_property, REPO, sh
import handler_diff as hd
import samples

EPOCHS = [315532800, 315532801, 1577836800, 1577836801, 1709337600, 4354819199, 4354819198, 946684800]
DOS_LO, DOS_HI = 315532800, 4354819199


def dos_words(y, mo, d, h, mi, s):
    return ((y - 1980) << 9) | (mo << 5) | d, (h << 11) | (mi << 5) | (s // 2)


def dos_to_unix(date, time):
    y, mo, d = (date >> 9) + 1980, (date >> 5) & 15, date & 31
    h, mi, s = time >> 11, (time >> 5) & 63, (time & 31) * 2
    try:
        return calendar.timegm(datetime.datetime(y, mo, d, h, mi, s).timetuple())
    except ValueError:
        return None


def build_zip(rng, epoch, opts):
    """Hand-assembled archive so that every field is under control. Returns bytes, list of member dicts."""
    members = []
    n = opts.get("n", rng.choice([0, 1, 2, 3, 6]))
    local = b""
    centrals = []
    names_used = []
    for i in range(n):
        kind = rng.choice(["file", "file", "file", "dir", "empty", "symlink"])
        if opts.get("names") == "cp437":
            name = b"f\x82\x8a%d.txt" % i
            flags = 0
        elif opts.get("names") == "utf8":
            name = ("zażółć%d.txt" % i).encode()
            flags = 0x800
        else:
            name = rng.choice([b"a%d.txt" % i, b"dir/sub/b%d.bin" % i, b"META-INF/MANIFEST.MF", b"x" * 60 + b"%d" % i])
            flags = 0
        if names_used and rng.random() < 0.1:
            name = names_used[0]                      # duplicate name
        names_used.append(name)
        data = b"" if kind in ("dir", "empty") else (b"target" if kind == "symlink" else rng.randbytes(rng.choice([1, 10, 300])) * rng.choice([1, 5]))
        if kind == "dir":
            name = name.split(b".")[0] + b"/"
        method = 0 if kind in ("dir", "empty", "symlink") or rng.random() < 0.3 else 8
        if method == 8:
            co = zlib.compressobj(6, zlib.DEFLATED, -15)
            cdata = co.compress(data) + co.flush()
        else:
            cdata = data
        # time relative to the epoch
        rel = opts.get("rel") or rng.choice(["older", "older", "equal", "grid-above", "newer", "newer", "invalid"])
        ed = datetime.datetime.utcfromtimestamp(epoch)
        if rel == "older":
            t = max(DOS_LO, epoch - rng.choice([2, 3, 86400, 10 ** 8]))
        elif rel == "equal":
            t = epoch - epoch % 2
        elif rel == "grid-above":
            t = min(DOS_HI - 1, epoch - epoch % 2 + 2)
        else:
            t = min(DOS_HI - 1, epoch + rng.choice([1, 2, 3, 3600, 10 ** 7]))
        dt = datetime.datetime.utcfromtimestamp(t)
        date, time = dos_words(dt.year, dt.month, dt.day, dt.hour, dt.minute, dt.second)
        if rel == "invalid":
            date, time = rng.choice([(0, 0), ((44 << 9) | (0 << 5) | 1, 0), ((44 << 9) | (2 << 5) | 30, 0), ((44 << 9) | (13 << 5) | 1, 0), ((44 << 9) | (1 << 5) | 1, (24 << 11)),
                                     ((44 << 9) | (1 << 5) | 1, (1 << 11) | (60 << 5)), ((44 << 9) | (1 << 5) | 1, 30), ((44 << 9) | (1 << 5) | 1, 31)])
        system = rng.choice([3, 3, 3, 0, 7]) if not opts.get("jar") else 0
        if system == 3:
            mode = {"file": rng.choice([0o100644, 0o100755, 0o104755, 0o100600, 0o644]), "dir": 0o40755, "empty": 0o100644, "symlink": 0o120777}[kind]
            ext = (mode << 16) | (0x10 if kind == "dir" else 0)
        elif system == 0:
            ext = rng.choice([0, 0x20, 0x10 if kind == "dir" else 0x21, 0x01])
        else:
            ext = rng.choice([0, 0x1234 << 16])
        if opts.get("jar"):
            ext = 0
        crc = zlib.crc32(data)
        dd = opts.get("data_descriptor") and method == 8
        gflags = flags | (8 if dd else 0)
        extra_l = opts.get("extra_local", b"")
        extra_c = opts.get("extra_central", b"")
        lh = struct.pack("<4sHHHHHIIIHH", b"PK\x03\x04", 20, gflags, method, time, date, 0 if dd else crc, 0 if dd else len(cdata), 0 if dd else len(data), len(name), len(extra_l)) + name + extra_l
        off = len(local)
        local += lh + cdata
        if dd:
            local += struct.pack("<4sIII", b"PK\x07\x08", crc, len(cdata), len(data))
        comment = opts.get("member_comment", b"")
        centrals.append(struct.pack("<4sHHHHHHIIIHHHHHII", b"PK\x01\x02", (system << 8) | 30, 20, gflags, method, time, date, crc, len(cdata), len(data), len(name), len(extra_c), len(comment),
                                    0, rng.choice([0, 1]), ext, off) + name + extra_c + comment)
        members.append({"name": name, "utf8": bool(flags), "method": method, "crc": crc, "csize": len(cdata), "usize": len(data), "data": data, "cdata": cdata, "date": date, "time": time,
                        "system": system, "ext": ext, "kind": kind, "rel": rel})
    if opts.get("shuffle_central") and len(centrals) > 1:
        # the central directory lists the members in another order than they are stored (sorted by name, appended in place, merged jars):
        # the directory's order is the archive's order
        k = rng.randrange(1, len(centrals))
        centrals = centrals[k:][::-1] + centrals[:k]
        members = members[k:][::-1] + members[:k]
    central = b"".join(centrals)
    zc = opts.get("comment", b"")
    prefix = opts.get("prefix", b"")
    eocd = struct.pack("<4sHHHHIIH", b"PK\x05\x06", 0, 0, n, n, len(central), len(local), len(zc)) + zc
    return prefix + local + central + eocd, members


UT = struct.pack("<HHBI", 0x5455, 5, 1, 1700000000)
UX = struct.pack("<HHBBIBI", 0x7875, 11, 1, 4, 1000, 4, 1000)


def gen_cases(rng, tier):
    cases = []
    meta = {}
    n = 0

    def add(data, epoch, tags, members=None, handler="zip", file_mtime=None, nlink=1, check=False):
        nonlocal n
        n += 1
        cid = "z%d" % n
        if file_mtime is None:
            file_mtime = 1000000             # always explicit: the handler's size heuristic looks at the file's own mtime, which the model takes as a parameter
        cases.append(Case(cid, handler, epoch, data, nlink=nlink, mtime=file_mtime, tags=tags + (["check"] if check else []), check=check))
        meta[cid] = members

    variants = [{}, {"names": "cp437"}, {"names": "utf8"}, {"data_descriptor": True}, {"extra_local": UT + UX, "extra_central": UT[:9] + UX}, {"comment": b"archive comment"},
                {"member_comment": b"mc"}, {"jar": True}, {"n": 0}, {"extra_local": UT}, {"prefix": b"#!/bin/sh\nexit 0\n"}, {"shuffle_central": True, "n": 3}, {"shuffle_central": True, "n": 6}]
    reps = 12 if tier == "quick" else 150
    for _ in range(reps):
        for v in variants:
            e = rng.choice(EPOCHS)
            data, members = build_zip(rng, e, v)
            fm = rng.choice([e - 1000, e, e + 1, e + 10 ** 6])
            add(data, e, sorted(v.keys()) or ["plain"], members, handler=rng.choice(["zip", "jar"]), file_mtime=max(fm, 1), nlink=rng.choice([1, 1, 2]), check=rng.random() < 0.25)
    # real tools
    for p in glob.glob(os.path.join(REPO, "tests/cases/jars/*.jar")):
        for e in (1577836800, 946684800):
            add(open(p, "rb").read(), e, ["corpus-jar"], None, "jar", file_mtime=e + 5)
    # python zipfile output
    for _ in range(6 if tier == "quick" else 60):
        bio = io.BytesIO()
        e = rng.choice(EPOCHS[2:5])
        with zipfile.ZipFile(bio, "w", rng.choice([zipfile.ZIP_STORED, zipfile.ZIP_DEFLATED])) as z:
            for i in range(rng.choice([1, 3, 10])):
                dt = datetime.datetime.utcfromtimestamp(e + rng.choice([-10 ** 6, -2, 0, 2, 10 ** 6]))
                zi = zipfile.ZipInfo("py/%d.txt" % i, date_time=(dt.year, dt.month, dt.day, dt.hour, dt.minute, dt.second))
                zi.external_attr = rng.choice([0o100644, 0o100755, 0o120777, 0o40755]) << 16
                z.writestr(zi, rng.randbytes(rng.choice([0, 5, 500])))
        add(bio.getvalue(), e, ["python-zipfile"], None, file_mtime=e + 5)
    # members larger than any plausible copy buffer, of sizes that are no multiple of one, with members after them
    for method in (zipfile.ZIP_STORED, zipfile.ZIP_DEFLATED):
        bio = io.BytesIO()
        e = EPOCHS[2]
        with zipfile.ZipFile(bio, "w", method) as z:
            for i, size in enumerate((10, 200001, 3, 131073 + 4097, 7)):
                dt = datetime.datetime.utcfromtimestamp(e + (10 ** 6 if i % 2 else -10 ** 6))
                zi = zipfile.ZipInfo("big/%d.bin" % i, date_time=(dt.year, dt.month, dt.day, dt.hour, dt.minute, dt.second))
                zi.external_attr = 0o100644 << 16
                z.writestr(zi, bytes((k * 13 + k // 255) % 256 for k in range(size)))
        add(bio.getvalue(), e, ["big-members"], None, file_mtime=e + 5)
    # an epoch later than today's date (inside the DOS range) is used all the same: members later still are clamped to it, not to "now"
    for k in range(4):
        data, members = build_zip(rng, hd.FUTURE_EPOCH, {"rel": "newer", "n": 1 + k})
        add(data, hd.FUTURE_EPOCH, ["future-epoch"], members, handler="zip", file_mtime=hd.FUTURE_EPOCH + 5)
    # a member the tool cannot copy (encrypted; a compression method it has no codec for): refused as a whole, in a real run and under --check
    for kind in ("encrypted", "bzip2", "lzma"):
        for chk in (False, True):
            add(samples.odd_member_zip(kind, 1577836800), 1577836800, ["odd-member", kind], None, file_mtime=1577836800 + 5, check=chk)
    # outside the class / malformed: the crate must fail cleanly
    base, _ = build_zip(rng, 1577836800, {})
    for k in (0, 1, 10, 21, 22, len(base) // 2, len(base) - 1):
        add(base[:k], 1577836800, ["trunc"])
    add(b"PK\x03\x04" + rng.randbytes(100), 1577836800, ["junk"])
    for _ in range(20 if tier == "quick" else 300):
        b = bytearray(base)
        for _ in range(rng.choice([1, 3])):
            b[rng.randrange(len(b))] = rng.randrange(256)
        add(bytes(b), 1577836800, ["flip"])
    add(base, 1000, ["epoch-before-1980"])
    add(base, 4354819200, ["epoch-after-2107"])
    add(base, None, ["no-epoch"])
    return cases, meta


# ------------------------------------------------------------------ independent reader (python zipfile + raw header check)
def read_members(x):
    try:
        zf = zipfile.ZipFile(io.BytesIO(x))
    except Exception:
        return None
    out = []
    for zi in zf.infolist():
        try:
            data = zf.read(zi)
        except Exception:
            data = None
        # local header time words
        lh = x[zi.header_offset:zi.header_offset + 30]
        ltime, ldate = struct.unpack("<HH", lh[10:14]) if len(lh) == 30 else (None, None)
        date, time = dos_words(*zi.date_time)
        # the stored (compressed, possibly encrypted) bytes, for members the reference reader cannot decode
        craw = None
        if len(lh) == 30 and lh[:4] == b"PK\x03\x04":
            nl, xl = struct.unpack("<HH", lh[26:30])
            craw = x[zi.header_offset + 30 + nl + xl:zi.header_offset + 30 + nl + xl + zi.compress_size]
        out.append({"enc": zi.flag_bits & 1, "craw": craw, "name": zi.filename, "method": zi.compress_type, "crc": zi.CRC, "usize": zi.file_size, "data": data, "date": date, "time": time, "ldate": ldate, "ltime": ltime,
                    "unix": (zi.external_attr >> 16) if zi.create_system == 3 else None, "system": zi.create_system})
    return out


def oracle_with_meta(meta):
    def oracle(c, cls, after):
        x = c.data
        fails = []
        if cls.endswith("+tmp"):
            fails.append(("temp-left", "temporary file left behind"))
            cls = cls[:-4]
        if cls in ("Panic", "Abort"):
            return [("panic", "handler panicked")]
        if cls == "InitFail":
            if after != x:
                fails.append(("init-fail-touched", "handler could not initialise but the file changed"))
            return fails
        if (c.check or cls in ("Noop", "BadFormat", "Error")) and after != x:
            fails.append(("untouched-violated", "class %s but bytes changed" % cls))
        if c.check:
            # check mode only predicts: the file stays as it is; the prediction (the class) is compared with the model's, and a
            # well-formed archive with a member later than the epoch must be predicted as one that would be modified
            before = read_members(x)
            e = c.epoch
            if before and e is not None and DOS_LO <= e <= DOS_HI and meta.get(c.cid) is not None and cls == "Noop":
                for i, b in enumerate(before):
                    bu = dos_to_unix(b["date"], b["time"])
                    if bu is not None and bu > e:
                        fails.append(("check-misses-member", "--check reports nothing to do although member %d (%r) is later than the epoch" % (i, b["name"])))
                        break
            return fails
        before = read_members(x)
        if before is None or cls in ("BadFormat", "Error"):
            if before is not None and meta.get(c.cid) is not None and not any(t in c.tags for t in ("flip", "trunc")):
                fails.append(("valid-rejected", "a well-formed archive was rejected as %s" % cls))
            return fails
        if cls == "Noop":
            return fails
        aft = read_members(after)
        if aft is None:
            fails.append(("output-invalid", "the rewritten file is not a valid archive"))
            return fails
        if len(aft) != len(before):
            fails.append(("member-count", "member count %d -> %d" % (len(before), len(aft))))
            return fails
        e = c.epoch
        edt = datetime.datetime.utcfromtimestamp(e - e % 2)
        want_date, want_time = dos_words(edt.year, edt.month, edt.day, edt.hour, edt.minute, edt.second)
        for i, (b, a) in enumerate(zip(before, aft)):
            for k in ("name", "method", "crc", "usize", "enc", "data"):
                if k == "data" and b["data"] is None:
                    # the reference reader cannot decode this member of the input (damaged, encrypted, a method it has no codec for):
                    # then the stored bytes are what has to survive
                    if b["craw"] is not None and a["craw"] != b["craw"]:
                        fails.append(("member-stored-bytes", "member %d (%r): stored bytes changed" % (i, b["name"])))
                    continue
                if a[k] != b[k]:
                    fails.append(("member-" + k, "member %d (%r): %s changed" % (i, b["name"], k)))
            if b["unix"] is not None and b["unix"] != 0:
                if a["unix"] is None or (a["unix"] & 0o170000) != (b["unix"] & 0o170000):
                    fails.append(("member-kind", "member %d (%r): entry kind %o -> %s" % (i, b["name"], b["unix"] & 0o170000, a["unix"] and oct(a["unix"] & 0o170000))))
                elif (a["unix"] & 0o7777) != (b["unix"] & 0o7777):
                    fails.append(("member-perm", "member %d (%r): permission bits %o -> %o" % (i, b["name"], b["unix"] & 0o7777, a["unix"] & 0o7777)))
            t = dos_to_unix(b["date"], b["time"])
            if t is not None and t > e:
                want = (want_date, want_time)
            else:
                want = (b["date"], b["time"])
            if (a["date"], a["time"]) != want:
                fails.append(("member-time", "member %d (%r): time words %s, expected %s (original %s, epoch %d)" % (i, b["name"], (a["date"], a["time"]), want, (b["date"], b["time"]), e)))
            if (a["ldate"], a["ltime"]) != (a["date"], a["time"]):
                fails.append(("local-central-differ", "member %d (%r): local header time %s differs from central %s" % (i, b["name"], (a["ldate"], a["ltime"]), (a["date"], a["time"]))))
        rc = subprocess.run(["unzip", "-tqq", "/dev/stdin"], input=after, capture_output=True) if False else None
        return fails[:6]
    return oracle


def unzip_accepts(ctx, data):
    p = os.path.join(ctx.tmp, "u.zip")
    open(p, "wb").write(data)
    rc, out = sh(["unzip", "-tqq", p], timeout=30)
    return rc == 0, out


def run(ctx):
    rng = random.Random(ctx.seed)
    coq_property(ctx)
    if not hd.prepare(ctx, release=(ctx.tier == "thorough")):
        return
    cases, meta = gen_cases(rng, ctx.tier)
    impl, model, mism = hd.differential(ctx, cases, "zip", model_filter=None)
    # cases outside the modelled class are reported by the model as OutOfClass: not a mismatch
    real_mism = [m for m in mism if not (m[2] is not None and m[2][0] == "OutOfClass")]
    if len(real_mism) != len(mism):
        ctx.obligations[-1] = (ctx.obligations[-1][0] + " [%d archives outside the modelled class skipped]" % (len(mism) - len(real_mism)), not real_mism,
                               "; ".join("%s tags=%s impl=%s model=%s (%s)" % (c.cid, ",".join(c.tags), i and i[0], m and m[0], why) for c, i, m, why in real_mism[:5]))
        if not real_mism and ctx.broken and ctx.broken[-1].startswith("correspondence[zip]"):
            ctx.broken.pop()
    known = hd.known_kinds_for("C03")
    fails = hd.apply_oracle(ctx, cases, impl, oracle_with_meta(meta), known)
    hd.cli_pass(ctx, cases, impl, "zip", "zip")
    hd.domain_pass(ctx, cases, impl, ("zip", "jar"), "C03_output_holds_members")
    # external validity: unzip -t on a sample of rewritten archives
    bad_unzip = []
    nun = 0
    for c in cases:
        r = impl.get(c.cid)
        if r and r[0] in ("Replaced", "Rewritten") and meta.get(c.cid) is not None and nun < 40:
            ok_before, _ = unzip_accepts(ctx, c.data)
            if ok_before:
                nun += 1
                ok, out = unzip_accepts(ctx, r[1])
                if not ok:
                    bad_unzip.append((c, out))
    ctx.oblige("external decoder: unzip -t accepts %d rewritten archives it accepted before" % nun, not bad_unzip, "; ".join("%s: %s" % (c.cid, o[-100:]) for c, o in bad_unzip[:3]))
    ctx.coverage.update({
        "evaluations": len(cases),
        "distinct_nontrivial": hd.distinct_nontrivial(cases, impl),
        "rule": "hand-assembled archives (0..6 members: files, directories, empty members, symlinks; stored/deflated; ASCII, CP437 and UTF-8 names; duplicate names; data descriptors; UT/ux extra "
                "fields; archive and member comments; prepended data; Unix / DOS / other creator systems with set-id, directory and symlink modes; member times older / equal / one grid step above / "
                "newer than the epoch and undecodable DOS dates) x 8 epochs incl. both ends of the DOS range and odd seconds x file mtime on both sides of the epoch x zip/jar x link count; "
                "python-zipfile archives, the repository's jar; truncations, byte flips, epochs outside the DOS range, no epoch; model vs implementation on bytes; python zipfile as "
                "independent reader comparing members and both header copies; unzip -t on rewritten archives; non-trivial = modified",
        "samples": hd.sample_cases(cases, impl), "distribution": hd.distribution(cases, impl),
        "correspondence_mismatches": len(real_mism), "oracle_failures_not_known": len(fails),
    })
    ctx.assumptions += ["zip64, encrypted and multi-disk archives are outside the modelled class (the model reports OutOfClass; only the oracle applies)"]
