"""C13 — only matching regular files under the given paths can change."""
import os
import random
import socket

import fsharness as fh
import fscommon as fc
import handler_diff as hd
import samples
from framework import coq_property, build_model, build_cli, write_replay, model_bin, sh

HANDLERS = ["ar", "gzip"]           # handlers with a byte-level model (extended as models are added)


def build_tree(rng):
    """A tree with an 'args' area and an 'outside' area full of decoys. Returns (tree, set of rel paths that may change)."""
    t = fh.Tree()
    dirty_gz = fc.gz(1700000000)
    dirty_ar = fc.ar([("x.o/", 1700000000, 7, 8, 100644, b"abc")])
    may = set()
    t.mkdir("outside")
    t.add_file("outside/real.gz", dirty_gz)
    t.add_file("outside/lib.a", dirty_ar)
    t.add_file("outside/src.py", b"x\n")
    t.mkdir("outside/dir")
    t.add_file("outside/dir/deep.gz", dirty_gz)
    t.mkdir("args/sub/deeper")
    for rel in ("args/a.gz", "args/sub/b.gz", "args/sub/deeper/c.a", "args/lib.a", "args/with space.gz", "args/.hidden.gz", "args/x.tar.gz"):
        t.add_file(rel, dirty_ar if rel.endswith(".a") else dirty_gz, mode=rng.choice([0o644, 0o600, 0o755]))
        may.add(rel)
    t.add_file("args/clean.gz", fc.gz(5))
    may.add("args/clean.gz")                                    # eligible (stays unchanged anyway)
    # decoys: other / no extension, leading-dot names, upper case, directories named like archives
    for rel in ("args/archive.gzz", "args/archive.gz.bak", "args/noext", "args/.gz", "args/.a", "args/GZ.GZ", "args/lib.A", "args/gz", "args/a", "args/sub/x.agz", "args/t.zipx"):
        t.add_file(rel, dirty_gz if "gz" in rel.lower() else dirty_ar)
    t.mkdir("args/dir.gz")
    t.add_file("args/dir.gz/inner.txt", dirty_gz)
    t.add_file("args/dir.gz/inner.a", dirty_ar)
    may.add("args/dir.gz/inner.a")
    t.mkdir("args/dir.a")
    # temp-like names
    t.add_file("args/.#.other.tmp", dirty_gz)
    t.add_file("args/.#.ghost.gz.tmp", dirty_gz)                # next to nothing
    t.add_file("args/.#.clean.gz.tmp", b"user data")            # next to a clean gzip file (gzip never opens its output for clean files)
    t.mkdir("args/.#.dir.tmp")
    t.add_file("args/.#.dir.tmp/inside.gz", dirty_gz)           # walkdir still descends into the directory
    may.add("args/.#.dir.tmp/inside.gz")
    # a symbolic link squatting on the temporary name of a file that will be rewritten: it may be removed, never followed
    t.add_file("outside/victim.txt", b"precious bytes outside the arguments\n")
    t.symlink("../outside/victim.txt", "args/.#.a.gz.tmp")
    # files of the other handlers, and sources beside pyc files: a regular one (its mtime may be zeroed on request) and a symlink to outside
    for n, (data, hs) in samples.per_handler().items():
        t.add_file("args/all/" + n, data)
        may.add("args/all/" + n)
    t.add_file("args/all/mod.cpython-312.pyc", samples.dirty_pyc())
    may.add("args/all/mod.cpython-312.pyc")
    t.symlink("../../outside/src.py", "args/all/mod.py")
    t.add_file("args/all/p.py", b"x = 1\n")
    may.add("args/all/p.py")
    # symlinks (never followed), to files and directories, inside and outside
    t.symlink("../outside/real.gz", "args/link-out.gz")
    t.symlink("a.gz", "args/link-in.gz")
    t.symlink("../outside/dir", "args/linkdir")
    t.symlink("../outside", "args/linkdir.a")
    t.symlink("nonexistent", "args/dangling.gz")
    # special files with handled extensions
    os.mkfifo(t.path("args/fifo.gz"))
    os.mkfifo(t.path("args/sub/fifo.a"))
    s = socket.socket(socket.AF_UNIX)
    s.bind(t.path("args/sock.gz"))
    s.close()
    # hard link from outside into the tree (content of the shared inode is allowed to change, C09)
    t.link("args/lib.a", "outside/hard.bin")
    may.add("outside/hard.bin")
    # siblings of the arguments
    t.add_file("sibling.gz", dirty_gz)
    t.add_file("args.gz", dirty_gz)
    return t, may


def judge(before, after, may):
    fails = []
    for rel in sorted(set(before) | set(after)):
        b, a = before.get(rel), after.get(rel)
        if b is None:
            fails.append(("entry-added", "directory entry %s appeared" % rel))
            continue
        if a is None:
            if rel == "args/.#.a.gz.tmp" and "args/a.gz" in may:
                continue                                # a stale temporary name next to a rewritten file is the tool's to remove
            fails.append(("entry-removed", "directory entry %s disappeared" % rel))
            continue
        if b["kind"] == "D":
            bb, aa = dict(b, mtime_ns=None), dict(a, mtime_ns=None)
            holds_eligible = any(os.path.dirname(m) == (rel if rel != "." else "") for m in may)
            if bb != aa or (not holds_eligible and b["mtime_ns"] != a["mtime_ns"]):
                fails.append(("directory-changed", "directory %s changed (%s)" % (rel, "metadata" if bb != aa else "mtime although it holds no eligible file")))
            continue
        if rel in may:
            if a["kind"] != "R":
                fails.append(("kind-changed", "%s is no longer a regular file" % rel))
            continue
        if {k: b.get(k) for k in b} != {k: a.get(k) for k in a}:
            what = [k for k in b if b.get(k) != a.get(k)]
            fails.append(("ineligible-changed", "%s (%s) changed: %s" % (rel, {"R": "regular file", "L": "symlink", "S": "special file"}[b["kind"]], what)))
    return fails


def brp_matrix(ctx, fails, mism):
    """--brp x RPM_BUILD_ROOT x arguments: abort before anything is touched."""
    t = fh.Tree()
    n = 0
    try:
        t.add_file("root/usr/a.gz", fc.gz(1700000000))
        t.add_file("root2/b.gz", fc.gz(1700000000))
        R = t.path("root")
        roots = [None, "", "/", "///.///", R, R + "/", R + "//./", t.path("root/./usr/.."), t.path("roo"), "relative/root", R + "/usr"]
        argsets = [[R + "/usr"], [R + "/usr/a.gz"], [R + "/./usr/"], [t.path("root2")], [R + "/usr", t.path("root2")], [t.path("root/../root2")], [R], [R + "2"], ["."], [".."]]
        lines = []
        reals = []
        for ri, r in enumerate(roots):
            for ai, args in enumerate(argsets):
                before = fh.snapshot(t.root)
                env = {} if r is None else {"RPM_BUILD_ROOT": r}
                tr = os.path.join(ctx.tmp, "brp-trace.txt")
                rc, out = fh.run_cli(["--brp", "--handler", "gzip"] + args, epoch=samples.EPOCH, env_extra=env, cwd=R, strace_out=tr)
                after = fh.snapshot(t.root)
                ops, _ = fh.parse_strace(tr, t.root)
                n += 1
                aborted = fh.parse_summary(out) is None
                label = "RPM_BUILD_ROOT=%r args=%s" % (r, args)
                if aborted and (fh.snap_equal(before, after) or [o for o in ops if o["kind"] != "devnull"]):
                    fails.append(("brp-abort-touched", "%s: aborted but touched the tree / opened files: %s" % (label, [o["kind"] for o in ops][:5]), label))
                if aborted and rc == 0:
                    fails.append(("brp-abort-exit0", "%s: aborted with exit 0" % label, label))
                # the documented rule, independently
                def comps(s):
                    c = [x for x in s.split("/") if x not in ("", ".")]
                    return (["/"] if s.startswith("/") else (["."] if s.split("/")[0] == "." else [])) + c
                want_abort = r is None or r == "" or comps(r) == ["/"] or any(comps(a)[:len(comps(r))] != comps(r) for a in args)
                if aborted != want_abort:
                    fails.append(("brp-rule", "%s: %s but the documented rule says %s" % (label, "aborted" if aborted else "ran", "abort" if want_abort else "run"), label))
                # the rule does not depend on how the work is then carried out: with workers, in check mode, verbosely
                if want_abort and aborted:
                    for extra in (["-j2"], ["--check"], ["-v", "-j1"], ["--check", "-j3"]):
                        rc2, out2 = fh.run_cli(["--brp"] + extra + ["--handler", "gzip"] + args, epoch=samples.EPOCH, env_extra=env, cwd=R, timeout=60)
                        after2 = fh.snapshot(t.root)
                        n += 1
                        if fh.parse_summary(out2) is not None or rc2 == 0 or fh.snap_equal(before, after2):
                            fails.append(("brp-rule", "%s with %s: %s (exit %d) although the documented rule says abort, as the run without these options does; tree %s" % (
                                label, " ".join(extra), "ran" if fh.parse_summary(out2) is not None else "aborted", rc2, "changed" if fh.snap_equal(before, after2) else "unchanged"), label + " " + " ".join(extra)))
                            after = after2
                            break
                lines.append("B b%d_%d 1 %s %s" % (ri, ai, "-" if r is None else ("E" if r == "" else r.encode().hex()), " ".join(a.encode().hex() for a in args)))
                reals.append(("b%d_%d" % (ri, ai), aborted, label))
                # restore
                for rel, e in before.items():
                    if e["kind"] == "R" and after.get(rel, {}).get("data") != e["data"]:
                        t.add_file(rel, e["data"])
        cf = os.path.join(ctx.tmp, "brp.txt")
        open(cf, "w").write("\n".join(lines) + "\n")
        rcm, mout = sh([model_bin(), cf, "debug", "cfg"], timeout=120)
        mv = dict(l.split() for l in mout.split("\n") if len(l.split()) == 2)
        for cid, aborted, label in reals:
            if mv.get(cid) != ("ABORT" if aborted else "PASS"):
                mism.append((label, "model brp_check %s vs implementation %s" % (mv.get(cid), "ABORT" if aborted else "PASS")))
    finally:
        t.remove()
    return n


def run(ctx):
    rng = random.Random(ctx.seed)
    coq_property(ctx)
    ok, out = build_model()
    ctx.oblige("build: models extract and the OCaml runner builds", ok, out[-300:])
    ok2, out2 = build_cli()
    ctx.oblige("build: CLI builds from /repo's current tree", ok2, out2[-500:])
    if not (ok and ok2):
        return
    fails, mism = [], []
    nruns = 0
    samples_out = []
    argsets = [["args"], ["args/sub", "args/a.gz"], ["args/link-out.gz", "args/linkdir", "args/fifo.gz", "args/sub"], ["args", "args", "args/sub"], ["args/a.gz", "args/dir.gz", "args/.#.other.tmp"]]
    modes = [[], ["--check"], ["-j3"]] if ctx.tier == "quick" else [[], ["--check"], ["-j3"], ["-j1", "--check"], ["--ignore-extension-not"]][:4]
    for ai, args in enumerate(argsets):
        for mode in modes:
            t, may = build_tree(rng)
            try:
                # restrict "may change" to what lies under the arguments (no symlink traversal)
                may_here = set()
                for m in may:
                    for a in args:
                        if os.path.islink(t.path(a)):
                            continue
                        if m == a or m.startswith(a.rstrip("/") + "/"):
                            may_here.add(m)
                if "args/lib.a" in may_here:
                    may_here.add("outside/hard.bin")
                if "--check" in mode:
                    may_here = set()
                if sum(1 for f in fails if f[0] == "hang") >= 2:
                    continue          # two runs did not come back: reported, the remaining configurations would only wait the same way
                before = fh.snapshot(t.root, with_dir_mtime=True)
                cmd = ["-v", "--handler", ",".join(HANDLERS)] + mode + [t.path(a) for a in args]
                rc, out = fh.run_cli(cmd, epoch=samples.EPOCH, timeout=60)
                after = fh.snapshot(t.root, with_dir_mtime=True)
                nruns += 1
                label = "args=%s %s" % (args, " ".join(mode))
                if rc == 124:
                    fails.append(("hang", "%s: did not terminate (special file opened?)" % label, label))
                    continue
                for kind, msg in judge(before, after, may_here):
                    fails.append((kind, "%s: %s" % (label, msg), label))
                summ = fh.parse_summary(out)
                if len(samples_out) < 3:
                    samples_out.append({"case": label, "summary": summ, "entries_visited": len(fh.visiting_order(out))})
                # model: same entries in the order the implementation visited them (serial modes only)
                if "-j3" not in mode and "-j1" not in mode:
                    nodes, inos = fh.nodes_with_dirs(t.root, before)
                    entries = [p.encode() for p in fh.visiting_order(out)]
                    mres = fh.model_walk_run(ctx, [{"id": "w", "nodes": nodes, "handlers": HANDLERS, "epoch": samples.EPOCH, "check": "--check" in mode,
                                                     "entries": entries, "uid": os.getuid(), "gid": os.getgid(), "can_chown": os.getuid() == 0}]).get("w", {})
                    if mres.get("stats") is None or summ is None:
                        mism.append((label, "no model/implementation summary"))
                    else:
                        ms = mres["stats"]
                        for k in ("directories", "files", "processed", "replaced", "rewritten", "unsupported", "errors"):
                            if ms[k] != summ[k]:
                                mism.append((label, "counter %s: model %d vs implementation %d" % (k, ms[k], summ[k])))
                        for pb, o in mres["obs"].items():
                            rel = os.path.relpath(pb.decode(), t.root)
                            r = after.get(rel)
                            if (o is None) != (r is None):
                                mism.append((label, "%s: presence differs (model %s)" % (rel, "absent" if o is None else "present")))
                            elif o is not None and r["kind"] == "R" and (o["data"] != r["data"] or o["mode"] != r["mode"]):
                                mism.append((label, "%s: content/mode differs from the model" % rel))
            finally:
                t.remove()
    # every handler, the opt-in one included (no model replay: judged by the snapshots only)
    for args in (["args"], ["args/all", "args/a.gz"]):
        for mode in ([], ["--check"], ["-j3"]):
            t, may = build_tree(rng)
            try:
                may_here = set(m for m in may for a in args if m == a or m.startswith(a.rstrip("/") + "/"))
                if "args/lib.a" in may_here:
                    may_here.add("outside/hard.bin")
                if "--check" in mode:
                    may_here = set()
                if sum(1 for f in fails if f[0] == "hang") >= 2:
                    continue
                before = fh.snapshot(t.root, with_dir_mtime=True)
                rc, out = fh.run_cli(["--handler", "ar,jar,javadoc,gzip,pyc,pyc-zero-mtime,zip"] + mode + [t.path(a) for a in args], epoch=samples.EPOCH, timeout=60)
                after = fh.snapshot(t.root, with_dir_mtime=True)
                nruns += 1
                label = "all handlers args=%s %s" % (args, " ".join(mode))
                if rc == 124:
                    fails.append(("hang", "%s: did not terminate" % label, label))
                    continue
                for kind, msg in judge(before, after, may_here):
                    fails.append((kind, "%s: %s" % (label, msg), label))
            finally:
                t.remove()
    # one handler at a time: only files with that handler's extension may change (a jar is no business of the zip handler, and so on)
    for h, ext in (("jar", ".jar"), ("zip", ".zip"), ("gzip", ".gz"), ("ar", ".a"), ("javadoc", ".html"), ("pyc", ".pyc")):
        for mode in ([], ["-j2"]):
            if sum(1 for f in fails if f[0] == "hang") >= 2:
                continue
            t, may = build_tree(rng)
            try:
                may_here = set(m for m in may if m.endswith(ext))
                if "args/lib.a" in may_here:
                    may_here.add("outside/hard.bin")
                before = fh.snapshot(t.root, with_dir_mtime=True)
                rc, out = fh.run_cli(["--handler", h] + mode + [t.path("args")], epoch=samples.EPOCH, timeout=60)
                after = fh.snapshot(t.root, with_dir_mtime=True)
                nruns += 1
                label = "--handler %s %s" % (h, " ".join(mode))
                if rc == 124:
                    fails.append(("hang", "%s: did not terminate" % label, label))
                    continue
                for kind, msg in judge(before, after, may_here):
                    fails.append((kind, "%s: %s" % (label, msg), label))
            finally:
                t.remove()
    nb = brp_matrix(ctx, fails, mism) if True else 0
    ctx.oblige("correspondence[walk]: counters and final tree of the serial runs = model (Walk.walk on the visited entries); brp_check = model on %d combinations" % nb,
               not mism, "; ".join("%s: %s" % x for x in mism[:4]))
    known = hd.known_kinds_for("C13")
    seen = set()
    for kind, msg, label in fails:
        if kind in seen:
            continue
        seen.add(kind)
        d = write_replay(ctx, kind, {}, {"failure": msg, "kind": kind, "case": label,
                                         "how_to_replay": "tree of lib/props/C13.py:build_tree (args/ with eligible files and decoys, outside/ with targets); run add-determinism --handler ar,gzip <mode> <args>; diff snapshots"})
        ctx.violations.append({"replay": d, "kind": kind, "msg": msg})
    ctx.coverage.update({
        "evaluations": nruns + nb, "distinct_nontrivial": nruns + nb - 1,
        "rule": "trees with eligible files plus decoys (other/no extension, '.gz'/'.a' names, upper case, directories named like archives, temp-like names incl. a temp-named directory, "
                "symlinks to files/directories inside and outside, dangling symlink, FIFOs and a socket with handled extensions, a hard link from outside, siblings of the arguments) x 5 argument "
                "sets (directories, files, symlink/special-file arguments, duplicates) x {real, --check, -j3}; whole-tree snapshots incl. directory mtimes judged by the property; serial runs "
                "replayed through the model walk in the implementation's visiting order; --brp x 11 RPM_BUILD_ROOT values x 10 argument sets under strace (abort before any open), every aborting combination again with -j2 / --check / -v -j1 / --check -j3",
        "samples": samples_out, "correspondence_mismatches": len(mism), "oracle_failures": len(fails),
    })
    ctx.assumptions += ["walkdir's enumeration is taken from the implementation's own -v log (the model replays it)",
                        "a user file named exactly .#.NAME.tmp next to a file NAME that gets rewritten is reserved for the tool (stale-temp removal, needed by C12)"]
