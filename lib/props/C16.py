"""C16 — --handler selects exactly the documented set of handlers."""
import itertools
import os
import random

import fsharness as fh
import samples
from framework import coq_property, build_model, build_cli, write_replay, model_bin, sh

NAMES = ["ar", "jar", "javadoc", "gzip", "pyc", "zip", "pyc-zero-mtime"]
DEFAULTS = ["ar", "jar", "javadoc", "gzip", "pyc", "zip"]
NEEDS_EPOCH = {"gzip", "zip", "jar"}


def usable(n, epoch):
    """Can handler n start with this $SOURCE_DATE_EPOCH?  (documented: a negative value is ignored; gzip stores 32 bits; zip/jar store DOS times, 1980-2107)"""
    if n not in NEEDS_EPOCH:
        return True
    if epoch is None or epoch < 0:
        return False
    if n == "gzip":
        return epoch < 2 ** 32
    return 315532800 <= epoch <= 4354819199


def documented(items, epoch):
    """The documented behaviour, written independently of the code: returns ("error", None) or ("ok", set of handlers that run)."""
    if not items:
        sel, strict = list(DEFAULTS), False
    else:
        neg = [x for x in items if x.startswith("-")]
        pos = [x for x in items if not x.startswith("-")]
        if neg and pos:
            return "error", None
        if any((x[1:] if x.startswith("-") else x) not in NAMES for x in items):
            return "error", None
        sel = [n for n in NAMES if n in pos] if pos else [n for n in DEFAULTS if ("-" + n) not in neg]
        if not sel:
            return "error", None
        strict = True
    run = []
    for n in sel:
        ok = usable(n, epoch)
        if not ok and strict:
            return "error", None
        if ok:
            run.append(n)
    return "ok", set(run)


def selections(rng, tier):
    out = []
    for r in range(0, 8):
        for comb in itertools.combinations(NAMES, r):
            out.append(list(comb))
            if comb:
                out.append(["-" + x for x in comb])
    extra = [["ar", "-pyc"], ["-ar", "gzip"], ["foo"], ["-foo"], ["ar", "foo"], [""], ["ar", ""], ["--ar"], ["AR"], ["ar", "ar"], ["-ar", "-ar"],
             ["pyc-zero-mtime"], ["zip", "ar"], ["-pyc-zero-mtime"]]
    return out, extra


def run(ctx):
    rng = random.Random(ctx.seed)
    coq_property(ctx)
    ok, out = build_model()
    ctx.oblige("build: models extract and the OCaml runner builds", ok, out[-300:])
    ok2, out2 = build_cli()
    ctx.oblige("build: CLI builds from /repo's current tree", ok2, out2[-500:])
    if not (ok and ok2):
        return
    base, extra = selections(rng, ctx.tier)
    files = samples.per_handler()
    cases = []
    for items in base + extra:
        for epoch in (samples.EPOCH, None):
            cases.append((items, epoch, "one", []))
    # epochs some handlers cannot use: beyond 32 bits, before 1980, negative
    for items in rng.sample(base, 12 if ctx.tier == "quick" else 80) + [[], ["gzip"], ["zip"], ["-ar"], ["-gzip"], ["jar", "gzip"]]:
        for epoch in (5894967296, 100000000, -5, 4354819200, 0, 1):      # (values at which the sample files of the usable handlers are still dirty; 0 is an epoch, not "none")
            cases.append((items, epoch, "one", rng.choice([[], [], ["-j2"]])))
    # the same under the options of an rpm build (--brp with the tree inside $RPM_BUILD_ROOT), which change reporting but not selection
    for items in [[], ["gzip"], ["zip"], ["jar", "gzip"], ["-ar"], ["ar", "zip"]]:
        for epoch in (samples.EPOCH, 5894967296, -5):
            for extra_args in (["--brp"], ["--brp", "-j2"], ["-v"]):
                cases.append((items, epoch, "one", extra_args))
    # split over several --handler options, and with workers
    for items in rng.sample([b for b in base if len(b) >= 2], 24 if ctx.tier == "quick" else 120) + extra[:4]:
        cases.append((items, samples.EPOCH, "split", []))
    for items in rng.sample(base, 24 if ctx.tier == "quick" else 254) + extra[:6]:
        cases.append((items, rng.choice([samples.EPOCH, None]), "one", ["-j2"]))
    # model side
    cf = os.path.join(ctx.tmp, "cfg.txt")
    with open(cf, "w") as f:
        for i, (items, epoch, how, extra_args) in enumerate(cases):
            f.write("S c%d %s %s\n" % (i, "-" if epoch is None else epoch, ",".join(items) if items else "-"))
    rc, mout = sh([model_bin(), cf, "debug", "cfg"], timeout=300)
    model = {}
    for l in mout.split("\n"):
        t = l.split(" ", 2)
        if len(t) >= 2:
            model[t[0]] = (t[1], t[2] if len(t) > 2 else "")
    mism, fails = [], []
    t = fh.Tree()
    distinct = set()
    samples_out = []
    try:
        for i, (items, epoch, how, extra_args) in enumerate(cases):
            # fresh files each time (cheap)
            for n, (data, _) in files.items():
                t.add_file("d/" + n, data, mtime_ns=1_700_000_000_000_000_000)
            args = list(extra_args)
            if items:
                if how == "split":
                    for x in items:
                        args.append("--handler=" + x)
                else:
                    args.append("--handler=" + ",".join(items))
            args.append(t.path("d"))
            rc, out = fh.run_cli(args, epoch=epoch, timeout=60, env_extra=({"RPM_BUILD_ROOT": t.root} if "--brp" in extra_args else None))
            after = {n: open(t.path("d/" + n), "rb").read() for n in files}
            acted = set()
            for n, (data, hs) in files.items():
                if after[n] != data:
                    if n == "p.pyc":
                        acted |= samples.pyc_changes(data, after[n])
                    else:
                        acted.add(hs[0])
            summ = fh.parse_summary(out)
            real = ("error", None) if (summ is None) else ("ok", acted)
            want = documented(items, epoch)
            label = "--handler %s (%s) epoch=%s %s" % (",".join(items) if items else "<none>", how, epoch, " ".join(extra_args))
            distinct.add((tuple(items), epoch is None, how, tuple(extra_args)))
            if len(samples_out) < 4 and i % 97 == 0:
                samples_out.append({"case": label, "acted": sorted(acted), "exit": rc})
            if real[0] == "error" and (acted or rc == 0):
                fails.append(("error-but-touched", "%s: selection error reported (exit %d) but files changed: %s" % (label, rc, sorted(acted)), label))
            if real != want:
                fails.append(("selection-differs", "%s: documented %s, observed %s (exit %d)" % (label, want, real, rc), label))
            m = model.get("c%d" % i)
            if m is None:
                mism.append((label, "no model result"))
            else:
                mreal = ("error", None) if m[0] in ("SELERR", "INITERR") else ("ok", set(x for x in m[1].split("|")[-1].strip().split(",") if x))
                if mreal != real:
                    mism.append((label, "model %s vs implementation %s" % (mreal, real)))
    finally:
        t.remove()
    ctx.oblige("correspondence[config]: selection + initialisation of %d command lines = model (Config.requested_handlers, make_handlers)" % len(cases),
               not mism, "; ".join("%s: %s" % x for x in mism[:4]))
    seen = set()
    for kind, msg, label in fails:
        if kind in seen:
            continue
        seen.add(kind)
        d = write_replay(ctx, kind, {}, {"failure": msg, "kind": kind, "case": label,
                                         "how_to_replay": "directory with one dirty file per handler (a.a g.gz h.html p.pyc z.zip j.jar); run the stated command line; see which files changed"})
        ctx.violations.append({"replay": d, "kind": kind, "msg": msg})
    ctx.coverage.update({
        "evaluations": len(cases), "distinct_nontrivial": len(distinct),
        "rule": "all 2*2^7 positive and negative subsets of the seven handler names plus mixed / unknown / empty / duplicated / upper-case forms, each with and without "
                "SOURCE_DATE_EPOCH, a sample split over several --handler options, a sample with -j2, and selections under --brp / --brp -j2 / -v with usable and unusable epochs, applied to a tree holding one dirty file per handler; "
                "observed: which files changed (for the .pyc which of the two handlers acted), exit status; compared with the documented function (python) and with the model",
        "samples": samples_out, "exhaustive": True, "correspondence_mismatches": len(mism), "oracle_failures": len(fails),
    })
    ctx.assumptions += ["clap's option parsing is not modelled; only the resulting list of --handler items is"]
