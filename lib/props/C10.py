"""C10 — --check changes nothing and predicts exactly what a real run would do."""
import os
import random

import fsharness as fh
import fscommon as fc
import handler_diff as hd
import samples
from framework import coq_property, build_model, build_cli, write_replay

ALL_HANDLERS = ["ar", "jar", "javadoc", "gzip", "pyc", "pyc-zero-mtime", "zip"]


def all_handler_runs(ctx, fails):
    """Every handler (the opt-in one included), one dirty file each, single-link and hard-linked: --check under strace issues no
    mutating call, leaves the tree (directory mtimes included) as it was, and reports what a real run on an identical tree reports."""
    res = []
    for sel in ALL_HANDLERS + [",".join(ALL_HANDLERS)]:
        for linked in (False, True):
            def build():
                t = fh.Tree()
                for n, (data, hs) in samples.per_handler().items():
                    t.add_file("d/" + n, data, mtime_ns=1_650_000_000_000_000_000)
                    if linked:
                        t.link("d/" + n, "d/second-" + n)
                t.add_file("d/p.py", b"x = 1\n", mtime_ns=1_650_000_000_000_000_000)         # sibling source of p.pyc
                # archives that are older than the epoch as files, with a member later than the epoch followed by members that are not
                t.add_file("d/mixed.zip", samples.mixed_zip(), mtime_ns=(samples.EPOCH - 1000) * 10 ** 9)
                t.add_file("d/mixed.jar", samples.mixed_zip(), mtime_ns=(samples.EPOCH - 1000) * 10 ** 9)
                t.add_file("d/invalid-date.zip", samples.invalid_date_zip(), mtime_ns=(samples.EPOCH - 1000) * 10 ** 9)
                if "," in sel:
                    # archives with a member the real run refuses to copy (encrypted; a compression method it has no codec for): --check has to refuse them too
                    for kind in ("encrypted", "bzip2", "lzma"):
                        t.add_file("d/odd-%s.zip" % kind, samples.odd_member_zip(kind), mtime_ns=1_650_000_000_000_000_000)
                return t
            label = "--check --handler %s%s" % (sel, " (hard-linked files)" if linked else "")
            t = build()
            try:
                before = fh.snapshot(t.root, with_dir_mtime=True)
                tr = os.path.join(ctx.tmp, "trace-all-%s-%d.txt" % (sel.replace(",", "_"), linked))
                rc, out = fh.run_cli(["--check", "--handler", sel, t.path("d")], epoch=samples.EPOCH, strace_out=tr)
                mid = fh.snapshot(t.root, with_dir_mtime=True)
                # the same through worker processes, with every combination of the options that are forwarded to them
                for extra in (["-j2"], ["-v", "-j3"], ["-v"], ["--brp", "-j2"], ["--brp"]):
                    rcx, outx = fh.run_cli(["--check"] + extra + ["--handler", sel, t.path("d")], epoch=samples.EPOCH, timeout=120,
                                           env_extra=({"RPM_BUILD_ROOT": t.root} if "--brp" in extra else None))
                    dx = fh.snap_equal(mid, fh.snapshot(t.root, with_dir_mtime=True))
                    if dx:
                        fails.append((label + " " + " ".join(extra), "check-modified-tree", "--check %s --handler %s changed the tree: %s" % (" ".join(extra), sel, "; ".join(dx[:4]))))
                    sx = fh.parse_summary(outx)
                    if rcx != rc or (sx is not None and fh.parse_summary(out) is not None and any(sx[k] != fh.parse_summary(out)[k] for k in ("processed", "replaced", "rewritten", "unsupported", "errors"))):
                        fails.append((label + " " + " ".join(extra), "check-parallel-differs", "--check %s --handler %s: exit %d %s, plain --check: exit %d %s" % (" ".join(extra), sel, rcx, sx, rc, fh.parse_summary(out))))
                after = fh.snapshot(t.root, with_dir_mtime=True)
                ops, _ = fh.parse_strace(tr, t.root)
                s = fh.parse_summary(out)
            finally:
                t.remove()
            t2 = build()
            try:
                rc2, out2 = fh.run_cli(["--handler", sel, t2.path("d")], epoch=samples.EPOCH)
                s2 = fh.parse_summary(out2)
            finally:
                t2.remove()
            d = fh.snap_equal(before, after)
            if d:
                fails.append((label, "check-modified-tree", "%s changed the tree: %s" % (label, "; ".join(d[:4]))))
            mut = [k for k, r in fh.collapse(ops) if k in MUTATING]
            if mut:
                fails.append((label, "check-mutating-syscall", "%s issued mutating operations: %s" % (label, mut)))
            if s != s2:
                fails.append((label, "check-predicts-wrong", "%s reported %s but a real run reports %s" % (label, s, s2)))
            want_fail = s2 is not None and (s2["errors"] > 0 or s2["unsupported"] > 0 or s2["modified"] > 0)
            if (rc != 0) != want_fail:
                fails.append((label, "check-verdict", "%s exit status %d but a real run reports %s" % (label, rc, s2)))
            res.append({"case": label, "check_summary": s, "real_summary": s2, "exit": rc})
    return res

MUTATING = {"creat", "creat-nonexcl", "unlink", "writep", "fchmod", "chmod-path", "futimens", "utimens-path", "lchown", "chown-follow", "fchown",
            "rename", "openw", "openw-trunc", "truncate", "link", "linkat", "symlink", "symlinkat", "mkdir", "mkdirat", "rmdir", "mknod", "mknodat"}


def scenarios(rng, tier):
    out = []
    for h, tag, data, e in fc.contents(rng):
        for nl in (1, 2):
            out.append(fc.Scenario(h, tag, data, e, mode=rng.choice([0o644, 0o4755, 0o400]), mtime_ns=fc.NOW_NS - rng.randrange(10 ** 6),
                                   uid=rng.choice([0, 1234]), gid=0, nlink=nl, check=True, stale=(rng.random() < 0.2)))
    return out


def run(ctx):
    rng = random.Random(ctx.seed)
    coq_property(ctx)
    ok, out = build_model()
    ctx.oblige("build: models extract and the OCaml runner builds", ok, out[-300:])
    ok2, out2 = build_cli()
    ctx.oblige("build: CLI builds from /repo's current tree", ok2, out2[-500:])
    if not (ok and ok2):
        return
    known = hd.known_kinds_for("C10")
    scs = scenarios(rng, ctx.tier)
    runs, mcases, mism, fails = [], [], [], []
    try:
        for i, sc in enumerate(scs):
            r = fc.traced_run(ctx, sc, "c%d" % i)
            r["sc"] = sc
            runs.append(r)
            mcases.append(r["mcase"])
        mres = fh.model_fs_run(ctx, mcases)
        for i, r in enumerate(runs):
            sc = r["sc"]
            cls = fc.class_of_summary(r["summary"])
            m = mres.get("c%d" % i, {})
            if cls != m.get("class"):
                mism.append((sc, "class real %s vs model %s" % (cls, m.get("class"))))
            rt = fh.collapse(r["ops"], target=r["t"].path("d/" + sc.name))
            mt = fh.model_trace(m.get("trace", ""))
            if rt != mt:
                mism.append((sc, "operation trace real %s vs model %s" % (rt, mt)))
            # --- oracle 1: nothing on disk changed (content, metadata, directory entries, directory mtimes)
            d = fh.snap_equal(r["before"], r["after"])
            if d:
                fails.append((sc, "check-modified-tree", "--check changed the tree: " + "; ".join(d[:4])))
            mut = [k for k, res in rt if k in MUTATING]
            if mut:
                fails.append((sc, "check-mutating-syscall", "--check issued mutating operations: %s" % mut))
            # --- oracle 2: same counts and verdict as a real run on an identical tree
            sc2 = fc.Scenario(sc.handler, sc.tag, sc.data, sc.epoch, sc.mode, sc.mtime_ns, sc.uid, sc.gid, sc.nlink, False, sc.stale)
            t2 = sc2.build()
            try:
                rc2, out2 = fh.run_cli(sc2.args(t2), epoch=sc2.epoch)
                s2 = fh.parse_summary(out2)
            finally:
                t2.remove()
            if s2 != r["summary"]:
                fails.append((sc, "check-predicts-wrong", "--check reported %s but a real run reports %s" % (r["summary"], s2)))
            want_fail = s2 is not None and (s2["errors"] > 0 or s2["unsupported"] > 0 or s2["modified"] > 0)
            if (r["rc"] != 0) != want_fail:
                fails.append((sc, "check-verdict", "--check exit status %d but a real run: %s" % (r["rc"], s2)))
            # --- the same with worker processes
            t3 = sc.build()
            try:
                b3 = fh.snapshot(t3.root, with_dir_mtime=True)
                rc3, out3 = fh.run_cli(["-j2"] + sc.args(t3), epoch=sc.epoch, timeout=60)
                a3 = fh.snapshot(t3.root, with_dir_mtime=True)
                d3 = fh.snap_equal(b3, a3)
                if d3:
                    fails.append((sc, "check-modified-tree-parallel", "--check -j2 changed the tree: " + "; ".join(d3[:4])))
                s3 = fh.parse_summary(out3)
                if s3 is None or any(s3[k] != s2[k] for k in ("processed", "replaced", "rewritten", "unsupported", "errors")) or ((rc3 != 0) != want_fail):
                    fails.append((sc, "check-parallel-differs", "--check -j2 reported %s exit %d, real run reports %s" % (s3, rc3, s2)))
            finally:
                t3.remove()
        afails = []
        ares = all_handler_runs(ctx, afails)
        aseen = set()
        for label, kind, msg in afails:
            if kind in known or kind in aseen:
                continue
            aseen.add(kind)
            d = write_replay(ctx, kind + ":all-handlers", {n: data for n, (data, hs) in samples.per_handler().items()},
                             {"failure": msg, "kind": kind, "case": label, "epoch": samples.EPOCH,
                              "how_to_replay": "put the files into a directory d (with a second hard link each if stated, plus p.py); SOURCE_DATE_EPOCH=<epoch> add-determinism <case> d"})
            ctx.violations.append({"replay": d, "kind": kind, "msg": msg})
        ctx.oblige("correspondence[fs/check]: class and operation trace of %d --check runs = model (Helper.run_handler, mode Check)" % len(runs),
                   not mism, "; ".join("%s: %s" % (sc.label(), why) for sc, why in mism[:4]))
        seen = set()
        for sc, kind, msg in fails:
            if kind in known:
                if kind not in seen:
                    ctx.known.append("%s: %s [e.g. %s]" % (known[kind]["id"], known[kind]["what"], sc.label()))
                seen.add(kind)
                continue
            if kind in seen:
                continue
            seen.add(kind)
            d = write_replay(ctx, kind, fc.replay_files(sc), fc.replay_info(sc, failure=msg, kind=kind))
            ctx.violations.append({"replay": d, "kind": kind, "msg": msg})
        ctx.coverage.update({
            "evaluations": len(runs) * 3 + len(ares) * 2,
            "all_handler_runs": ares[:: max(1, len(ares) // 4)],
            "distinct_nontrivial": len(set((r["sc"].handler, r["sc"].tag, r["sc"].nlink) for r in runs if fc.class_of_summary(r["summary"]) not in ("Noop", None))),
            "rule": "every content class (dirty, big, clean, malformed in several ways) of the modelled handlers x link count 1/2 x stale temp: --check under strace "
                    "(snapshot incl. directory mtimes before/after, no mutating syscall), a real run on an identical tree (counts and verdict must agree), and --check -j2; "
                    "plus every one of the 7 handlers (and all together) on a tree with one dirty file per handler, single-link and hard-linked, --check under strace vs a real run; "
                    "non-trivial = --check reports something other than 'nothing to do'",
            "samples": [{"scenario": r["sc"].label(), "summary": r["summary"], "exit": r["rc"]} for r in runs[:3]],
            "traces_validated_against_impl": len(runs) + len(ares), "correspondence_mismatches": len(mism), "oracle_failures": len(fails) + len(afails),
        })
    finally:
        for r in runs:
            r["t"].remove()
    ctx.assumptions += ["the operation-trace correspondence with the model covers gzip and ar; the other handlers are judged by the strace/snapshot oracle"]
