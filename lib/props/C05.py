"""C05 — gzip payload and framing preserved; only MTIME clamped."""
import random
import struct
import zlib

from framework import Case, coq_property
import handler_diff as hd


# ------------------------------------------------------------------ independent RFC 1952 reader (oracle side)
def gz_parse(x):
    if len(x) < 10 or x[0] != 31 or x[1] != 139:
        return None
    flg = x[3]
    h = {"cm": x[2], "flg": flg, "mtime": struct.unpack("<I", x[4:8])[0], "xfl": x[8], "os": x[9], "extra": None, "name": None, "comment": None, "hcrc": None}
    p = 10
    if flg & 4:
        if p + 2 > len(x):
            return None
        n = x[p] + 256 * x[p + 1]
        p += 2
        if p + n > len(x):
            return None
        h["extra"] = x[p:p + n]
        p += n
    for bit, key in ((8, "name"), (16, "comment")):
        if flg & bit:
            q = x.find(b"\0", p)
            if q < 0:
                return None
            h[key] = x[p:q]
            p = q + 1
    if flg & 2:
        if p + 2 > len(x):
            return None
        h["hcrc"] = x[p] + 256 * x[p + 1]
        h["hcrc_ok"] = (zlib.crc32(x[:p]) & 0xFFFF) == h["hcrc"]
        h["hcrc_pos"] = p
        p += 2
    h["body_off"] = p
    return h


def zlib_accepts(x):
    """Decode all members with zlib (wbits=31 checks header CRC and trailer). Returns payload or None."""
    out = b""
    data = x
    try:
        while data:
            d = zlib.decompressobj(31)
            out += d.decompress(data)
            out += d.flush()
            if not d.eof:
                return None
            data = d.unused_data
        return out
    except zlib.error:
        return None


def make_member(rng, flg, mtime, payload, xfl=None, os_=None, good_hcrc=True):
    hdr = bytes([31, 139, 8, flg]) + struct.pack("<I", mtime) + bytes([rng.choice([0, 2, 4]) if xfl is None else xfl, rng.choice([0, 3, 255]) if os_ is None else os_])
    if flg & 4:
        ex = bytes(rng.randrange(256) for _ in range(rng.choice([0, 1, 4, 9])))
        hdr += struct.pack("<H", len(ex)) + ex
    if flg & 8:
        hdr += bytes(rng.randrange(1, 256) for _ in range(rng.choice([0, 1, 7]))) + b"\0"
    if flg & 16:
        hdr += bytes(rng.randrange(1, 256) for _ in range(rng.choice([0, 3, 20]))) + b"\0"
    if flg & 2:
        c = zlib.crc32(hdr) & 0xFFFF
        if not good_hcrc:
            c ^= 0x5A5A
        hdr += struct.pack("<H", c)
    co = zlib.compressobj(rng.choice([1, 6, 9]), zlib.DEFLATED, -15)
    body = co.compress(payload) + co.flush()
    return hdr + body + struct.pack("<II", zlib.crc32(payload), len(payload) & 0xFFFFFFFF)


def gen_cases(rng, tier):
    cases = []
    n = 0

    def add(data, epoch, tags, nlink=1, check=False):
        nonlocal n
        n += 1
        cases.append(Case("g%d" % n, "gzip", epoch, data, check=check, nlink=nlink, tags=tags))

    epochs = [0, 1, 1000, 1704106800, 2 ** 31 - 1, 2 ** 31, 2 ** 32 - 2, 2 ** 32 - 1]
    reps = 1 if tier == "quick" else 6
    for _ in range(reps):
        for flg in range(32):
            for rel in ("zero", "below", "at", "above", "max"):
                e = rng.choice(epochs)
                if rel == "zero":
                    mt = 0
                elif rel == "below":
                    mt = rng.randrange(0, e + 1)
                elif rel == "at":
                    mt = e
                elif rel == "above":
                    if e >= 2 ** 32 - 1:
                        e = rng.choice(epochs[:6])
                    mt = rng.randrange(e + 1, 2 ** 32)
                else:
                    mt = 2 ** 32 - 1
                payload = bytes(rng.randrange(256) for _ in range(rng.choice([0, 1, 30, 300])))
                m = make_member(rng, flg, mt, payload)
                tags = ["flg%d" % flg, "mt-" + rel]
                if rng.random() < 0.3:
                    m += make_member(rng, rng.randrange(32), rng.randrange(2 ** 32), b"second member")
                    tags.append("multi")
                add(m, e, tags, nlink=rng.choice([1, 1, 2]), check=rng.random() < 0.15)
    # buffer-boundary and large files (BufReader/BufWriter 8 KiB, io::copy chunks, 64 KiB, 1 MiB)
    sizes = [8170, 8182, 8192, 8202, 65526, 65536, 65546, 131077] + ([1 << 20, (1 << 20) + 13] if tier == "thorough" else [])
    for total in sizes:
        m = make_member(rng, rng.choice([0, 8, 28]), 3000000000, rng.randbytes(total))
        m = m[:total] if len(m) > total and rng.random() < 0.5 else m
        add(m, 1704106800, ["large%d" % total], nlink=rng.choice([1, 2]))
    # reserved flag bits, odd CM, bad stored header CRC
    for _ in range(10 * reps):
        e = rng.choice(epochs)
        m = bytearray(make_member(rng, rng.randrange(32), rng.randrange(2 ** 32), b"abc", good_hcrc=rng.random() < 0.5))
        if rng.random() < 0.5:
            m[3] |= rng.choice([32, 64, 128])
        if rng.random() < 0.3:
            m[2] = rng.randrange(256)
        add(bytes(m), e, ["odd"])
    # malformed stream
    base = make_member(rng, 0, 5000, b"hello")
    for k in range(0, 12):
        add(base[:k], 1000, ["trunc%d" % k])
    # an epoch later than today's date is used all the same (with a warning)
    for flg in (0, 8, 28):
        add(make_member(rng, flg, hd.FUTURE_EPOCH + 10 ** 8, b"payload of a member from the future"), hd.FUTURE_EPOCH, ["future-epoch", "flg%d" % flg])
    add(make_member(rng, 0, hd.FUTURE_EPOCH, b"exactly at the epoch"), hd.FUTURE_EPOCH, ["future-epoch", "mt-at"])
    # one of the two magic bytes right (compress, pack, a damaged gzip file), with a large value where MTIME would be
    for two in (b"\x1f\x9d", b"\x1f\x1e", b"\x00\x8b", b"\x8b\x8b"):
        add(two + base[2:4] + b"\xff\xff\xff\x7f" + base[8:], 1000, ["badmagic", "half-magic"])
    add(b"", 1000, ["empty"])
    add(b"\x1f\x8c" + base[2:], 1000, ["badmagic"])
    add(b"\x8b\x1f" + base[2:], 1000, ["badmagic"])
    add(b"PK\x03\x04" + bytes(30), 1000, ["badmagic"])
    for _ in range(20 * reps):
        ln = rng.choice([9, 10, 11, 40])
        add(bytes([31, 139]) + bytes(rng.randrange(256) for _ in range(ln - 2)), rng.choice(epochs), ["random-tail"])
    # handler cannot initialise
    add(base, None, ["no-epoch"])
    add(base, 2 ** 32, ["epoch-too-big"])
    add(base, 2 ** 40, ["epoch-too-big"])
    return cases


# ------------------------------------------------------------------ property oracle on the implementation's real data
def oracle(c, cls, after):
    x = c.data
    fails = []
    if cls in ("InitFail",):
        if after != x:
            fails.append(("init-fail-touched", "handler failed to initialise but the file changed"))
        return fails
    if cls.endswith("+tmp"):
        fails.append(("temp-left", "temporary file left behind"))
        cls = cls[:-4]
    if cls in ("Panic", "Abort"):
        fails.append(("panic", "handler panicked on this input"))
        return fails
    if (c.check or cls in ("Noop", "BadFormat", "Error")) and after != x:
        fails.append(("untouched-violated", "class %s (check=%s) but the file's bytes changed" % (cls, c.check)))
    if cls in ("BadFormat", "Error"):
        return fails
    if len(x) < 10 or x[:2] != b"\x1f\x8b":
        if cls in ("Replaced", "Rewritten"):
            fails.append(("not-gzip-modified", "not a gzip member header, yet reported modified"))
        return fails
    mt = struct.unpack("<I", x[4:8])[0]
    e = c.epoch
    want_mod = mt > e
    if (cls in ("Replaced", "Rewritten")) != want_mod:
        fails.append(("modified-flag", "MTIME=%d epoch=%d but class=%s" % (mt, e, cls)))
    if c.check:
        return fails
    if len(after) != len(x):
        fails.append(("length", "length changed %d -> %d" % (len(x), len(after))))
        return fails
    h = gz_parse(x)
    allowed = set(range(4, 8))
    if h and h["hcrc"] is not None:
        allowed |= {h["hcrc_pos"], h["hcrc_pos"] + 1}
    diff = [i for i in range(len(x)) if x[i] != after[i]]
    if any(i not in allowed for i in diff):
        fails.append(("other-byte", "byte(s) outside MTIME/header-CRC changed at offsets %s" % diff[:8]))
    mt2 = struct.unpack("<I", after[4:8])[0]
    if mt2 != min(mt, e):
        fails.append(("mtime-not-min", "MTIME %d with epoch %d became %d, expected %d" % (mt, e, mt2, min(mt, e))))
    # decoders: whatever zlib made of the input, it must make of the output (payload, and acceptance)
    before_payload = zlib_accepts(x)
    after_payload = zlib_accepts(after)
    if before_payload is not None and after_payload != before_payload:
        h2 = gz_parse(after)
        if h and h["hcrc"] is not None and want_mod and h2 and h2.get("hcrc_ok") is False and h.get("hcrc_ok"):
            # exactly the recorded defect: the only thing wrong is the stale header CRC
            fixed = bytearray(after)
            struct.pack_into("<H", fixed, h2["hcrc_pos"], zlib.crc32(bytes(after[:h2["hcrc_pos"]])) & 0xFFFF)
            if zlib_accepts(bytes(fixed)) == before_payload:
                fails.append(("hcrc-stale", "FHCRC set and MTIME %d > epoch %d: stored header CRC16 not recomputed, zlib rejects the output" % (mt, e)))
            else:
                fails.append(("decoder-rejects", "zlib accepted the input but not the output (beyond the header CRC)"))
        else:
            fails.append(("decoder-rejects", "zlib accepted the input but rejects the output or yields a different payload"))
    if h:
        h2 = gz_parse(after)
        if not h2 or any(h2[k] != h[k] for k in ("cm", "flg", "xfl", "os", "extra", "name", "comment", "body_off")):
            fails.append(("header-field", "an RFC 1952 header field other than MTIME reads back differently"))
    return fails


def run(ctx):
    rng = random.Random(ctx.seed)
    coq_property(ctx)
    if not hd.prepare(ctx, release=(ctx.tier == "thorough")):
        return
    cases = gen_cases(rng, ctx.tier)
    impl, model, mism = hd.differential(ctx, cases, "gzip")
    if ctx.tier == "thorough":
        hd.differential(ctx, cases, "gzip", release=True)
    known = hd.known_kinds_for("C05")
    fails = hd.apply_oracle(ctx, cases, impl, oracle, known)
    hd.cli_pass(ctx, cases, impl, "gzip", "gz")
    ctx.coverage.update({
        "evaluations": len(cases),
        "distinct_nontrivial": hd.distinct_nontrivial(cases, impl),
        "rule": "structured RFC 1952 members (all 32 FLG combinations x MTIME zero/below/at/above/max x epochs up to 2^32-1, real deflate payloads, "
                "multi-member, link count 1/2, --check) plus a malformed stream (truncations 0..11, wrong magic, reserved bits, random tails, "
                "uninitialisable epochs); a case is non-trivial when the implementation modified the file; distinct by (content, parameters) hash",
        "samples": hd.sample_cases(cases, impl),
        "distribution": hd.distribution(cases, impl),
        "correspondence_mismatches": len(mism),
        "oracle_failures_not_known": len(fails),
    })
    ctx.assumptions += ["zlib (python3) is the reference gzip decoder for the acceptance part of the oracle",
                        "DEFLATE data and the CRC32/ISIZE trailer are opaque bytes in the model (proved unchanged, never interpreted)"]
