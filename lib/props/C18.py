"""C18 — pyc-zero-mtime zeroes only the header timestamp, only on request."""
import os
import random
import struct

import fsharness as fh
import handler_diff as hd
import samples
from framework import Case, coq_property, build_cli, write_replay

# magic numbers covering every arm of the version table (value, header length)
MAGICS = [(20121, 8), (50428, 8), (62211, 8), (3000, 8), (3131, 8), (3151, 8), (3160, 8), (3180, 8), (3190, 12), (3230, 12), (3250, 12), (3310, 12), (3351, 12),
          (3360, 12), (3379, 12), (3390, 16), (3394, 16), (3400, 16), (3413, 16), (3420, 16), (3425, 16), (3439, 16), (3495, 16), (3531, 16), (3570, 16), (3600, 16),
          (3649, 16), (3650, 16), (4000, 16)]
UNKNOWN = [0, 1, 2999, 3362, 3380, 3395, 3402, 3426, 3440, 3496, 3532, 4001, 65535, 62212]


def header(magic, hl, flags, mtime, size=77):
    h = struct.pack("<H", magic) + b"\r\n"
    if hl == 8:
        return h + struct.pack("<I", mtime)
    if hl == 12:
        return h + struct.pack("<II", mtime, size)
    return h + struct.pack("<III", flags, mtime, size)


def gen_cases(rng, tier):
    cases = []
    n = 0

    def add(data, tags, nlink=1, check=False):
        nonlocal n
        n += 1
        cases.append(Case("z%d" % n, "pyc-zero-mtime", None, data, check=check, nlink=nlink, tags=tags))

    payload = b"N"
    for magic, hl in MAGICS:
        for flags in (0, 1, 2, 3):
            if hl != 16 and flags:
                continue
            for mt in (0, 1, 0x63570cd6, 0xFFFFFFFF, 0x01000000):
                add(header(magic, hl, flags, mt) + payload * rng.choice([0, 1, 5]), ["magic%d" % magic, "hl%d" % hl, "flags%d" % flags, "mt0" if mt == 0 else "mt"],
                    nlink=rng.choice([1, 1, 2]), check=rng.random() < 0.1)
    for magic in UNKNOWN:
        add(header(magic, 16, 0, 5) + payload, ["unknown-magic"])
    base = header(3495, 16, 0, 12345) + b"N"
    for k in range(0, 17):
        add(base[:k], ["trunc%d" % k])
    add(base[:2] + b"\n\r" + base[4:], ["bad-crlf"])
    add(samples.dirty_pyc(), ["corpus"])
    for _ in range(40 if tier == "quick" else 400):
        b = bytearray(base + rng.randbytes(rng.choice([0, 3, 40])))
        for _ in range(rng.choice([1, 2, 4])):
            b[rng.randrange(len(b))] = rng.randrange(256)
        add(bytes(b), ["mutated"])
    return cases


def expect(x):
    """The property, independently: (modified?, expected bytes) or None when the file is not a recognisable pyc."""
    if len(x) < 4 or x[2:4] != b"\r\n":
        return None
    magic = x[0] | (x[1] << 8)
    hl = None
    for (m, h) in MAGICS:
        pass
    # PEP 552: 16-byte headers from 3.7 (magic 3390) on; 12-byte from 3.3 (3190); 8 before
    if magic in (20121, 50428, 50823, 60202, 60717, 62011, 62021, 62041, 62051, 62061, 62071, 62081, 62091, 62092, 62101, 62111, 62121, 62131, 62151, 62161,
                 62171, 62181, 62191, 62201, 62211) or 3000 <= magic <= 3180:
        hl = 8
    elif 3181 <= magic <= 3379:
        hl = 12
    elif 3390 <= magic <= 4000:
        hl = 16
    if hl is None or len(x) < hl:
        return None
    if hl == 16:
        flags = struct.unpack("<I", x[4:8])[0]
        if flags & 1:
            return (False, x)
        off = 8
    else:
        off = 4
    if x[off:off + 4] == b"\0\0\0\0":
        return (False, x)
    return (True, x[:off] + b"\0\0\0\0" + x[off + 4:])


def oracle(c, cls, after):
    x = c.data
    fails = []
    if cls.endswith("+tmp"):
        fails.append(("temp-left", "temporary file left behind"))
        cls = cls[:-4]
    if cls in ("Panic", "Abort"):
        return [("panic", "handler panicked")]
    if (c.check or cls in ("Noop", "BadFormat", "Error")) and after != x:
        fails.append(("untouched-violated", "class %s (check=%s) but bytes changed" % (cls, c.check)))
    e = expect(x)
    if e is None:
        if cls in ("Replaced", "Rewritten"):
            fails.append(("not-pyc-modified", "not a recognisable pyc header, yet modified"))
        return fails
    mod, want = e
    if cls in ("BadFormat", "Error"):
        # gaps in the magic table (e.g. 3362..3369) are legitimately unknown to the tool
        return fails
    if (cls in ("Replaced", "Rewritten")) != mod:
        fails.append(("modified-flag", "expected modified=%s, class %s" % (mod, cls)))
    if not c.check and after != want:
        diff = [i for i in range(min(len(after), len(want))) if after[i] != want[i]]
        fails.append(("wrong-bytes", "output differs from 'timestamp field zeroed, nothing else' at offsets %s (hash-based: %s)" % (diff[:8], len(x) >= 8 and x[4] & 1)))
    return fails


def sibling_runs(ctx):
    """<module>.py beside the pyc gets mtime 0; symlinks/directories/fifos with that name are left alone; --check touches nothing."""
    fails = []
    n = 0
    pyc = samples.dirty_pyc()
    for kind in ("file", "missing", "symlink-out", "symlink-in", "dir", "fifo", "file-mtime0", "file-mtime-negative", "file-mtime-1ns"):
        for check in (False, True):
            for name in ("mod.cpython-312.pyc", "mod.pyc", "mod.opt-1.pyc", "mod.cpython-312.opt-1.pyc", "mod.cpython-312.opt-2.pyc", "LINKED"):
                # LINKED: the pyc has a second name (as after hard-link de-duplication of optimisation levels): it is rewritten in place
                linked = name == "LINKED"
                if linked:
                    if kind not in ("file", "missing"):
                        continue
                    name = "mod.cpython-312.pyc"
                t = fh.Tree()
                try:
                    t.mkdir("d/__pycache__")
                    t.mkdir("outside")
                    t.add_file("outside/real.py", b"print(1)\n", mtime_ns=1_650_000_000_000_000_000)
                    t.add_file("d/__pycache__/" + name, pyc, mtime_ns=1_650_000_000_000_000_000)
                    py = "d/__pycache__/mod.py"
                    if kind.startswith("file"):
                        # (a source whose own modification time lies before 1970, or one nanosecond after it, is reset like any other)
                        t.add_file(py, b"print(1)\n", mtime_ns={"file-mtime0": 0, "file-mtime-negative": -86_400_000_000_000, "file-mtime-1ns": 1}.get(kind, 1_650_000_000_000_000_000))
                    elif kind == "symlink-out":
                        t.symlink("../../outside/real.py", py)
                    elif kind == "symlink-in":
                        t.add_file("d/__pycache__/target.py", b"x\n", mtime_ns=1_650_000_000_000_000_000)
                        t.symlink("target.py", py)
                    elif kind == "dir":
                        t.mkdir(py)
                    elif kind == "fifo":
                        os.mkfifo(t.path(py))
                    if linked:
                        t.link("d/__pycache__/" + name, "d/__pycache__/mod.cpython-312.opt-1.pyc")
                    before = fh.snapshot(t.root)
                    args = ["--handler", "pyc-zero-mtime"] + (["--check"] if check else []) + [t.path("d")]
                    rc, out = fh.run_cli(args, epoch=None, timeout=20)
                    after = fh.snapshot(t.root)
                    n += 1
                    label = "sibling=%s check=%s name=%s%s" % (kind, check, name, " (two links)" if linked else "")
                    if rc == 124:
                        fails.append(("sibling-hang", "run did not terminate (%s)" % label, label))
                        continue
                    allowed = set()
                    if not check:
                        allowed.add("d/__pycache__/" + name)
                        if linked:
                            allowed.add("d/__pycache__/mod.cpython-312.opt-1.pyc")
                        if kind in ("file", "file-mtime-negative", "file-mtime-1ns"):
                            allowed.add(py)
                    d = [x for x in fh.snap_equal(before, after) if x.split(":")[0] not in allowed]
                    if d:
                        fails.append(("sibling-collateral", "%s: something other than the pyc and its regular sibling source changed: %s" % (label, "; ".join(d[:3])), label))
                    if not check and kind in ("file", "file-mtime-negative", "file-mtime-1ns"):
                        if after[py]["mtime_ns"] != 0 or after[py]["data"] != before[py]["data"] or after[py]["ino"] != before[py]["ino"]:
                            fails.append(("sibling-mtime", "%s: the source file's mtime is %d (expected 0, content and inode unchanged)" % (label, after[py]["mtime_ns"]), label))
                    if not check:
                        a = after["d/__pycache__/" + name]["data"]
                        if a[8:12] != b"\0\0\0\0" or a[:8] != pyc[:8] or a[12:] != pyc[12:]:
                            fails.append(("pyc-not-zeroed", "%s: pyc header timestamp not zeroed exactly" % label, label))
                finally:
                    t.remove()
    # requested together with the pyc handler, in either order, on a file whose header is fine but whose payload the pyc handler cannot parse
    # (or which is of a version it leaves alone): the other handler's failure or refusal does not keep the timestamp from being zeroed
    for sel in ("pyc,pyc-zero-mtime", "pyc-zero-mtime,pyc"):
        for jobs in ([], ["-j2"]):
            for what, data in (("unparseable-payload", pyc[:16] + b"!"), ("truncated-payload", pyc[:40]), ("python-3.3", samples.old_pyc(3230))):
                t = fh.Tree()
                try:
                    t.add_file("d/__pycache__/mod.cpython-312.pyc", data, mtime_ns=1_650_000_000_000_000_000)
                    t.add_file("d/__pycache__/mod.py", b"print(1)\n", mtime_ns=1_650_000_000_000_000_000)
                    rc, out = fh.run_cli(jobs + ["--handler", sel, t.path("d")], epoch=samples.EPOCH, timeout=30)
                    a = open(t.path("d/__pycache__/mod.cpython-312.pyc"), "rb").read()
                    n += 1
                    label = "--handler %s %s on a pyc with %s" % (sel, " ".join(jobs), what)
                    off = 4 if what == "python-3.3" else 8
                    if a[off:off + 4] != b"\0\0\0\0" or a[:off] != data[:off] or a[off + 4:] != data[off + 4:]:
                        fails.append(("pyc-not-zeroed", "%s: header timestamp not zeroed exactly (bytes %s)" % (label, a[off:off + 4].hex()), label))
                    elif os.stat(t.path("d/__pycache__/mod.py")).st_mtime_ns != 0:
                        fails.append(("sibling-mtime", "%s: the source file's mtime was not set to 0" % label, label))
                finally:
                    t.remove()
    # never without request: not by default, and not because another handler's name was asked for
    for sel in ([], ["--handler", "pyc"], ["--handler", "ar,pyc"], ["--handler", "pyc", "-j2"], ["--handler=-ar"], ["--handler=-pyc"]):
        t = fh.Tree()
        try:
            t.add_file("d/m.pyc", samples.dirty_pyc())
            t.add_file("d/m.py", b"x\n", mtime_ns=1_650_000_000_000_000_000)
            rc, out = fh.run_cli(sel + [t.path("d")], epoch=samples.EPOCH)
            a = open(t.path("d/m.pyc"), "rb").read()
            n += 1
            if a[8:12] == b"\0\0\0\0" or os.stat(t.path("d/m.py")).st_mtime_ns == 0:
                fails.append(("ran-unrequested", "pyc-zero-mtime acted without being requested (%s)" % (" ".join(sel) or "default handlers"), " ".join(sel) or "default handlers"))
        finally:
            t.remove()
    return fails, n


def run(ctx):
    rng = random.Random(ctx.seed)
    coq_property(ctx)
    if not hd.prepare(ctx, release=(ctx.tier == "thorough")):
        return
    ok2, out2 = build_cli()
    ctx.oblige("build: CLI builds from /repo's current tree", ok2, out2[-500:])
    cases = gen_cases(rng, ctx.tier)
    impl, model, mism = hd.differential(ctx, cases, "pyc-zero-mtime")
    known = hd.known_kinds_for("C18")
    fails = hd.apply_oracle(ctx, cases, impl, oracle, known)
    hd.cli_pass(ctx, cases, impl, "pyc-zero-mtime", "pyc")
    sfails, nsib = sibling_runs(ctx) if ok2 else ([], 0)
    seen = set()
    for kind, msg, label in sfails:
        if kind in seen:
            continue
        seen.add(kind)
        d = write_replay(ctx, kind, {"input.pyc": samples.dirty_pyc()}, {"failure": msg, "kind": kind, "case": label,
                         "how_to_replay": "d/__pycache__/<name> = input.pyc, d/__pycache__/mod.py of the stated kind; add-determinism --handler pyc-zero-mtime [--check] d"})
        ctx.violations.append({"replay": d, "kind": kind, "msg": msg})
    ctx.coverage.update({
        "evaluations": len(cases) + nsib,
        "distinct_nontrivial": hd.distinct_nontrivial(cases, impl),
        "rule": "headers for magic numbers covering every arm of the version table (8/12/16-byte layouts) x flags 0..3 x mtime {0, non-zero values} x payload sizes, link count, --check; "
                "unknown magics, truncations 0..16, byte mutations, a corpus file; model vs implementation on bytes and class, judged by an independent PEP 552 oracle; "
                "plus real runs with a sibling source that is a file / missing / symlink inside / symlink outside / directory / FIFO / already at mtime 0, with and without --check, "
                "and a default-handler run; non-trivial = implementation modified the file",
        "samples": hd.sample_cases(cases, impl), "distribution": hd.distribution(cases, impl),
        "correspondence_mismatches": len(mism), "oracle_failures_not_known": len(fails) + len(sfails),
    })
