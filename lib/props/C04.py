"""C04 — ar members preserved; mtime clamped, owner/group zeroed."""
import glob
import os
import random
import subprocess

from framework import Case, coq_property, REPO, sh
import handler_diff as hd

MAGIC = b"!<arch>\n"


def field(v, w):
    s = v if isinstance(v, bytes) else str(v).encode()
    return s.ljust(w, b" ")[:max(w, len(s))]


def header(name, mtime, uid, gid, mode, size, magic=b"`\n"):
    h = field(name, 16) + field(mtime, 12) + field(uid, 6) + field(gid, 6) + field(mode, 8) + field(size, 10) + magic
    return h


# ------------------------------------------------------------------ independent reader (oracle side)
def rust_parse(s, signed, bits):
    """Rust's integer FromStr on a trimmed field; None on error."""
    try:
        t = s.decode("utf-8")
    except UnicodeDecodeError:
        return None
    t = t.rstrip(" ")
    neg = False
    if t.startswith("+"):
        t = t[1:]
    elif t.startswith("-") and signed:
        neg = True
        t = t[1:]
    if not t or any(ch not in "0123456789" for ch in t):
        return None
    v = -int(t) if neg else int(t)
    lo, hi = (-(1 << (bits - 1)), (1 << (bits - 1)) - 1) if signed else (0, (1 << bits) - 1)
    return v if lo <= v <= hi else None


def read_members(x):
    """Plain ar(5) reader: list of dicts, or None when the archive is not well-formed."""
    if x[:8] != MAGIC:
        return None
    p = 8
    ms = []
    while p < len(x):
        h = x[p:p + 60]
        if len(h) < 60 or h[58:60] != b"`\n":
            return None
        size = rust_parse(h[48:58], False, 32)
        if size is None:
            return None
        psz = size + size % 2
        if p + 60 + psz > len(x):
            return None
        ms.append({"off": p, "hdr": h, "name": h[0:16], "mtime": h[16:28], "uid": h[28:34], "gid": h[34:40], "mode": h[40:48], "size": h[48:58],
                   "nsize": size, "data": x[p + 60:p + 60 + psz]})
        p += 60 + psz
    return ms


def expected_output(x, epoch):
    """The property's statement, computed independently: None when the property says nothing (not well-formed
    or a field the tool refuses)."""
    ms = read_members(x)
    if ms is None:
        return None
    out = bytearray(x)
    for m in ms:
        try:
            name = m["name"].decode("utf-8").rstrip(" ")
        except UnicodeDecodeError:
            return None
        if name == "//":
            continue
        mt = rust_parse(m["mtime"], True, 64)
        uid = rust_parse(m["uid"], False, 64)
        gid = rust_parse(m["gid"], False, 64)
        mode = rust_parse(m["mode"], False, 64)
        if None in (mt, uid, gid, mode):
            return None
        o = m["off"]
        if epoch is not None and mt > epoch:
            s = str(epoch).encode().ljust(12)
            if len(s) != 12:
                return None
            out[o + 16:o + 28] = s
        if uid != 0 or gid != 0:
            out[o + 28:o + 34] = b"0     "
            out[o + 34:o + 40] = b"0     "
    return bytes(out)


# ------------------------------------------------------------------ generator
def rand_num(rng, w, signed=False, epoch=None):
    k = rng.random()
    if k < 0.25 and epoch is not None:
        v = epoch + rng.choice([-1, 0, 1, 2, 1000])
    elif k < 0.5:
        v = rng.choice([0, 1, 7, 1000, 65534, 10 ** (w - 1), 10 ** w - 1])
    else:
        v = rng.randrange(10 ** rng.randrange(1, w + 1))
    v = max(v, 0) if not signed else v
    s = str(v)
    r = rng.random()
    if r < 0.04 and len(s) < w:
        s = "+" + s
    elif r < 0.08 and signed and len(s) < w:
        s = "-" + s
    elif r < 0.12 and len(s) < w:
        s = "0" * rng.randrange(1, w - len(s) + 1) + s
    return s[:w]


def gen_archive(rng, epoch, malformed=False):
    parts = [MAGIC]
    tags = []
    nm = rng.choice([0, 1, 1, 2, 3, 5, 12])
    if rng.random() < 0.3:
        sym = rng.randbytes(rng.choice([4, 7, 20]))
        parts.append(header("/", rand_num(rng, 12, True, epoch), 0, 0, 0, len(sym)) + sym + (b"\n" if len(sym) % 2 else b""))
        tags.append("symtab")
    if rng.random() < 0.3:
        tab = b"a_very_long_member_name.o/\nanother_quite_long_name.o/\n"
        if rng.random() < 0.5:
            tab += b"x"
        # the long-name table header carries arbitrary other fields; they must stay untouched
        parts.append(header("//", rng.choice(["", rand_num(rng, 12)]), rng.choice(["", "7"]), rng.choice(["", "9"]), "", len(tab)) + tab + (b"\n" if len(tab) % 2 else b""))
        tags.append("longnames")
    for i in range(nm):
        style = rng.random()
        size = rng.choice([0, 1, 2, 3, 8, 61, 100])
        data = rng.randbytes(size)
        if style < 0.5:
            name = "m%d.o/" % i
        elif style < 0.65:
            name = "/%d" % rng.randrange(0, 40)
        elif style < 0.8:
            ext = b"bsd_long_name_%d.o" % i
            data = ext + data
            size = len(data)
            name = "#1/%d" % len(ext)
            tags.append("bsd")
        else:
            name = rng.choice(["with space.o/", "x/", "0123456789abcdef", "ąę.o/"])
        uid = rand_num(rng, 6) if rng.random() < 0.7 else "0"
        gid = rand_num(rng, 6) if rng.random() < 0.7 else "0"
        mt = rand_num(rng, 12, True, epoch)
        mode = rng.choice(["100644", "644", "100755", "0", "40755", "99999999"])
        parts.append(header(name.encode("utf-8")[:16], mt, uid, gid, mode, size) + data + (b"\n" if size % 2 else b""))
        if size % 2:
            tags.append("odd")
    x = b"".join(parts)
    if malformed:
        kind = rng.choice(["trunc", "flip", "field", "magic", "size"])
        tags.append("mal-" + kind)
        b = bytearray(x)
        if kind == "trunc" and len(b) > 8:
            b = b[:rng.randrange(0, len(b))]
        elif kind == "flip" and len(b) > 8:
            for _ in range(rng.choice([1, 2, 5])):
                b[rng.randrange(len(b))] = rng.randrange(256)
        elif kind == "field" and len(b) >= 68:
            lo, hi = rng.choice([(0, 16), (16, 28), (28, 34), (34, 40), (40, 48), (48, 58)])
            fill = rng.choice([b" ", b"x", b"-", b"+", b"\xff", b"9", b"1 2"])
            b[8 + lo:8 + hi] = (fill * 16)[:hi - lo]
        elif kind == "magic" and len(b) >= 68:
            b[8 + 58:8 + 60] = rng.choice([b"\n`", b"``", b"  "])
        elif kind == "size" and len(b) >= 68:
            b[8 + 48:8 + 58] = field(rng.choice([4294967295, 4294967294, 4294967296, 2 ** 31, 99999, 10 ** 10 - 1]), 10)[:10]
        x = bytes(b)
    return x, tags


def gen_cases(rng, tier):
    cases = []
    n = 0

    def add(data, epoch, tags, nlink=1, check=False):
        nonlocal n
        n += 1
        cases.append(Case("a%d" % n, "ar", epoch, data, check=check, nlink=nlink, tags=tags))

    epochs = [0, 1, 999, 1704106800, 10 ** 11, 10 ** 12 - 1, 10 ** 12, 2 ** 62]
    count = 250 if tier == "quick" else 3000
    for i in range(count):
        e = rng.choice(epochs) if rng.random() < 0.9 else None
        x, tags = gen_archive(rng, e, malformed=False)
        add(x, e, tags, nlink=rng.choice([1, 1, 1, 2]), check=rng.random() < 0.1)
    for i in range(count // 2):
        e = rng.choice(epochs) if rng.random() < 0.9 else None
        x, tags = gen_archive(rng, e, malformed=True)
        add(x, e, tags)
    # hand-written corner cases
    add(b"", 1000, ["empty"])
    add(MAGIC[:5], 1000, ["short-magic"])
    add(MAGIC, 1000, ["no-members"])
    add(b"!<arch>\r" + header("a/", 5, 0, 0, 644, 0), 1000, ["bad-global-magic"])
    # members larger than any plausible copy buffer, of sizes that are no multiple of one, with members after them
    for big in (131073, 200001, 262144 + 4097):
        body = bytes((k * 7 + k // 251) % 256 for k in range(big))
        add(MAGIC + header("first.o/", 5000, 1, 2, 100644, 10) + b"0123456789" + header("big.o/", 1700000000, 3, 4, 100644, big) + body + (b"\n" if big % 2 else b"")
            + header("last.o/", 1700000000, 5, 6, 100644, 3) + b"xyz\n", 1600000000, ["big-member-%d" % big])
    # an epoch later than today's date is used all the same (with a warning): members later still are clamped to it
    F = hd.FUTURE_EPOCH
    add(MAGIC + header("late.o/", F + 10 ** 8, 0, 0, 100644, 4) + b"abcd", F, ["future-epoch", "clamp-only"])
    add(MAGIC + header("/", F + 10 ** 8 + 1, 0, 0, 0, 4) + b"\0\0\0\0" + header("late.o/", F + 1, 0, 0, 100644, 3) + b"abc\n" + header("exact.o/", F, 0, 0, 100644, 2) + b"xy"
        + header("old.o/", 1700000000, 1000, 425, 100644, 2) + b"zz", F, ["future-epoch"])
    add(MAGIC + header("a.o/", F + 2, 0, 0, 100644, 0) + header("b.o/", F - 2, 0, 0, 100644, 0), F, ["future-epoch", "clamp-only"])
    add(MAGIC + header("a/", 5000, 1, 0, 644, 4294967295) + b"xx", 1000, ["size-max"])
    add(MAGIC + header("a/", 5000, 1, 0, 644, 4294967294) + b"xx", 1000, ["size-max-1"])
    add(MAGIC + header("a/", "", 1, 0, 644, 0), 1000, ["blank-mtime"])
    add(MAGIC + header("a/", "-5", 1, 0, 644, 0), 1000, ["neg-mtime"])
    add(MAGIC + header("a/", "999999999999", 0, 1, 644, 0), 10 ** 12, ["epoch-13-digits"])
    add(MAGIC + header("a/", "999999999999", 0, 1, 644, 0), 10 ** 12 - 1, ["epoch-12-digits"])
    add(MAGIC + header("a/", "1001", "00", "0", 644, 0), 1000, ["uid-00"])
    add(MAGIC + header("//", "5000", "3", "4", "", 0), 1000, ["longnames-only"])
    add(MAGIC + header("// ", "5000", "3", "4", 644, 0), 1000, ["longnames-trailing-blank"])
    add(MAGIC + header("a/", 5000, 0, 0, 644, 1) + b"x", 1000, ["missing-pad"])
    # corpus from the repository and from ar(1)
    for p in sorted(glob.glob(os.path.join(REPO, "tests/cases/*.a"))):
        if os.path.getsize(p) < 2_000_000 or tier == "thorough":
            for e in (111, 1704106800, None):
                add(open(p, "rb").read(), e, ["corpus:" + os.path.basename(p)])
    return cases


def ar_tool_cases(ctx, rng, cases):
    """Archives produced by binutils ar (symbol-less, with long names)."""
    d = os.path.join(ctx.tmp, "arsrc")
    os.makedirs(d, exist_ok=True)
    names = ["a.o", "b_with_a_rather_long_name_over_16.o", "c.txt"]
    for nme in names:
        with open(os.path.join(d, nme), "wb") as f:
            f.write(rng.randbytes(rng.choice([1, 10, 33])))
    for flags in ("rc", "rcU", "rcD"):
        out = os.path.join(d, "lib%s.a" % flags)
        rc, _ = sh(["ar", flags, out] + names, cwd=d)
        if rc == 0:
            cases.append(Case("at%s" % flags, "ar", 1000, open(out, "rb").read(), tags=["ar(1)-" + flags]))


# ------------------------------------------------------------------ oracle
def oracle(c, cls, after):
    x = c.data
    fails = []
    if cls.endswith("+tmp"):
        fails.append(("temp-left", "temporary file left behind"))
        cls = cls[:-4]
    if cls in ("Panic", "Abort"):
        fails.append(("panic", "handler panicked on this input"))
        return fails
    if (c.check or cls in ("Noop", "BadFormat", "Error")) and after != x:
        fails.append(("untouched-violated", "class %s (check=%s) but the file's bytes changed" % (cls, c.check)))
    exp = expected_output(x, c.epoch)
    if exp is None:
        # not a well-formed archive (or fields the tool must refuse): the file must not be modified
        if cls in ("Replaced", "Rewritten") and read_members(x) is None:
            fails.append(("malformed-modified", "input is not a well-formed archive, yet reported/left modified"))
        return fails
    if cls in ("BadFormat", "Error"):
        fails.append(("wellformed-rejected", "well-formed archive with canonical decimal fields rejected as %s" % cls))
        return fails
    want_mod = exp != x
    if (cls in ("Replaced", "Rewritten")) != want_mod:
        fails.append(("modified-flag", "expected modified=%s but class=%s" % (want_mod, cls)))
    if c.check:
        return fails
    if len(after) != len(x):
        fails.append(("length", "archive length changed %d -> %d" % (len(x), len(after))))
    elif after != exp:
        i = next(i for i in range(len(x)) if after[i] != exp[i])
        ms = read_members(x)
        m = max((m for m in ms if m["off"] <= i), key=lambda m: m["off"], default=None)
        where = "global magic" if m is None else "member at offset %d, header byte %d" % (m["off"], i - m["off"]) if i - m["off"] < 60 else "member data at offset %d" % i
        fails.append(("wrong-bytes", "output differs from min(mtime,epoch)/owner 0/everything-else-unchanged at offset %d (%s): have %r want %r" %
                      (i, where, after[max(0, i - 4):i + 8], exp[max(0, i - 4):i + 8])))
    return fails


def run(ctx):
    rng = random.Random(ctx.seed)
    coq_property(ctx)
    if not hd.prepare(ctx, release=(ctx.tier == "thorough")):
        return
    cases = gen_cases(rng, ctx.tier)
    ar_tool_cases(ctx, rng, cases)
    impl, model, mism = hd.differential(ctx, cases, "ar")
    if ctx.tier == "thorough":
        hd.differential(ctx, cases, "ar", release=True)
    known = hd.known_kinds_for("C04")
    fails = hd.apply_oracle(ctx, cases, impl, oracle, known)
    hd.cli_pass(ctx, cases, impl, "ar", "a")
    ctx.coverage.update({
        "evaluations": len(cases),
        "distinct_nontrivial": hd.distinct_nontrivial(cases, impl),
        "rule": "generated System V/GNU/BSD archives (0..12 members, symbol table, long-name table with arbitrary header fields, odd/even sizes, "
                "decimal fields with boundary values, '+', '-', leading zeros, non-ASCII names) x epochs {0,1,999,1704106800,1e11,1e12-1,1e12,2^62,unset} "
                "x link count 1/2 x --check; a malformed stream (truncation, byte flips, blank/garbage fields, wrong header magic, size field maxima); "
                "the repository's .a corpus and archives made by ar(1) rc/rcU/rcD; non-trivial = implementation modified the file; distinct by content+parameters",
        "samples": hd.sample_cases(cases, impl),
        "distribution": hd.distribution(cases, impl),
        "correspondence_mismatches": len(mism),
        "oracle_failures_not_known": len(fails),
    })
    ctx.assumptions += ["member data bytes are opaque (proved unchanged)", "oracle's independent ar(5) reader uses Rust's decimal grammar for the size field"]
