"""C12 — a kill at any instant leaves every single-link file old-or-new; a rerun converges."""
import os
import random

import fsharness as fh
import fscommon as fc
from framework import coq_property, build_model, build_cli, write_replay

KILLABLE = {"creat", "write", "lchown", "fchmod", "futimens", "rename", "unlink", "openw", "truncate", "openr"}


def scenarios(rng, tier):
    cs = {(c[0], c[1]): c for c in fc.contents(rng)}
    pick = [("gzip", "dirty"), ("ar", "dirty"), ("ar", "clean"), ("ar", "truncated"), ("gzip", "dirty-big")]
    if tier == "thorough":
        pick += [("ar", "dirty-big"), ("gzip", "clean"), ("ar", "badfield")]
    out = []
    for k in pick:
        h, tag, data, e = cs[k]
        out.append(fc.Scenario(h, tag, data, e, mode=rng.choice([0o644, 0o4755, 0o600]), mtime_ns=fc.NOW_NS - rng.randrange(10 ** 6), uid=rng.choice([0, 1234]), gid=5678))
    h, tag, data, e = cs[("gzip", "dirty")]
    out.append(fc.Scenario(h, tag, data, e, mode=0o6755, stale=True, uid=1234))
    # write-protected originals: the replacement must not need (or take) a detour through removing them
    out.append(fc.Scenario(h, tag, data, e, mode=0o555, uid=0))
    # a write-protected directory (the run is root's): it is as it was after a kill at any point, and after the rerun
    out.append(fc.Scenario(h, tag, data, e, mode=0o644, uid=0, dir_mode=0o555))
    h, tag, data, e = cs[("ar", "dirty")]
    out.append(fc.Scenario(h, tag, data, e, mode=0o444, uid=1234))
    out.append(fc.Scenario(h, tag, data, e, mode=0o640, uid=0, dir_mode=0o500))
    return out


def rerun_all_handlers(ctx, fails):
    """What a killed run leaves is the original plus, possibly, a temporary file: the next run of every handler over such a
    directory must give what a run over a clean directory gives (same bytes, success, no temporary file left)."""
    import samples as smp
    n = 0
    for name, (data, hs) in smp.per_handler().items():
        outs = {}
        for leftover in (None, b"", b"partial output of a killed run " * ((len(data) + 8192) // 31 + 1)):
            t = fh.Tree()
            try:
                t.add_file("d/" + name, data, mode=0o640, mtime_ns=1_650_000_000_000_000_000)
                if leftover is not None:
                    t.add_file("d/.#." + name + ".tmp", leftover, mode=0o600)
                rc, out = fh.run_cli(["--handler", hs[0], t.path("d")], epoch=smp.EPOCH, timeout=60)
                n += 1
                after = fh.snapshot(t.root)
                label = "%s handler, %s" % (hs[0], "clean directory" if leftover is None else "leftover temporary file of %d bytes" % len(leftover))
                a = after.get("d/" + name)
                outs[leftover is None, len(leftover or b"")] = (rc, a and a["data"])
                left = [r for r in after if os.path.basename(r).startswith(".#.")]
                if left:
                    fails.append((None, "rerun-leaves-temp", "%s: %s remains" % (label, left), label))
            finally:
                t.remove()
        ref = outs[(True, 0)]
        for k, v in outs.items():
            if v != ref:
                fails.append((None, "rerun-diverges", "%s handler: with a leftover temporary file (%d bytes) the run exits %d and leaves %s bytes; over a clean directory it exits %d and leaves %d bytes"
                              % (hs[0], k[1], v[0], "no" if v[1] is None else len(v[1]), ref[0], len(ref[1] or b"")), hs[0]))
                break
    return n


def entry_core(e):
    return None if e is None else {k: e.get(k) for k in ("kind", "mode", "uid", "gid", "mtime_ns", "data")}


def judge_mid(sc, before, final, mid):
    """The property on a killed run's snapshot."""
    fails = []
    rel = "d/" + sc.name
    tmp = "d/.#." + sc.name + ".tmp"
    m = entry_core(mid.get(rel))
    if m != entry_core(before[rel]) and m != entry_core(final.get(rel)):
        what = [k for k in ("kind", "mode", "uid", "gid", "mtime_ns", "data") if m and m.get(k) != entry_core(before[rel]).get(k)]
        fails.append(("torn-file", "after the kill the file is neither entirely original nor entirely final (differs from the original in %s)" % what))
    for r in set(before) | set(mid):
        if r in (rel, tmp, "d", "."):
            continue
        if entry_core(before.get(r)) != entry_core(mid.get(r)) or (before.get(r) or {}).get("ino") != (mid.get(r) or {}).get("ino"):
            fails.append(("kill-collateral", "after the kill an unrelated entry changed: %s" % r))
    for r in ("d", "."):
        bm, mm = dict(before[r]), dict(mid[r])
        if bm != mm:
            fails.append(("kill-collateral", "directory %s metadata changed" % r))
    return fails


def run(ctx):
    rng = random.Random(ctx.seed)
    coq_property(ctx)
    ok, out = build_model()
    ctx.oblige("build: models extract and the OCaml runner builds", ok, out[-300:])
    ok2, out2 = build_cli()
    ctx.oblige("build: CLI builds from /repo's current tree", ok2, out2[-500:])
    if not (ok and ok2):
        return
    scs = scenarios(rng, ctx.tier)
    mism, fails = [], []
    nkills = 0
    distinct = set()
    samples = []
    for si, sc in enumerate(scs):
        r = fc.traced_run(ctx, sc, "k%d" % si)
        try:
            final = r["after"]
            before = r["before"]
            mres = fh.model_fs_run(ctx, [r["mcase"]]).get("k%d" % si, {})
            rel = "d/" + sc.name
            hist = mres.get("hist", [])
            # kill points: every traced syscall occurrence on the scratch tree (writes thinned in the quick tier)
            pts = [(o["syscall"], o["nth"], o["kind"]) for o in r["ops"] if o["kind"] in KILLABLE and o["pid"] == r["ops"][0]["pid"]]
            wr = [p for p in pts if p[2] == "write"]
            if ctx.tier == "quick" and len(wr) > 4:
                keep = {wr[0], wr[1], wr[len(wr) // 2], wr[-1]}
                pts = [p for p in pts if p[2] != "write" or p in keep]
            for (scname, nth, kind) in pts:
                t = sc.build()
                try:
                    before_t = fh.snapshot(t.root, with_dir_mtime=False)
                    rc, out = fh.run_cli(sc.args(t), epoch=sc.epoch, inject="%s:signal=KILL:when=%d" % (scname, nth), timeout=60)
                    mid = fh.snapshot(t.root, with_dir_mtime=False)
                    nkills += 1
                    b2 = before_t
                    f2 = {k: dict(v, mtime_ns=None) if v["kind"] == "D" else v for k, v in final.items()}
                    for kind_f, msg in judge_mid(sc, b2, f2, mid):
                        fails.append((sc, kind_f, msg + " [killed at %s #%d (%s)]" % (scname, nth, kind), "%s:signal=KILL:when=%d" % (scname, nth)))
                    # tie to the model: the observed (file state, temp presence) must be one of the model's intermediate states
                    me = mid.get(rel)
                    tmp_present = ("d/.#." + sc.name + ".tmp") in mid
                    state = ("orig" if entry_core(me) == entry_core(b2[rel]) and me["ino"] == before_t[rel]["ino"] else "final" if entry_core(me) == entry_core(f2.get(rel)) else "other", tmp_present)
                    distinct.add((sc.handler, sc.tag, kind, state))
                    model_states = set()
                    for o, tmpflag in hist:
                        if o is None:
                            continue
                        is_orig = o["ino"] == r["inos"].get(before[rel]["ino"])
                        model_states.add(("orig" if is_orig else "final", tmpflag == "TMP"))
                    if state not in model_states and state[0] != "other":
                        mism.append((sc, "killed at %s #%d: state %s not among the model's intermediate states %s" % (scname, nth, state, sorted(model_states))))
                    # rerun converges
                    rc2, out2 = fh.run_cli(sc.args(t), epoch=sc.epoch, timeout=60)
                    again = fh.snapshot(t.root, with_dir_mtime=False)
                    d = fh.snap_equal(f2, again, ignore_ino=True)
                    if d:
                        fails.append((sc, "rerun-diverges", "after kill at %s #%d a clean rerun does not reach the uninterrupted result: %s" % (scname, nth, "; ".join(d[:3])),
                                      "%s:signal=KILL:when=%d" % (scname, nth)))
                    if len(samples) < 3:
                        samples.append({"scenario": sc.label(), "kill": "%s #%d (%s)" % (scname, nth, kind), "state": state})
                finally:
                    t.remove()
        finally:
            r["t"].remove()
    nre = rerun_all_handlers(ctx, fails)
    ctx.coverage["reruns_over_leftovers"] = nre
    ctx.oblige("correspondence[fs/kill]: every state observed after %d kills is one of the model's intermediate states (Helper s_hist)" % nkills,
               not mism, "; ".join("%s: %s" % (sc.label(), why) for sc, why in mism[:4]))
    seen = set()
    for sc, kind, msg, inj in fails:
        if kind in seen:
            continue
        seen.add(kind)
        if sc is None:
            d = write_replay(ctx, kind, {}, {"failure": msg, "kind": kind, "case": inj,
                                             "how_to_replay": "directory d/ with the dirty sample of the handler (lib/props/samples.py:per_handler) and a file d/.#.<name>.tmp of the stated size; SOURCE_DATE_EPOCH=%d add-determinism --handler <handler> d" % __import__('samples').EPOCH})
        else:
            d = write_replay(ctx, kind, fc.replay_files(sc), fc.replay_info(sc, failure=msg, kind=kind, strace_inject=inj))
        ctx.violations.append({"replay": d, "kind": kind, "msg": msg})
    ctx.coverage.update({
        "evaluations": nkills, "distinct_nontrivial": len(distinct),
        "rule": "for each scenario (dirty/clean/malformed gzip and ar files, set-id modes, foreign owner, stale temp file) one traced run, then one fresh run per traced "
                "file-system syscall of the tool on the scratch tree, killed with SIGKILL at that syscall (strace inject); the snapshot is judged by the property "
                "(file entirely original or entirely final; nothing else but the hidden temp name differs), matched against the model's set of intermediate states, and a "
                "clean rerun must reach the uninterrupted result; writes are thinned to 4 per run in the quick tier; distinct = (scenario, syscall kind, observed state)",
        "samples": samples, "traces_validated_against_impl": nkills, "correspondence_mismatches": len(mism), "oracle_failures": len(fails),
    })
    ctx.assumptions += ["kill = the process stops between two system calls (strace delivers SIGKILL at a syscall boundary); no power-loss semantics",
                        "a single write() to the temp file is not torn into the final file (the final file only appears through rename)"]
