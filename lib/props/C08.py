"""C08 — arbitrary file content is harmless: no crash or hang, bad files stay intact."""
import os
import random
import struct
import subprocess
import time

import fsharness as fh
import fscommon as fc
import handler_diff as hd
import pymarshal as pm
import samples
from framework import REPO, Case, coq_property, build_cli, write_replay, cli_bin, ENV

MODELLED = ["gzip", "ar", "javadoc", "pyc", "pyc-zero-mtime"]
EXT = fc.EXT


def expo_dag(k, ver=(3, 12)):
    """k levels of a flagged 2-tuple holding two references to the previous level: 11k+ bytes, 2^k leaves when dereferenced."""
    out = bytes([ord(")"), k + 1]) + bytes([ord(")") | 0x80, 2]) + b"NN"
    for i in range(k):
        out += bytes([ord(")") | 0x80, 2]) + (b"r" + struct.pack("<I", i)) * 2
    return pm.header(ver) + out



def nested_code(ver, levels):
    """A code object whose co_consts field is again a code object, `levels` deep (built as bytes; one level of depth each)."""
    lay = pm.code_layout(ver)
    inner = b"N"
    for _ in range(levels):
        k, body = 0, b"c"
        for f in lay:
            if f == "i":
                body += b"\0\0\0\0"
            else:
                body += b"s\0\0\0\0" if k == 0 else (inner if k == 1 else b")\x00")
                k += 1
        inner = body
    return pm.header(ver) + inner


def depth_limit():
    import re as _re
    m = _re.search(r"MAX_MARSHAL_STACK_DEPTH\s*:\s*\w+\s*=\s*(\d+)", open(os.path.join(REPO, "src/handlers/pyc.rs")).read())
    return int(m.group(1)) if m else 1000


def mutate(rng, data):
    b = bytearray(data)
    kind = rng.choice(["trunc", "flip", "max-field", "zero-field", "insert", "dup", "type-code"])
    if not b:
        return bytes(b), "empty"
    if kind == "trunc":
        b = b[:rng.randrange(len(b))]
    elif kind == "flip":
        for _ in range(rng.choice([1, 2, 8])):
            b[rng.randrange(len(b))] ^= 1 << rng.randrange(8)
    elif kind == "max-field":
        p = rng.randrange(len(b))
        v = rng.choice([b"\xff\xff\xff\xff", b"\xff\xff\xff\x7f", b"\x00\x00\x00\x80", b"\xfe\xff\xff\xff", b"9999999999", b"4294967295", b"4294967294"])
        b[p:p + len(v)] = v
    elif kind == "zero-field":
        p = rng.randrange(len(b))
        b[p:p + 4] = b"\0\0\0\0"
    elif kind == "insert":
        p = rng.randrange(len(b) + 1)
        b[p:p] = rng.randbytes(rng.choice([1, 3, 60]))
    elif kind == "dup":
        p = rng.randrange(len(b))
        b[p:p] = b[p:p + rng.choice([1, 8, 60])]
    else:
        b[rng.randrange(len(b))] = rng.randrange(256)
    return bytes(b), "mut-" + kind


def base_files(rng):
    out = []
    out += [("gzip", fc.gz(1700000000, flg=f), samples.EPOCH) for f in (0, 8, 28, 31)]
    out += [("ar", fc.ar([("a.o/", 1700000000, 7, 8, 100644, b"abc"), ("//", 0, 0, 0, 0, b"longname.o/\n"), ("/0", 5, 0, 0, 644, b"xy")]), samples.EPOCH)]
    out += [("javadoc", samples.dirty_html(), samples.EPOCH)]
    for ver in ((3, 6), (3, 9), (3, 12), (3, 14)):
        for _ in range(50):
            v = pm.gen_value(rng, ver)
            payload = pm.dumps(v, ver, rng, 0.5)
            if 40 <= len(payload) <= 3000:
                break
        out.append(("pyc", pm.header(ver) + payload, None))
    out += [("pyc", samples.dirty_pyc(), None), ("pyc-zero-mtime", samples.dirty_pyc(), None)]
    return out


def gen_cases(rng, tier):
    cases = []
    n = 0

    def add(h, data, epoch, tags):
        nonlocal n
        n += 1
        cases.append(Case("x%d" % n, h, epoch, data, nlink=rng.choice([1, 1, 2]), tags=tags))

    bases = base_files(rng)
    reps = 40 if tier == "quick" else 600
    for h, data, e in bases:
        for _ in range(reps):
            d, tag = mutate(rng, data)
            if rng.random() < 0.3:
                d, tag2 = mutate(rng, d)
                tag += "+" + tag2
            add(h, d, e, [tag])
    # every truncation point of the small base files (a member cut inside its header, its data, its padding ...)
    extra_bases = [("ar", fc.ar([("first.o/", 1700000000, 7, 8, 100644, b"d" * 100), ("second.o/", 5, 0, 0, 100644, b"e" * 41), ("third.o/", 1700000001, 0, 9, 100644, b"f" * 30)]), samples.EPOCH)]
    for h, data, e in bases + extra_bases:
        cap = (450 if h in ("ar", "gzip", "javadoc") else 60) if tier == "quick" else 3000
        pts = range(len(data)) if len(data) <= cap else sorted(rng.sample(range(len(data)), min(cap, 24) if tier == "quick" else 400))
        for k in pts:
            add(h, data[:k], e, ["trunc-at-%d" % k])
    # references: index below, at and beyond the number of flagged objects read so far
    for ver in ((3, 6), (3, 12), (3, 14)):
        for nflag in (0, 1, 2, 3):
            for idx in sorted({0, max(nflag - 1, 0), nflag, nflag + 1, 255, 2 ** 31 - 1, 2 ** 31, 2 ** 32 - 1}):
                body = bytes([ord(")"), nflag + 1]) + b"".join(bytes([ord("z") | 0x80, 1, 97 + i]) for i in range(nflag)) + b"r" + struct.pack("<I", idx)
                add("pyc", pm.header(ver) + body, None, ["ref-index", "flagged%d" % nflag, "idx%d" % idx])
    # every type code as the first payload byte, with and without the reference flag
    for c in range(256):
        add("pyc", pm.header((3, 12)) + bytes([c]) + b"\x02\x00\x00\x00NNNNNNNNNNNNNNNNNNNNNNNNNNNN", None, ["typecode"])
    for h in MODELLED:
        add(h, b"", samples.EPOCH if h in ("gzip", "ar", "javadoc") else None, ["empty"])
        add(h, rng.randbytes(3), samples.EPOCH if h in ("gzip", "ar", "javadoc") else None, ["tiny"])
        add(h, rng.randbytes(5000), samples.EPOCH if h in ("gzip", "ar", "javadoc") else None, ["random"])
        add(h, b"\0" * 70000, samples.EPOCH if h in ("gzip", "ar", "javadoc") else None, ["zeros"])
    # deep nesting and wide counts
    for d in (999, 1000, 1001, 5000, 200000):
        add("pyc", pm.header((3, 12)) + b")\x01" * d + b"N", None, ["deep%d" % d])
    # nested code objects (the largest stack frames of the reader) just below and at the depth limit the source declares
    import re as _re
    mlim = _re.search(r"MAX_MARSHAL_STACK_DEPTH\s*:\s*\w+\s*=\s*(\d+)", open(os.path.join(REPO, "src/handlers/pyc.rs")).read())
    limit = int(mlim.group(1)) if mlim else 1000
    for ver in (((3, 12),) if tier == "quick" else ((3, 8), (3, 12))):
        lay = pm.code_layout(ver)
        for levels in sorted({max(1, limit - 2), limit + 2} | (set() if tier == "quick" else {max(1, limit - 12), 2 * limit})):
            inner = b"N"
            for _ in range(levels):                       # built as bytes: the encoder of lib/pymarshal.py is recursive
                k, body = 0, b"c"
                for f in lay:
                    if f == "i":
                        body += b"\0\0\0\0"
                    else:
                        body += b"s\0\0\0\0" if k == 0 else (inner if k == 1 else b")\x00")      # co_consts is the next code object itself: one level of depth each
                        k += 1
                inner = body
            add("pyc", pm.header(ver) + inner, None, ["nested-code", "levels%d" % levels, "limit%d" % limit])
    add("pyc", pm.header((3, 12)) + b"(\xff\xff\xff\xffN", None, ["huge-count"])
    add("pyc", pm.header((3, 12)) + b"s\xff\xff\xff\x7fabc", None, ["huge-len"])
    add("pyc", pm.header((3, 12)) + b"l\x00\x00\x00\x80\x01\x00", None, ["long-min"])
    add("pyc", pm.header((3, 12)) + b"l\xff\xff\xff\x7f\x01\x00", None, ["long-max"])
    add("pyc", pm.header((3, 12)) + b"{0", None, ["dict-empty"])
    add("pyc", pm.header((3, 12)) + b"{NN0", None, ["dict"])
    add("pyc", pm.header((3, 12)) + b"{NN", None, ["dict-unterminated"])
    add("pyc", pm.header((3, 12)) + b"\xa9\x01r\x00\x00\x00\x00", None, ["self-ref"])
    add("pyc", pm.header((3, 12)) + b"r\x05\x00\x00\x00", None, ["ref-out-of-range"])
    add("pyc", pm.header((3, 12)) + b")\x02\xceN\x72\x00\x00\x00\x00", None, ["flagged-singleton-ref"])
    for k in (3, 8, 12):
        add("pyc", expo_dag(k), None, ["expo%d" % k])
    add("ar", b"!<arch>\n" + (b"a/".ljust(16) + b"5".ljust(12) + b"0".ljust(6) + b"0".ljust(6) + b"644".ljust(8) + b"4294967295".ljust(10) + b"`\n") + b"xx", samples.EPOCH, ["ar-size-max"])
    return cases


def oracle(c, cls, after):
    fails = []
    if cls.endswith("+tmp"):
        fails.append(("temp-left", "temporary file left behind"))
        cls = cls[:-4]
    if cls in ("Panic",):
        fails.append(("panic", "the handler panicked (tags %s)" % ",".join(c.tags)))
    if cls in ("Abort",):
        fails.append(("abort", "the process aborted (stack overflow / abort) (tags %s)" % ",".join(c.tags)))
    if cls in ("BadFormat", "Error", "Noop", "Panic", "Abort") and after != c.data:
        fails.append(("bad-file-touched", "class %s but the file's bytes changed" % cls))
    return fails


def tree_runs(ctx, rng, release):
    """Malformed and well-formed files mixed in one tree, through the CLI: terminates normally, good files are processed, bad ones intact."""
    fails = []
    results = []
    for jobs in ([], ["-j3"]):
        t = fh.Tree()
        try:
            good = {"good/a.gz": fc.gz(1700000000), "good/lib.a": fc.ar([("x.o/", 1700000000, 7, 8, 100644, b"abc")]), "good/p.html": samples.dirty_html(),
                    "good/m.pyc": samples.dirty_pyc(), "good/z.zip": samples.dirty_zip(), "good/j.jar": samples.dirty_zip()}
            bad = {}
            for i in range(40):
                h, data, e = rng.choice(base_files(rng))
                d, tag = mutate(rng, data)
                bad["bad/f%02d.%s" % (i, EXT[h])] = d
            bad["bad/deep.pyc"] = pm.header((3, 12)) + b")\x01" * 100000 + b"N"
            # the deepest nesting the source still accepts, with the largest frames of the reader, on the real 8 MiB main stack
            lim = depth_limit()
            if not jobs or release:
                bad["bad/nested-code-a.cpython-312.pyc"] = nested_code((3, 12), max(1, lim - 2))
            if release:                                  # the second shape only in the thorough tier (hashing a chain this deep is quadratic)
                bad["bad/nested-code-b.cpython-38.pyc"] = nested_code((3, 8), max(1, lim - 12))
            bad["bad/empty.zip"] = b""
            bad["bad/junk.zip"] = b"PK\x03\x04" + rng.randbytes(200)
            bad["bad/junk.jar"] = rng.randbytes(300)
            zz = samples.dirty_zip()
            bad["bad/trunc.zip"] = zz[:len(zz) - 7]
            bad["bad/flip.zip"] = zz[:40] + bytes([zz[40] ^ 0xFF]) + zz[41:]
            for rel, d in list(good.items()) + list(bad.items()):
                t.add_file(rel, d)
            before = fh.snapshot(t.root)
            t0 = time.time()
            rc, out = fh.run_cli(jobs + [t.path("good"), t.path("bad")], epoch=samples.EPOCH, timeout=120, release=release)
            dt = time.time() - t0
            after = fh.snapshot(t.root)
            summ = fh.parse_summary(out)
            label = "tree %s %s" % ("release" if release else "debug", " ".join(jobs))
            results.append({"case": label, "exit": rc, "seconds": round(dt, 1), "summary": summ})
            if rc == 124:
                fails.append(("hang", "%s: did not terminate within 120 s" % label, label))
                continue
            if rc not in (0, 1) or summ is None:
                fails.append(("crash", "%s: abnormal termination (exit %s): %s" % (label, rc, out[-300:]), label))
                continue
            for rel in good:
                if after[rel]["data"] == before[rel]["data"]:
                    fails.append(("good-file-skipped", "%s: well-formed %s was not normalised although malformed files were present" % (label, rel), label))
            if any(os.path.basename(r).startswith(".#.") for r in after):
                fails.append(("temp-left", "%s: temporary file left behind" % label, label))
            # a bad file either stays byte-identical or was legitimately normalised (mutations can keep a file well-formed)
            if summ["processed"] != len(good) + len(bad):
                fails.append(("not-all-processed", "%s: %d files but %d processed" % (label, len(good) + len(bad), summ["processed"]), label))
        finally:
            t.remove()
    return fails, results


def cli_blowup(ctx):
    """The recorded hang class: hashing of a reference DAG grows as 2^k."""
    t = fh.Tree()
    res = []
    try:
        for k in (14, 18, 30):
            t.add_file("d/e.pyc", expo_dag(k))
            t0 = time.time()
            rc, out = fh.run_cli([t.path("d/e.pyc")], epoch=None, timeout=8)
            res.append((k, rc, round(time.time() - t0, 2), len(expo_dag(k))))
    finally:
        t.remove()
    return res


def run(ctx):
    rng = random.Random(ctx.seed)
    coq_property(ctx)
    release = ctx.tier == "thorough"
    if not hd.prepare(ctx, release=release):
        return
    ok2, out2 = build_cli()
    ctx.oblige("build: CLI builds from /repo's current tree", ok2, out2[-500:])
    if release:
        ok3, out3 = build_cli(release=True)
        ctx.oblige("build: CLI (release profile: panic=abort, no overflow checks) builds", ok3, out3[-500:])
    cases = gen_cases(rng, ctx.tier)
    impl, model, mism = hd.differential(ctx, cases, "malformed")
    if release:
        hd.differential(ctx, cases, "malformed", release=True)
    known = hd.known_kinds_for("C08")
    fails = hd.apply_oracle(ctx, cases, impl, oracle, known)
    tfails, tres = tree_runs(ctx, rng, False)
    if release:
        tf2, tr2 = tree_runs(ctx, rng, True)
        tfails += tf2
        tres += tr2
    blow = cli_blowup(ctx)
    timed_out = [b for b in blow if b[1] == 124]
    if timed_out and "pyc-hash-blowup" in known:
        ctx.known.append("%s: %s [expo_dag(k) of %d bytes: %s]" % (known["pyc-hash-blowup"]["id"], known["pyc-hash-blowup"]["what"], timed_out[0][3],
                                                                    ", ".join("k=%d: %s" % (b[0], "timeout" if b[1] == 124 else "%.2fs" % b[2]) for b in blow)))
    elif timed_out:
        tfails.append(("pyc-hash-blowup", "a %d-byte pyc keeps the tool busy beyond the time limit: %s" % (timed_out[0][3], blow), "expo_dag"))
    seen = set()
    for kind, msg, label in tfails:
        if kind in seen:
            continue
        seen.add(kind)
        d = write_replay(ctx, kind, {"expo30.pyc": expo_dag(30)} if kind == "pyc-hash-blowup" else {}, {"failure": msg, "kind": kind, "case": label,
                         "how_to_replay": "see lib/props/C08.py: tree_runs builds good/ and bad/ directories; add-determinism [-j3] good bad"})
        ctx.violations.append({"replay": d, "kind": kind, "msg": msg})
    ctx.coverage.update({
        "evaluations": len(cases) + len(tres) + len(blow),
        "distinct_nontrivial": hd.distinct_nontrivial(cases, impl, nontrivial=lambda c, r: r is not None and r[0] in ("BadFormat", "Error")),
        "rule": "for each modelled handler (gzip, ar, javadoc, pyc, pyc-zero-mtime): truncations, bit flips, length/size/count fields set to maxima or zero, insertions, duplications and "
                "type-code changes of valid files (one or two mutations), every byte value as a marshal type code, empty / tiny / random / all-zero files, nesting 999..200000 deep, "
                "huge counts and lengths, i32 limits of long lengths, dicts, self references, out-of-range references, the 2^k reference DAG; the class of every case compared with the model "
                "(debug; release too in the thorough tier); trees mixing 46 malformed files (zip/jar included) with well-formed ones through the CLI, serial and -j3; non-trivial = rejected inputs",
        "samples": hd.sample_cases(cases, impl), "distribution": hd.distribution(cases, impl), "tree_runs": tres,
        "hash_blowup_probe": [{"k": b[0], "bytes": b[3], "seconds": b[2], "timeout": b[1] == 124} for b in blow],
        "correspondence_mismatches": len(mism), "oracle_failures_not_known": len(fails) + len(tfails),
    })
    ctx.assumptions += ["stack depth and wall-clock time are properties of the real process: covered by the runs, not by the model (which has a depth bound and no clock)",
                        "the zip crate's parser on arbitrary bytes is exercised by the tree runs only"]
